#!/usr/bin/env python3
"""Mutation self-test of the checker.

  tools/mutants.py add <name> <prop[,prop]> <file> <<< "OLD\n====\nNEW"   create selftest/mutants/<name>.json
  tools/mutants.py run [-j N] [name ...]                                     apply each mutant to a scratch copy of /repo and
                                                                             require the listed property checks to fail there

A mutant is a textual replacement (file, old, new) applied to the *current* /repo tree in a scratch
directory outside /repo and /verif; the directory is removed as soon as the mutant is analysed.
Outcomes are printed as SELFTEST lines, never as VIOLATION lines.
"""
import json, os, shutil, subprocess, sys, tempfile, glob, concurrent.futures

ROOT = "/verif"
MUT = os.path.join(ROOT, "selftest", "mutants")
ENV = dict(os.environ, GOFLAGS="-mod=mod", GOPROXY="off", GOSUMDB="off", GOTOOLCHAIN="local")
ENV.pop("GOWORK", None)

def add(name, props, note=""):
    """stdin: one or more blocks '@@ <file>\nOLD\n====\nNEW' (NEW ends at the next '@@ ' line or EOF)."""
    text = sys.stdin.read()
    edits = []
    for blk in text.split("\n@@ "):
        blk = blk[3:] if blk.startswith("@@ ") else blk
        if not blk.strip():
            continue
        file, rest = blk.split("\n", 1)
        old, new = rest.split("\n====\n")
        new = new[:-1] if new.endswith("\n") else new
        src = open(os.path.join("/repo", file.strip())).read()
        if src.count(old) != 1:
            sys.exit(f"pattern occurs {src.count(old)} times in {file}: {old[:60]!r}")
        edits.append({"file": file.strip(), "old": old, "new": new})
    json.dump({"name": name, "props": props.split(","), "note": note, "edits": edits}, open(os.path.join(MUT, name + ".json"), "w"), indent=1)
    print("added", name, len(edits), "edit(s)")

ONLY_PROP = None

def run_seed(path, repo="/repo"):
    """A seeded change (/verif/seeded/<id>/patch.diff) applied to a scratch copy with patch(1)."""
    meta = json.load(open(os.path.join(path, "meta.json")))
    name = "seeded:" + meta["id"]
    props = meta["breaks_property"].split(",")
    if meta.get("not_caught"):
        # stored with its demonstration although no rule reports it (DESIGN.md 8.9): listed, not counted as detected
        return name, "recorded_miss", "no rule reports this stored change: " + str(meta.get("not_caught_reason", ""))[:160]
    if ONLY_PROP:
        props = [p for p in props if p == ONLY_PROP]
    d = tempfile.mkdtemp(prefix="astisub-seed-")
    try:
        dst = os.path.join(d, "repo")
        shutil.copytree(repo, dst, ignore=shutil.ignore_patterns(".git"))
        r = subprocess.run(["patch", "-p1", "-s", "--no-backup-if-mismatch", "-i", os.path.join(path, "patch.diff")], cwd=dst, capture_output=True, text=True)
        if r.returncode != 0:
            return name, "skipped", "patch no longer applies to the current tree"
        res, ok = [], True
        for prop in props:
            r = subprocess.run([os.path.join(ROOT, "bin", "astisubcheck"), "-prop", prop, "-repo", dst, "-verif", ROOT, "-noevidence"], env=ENV, capture_output=True, text=True)
            fired = r.returncode != 0 and ("VIOLATION property=" + prop) in r.stdout
            first = next((l for l in r.stdout.splitlines() if l.startswith("FAIL")), "")
            res.append(f"{prop}:{'detected' if fired else 'missed'} {first[:140]}")
            ok = ok and fired
        return name, "detected" if ok else "missed", " | ".join(res)
    finally:
        shutil.rmtree(d, ignore_errors=True)

def run_keep(path, repo="/repo"):
    """A behaviour-preserving refactoring (/verif/selftest/keeps/<id>/patch.diff): the checks listed in
    must_stay_quiet_for must exit 0 without a VIOLATION line on the patched copy."""
    meta = json.load(open(os.path.join(path, "meta.json")))
    name = "keep:" + meta["id"]
    props = meta.get("must_stay_quiet_for", [meta["anchored_in_property"]])
    if ONLY_PROP:
        props = [p for p in props if p == ONLY_PROP]
    d = tempfile.mkdtemp(prefix="astisub-keep-")
    try:
        dst = os.path.join(d, "repo")
        shutil.copytree(repo, dst, ignore=shutil.ignore_patterns(".git"))
        r = subprocess.run(["patch", "-p1", "-s", "--no-backup-if-mismatch", "-i", os.path.join(path, "patch.diff")], cwd=dst, capture_output=True, text=True)
        if r.returncode != 0:
            return name, "skipped", "patch no longer applies to the current tree"
        res, ok = [], True
        for prop in props:
            r = subprocess.run([os.path.join(ROOT, "bin", "astisubcheck"), "-prop", prop, "-repo", dst, "-verif", ROOT, "-noevidence"], env=ENV, capture_output=True, text=True)
            quiet = r.returncode == 0 and "VIOLATION" not in r.stdout
            first = next((l for l in r.stdout.splitlines() if l.startswith("FAIL") or l.startswith("UNDECIDED")), "")
            res.append(f"{prop}:{'quiet' if quiet else 'FALSE-ALARM'} {first[:200]}")
            ok = ok and quiet
        return name, "quiet" if ok else "missed", " | ".join(res)
    finally:
        shutil.rmtree(d, ignore_errors=True)

def run_one(path, repo="/repo", build_check=True):
    if os.path.isdir(path) and os.sep + "keeps" + os.sep in path + os.sep:
        return run_keep(path, repo)
    if os.path.isdir(path):
        return run_seed(path, repo)
    m = json.load(open(path))
    if ONLY_PROP:
        m["props"] = [p for p in m["props"] if p == ONLY_PROP]
    for e in m["edits"]:
        if open(os.path.join(repo, e["file"])).read().count(e["old"]) != 1:
            return m["name"], "skipped", f"pattern no longer matches {e['file']} exactly once: {e['old'][:50]!r}"
    d = tempfile.mkdtemp(prefix="astisub-mut-")
    try:
        dst = os.path.join(d, "repo")
        shutil.copytree(repo, dst, ignore=shutil.ignore_patterns(".git"))
        for e in m["edits"]:
            fp = os.path.join(dst, e["file"])
            txt = open(fp).read().replace(e["old"], e["new"])
            open(fp, "w").write(txt)
        if build_check:
            r = subprocess.run(["go", "build", "./..."], cwd=dst, env=ENV, capture_output=True, text=True)
            if r.returncode != 0:
                return m["name"], "invalid", "mutant does not compile: " + r.stderr[-300:]
        res = []
        ok = True
        silent = m["name"].startswith("ok_")  # behaviour-preserving variant: the checks must stay quiet
        for prop in m["props"]:
            r = subprocess.run([os.path.join(ROOT, "bin", "astisubcheck"), "-prop", prop, "-repo", dst, "-verif", ROOT, "-noevidence"], env=ENV, capture_output=True, text=True)
            fired = r.returncode != 0 and ("VIOLATION property=" + prop) in r.stdout
            und = "UNDECIDED" in r.stdout
            first = next((l for l in r.stdout.splitlines() if l.startswith("FAIL") or l.startswith("UNDECIDED")), "")
            if silent:
                quiet = r.returncode == 0 and "VIOLATION" not in r.stdout
                res.append(f"{prop}:{'quiet' if quiet else 'FALSE-ALARM'} {first[:200]}")
                ok = ok and quiet
                continue
            res.append(f"{prop}:{'detected' if fired else ('undecided' if und else 'missed')} {first[:160]}")
            ok = ok and fired
        if silent:
            return m["name"], "quiet" if ok else "missed", " | ".join(res)
        return m["name"], "detected" if ok else "missed", " | ".join(res)
    finally:
        shutil.rmtree(d, ignore_errors=True)

def main():
    if len(sys.argv) >= 4 and sys.argv[1] == "add":
        return add(sys.argv[2], sys.argv[3], " ".join(sys.argv[4:]))
    if len(sys.argv) >= 2 and sys.argv[1] == "run":
        global ONLY_PROP
        args = sys.argv[2:]
        jobs, evidence = 8, None
        while args and args[0] in ("-j", "--prop", "--evidence"):
            if args[0] == "-j":
                jobs = int(args[1])
            elif args[0] == "--prop":
                ONLY_PROP = args[1]
            else:
                evidence = args[1]
            args = args[2:]
        paths = sorted(glob.glob(os.path.join(MUT, "*.json")))
        if args:
            paths = [p for p in paths if os.path.basename(p)[:-5] in args]
        else:
            paths += sorted(p.rstrip("/") for p in glob.glob(os.path.join(ROOT, "seeded", "*/")))
            paths += sorted(p.rstrip("/") for p in glob.glob(os.path.join(ROOT, "selftest", "keeps", "*/")))
        if ONLY_PROP:
            def wants(p):
                if os.path.isdir(p) and os.sep + "keeps" + os.sep in p + os.sep:
                    m = json.load(open(os.path.join(p, "meta.json")))
                    return ONLY_PROP in m.get("must_stay_quiet_for", [m["anchored_in_property"]])
                if os.path.isdir(p):
                    return ONLY_PROP in json.load(open(os.path.join(p, "meta.json")))["breaks_property"].split(",")
                return ONLY_PROP in json.load(open(p))["props"]
            paths = [p for p in paths if wants(p)]
        bad, outcomes = 0, {}
        with concurrent.futures.ThreadPoolExecutor(jobs) as ex:
            for name, outcome, detail in ex.map(run_one, paths):
                print(f"SELFTEST mutant={name} {outcome} {detail}")
                outcomes[outcome] = outcomes.get(outcome, 0) + 1
                if outcome in ("missed", "invalid"):
                    bad += 1
        print(f"SELFTEST summary mutants={len(paths)} bad={bad} {outcomes}")
        if evidence and os.path.exists(evidence):
            ev = json.load(open(evidence))
            ev["coverage"]["selftest"] = {"variants_of_repo_analysed": len(paths), "outcomes": outcomes,
                "rule": "each stored mutation / seeded change is applied to a scratch copy of the current /repo; the check must fail there (ok_* variants and the stored behaviour-preserving refactorings under selftest/keeps must stay quiet); a missed one fails the thorough run as a broken checker, never as a property violation"}
            json.dump(ev, open(evidence, "w"), indent=1)
        sys.exit(1 if bad else 0)
    sys.exit(__doc__)

main()
