#!/usr/bin/env python3
"""Mutation self-test of the checker.

  tools/mutants.py add <name> <prop[,prop]> <file> <<< "OLD\n====\nNEW"   create selftest/mutants/<name>.json
  tools/mutants.py run [-j N] [name ...]                                     apply each mutant to a scratch copy of /repo and
                                                                             require the listed property checks to fail there

A mutant is a textual replacement (file, old, new) applied to the *current* /repo tree in a scratch
directory outside /repo and /verif; the directory is removed as soon as the mutant is analysed.
Outcomes are printed as SELFTEST lines, never as VIOLATION lines.
"""
import json, os, shutil, subprocess, sys, tempfile, glob, concurrent.futures

ROOT = "/verif"
MUT = os.path.join(ROOT, "selftest", "mutants")
ENV = dict(os.environ, GOFLAGS="-mod=mod", GOPROXY="off", GOSUMDB="off", GOTOOLCHAIN="local")
ENV.pop("GOWORK", None)

def add(name, props, note=""):
    """stdin: one or more blocks '@@ <file>\nOLD\n====\nNEW' (NEW ends at the next '@@ ' line or EOF)."""
    text = sys.stdin.read()
    edits = []
    for blk in text.split("\n@@ "):
        blk = blk[3:] if blk.startswith("@@ ") else blk
        if not blk.strip():
            continue
        file, rest = blk.split("\n", 1)
        old, new = rest.split("\n====\n")
        new = new[:-1] if new.endswith("\n") else new
        src = open(os.path.join("/repo", file.strip())).read()
        if src.count(old) != 1:
            sys.exit(f"pattern occurs {src.count(old)} times in {file}: {old[:60]!r}")
        edits.append({"file": file.strip(), "old": old, "new": new})
    json.dump({"name": name, "props": props.split(","), "note": note, "edits": edits}, open(os.path.join(MUT, name + ".json"), "w"), indent=1)
    print("added", name, len(edits), "edit(s)")

def run_one(path, repo="/repo", build_check=True):
    m = json.load(open(path))
    for e in m["edits"]:
        if open(os.path.join(repo, e["file"])).read().count(e["old"]) != 1:
            return m["name"], "skipped", f"pattern no longer matches {e['file']} exactly once: {e['old'][:50]!r}"
    d = tempfile.mkdtemp(prefix="astisub-mut-")
    try:
        dst = os.path.join(d, "repo")
        shutil.copytree(repo, dst, ignore=shutil.ignore_patterns(".git"))
        for e in m["edits"]:
            fp = os.path.join(dst, e["file"])
            txt = open(fp).read().replace(e["old"], e["new"])
            open(fp, "w").write(txt)
        if build_check:
            r = subprocess.run(["go", "build", "./..."], cwd=dst, env=ENV, capture_output=True, text=True)
            if r.returncode != 0:
                return m["name"], "invalid", "mutant does not compile: " + r.stderr[-300:]
        res = []
        ok = True
        silent = m["name"].startswith("ok_")  # behaviour-preserving variant: the checks must stay quiet
        for prop in m["props"]:
            r = subprocess.run([os.path.join(ROOT, "bin", "astisubcheck"), "-prop", prop, "-repo", dst, "-verif", ROOT, "-noevidence"], env=ENV, capture_output=True, text=True)
            fired = r.returncode != 0 and ("VIOLATION property=" + prop) in r.stdout
            und = "UNDECIDED" in r.stdout
            first = next((l for l in r.stdout.splitlines() if l.startswith("FAIL") or l.startswith("UNDECIDED")), "")
            if silent:
                quiet = r.returncode == 0 and "VIOLATION" not in r.stdout
                res.append(f"{prop}:{'quiet' if quiet else 'FALSE-ALARM'} {first[:200]}")
                ok = ok and quiet
                continue
            res.append(f"{prop}:{'detected' if fired else ('undecided' if und else 'missed')} {first[:160]}")
            ok = ok and fired
        if silent:
            return m["name"], "quiet" if ok else "missed", " | ".join(res)
        return m["name"], "detected" if ok else "missed", " | ".join(res)
    finally:
        shutil.rmtree(d, ignore_errors=True)

def main():
    if len(sys.argv) >= 4 and sys.argv[1] == "add":
        return add(sys.argv[2], sys.argv[3], " ".join(sys.argv[4:]))
    if len(sys.argv) >= 2 and sys.argv[1] == "run":
        args = sys.argv[2:]
        jobs = 8
        if args[:1] == ["-j"]:
            jobs = int(args[1]); args = args[2:]
        paths = sorted(glob.glob(os.path.join(MUT, "*.json")))
        if args:
            paths = [p for p in paths if os.path.basename(p)[:-5] in args]
        bad = 0
        with concurrent.futures.ThreadPoolExecutor(jobs) as ex:
            for name, outcome, detail in ex.map(run_one, paths):
                print(f"SELFTEST mutant={name} {outcome} {detail}")
                if outcome in ("missed", "invalid"):
                    bad += 1
        print(f"SELFTEST summary mutants={len(paths)} bad={bad}")
        sys.exit(1 if bad else 0)
    sys.exit(__doc__)

main()
