#!/bin/bash
# tools/devtest.sh <patch.diff> <prop...>: apply a patch to a scratch copy of /repo (/tmp/dt/repo) and run the development
# binary /tmp/dev/astisubcheck (falls back to bin/astisubcheck) on it
export GOFLAGS=-mod=mod GOPROXY=off GOSUMDB=off GOTOOLCHAIN=local
BIN=/tmp/dev/astisubcheck; [ -x $BIN ] || BIN=/verif/bin/astisubcheck
D=$1; shift
rm -rf /tmp/dt/repo && mkdir -p /tmp/dt && cp -r /repo /tmp/dt/repo && rm -rf /tmp/dt/repo/.git
(cd /tmp/dt/repo && patch -p1 -s -i $D) || exit 2
for P in "$@"; do
  ( $BIN -prop $P -repo /tmp/dt/repo -noevidence | grep "^FAIL\|^UNDEC" | cut -c1-420 | sed "s/^/$P /" ) &
done
wait
rm -rf /tmp/dt/repo
