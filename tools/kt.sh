#!/bin/bash
# tools/kt.sh <keep-id> [prop...]: apply a stored keep to a scratch copy (/tmp/kt/repo) and run the given checks (default: all)
export GOFLAGS=-mod=mod GOPROXY=off GOSUMDB=off GOTOOLCHAIN=local
K=$1; shift
rm -rf /tmp/kt/repo && mkdir -p /tmp/kt && cp -r /repo /tmp/kt/repo && rm -rf /tmp/kt/repo/.git
(cd /tmp/kt/repo && patch -p1 -s -i /verif/selftest/keeps/$K/patch.diff) || exit 2
PROPS="$@"; [ -z "$PROPS" ] && PROPS=$(seq -f "C%02g" 1 20)
for P in $PROPS; do
  ( /verif/bin/astisubcheck -prop $P -repo /tmp/kt/repo -noevidence | grep "^FAIL\|^UNDEC" | sed "s/^/$P /" ) &
done
wait
