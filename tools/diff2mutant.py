#!/usr/bin/env python3
"""tools/diff2mutant.py <name> <props,comma> <unified diff against /repo> <note…>: stores a unified diff as a mutant of
selftest/mutants (one edit per hunk: the hunk's old lines with their context must occur exactly once in the file)."""
import sys, json, re, os
name, props, diff = sys.argv[1], sys.argv[2], sys.argv[3]
note = " ".join(sys.argv[4:])
edits = []
cur = None
old = new = None
def flush():
    global old, new
    if cur and old is not None:
        o, n = "".join(old), "".join(new)
        src = open(os.path.join("/repo", cur)).read()
        assert src.count(o) == 1, (cur, src.count(o), o[:80])
        edits.append({"file": cur, "old": o, "new": n})
    old = new = None
for line in open(diff):
    if line.startswith("+++ "):
        flush()
        cur = re.sub(r"^b/", "", line[4:].strip().split("\t")[0])
        continue
    if line.startswith("--- ") or line.startswith("diff ") or line.startswith("index "):
        continue
    if line.startswith("@@"):
        flush()
        old, new = [], []
        continue
    if old is None:
        continue
    if line.startswith("-"):
        old.append(line[1:])
    elif line.startswith("+"):
        new.append(line[1:])
    elif line.startswith(" "):
        old.append(line[1:]); new.append(line[1:])
    elif line.startswith("\\"):
        pass
flush()
json.dump({"name": name, "props": props.split(","), "note": note, "edits": edits}, open("/verif/selftest/mutants/%s.json" % name, "w"), indent=1)
print("added", name, len(edits), "edit(s)")
