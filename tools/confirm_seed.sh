#!/bin/bash
# usage: tools/confirm_seed.sh <worktree> <k> <seed-id> <property> "<needs>" [-race]
# Confirms a seeded change in its scratch worktree (applies, builds, existing suite passes, demo
# fails with the change and passes without) and stores it under /verif/seeded/<seed-id>/.
set -u
wt=$1; k=$2; id=$3; prop=$4; needs=$5; race=${6:-}
export GOFLAGS=-mod=mod GOPROXY=off GOSUMDB=off GOTOOLCHAIN=local
cd "$wt" || exit 2
git checkout -q -- . ; rm -f seed_demo*_test.go
git apply "change_$k.diff" || { echo "patch does not apply"; exit 1; }
go build ./... || { echo "does not build"; git checkout -q -- .; exit 1; }
suite=$(go test -vet=off -count=1 ./... 2>&1 | grep -a -c '^ok')
fails=$(go test -vet=off -count=1 ./... 2>&1 | grep -a -c '^FAIL\|^--- FAIL')
cp "seed_demo${k}_test.go.keep" "seed_demo${k}_test.go"
go test -vet=off -count=1 $race -timeout 120s -run "TestSeedDemo${k}" . > /tmp/demo_with.txt 2>&1; with=$?
git checkout -q -- .
go test -vet=off -count=1 $race -timeout 120s -run "TestSeedDemo${k}" . > /tmp/demo_without.txt 2>&1; without=$?
rm -f "seed_demo${k}_test.go"
echo "seed $id: existing suite ok-lines=$suite fail-lines=$fails; demo with change exit=$with; demo without change exit=$without"
if [ "$suite" -ge 1 ] && [ "$fails" -eq 0 ] && [ "$with" -ne 0 ] && [ "$without" -eq 0 ]; then
  d=/verif/seeded/$id; mkdir -p "$d"
  cp "change_$k.diff" "$d/patch.diff"; cp "seed_demo${k}_test.go.keep" "$d/demo_test.go.txt"
  python3 - "$d" "$id" "$prop" "$needs" "$race" <<'PY'
import json,sys
d,i,prop,needs,race=sys.argv[1:6]
json.dump({"id":i,"breaks_property":prop,"needs_to_manifest":needs,
 "confirmed":{"patch_applies_and_builds":True,"existing_suite_passes_with_change":True,"demo_fails_with_change":True,"demo_passes_without_change":True},
 "ran":["git apply patch.diff (in a scratch worktree of /repo HEAD)","go build ./...","go test -vet=off -count=1 ./...  (existing suite: pass)",
        "go test -vet=off -count=1 %s -run TestSeedDemoN .  (demo copied as seed_demoN_test.go: fail with the change, pass after git checkout -- .)" % race],
 "source":"written by an independent sub-agent that saw only the property text"},open(d+"/meta.json","w"),indent=1)
PY
  echo "  stored in $d"
else
  echo "  NOT CONFIRMED"; tail -5 /tmp/demo_with.txt
fi
