#!/bin/bash
# usage: tools/seedbatch.sh <worktree-prefix> <prop> [<prop>...]   e.g. tools/seedbatch.sh /tmp/s5_ C01 C02
# For each property: moves the scratch worktree to /repo's HEAD and runs the quick check of that
# property against every change_k.diff found there (applying it to /repo and reverting straight away).
pre=$1; shift
H=$(git -C /repo rev-parse HEAD)
for prop in "$@"; do
  wt=${pre}${prop}
  git -C "$wt" checkout -q -- . 2>/dev/null; git -C "$wt" checkout -q --detach "$H" 2>/dev/null
  for d in "$wt"/change_*.diff; do
    [ -f "$d" ] || continue
    k=$(basename "$d" .diff); k=${k#change_}
    out=$(/verif/tools/seedtest.sh "$d" "$prop" 2>&1)
    echo "## $prop/$k: $(echo "$out" | head -1 | cut -c1-60)"
    echo "$out" | sed -n 2,3p | cut -c1-260
  done
done
