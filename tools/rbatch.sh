#!/bin/bash
# tools/rbatch.sh (scratch copies only, safe to run several at once; r7batch.sh applies seeds to /repo itself)
# tools/r7batch.sh <prefix> <prop...>: for each finished agent worktree <prefix><prop>, run the property's check (and C07/C08)
# on change_*.diff (must alarm on the property) and all twenty checks on keep_*.diff (must stay quiet)
prefix=$1; shift
for P in "$@"; do
  wt=$prefix$P
  for d in $wt/change_*.diff; do
    [ -f "$d" ] || continue
    echo "### $P $(basename $d)"; /verif/tools/seedtest2.sh $d $P | cut -c1-260
  done
  for d in $wt/keep_*.diff; do
    [ -f "$d" ] || continue
    python3 /verif/tools/keeptest.py $d | cut -c1-420
  done
done
