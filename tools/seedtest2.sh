#!/bin/bash
# usage: tools/seedtest2.sh <patch.diff> <prop> [<prop>...]
# Like seedtest.sh, but on a private scratch copy of /repo's working tree (so several can run at once).
set -u
patch=$1; shift
d=$(mktemp -d /tmp/astisub-seed-XXXXXX)
trap 'rm -rf "$d"' EXIT
cp -r /repo "$d/repo" && rm -rf "$d/repo/.git"
(cd "$d/repo" && patch -p1 -s -i "$patch") || { echo "patch does not apply"; exit 2; }
for prop in "$@"; do
  out=$(/verif/bin/astisubcheck -prop "$prop" -tier quick -repo "$d/repo" -noevidence 2>&1); code=$?
  echo "== $prop exit=$code $(echo "$out" | grep -c '^VIOLATION') violation line(s)"
  echo "$out" | grep '^FAIL\|^UNDECIDED' | cut -c1-400 | head -6
done
