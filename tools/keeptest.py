#!/usr/bin/env python3
"""tools/keeptest.py <patch.diff> [...]: behaviour-preserving refactorings must stay quiet.

Each patch is applied to a scratch copy of /repo (removed afterwards) and all 20 quick checks are run
on the copy; any check that exits non-zero is printed as a FALSE-ALARM candidate with its first
FAIL/UNDECIDED line.  Nothing is written under /verif/evidence (-noevidence)."""
import json, os, shutil, subprocess, sys, tempfile, concurrent.futures
ROOT = "/verif"
ENV = dict(os.environ, GOFLAGS="-mod=mod", GOPROXY="off", GOSUMDB="off", GOTOOLCHAIN="local")
ENV.pop("GOWORK", None)
PROPS = ["C%02d" % i for i in range(1, 21)]

def run_one(diff):
    d = tempfile.mkdtemp(prefix="astisub-keep-")
    out = []
    try:
        dst = os.path.join(d, "repo")
        shutil.copytree("/repo", dst, ignore=shutil.ignore_patterns(".git"))
        r = subprocess.run(["patch", "-p1", "-s", "--no-backup-if-mismatch", "-i", diff], cwd=dst, capture_output=True, text=True)
        if r.returncode != 0:
            return diff, ["patch does not apply: " + r.stdout.strip()[:200]]
        b = subprocess.run(["go", "build", "./..."], cwd=dst, env=ENV, capture_output=True, text=True)
        if b.returncode != 0:
            return diff, ["does not build: " + b.stderr.strip()[:200]]
        def chk(prop):
            r = subprocess.run([os.path.join(ROOT, "bin", "astisubcheck"), "-prop", prop, "-repo", dst, "-verif", ROOT, "-noevidence"], env=ENV, capture_output=True, text=True)
            if r.returncode != 0:
                first = next((l for l in r.stdout.splitlines() if l.startswith("FAIL") or l.startswith("UNDECIDED")), "")
                return f"{prop}: {first[:330]}"
            return None
        with concurrent.futures.ThreadPoolExecutor(max_workers=10) as ex:
            for res in ex.map(chk, PROPS):
                if res:
                    out.append(res)
    finally:
        shutil.rmtree(d, ignore_errors=True)
    return diff, out

if __name__ == "__main__":
    bad = 0
    for diff in sys.argv[1:]:
        name, out = run_one(os.path.abspath(diff))
        if out:
            bad += 1
            print("ALARM", name)
            for o in out:
                print("   ", o)
        else:
            print("quiet", name)
    sys.exit(1 if bad else 0)
