#!/usr/bin/env python3
"""Regenerates /verif/MANIFEST.json from the table below (single source of truth for claims)."""
import json, os
ENV = "GOFLAGS=-mod=mod GOPROXY=off GOSUMDB=off GOTOOLCHAIN=local"
SETUP = f"cd /verif && env -u GOWORK {ENV} go build -o bin/astisubcheck ./cmd/astisubcheck"
TECH = {
 "C09": "interprocedural mod-set (effect) analysis: frame condition of Add",
 "C10": "interprocedural mod-set (effect) analysis: frame condition of Fragment",
 "C11": "interprocedural mod-set (effect) analysis: frame condition of Unfragment",
 "C12": "effect analysis: frame conditions of Order and Merge",
 "C13": "effect analysis: frame conditions of Optimize and RemoveStyling",
 "C14": "effect analysis: frame condition of ForceDuration",
 "C15": "effect analysis: frame condition of ApplyLinearCorrection",
 "C17": "dataflow of io.Reader parameters into a whitelist of chunk-agnostic consumers + zero-rule on raw Read + path enumeration of the bufio.SplitFunc over an interval domain",
 "C18": "all-paths error-propagation analysis on the SSA control-flow graph (I/O error sources, scanner.Err discipline, flush discipline)",
 "C19": "effect analysis (writer purity) + map-range accumulator classification + nondeterminism-source reachability",
 "C20": "whole-package effect analysis: no store to package-level state outside init; zero-rules for go/select/unsafe",
}
TEXT = {
 "C09": "Static all-paths decision of a necessary structural clause: Add can only write StartAt, EndAt and the item slice of its receiver. The arithmetic (exact d, clamp, which cues die) is not decided.",
 "C10": "Static decision of the frame condition of Fragment (writes only StartAt/EndAt/slice/permutation). Where the cuts fall is not decided.",
 "C11": "Static decision of the frame condition of Unfragment (writes only EndAt/slice/permutation). Merge semantics and the inverse law are not decided.",
 "C12": "Static decision of the frame conditions of Order (permutes only) and Merge (never writes through its argument; writes only items/regions/styles of the receiver).",
 "C13": "Static decision of the frame conditions of Optimize (only deletes map entries) and RemoveStyling (writes only styling fields).",
 "C14": "Static decision of the frame condition of ForceDuration (writes only EndAt and the slice). Which cues are trimmed is not decided.",
 "C15": "Static decision of the frame condition of ApplyLinearCorrection (writes only StartAt/EndAt, never the slice). Numeric accuracy is not decided.",
 "C17": "Static decision that the reader argument reaches only consumers documented to be independent of read sizes, that no raw Read exists in the package, and that the line splitter requests more data whenever its CR look-ahead byte has not arrived (all paths of the split function enumerated). Given these the parse is a function of the byte sequence; chunk-independence of bufio/encoding/xml/astits themselves is trusted.",
 "C18": "Static all-paths decision that every I/O error source's error is tested and leads to a non-nil error return (or a frozen, reasoned end-of-input conversion), that Scan()==false is always followed by an Err() check before a success return, and that buffered sinks are flushed. Close errors are not demanded by the statement and not checked.",
 "C19": "Static all-paths decision that writers are pure (no effect on the cue list or globals) and deterministic (map iteration reaches output only through sorted/commutative accumulators; no clock/random source but Now). Close to sufficient for the statement, given deterministic encoding/xml and fmt.",
 "C20": "Static decision, over every function of the package, that nothing outside init writes shared state; with no goroutines/unsafe this rules out data races through the package's own memory for independent calls.",
}
NOTE = "Assumes P0 (non-nil receivers/arguments), P1 (non-nil model elements, map keys = IDs), library contracts in internal/chk/contracts.go, and the fidelity of go/ssa + VTA (x/tools v0.29.0). Audited residue entries in rules/residue.txt are trusted."
props = [json.loads(l) for l in open("/verif/properties.jsonl")]
checks, na = [], []
for p in props:
    i = p["id"]
    if i in TECH:
        checks.append({
            "property_id": i,
            "quick_cmd": f"cd /verif && bin/astisubcheck -prop {i} -tier quick",
            "thorough_cmd": f"cd /verif && bin/astisubcheck -prop {i} -tier thorough",
            "evidence_file": f"/verif/evidence/{i}.json",
            "replay_cmd_template": f"cd /verif && bin/astisubcheck -prop {i} -tier quick  # then look up {{path}} (evidence#obligation-key)",
            "engine": "astisubcheck",
            "level_claimed": {"category": "other", "text": TEXT[i], "design_ref": "DESIGN.md §4 " + i},
            "level_note": NOTE,
            "technique": "static analysis: " + TECH[i],
        })
    else:
        na.append({"property_id": i, "reason": "checker for this property not yet implemented in this commit (work in progress; planned clauses in DESIGN.md §0)"})
m = {
 "version": 1,
 "setup_cmd": SETUP,
 "hooks": {"guard": "verif", "enable": "none: static analysis reads /repo's sources; no hooks are compiled in (the loader passes -tags verif so tag-guarded files would be seen)",
           "baseline_off_cmd": f"cd /repo && env {ENV} go test -vet=off -count=1 ./...", "source_commits": [], "add_only": True},
 "engines": [{"name": "astisubcheck", "path": "/verif/cmd/astisubcheck", "serves_properties": sorted(TECH), "kind_free_text": "custom static analyser over go/packages + go/ssa + VTA call graph (golang.org/x/tools v0.29.0)"}],
 "checks": checks,
 "not_applicable": na,
 "notes": "Every check loads and analyses /repo's current working tree on each run; nothing in /repo is executed.",
}
json.dump(m, open("/verif/MANIFEST.json", "w"), indent=1)
print("claimed", len(checks), "n/a", len(na))
