#!/usr/bin/env python3
"""Regenerates /verif/MANIFEST.json from the table below (single source of truth for claims)."""
import json, os
ENV = "GOFLAGS=-mod=mod GOPROXY=off GOSUMDB=off GOTOOLCHAIN=local"
SETUP = f"cd /verif && env -u GOWORK {ENV} go build -o bin/astisubcheck ./cmd/astisubcheck"
TECH = {
 "C01": "evaluation and inverse check of the constant escape tables; extraction and comparison of the start-tag / end-tag switch tables and of the capture literal from SSA; tag nesting of the writer's constants; writer/reader timestamp constants",
 "C02": "extraction of key→field tables from the writer's constant+field concatenations and the reader's switch arms, compared per separator; dominance of the region loop over the cue loop; escape tables; timestamp constants and inline-timestamp pattern",
 "C03": "struct-tag comparison of the In/Out XML types; wiring extraction In→model→Out from SSA stores; regexp/syntax parse of the offset-time grammar against the handled metrics; language-table usage and coverage; timestamp constants",
 "C04": "extraction of column-name→field tables from five style functions, three event functions and four script-info functions (SSA switch arms, stores, reads) and their comparison; literal agreement (booleans, Marked, section headers, colour prefix/radix)",
 "C05": "extraction of writer part widths and reader slice offsets per field (GSI 1024 / TTI 128 byte layouts) and their comparison; evaluation of the BiMap character tables and code maps; metadata wiring in both directions; frame-rate divisor support rule",
 "C06": "control-dependence (dominator-tree) check of the guard atoms on every sink of the teletext text path; evaluation of the charset / national-option / colour tables",
 "C16": "extraction of the (separator, digits) constants writers pass to formatDuration and readers to parseDuration, per format; call-graph check that each codec reaches only its own wrappers; constant evaluation of the inline-timestamp pattern on the writer's shape; STL frame-rate field tracing",
 "C07": "extraction and agreement of the Open/Write extension switch tables and of the CLI sub-command table from SSA; dominance check of the empty-list guard; non-nil dataflow over the writers' closure",
 "C08": "forward must-dataflow of non-nil / numeric facts over access paths (nil dereference, nil-map store), difference-constraint bounds proofs for every index/slice, division / type-assertion / explicit-panic rules, loop progress classification; interprocedural parameter and result summaries",
 "C09": "effect analysis (frame of Add) + expression-tree isomorphism of the StartAt/EndAt updates + delete-rewind path rule + CLI table",
 "C10": "effect analysis (frame of Fragment) + whole-copy rule on allocated items + must-pass-through Order() + CLI table",
 "C11": "effect analysis (frame of Unfragment) + delete-rewind path rule + dominance of Order() over the scan + read-set of the text-identity function + CLI table",
 "C12": "effect analysis (frames of Order/Merge) + shape rules on the sort call, its comparator, the merge append and the add-if-absent guard + non-nil dataflow for map stores + CLI table",
 "C13": "effect analysis (frames) + model-derived rules: reference-edge read coverage of the marking code, styling-field write coverage of RemoveStyling, guard and range-key rules + CLI table",
 "C14": "effect analysis (frame of ForceDuration) + control-dependence of the filler on the flag + dominance of the equal-duration return",
 "C15": "effect analysis (frame of ApplyLinearCorrection) + expression-tree isomorphism of the two boundary updates + CLI argument order",
 "C17": "dataflow of io.Reader parameters into a whitelist of chunk-agnostic consumers + zero-rule on raw Read + path enumeration of the bufio.SplitFunc over an interval domain",
 "C18": "all-paths error-propagation analysis on the SSA control-flow graph (I/O error sources, scanner.Err discipline, flush discipline)",
 "C19": "effect analysis (writer purity) + map-range accumulator classification + nondeterminism-source reachability",
 "C20": "whole-package effect analysis: no store to package-level state outside init; zero-rules for go/select/unsafe",
}
TEXT = {
 "C01": "Static decision of structural necessary conditions of SRT fidelity: escape/unescape tables exact inverses; tag-state start/end symmetry and capture completeness; writer nests and emits only tags the reader handles; separator/scale agreement. No read/write equality over documents is decided.",
 "C02": "Static decision of structural necessary conditions of WebVTT fidelity: cue-setting and region-setting key→field agreement writer↔reader; regions emitted before cues; escape tables; timestamp agreement incl. inline timestamps. Tag-stack semantics, comments, voices, round trip are not decided.",
 "C03": "Static decision of structural necessary conditions of TTML fidelity: XML names agree between input and output structs; the 24 style attributes are wired In→model→Out through the same field; metric exhaustiveness; language map used both ways and covering the STL languages; timestamp agreement. Time-expression values, <br/> splitting and parent links are not decided.",
 "C04": "Static decision of structural necessary conditions of SSA fidelity: column name→field agreement across reader, format builder, row writer and model converters (23 style, 11 event, 15 script-info names); boolean / Marked literal, section header and colour-form agreement. Format-permutation behaviour, text splitting, idempotent rewrite are not decided.",
 "C05": "Static decision of structural necessary conditions of STL fidelity: GSI/TTI byte layouts agree writer↔reader field by field; Latin writer tables consistent with the reader table; code maps inverse; metadata wiring; frame-rate divisor guarded. One genuine table defect ('$' ↔ 0x24) is a recorded known finding. Timecode quantisation, diacritics, style runs are not decided.",
 "C06": "Static decision of the exclusion clause only: text can reach a cue only under PID / stream-id / data-unit-id / framing / Hamming / magazine / receiving / row-range / start-box / parity guards; table well-formedness and the colour-code table. Page scheduling, timing and termination behaviour are not decided.",
 "C16": "Static decision of the agreement clauses: per format writer separator ∈ reader separators, millisecond scale 3, 2 or 3 written digits, each codec uses its own wrappers, STL formatter and parser share the frame-rate field. Truncation, canonical fields, monotonicity and the 30 fps frame loss are value-level and not decided.",
 "C07": "Static decision of the structural clauses of any-to-any conversion: dispatch tables of Open/Write agree, are case-insensitive and default to the invalid-extension error; writers refuse an empty list before writing; the CLI table equals the documented one; writers tolerate every optional part other readers leave unset (no unguarded dereference in the writers' closure). Cue preservation across format pairs is not decided.",
 "C08": "Static all-paths decision, over the closure of the six readers, Open, the five writers and the exported helpers, that none of the panic classes Go code can raise itself (nil dereference, nil-map store, index/slice out of range, integer division by zero, failing single-result type assertion, explicit panic/Fatal) is reachable, modulo 11 audited residue sites each with a written reason (some backed by supporting rules), and that every loop has a progress argument. Panics inside dependencies, memory exhaustion and the linear-time bound are not decided.",
 "C09": "Static all-paths decision of necessary structural clauses of Add: writes only StartAt, EndAt and the item slice; both boundaries get the same update; the in-place deletion rewinds the index; CLI sync → Add(-s). The arithmetic (exact d, clamp, which cues die) is not decided.",
 "C10": "Static decision of necessary structural clauses of Fragment: frame; new pieces are whole copies; Order() after every insertion; CLI. Where the cuts fall is not decided (the known last-listed-cue fault stays invisible).",
 "C11": "Static decision of necessary structural clauses of Unfragment: frame; delete-rewind; Order() before the scan; same text function on both cues reading every run. Merge semantics and the inverse law are not decided.",
 "C12": "Static decision close to the statement: Order permutes only, via a stable library sort with a strict < on StartAt of (i, j); Merge appends receiver first then orders, adds definitions only when absent, never writes through its argument, never stores into a nil map. Correctness of sort.SliceStable is trusted.",
 "C13": "Static decision of: Optimize only deletes entries, under the ranged key, only for non-empty lists, after marking code that reads every reference edge the model's types declare; RemoveStyling writes all and only the styling fields with nil/empty values. Transitive closure depth and write/read-back are not decided.",
 "C14": "Static decision of necessary structural clauses of ForceDuration: frame; filler only under the flag; equal-duration return precedes every store. Which cues are trimmed is not decided.",
 "C15": "Static decision of necessary structural clauses of ApplyLinearCorrection: writes only StartAt/EndAt; both mapped by the identical expression; CLI passes a1,d1,a2,d2 in order. Numeric accuracy is not decided.",
 "C17": "Static decision that the reader argument reaches only consumers documented to be independent of read sizes, that no raw Read exists in the package, and that the line splitter requests more data whenever its CR look-ahead byte has not arrived (all paths of the split function enumerated). Given these the parse is a function of the byte sequence; chunk-independence of bufio/encoding/xml/astits themselves is trusted.",
 "C18": "Static all-paths decision that every I/O error source's error is tested and leads to a non-nil error return (or a frozen, reasoned end-of-input conversion), that Scan()==false is always followed by an Err() check before a success return, and that buffered sinks are flushed. Close errors are not demanded by the statement and not checked.",
 "C19": "Static all-paths decision that writers are pure (no effect on the cue list or globals) and deterministic (map iteration reaches output only through sorted/commutative accumulators; no clock/random source but Now). Close to sufficient for the statement, given deterministic encoding/xml and fmt.",
 "C20": "Static decision, over every function of the package, that nothing outside init writes shared state; with no goroutines/unsafe this rules out data races through the package's own memory for independent calls.",
}
# rules added after the second round of independently seeded changes
TECH_ADD = {
 "C01": "loop-carried-value classification of the writer loops (per-cue independence); emit-dominates-back-edge rule; fixed-radix argument rule; loop-nesting rule for the trailing-blank-line removal at both cue-completion points; dominator must-pass-through of the running emphasis state before every item addition in parseTextSrt; identifier origin rule (range index only); zero-rule on Tokenizer.Text (raw token only)",
 "C02": "loop-carried-value classification of the writer loops; dominator must-pass-through of the open-tag stack read before every item addition; emit-dominates-back-edge rule; fixed-radix argument rule; identifier origin rule: the integer rendered as cue identifier derives from the range index only; zero-rule on Tokenizer.Text; exactness rules on WebVTTTimestampMap.Offset",
 "C03": "value-origin analysis of the language field against the language table; abstract interpretation of float exactness (INT/QUOT/BAD) at every truncation and quotient-before-scale rule; per-cue independence; emit-dominates-back-edge; fixed radix; own-identifier rule on the map stores of the reader (definition tables keyed by the element's ID); forward taint from `innerxml` struct fields to struct-field stores (raw markup must pass the XML decoder); magnitude analysis of the tick / frame conversions with declared field domains; bijectivity of the BiMap tables used inversely; all returns of newTTMLXmlDecoder are NewTokenDecoder results",
 "C04": "reference set of recognised section spellings (switch and EqualFold forms); fixed-radix argument rule with constant propagation through parameters and phis; per-cue independence; emit-dominates-back-edge; run/line separator agreement of newSSAEventFromItem and ssaEvent.item; control-dependence of every content-recording site on a known section; loop-carried pending-pointer rule (no way round the override-block loop replaces it unused); value-origin rule on the Style column store and exact-name lookup in ssaEvent.item",
 "C05": "exit-edge classification of the block-reading loop; fixed points of the writer tables under the normal form read from the call (evaluated with /repo's x/text); language value origins; rounding-direction extraction of the frame conversions against the frame-rate table; dominance of the frame-rate table lookup over the GSI store; start-box code agreement reader/writer; offset add/subtract symmetry; per-cue independence; emit-dominates-back-edge; fixed radix; bijectivity of BiMap tables; factory call of the styler inside the column loop; dominating conditions of every GSI override mention only the overridden field",
 "C06": "evaluation of the (G0 position ← sub-set index) pairs installed by updateCharset (indexed loop through a constant array, or constant-bounded copies) against ETS 300 706 table 36; post-dominance of a fresh page (created with the header time) after every receiving = true; factory call inside the column loop; loop-carried-value classification of teletextPID (first teletext PID wins)",
 "C07": "extraction of the orderings against zero under which the CLI ends in log.Fatal (through helper functions) compared with what each operation may refuse; emit-dominates-back-edge over the five writers; GSI frame-rate validation; STL start-box agreement; writers-truncate zero-rule over the formatter closure; reference-edge and marking-order rules of Optimize; the structural rules of C09-C15 (merge shape, stable order, full scan, twin update, Fragment sweep, whole copy, order after insert, complementary exit, text identity, cut and filler, origin tests) run for C07 too; flag variables are never stored to",
 "C09": "CLI guard orderings for -s; comparison-shape rule: every comparison of a cue boundary in Add is against the constant 0 (EndAt with <=)",
 "C10": "CLI guard orderings for -f; sweep rules on Fragment: bound is a maximum accumulated over all cues, window phis advance by exactly f, no store to a slice inside a range over it; no data-dependent early return before the sweep; stable order",
 "C14": "constant sources of the cut index against its guard; CFG reachability of the filler from the cut and freshness of the Duration() test; shape of every comparison of a boundary with d (StartAt >=, EndAt >); unexported package-level slices/maps never stored into results",
 "C15": "magnitude (interval) analysis of integer products over the 24 h domain; call isomorphism for helper closures; CLI guard orderings; flag variables are never stored to or re-pointed",
 "C16": "abstract interpretation of float exactness at every truncation; quotient-before-scale rule; rounding-direction agreement of the STL frame conversions; division by a truncated integer quotient; writers-truncate zero-rule (no Round/Ceil in the formatter closure); Duration.Milliseconds/Microseconds results are truncated quotients (scaling them is refused); writers-truncate over the whole writer closure",
 "C11": "guard relations followed through short-circuit phis; absence of the String() equality is a violation; staleness of the exit test's EndAt operand; join-shaped identity strings; stable order on StartAt itself",
 "C18": "zero-rule with positive control: end-of-input sentinels (io.EOF, ErrNoMorePackets) are only ever compared, never stored or returned",
 "C13": "no data-dependent early return before the clearing loops",
 "C19": "GSI override guards mention only the overridden metadata field",
 "C20": "unexported package-level slices/maps are never stored into values handed out",
}
TEXT_ADD = {
 "C01": " Added: nothing computed for one cue is carried into the next by the writer; every loop of the writer emits for every element; integer fields are read in base 10; trailing blank lines are stripped iteratively at the next cue and at end of source. No line item is built in parseTextSrt without reading the running emphasis state; cue numbers are positional. The HTML tokenizer's unescaped Text() is never used.",
 "C02": " Added: nothing computed for one cue is carried into the next by the writer; no line item is created without reading the open-tag stack; every writer loop emits for every element. Cue identifiers are positional (never Item.Index). The HTML tokenizer's unescaped Text() is never used; the timestamp-map offset is computed without truncating to milliseconds first.",
 "C03": " Added: the language written / read comes only from the language table; no truncation of an inexact float product, no integer quotient scaled afterwards (tick, frame and offset-time conversions); writer emits every style/region/cue. Style and region tables are keyed by the element's own ID (shared parents keep all their children). Raw inner XML reaches text only through the XML decoder; tick and frame conversions cannot overflow for 24 h at 10 MHz. Lookup tables used inversely are bijections; the paragraph decoder always goes through the <br>-holding token reader.",
 "C04": " Added: the reader still recognises the five section spellings; integer fields are read in base 10 (16 for colours). Runs are joined with nothing and lines with a separator the reader splits at (a genuine defect repaired); content of unknown sections is never recorded; an override block is never dropped by the run-splitting loop. The Style column is stored and looked up verbatim.",
 "C05": " Added: the TTI loop ends only on end of source or error; writer table keys are fixed points of the applied normal form; GSI frame rate is a rate of the table; timecode offsets are applied symmetrically; frame rounding directions compose to the identity; start-box agreement (one more known finding). A styler is created per column; a GSI field is overridden under a test of its own metadata field only; tables are bijections.",
 "C06": " Added: the 13 national option characters are installed at the positions of ETS 300 706 table 36. Reception of a page instance always starts on a page object created with that header's time. The first teletext PID of the PMT is selected; a styler is created per column.",
 "C07": " Added: the CLI refuses only parameter values the operation may refuse; writers emit every element; STL destination gets a valid frame rate. Timestamp formatters never round to nearest or up; Optimize marks ancestors of every used style. The structural clauses of the operations (C09-C15) are decided for C07 as well; the CLI never rewrites its flag values.",
 "C14": " Added: the not-found value of the cut index is not a possible index; the filler decision is reachable after the cut and uses a duration evaluated after it. A cue starting exactly at d is removed (StartAt >= d), a cue is clipped only when it ends after d; the filler shares no package-level memory.",
 "C15": " Added: no integer product can overflow for instants within 24 h. The CLI never rewrites its flag values.",
 "C16": " Added: truncations act on exact integers or single correctly rounded quotients; STL reader and writer rounding directions compose to the identity for the table's frame rates. No formatter rounds to nearest or up; no division by a truncated quotient. Whole-unit accessors of Duration are not scaled afterwards; no rounding anywhere in the writers.",
 "C09": " Added: removal and clamping are decided against the origin only (EndAt <= 0, StartAt vs 0).",
 "C10": " Added: the window sweep runs to the maximum end over all cues, advances by exactly f, and never inserts into a slice being ranged over (two genuine defects repaired). Fragment has no early return other than for an empty list or a non-positive period.",
 "C11": " Added: the merge relation is also extracted when && is compiled to a phi; sameness must be an equality of Item.String() results. The early-exit test never uses an end loaded before the scan; the identity strings are strings.Join results.",
 "C18": " Added: no function manufactures an end-of-input sentinel (a failure cannot be turned into a clean end).",
 "C13": " RemoveStyling has no early return other than for an empty cue list.",
 "C19": " Dates supplied in the metadata are honoured independently of each other.",
 "C20": " Results never alias unexported package-level slices or maps.",
}
# round 6 (two more seeded changes per property, and 40 behaviour-preserving refactorings as must-stay-quiet controls)
TECH_ADD2 = {
 "C02": "zero-rule on the normalising tokenizer accessors (TagName/TagAttr/Token) in the WebVTT text parser; setting tables extracted through helper functions and closures, per call site",
 "C05": "exact-truncation rules restricted to stl.go (values derived from Duration.Milliseconds are truncated quotients); frame rounding and block reading followed through helpers",
 "C06": "partial evaluation of the row decoder with the byte fixed to each control code (colour and start-box tables read off the merge, whatever the spelling)",
 "C07": "no case-sensitive test on a string derived from the file name in Open/Write; extension expression in either order of Ext and ToLower",
 "C08": "numeric facts added: hull join at merges, value numbering of c*x, Index/LastIndex and regexp match-index contracts, guarded counter bounds, constructor-result field facts, literal-field non-nil facts, grow-only captured slices, the insert idiom; loop class for consumed slice registers",
 "C09": "bulk-removal guard: a store that empties or truncates the list outside the per-cue loop must be guarded by a maximum over all cues; no deletion from a slice inside a range over it",
 "C10": "a counted loop that inserts into the list re-reads the length on every trip",
 "C13": "a work loop nested directly in another one is entered on every trip of the outer loop (cycle search avoiding the inner header)",
 "C17": "bytes.HasPrefix(data, K) is a look-ahead of len(K) bytes; captured state of the split function; loops in the split function (havocked header phis with a checked len−i invariant); conditions compiled to phis",
 "C18": "a shared return block that only merges results is resolved per incoming edge",
 "C20": "captured variables' values are one step from their cell (no smearing over reachable memory); bound-method wrappers in scope",
}
TEXT_ADD2 = {
 "C02": " The tag of a WebVTT cue text is taken from the raw token only (classes keep their case).",
 "C05": " The frame field is not computed from a duration already truncated to milliseconds.",
 "C07": " No decision on the file name is case-sensitive.",
 "C09": " The list is never emptied in one go under a test of one designated cue's end; nothing is deleted from a slice while ranging over it.",
 "C10": " The loop that inserts pieces re-reads the list length on every trip.",
 "C13": " No cue is skipped by RemoveStyling on a test of its cue-level styling.",
 "C17": " A byte-order-mark test in the split function waits for enough bytes before it decides.",
}
# rounds 7 and 8
TECH_ADD3 = {
 "C01": "per-(token kind, tag) partial evaluation of the tag handlers; every field of the running state is read on every path to the addition of a run",
 "C05": "effects of propagate<F>Attributes restricted to fields of the other formats",
 "C06": "every return of updateCharset after the charset code is recorded is dominated by a copy of the designated G0 table",
 "C07": "exact-truncation, frame-rounding and split-function rules run for C07 as well; no early return of Unfragment on a data condition; propagate<F>Attributes keeps the source attributes",
 "C08": "contracts of FindStringIndex / FindAll…Index (ordered non-overlapping rows, mandatory capture groups), proof by cases on merges, reverse-scan invariants (register and memory form), fill bound of a read-until-full loop",
 "C10": "reused-buffer hazard and scan-cursor clauses of the Fragment sweep",
 "C11": "no data-dependent early return before the merge scan",
 "C13": "no store into a used-set reachable from a delete on the style table",
 "C17": "a direct Read is accepted only inside a verified read-until-full loop",
}
TEXT_ADD3 = {
 "C05": " Attribute propagation never rewrites the STL attributes the reader returned.",
 "C06": " The designated G0 table is copied afresh whenever a new charset code is recorded.",
 "C10": " The list installed by one window is not a buffer the next window refills faster than it reads; the per-window scan starts at the first cue or after a contiguous finished prefix.",
 "C11": " Unfragment has no early return other than for fewer than two cues.",
 "C13": " Styles are swept only after marking is complete.",
}
TECH_ADD4 = {
 "C01": "escapeHTML / unescapeHTML read as staged replacement programs (Replacer, chained ReplaceAll, table loops) with three ordering clauses; separator-by-position; writers store nothing into package-level memory; no result keeps the address of a field of the reader's running state",
 "C02": "separator-by-position; writers store nothing into package-level memory; no address of running state kept by a result",
 "C03": "separator-by-position (a <br> decided by what has been emitted so far); writers store nothing into package-level memory; no address of running state kept by a result",
 "C04": "separator-by-position; writers store nothing into package-level memory (a shared column list mutated by one write); column list read from a package-level literal; no address of running state kept by a result",
 "C05": "separator-by-position; writers store nothing into package-level memory; no address of running state kept by a result",
 "C06": "no result keeps the address of a field of the decoder's running state",
 "C07": "separator-by-position in writers and in Item.String / Line.String; no address of running state kept by a result",
 "C08": "proof by cases over two merged operands; integer fields of rows of a local literal table; L6 loops that give up the rest (s = \"\") or cut at a guarded index; grow-by-one placeholder in register form",
 "C11": "separator-by-position in the text identity (Item.String / Line.String)",
 "C14": "a test of the cut index against a constant must not turn away a real index (0 included)",
 "C15": "a write through a pointer parameter is attributed to the fields the actual designates; twin update through a helper",
}
TEXT_ADD4 = {
 "C01": " Staged escaping (chained or table-driven ReplaceAll) is decided: '&' must be escaped first and restored last. A separator is never decided by what has been emitted so far when an element may contribute nothing. Writers keep no state between documents; runs never share a field of the parser's state by address.",
 "C02": " A separator is never decided by what has been emitted so far when an element may contribute nothing; writers keep no state between documents.",
 "C03": " A line break is placed by the line's position, not by whether anything has been emitted; writers keep no state between documents.",
 "C04": " Writers keep no state between documents (the column list is not a shared slice one write can alter).",
 "C05": " Writers keep no state between documents.",
 "C11": " The identity string places its separator by position (a leading empty line is not dropped).",
 "C14": " A guard on the cut index does not exclude index 0 (every cue starts at or after d).",
}
TECH_ADD5 = {
 "C01": "readers store nothing into package-level memory",
 "C02": "readers store nothing into package-level memory; reader arms collected from helpers",
 "C03": "readers store nothing into package-level memory",
 "C04": "readers store nothing into package-level memory; updateFormat as a table of (name, present) rows",
 "C05": "readers store nothing into package-level memory (a decoder with a pending accent cached across reads)",
 "C06": "readers store nothing into package-level memory (the shared G0 table patched through a pointer)",
 "C07": "CLI guard helpers that receive a flag by address; binary-search key",
 "C08": "facts about fields held in private local variables survive calls; L7 flag-or-shrink loops",
 "C09": "full-scan over the loops of visitor helpers; callbacks accounted inside the helpers that call them",
 "C11": "a table of identity strings kept parallel to the list (filled after ordering, deleted from in lockstep)",
 "C12": "Order() after the append on every path to a return",
 "C15": "twin update through a callback the call graph resolves",
}
TEXT_ADD5 = {
 "C05": " Readers keep no state between documents (a character handler with its pending accent is not shared by reads).",
 "C06": " The shared G0 tables are never written by a read.",
 "C07": " The CLI refuses for -s only the value 0, also when the test sits in a helper that receives the flag by address.",
 "C12": " Merge orders the receiver after appending on every path, not only when the argument starts before the receiver ends.",
}
TECH_ADD6 = {
 "C01": "blank tests on the raw token only; escape program run on entity patterns (injectivity); no half-unit rounding; no clock parser in timestamp parsers; narrow integer parses cover their field",
 "C02": "blank tests on the raw token only; every part of a tag consulted on every path of startTag; no half-unit rounding; no clock parser",
 "C03": "raw inner XML trimmed at the start of a line only; no half-unit rounding; no clock parser",
 "C04": "no half-unit rounding; no clock parser; narrow integer parses cover their field",
 "C05": "narrow integer parses cover the width of the GSI field they read",
 "C06": "parsePacketHeader evaluated for the 255 page numbers other than FF: the end-of-page test is reached before any return",
 "C07": "CLI fatal exits decided by one plain value against a constant; merge test of Unfragment has no third condition; no half-unit rounding; no clock parser",
 "C09": "CLI fatal exits decided by one plain value against a constant",
 "C11": "the merge test has no third condition; sameness through a map keyed by Item.String()",
 "C12": "keyed stable sort (keys[k] = Items[k].StartAt, Swap exchanges both slices)",
 "C14": "Duration reads cue boundaries only; every clip of EndAt inside a loop over the cues; the cut as a filter in place",
 "C15": "CLI fatal exits decided by one plain value against a constant",
 "C16": "no half-unit rounding in writers; no clock parser in timestamp parsers",
}
TEXT_ADD6 = {
 "C01": " A run of no-break spaces is not taken for blank; escaping does not decode first.",
 "C02": " A tag with classes and an annotation is written with both.",
 "C03": " White space at the end of a source line of a paragraph is kept.",
 "C05": " GSI counters of five digits are read up to 99999.",
 "C06": " A header of any page other than FF reaches the end-of-page test.",
 "C11": " Two cues merge on equal text and touching times, nothing else.",
 "C14": " Duration depends on cue boundaries only and every cue ending after d is clipped.",
 "C15": " The CLI refuses no slope the library accepts.",
 "C16": " Timestamps of 24 h and more are read back; writers truncate, never round to nearest.",
}
TECH_ADD7 = {
 "C01": "writers store nothing into their copy of an element",
 "C02": "writers store nothing into their copy of an element (a voice name is not blanked because of the previous line)",
 "C03": "a splitting loop built on strings.Cut consults whether the separator was found; writers store nothing into their copy of an element",
 "C04": "Subtitles.Styles is complete before the first lookup in the reader; writers store nothing into their copy of an element",
 "C05": "GSI reader layout followed through fields filled by address and rows of local tables; writers store nothing into their copy of an element",
 "C06": "the PID returned by teletextPID is not computed from a map iteration or a sorted slice",
 "C07": "writers store nothing into their copy of an element; a loop over a table of the program grants nothing to the writer loop around it",
 "C08": "non-nil fields of private struct types that only exist as fully initialised literals; stores through a pointer parameter resolved to the field whose address is passed; value-position && and || in numeric facts",
 "C14": "Duration returns zero or a loaded Item.EndAt selected by comparisons only",
 "C17": "io.ReadAtLeast accepted only with the buffer length as minimum",
 "C18": "the io.EOF of io.ReadFull handed on unchanged by any library helper is the accepted end-of-blocks conversion",
}
TEXT_ADD7 = {
 "C02": " Each line keeps its own voice name when written.",
 "C03": " A <br/> at the end of a run still starts a line.",
 "C04": " A style is found whatever the order of the sections.",
 "C06": " The teletext PID chosen is the first the PMT lists, not the lowest.",
 "C14": " Duration is the end of a cue exactly as stored.",
 "C17": " A block cut by a short read is not taken for a truncated one.",
}
TECH_ADD8 = {
 "C01": "running state handed to parseTextSrt is reset together; no value remembered across loop trips outlives a change of its source; reader-flow and split-function rules of C17 also run here; leading digits '0'+v/10 bounded",
 "C02": "a snapshot kept across tokens is dropped at every change of the tag stack; reader-flow and split-function rules; cue settings written through a helper receiving the key with its separator; leading digits bounded",
 "C03": "leading digits '0'+v/10 of a written timestamp bounded (hours are not)",
 "C04": "reader-flow and split-function rules; section switches read in helpers; leading digits bounded",
 "C05": "a field derived from another field of the GSI block under construction is computed after the last store into that field",
 "C06": "newTeletextPageBuffer evaluated for pages 100-899: none stored as (magazine 0, page 0), the no-page-selected pair",
 "C07": "escape tables (staged programs) also decided here; operations called before the CLI switch count for every sub-command; a Write hoisted behind the switch belongs to every case; derived fields computed last; running state reset together; leading digits bounded",
 "C08": "ok-correlated results of library functions (non-nil whenever the final bool result is true); len(s) from HasPrefix and HasSuffix together; TagAttr as a progress primitive",
 "C09": "operations called before the CLI switch count for every sub-command",
 "C12": "Order through a sorted slice of (cue, start) pairs with full write-back; Merge's add-if-absent followed into helpers, with the returned map stored into the receiver when the helper may allocate",
 "C16": "leading digits '0'+v/10 of a written timestamp bounded",
}
TEXT_ADD8 = {
 "C01": " An unterminated <font> of one cue does not colour the next.",
 "C02": " Text after an inner closing tag is no longer reported under that tag.",
 "C03": " Hours of 100 and more are written with all their digits.",
 "C05": " Open-subtitling vertical positions are not clamped to teletext rows.",
 "C06": " Selecting page 800 reads page 800.",
 "C09": " The CLI does not reorder cues before shifting them.",
}
TECH_ADD9 = {
 "C01": "a parsed colour is stored whatever its spelling (no store guarded by a call on the value); a one-entry memo needs a validity test",
 "C02": "a parsed cue setting is stored whatever its value (no skip decided by a call on the value)",
 "C03": "text, title and copyright stored into the TTML output as loaded; identifiers written alike where defined and where referred to; an integer quotient kept in a field is not scaled afterwards",
 "C04": "the reader's column table is filled from the Format line only",
 "C06": "descriptor tags accepted by teletextPID are exactly 0x56 and 0x46; Open hands ReadFromTeletext something it can rewind",
 "C07": "Open hands ReadFromTeletext a seekable reader; TTML identifiers written alike on both sides; one-entry memos need a validity test",
 "C08": "a loop driven by an input-consuming call ends on that call's error; flags carried by phis correlated with the branch that set them",
 "C10": "the bound of the fragment sweep comes from a full scan of the cues",
 "C11": "nothing rewrites the texts on the way to the identity string",
 "C13": "the walk up the parent styles ends only on nil or on a mark, never on a counter",
 "C14": "a duration refreshed by hand after the cut (zero, or the end of the cue before the cut index) is fresh; the cut may be a helper returning a prefix",
 "C15": "ApplyLinearCorrection gives up on equalities only; one-entry memos need a validity test",
 "C16": "an integer quotient kept in a field is not scaled afterwards",
 "C17": "a split function given as a method value is resolved; one that keeps state between calls is UNDECIDED",
 "C18": "os.Rename / CreateTemp / WriteFile / ReadFile are I/O error sources; in a closure the error is stored into the captured error result",
 "C19": "a search over a map (left from the body with the entry at hand) needs pairwise distinct literal values",
}
TEXT_ADD9 = {
 "C01": " A colour spelled #FFF is read.",
 "C02": " A line setting of -1 is read.",
 "C03": " No-break spaces survive the TTML writer; frame and tick offsets do not drift.",
 "C04": " A Format line with fewer columns is honoured.",
 "C06": " A VBI data stream is not taken for teletext.",
 "C13": " Ancestors beyond the third parent are kept.",
 "C15": " Reference points given latest first are honoured; a cue starting at 0 is corrected.",
 "C18": " An uncreatable destination is reported.",
 "C19": " The language tag written does not depend on map order.",
}
TECH_ADD10 = {
 "C01": "a split function that hands the pending data to another function is UNDECIDED",
 "C03": "scanners of the TTML reader have Err() consulted before a success return",
 "C07": "the components of tts:origin / tts:extent reach the WebVTT settings without a blank; a float computed from a Duration is floored before a formatter sees it",
 "C10": "Order may sort (cue, position) pairs with an unstable sort under start-then-position",
 "C13": "a binary search runs over the very value a dominating sort call sorted",
 "C15": "the four reference times reach the slope and the intercept without Milliseconds / Truncate / Round / integer division",
 "C16": "no float computed from a Duration reaches FormatFloat or a fmt verb unless floored",
 "C17": "a split function that hands the pending data to another function is UNDECIDED",
}
TEXT_ADD10 = {
 "C03": " A paragraph longer than a scanner token is not cut short.",
 "C07": " Two blanks inside tts:origin do not leak into the cue settings.",
 "C13": " Styles inherited by used styles are found by the search that decides what to delete.",
 "C15": " Reference points are not truncated to milliseconds.",
 "C16": " 999.6 ms is not written as 1000.",
}
TECH_ADD11 = {
 "C03": "a count multiplied by an integer quotient returned by a library function is a scaled quotient",
 "C04": "the table a Format line is written into is made empty (no filled map reaches it, flag-correlated paths excepted)",
 "C15": "the reference times are followed into the helpers they are passed to",
 "C05": "ReadFromSTL does not assign the GSI offset it subtracts; stlStyler.update stores only non-nil attributes",
 "C06": "M/29 is recorded whether or not a page is being received",
 "C14": "no package-level slice or map stored into the model",
 "C20": "no package-level slice or map stored into the model",
 "C01": "run text is never the Data of an html.Token",
 "C02": "a pending cue identifier is forgotten once a cue has taken it, and is given only zero or a parsed number",
 "C07": "Add's delete-and-rewind rule also runs here",
 "C12": "no return of Merge before the argument has been taken",
}
TEXT_ADD11 = {
 "C03": " Frame counts are not multiplied by a frame length already rounded to whole nanoseconds.",
 "C04": " A Format line naming fewer columns than the standard order is honoured.",
}
for k, v in TECH_ADD.items():
    TECH[k] += "; " + v
for k, v in TEXT_ADD.items():
    TEXT[k] += v
for k, v in TECH_ADD2.items():
    TECH[k] += "; " + v
for k, v in TEXT_ADD2.items():
    TEXT[k] += v
for k, v in TECH_ADD3.items():
    TECH[k] += "; " + v
for k, v in TEXT_ADD3.items():
    TEXT[k] += v
for k, v in TECH_ADD4.items():
    TECH[k] += "; " + v
for k, v in TEXT_ADD4.items():
    TEXT[k] += v
for k, v in TECH_ADD5.items():
    TECH[k] += "; " + v
for k, v in TEXT_ADD5.items():
    TEXT[k] += v
for k, v in TECH_ADD6.items():
    TECH[k] += "; " + v
for k, v in TEXT_ADD6.items():
    TEXT[k] += v
for k, v in TECH_ADD7.items():
    TECH[k] += "; " + v
for k, v in TEXT_ADD7.items():
    TEXT[k] += v
for k, v in TECH_ADD8.items():
    TECH[k] += "; " + v
for k, v in TEXT_ADD8.items():
    TEXT[k] += v
for k, v in TECH_ADD9.items():
    TECH[k] += "; " + v
for k, v in TEXT_ADD9.items():
    TEXT[k] += v
for k, v in TECH_ADD10.items():
    TECH[k] += "; " + v
for k, v in TEXT_ADD10.items():
    TEXT[k] += v
for k, v in TECH_ADD11.items():
    TECH[k] += "; " + v
for k, v in TEXT_ADD11.items():
    TEXT[k] += v
TECH_ADD12 = {
 "C08": "the column table handed to an SSA line parser that computes len(table)-1 is shown non-empty at the call (difference constraints from the dominating tests of the reader)",
 "C07": "the STL character tables (writer entry against reader entry, per code) are also a clause of conversion",
 "C15": "no library function reached from ApplyLinearCorrection stores a constant into a cue boundary (no clamp on the corrected instants)",
}
for k, v in TECH_ADD12.items():
    TECH[k] += "; " + v
NOTE = "Assumes P0 (non-nil receivers/arguments), P1 (non-nil model elements, map keys = IDs), library contracts in internal/chk/contracts.go, and the fidelity of go/ssa + VTA (x/tools v0.29.0). Audited residue entries in rules/residue.txt are trusted."
props = [json.loads(l) for l in open("/verif/properties.jsonl")]
checks, na = [], []
for p in props:
    i = p["id"]
    if i in TECH:
        checks.append({
            "property_id": i,
            "quick_cmd": f"cd /verif && bin/astisubcheck -prop {i} -tier quick",
            "thorough_cmd": f"cd /verif && bin/astisubcheck -prop {i} -tier thorough && python3 tools/mutants.py run -j 14 --prop {i} --evidence evidence/{i}.json",
            "evidence_file": f"/verif/evidence/{i}.json",
            "replay_cmd_template": f"cd /verif && bin/astisubcheck -prop {i} -tier quick  # then look up {{path}} (evidence#obligation-key)",
            "engine": "astisubcheck",
            "level_claimed": {"category": "other", "text": TEXT[i], "design_ref": "DESIGN.md §4 " + i},
            "level_note": NOTE,
            "technique": "static analysis: " + TECH[i],
        })
    else:
        na.append({"property_id": i, "reason": "checker for this property not yet implemented in this commit (work in progress; planned clauses in DESIGN.md §0)"})
m = {
 "version": 1,
 "setup_cmd": SETUP,
 "hooks": {"guard": "verif", "enable": "none: static analysis reads /repo's sources; no hooks are compiled in (the loader passes -tags verif so tag-guarded files would be seen)",
           "baseline_off_cmd": f"cd /repo && env {ENV} go test -vet=off -count=1 ./...", "source_commits": [], "add_only": True},
 "engines": [{"name": "astisubcheck", "path": "/verif/cmd/astisubcheck", "serves_properties": sorted(TECH), "kind_free_text": "custom static analyser over go/packages + go/ssa + VTA call graph (golang.org/x/tools v0.29.0)"}],
 "checks": checks,
 "not_applicable": na,
 "notes": "Every check loads and analyses /repo's current working tree on each run; nothing in /repo is executed.",
}
json.dump(m, open("/verif/MANIFEST.json", "w"), indent=1)
print("claimed", len(checks), "n/a", len(na))
