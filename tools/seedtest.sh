#!/bin/bash
# usage: tools/seedtest.sh <patch.diff> <prop> [<prop>...]
# Applies a seeded change to /repo, runs the quick checks of the given properties, reverts.
set -u
patch=$1; shift
if ! git -C /repo diff --quiet; then echo "/repo has uncommitted changes"; exit 2; fi
git -C /repo apply "$patch" || { echo "patch does not apply"; exit 2; }
trap 'git -C /repo checkout -- . ' EXIT
for prop in "$@"; do
  out=$(/verif/bin/astisubcheck -prop "$prop" -tier quick -noevidence 2>&1); code=$?
  echo "== $prop exit=$code $(echo "$out" | grep -c '^VIOLATION') violation line(s)"
  echo "$out" | grep '^FAIL\|^UNDECIDED' | cut -c1-400 | head -6
done
