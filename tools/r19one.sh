#!/bin/bash
# tools/r19one.sh <prop>: confirm the round-19 change of one property in its worktree, store it, run the property's check (+C07, C08) on it
P=$1; wt=/tmp/s19_$P
[ -f $wt/change_1.diff ] || { echo "$P: no change_1.diff"; exit 1; }
title=$(sed -n 1p $wt/change_1.txt | tr 'A-Z' 'a-z' | tr -c 'a-z0-9\n' '-' | sed 's/--*/-/g; s/^-//; s/-$//')
needs=$(sed -n 2p $wt/change_1.txt | sed 's/^needs to manifest: *//')
id=$P-r19-$title
/verif/tools/confirm_seed.sh $wt 1 "$id" $P "$needs" > /tmp/r19_$P.log 2>&1
props="$P"; [ $P != C07 ] && props="$props C07"; [ $P != C08 ] && props="$props C08"
/verif/tools/seedtest2.sh $wt/change_1.diff $props >> /tmp/r19_$P.log 2>&1
cat /tmp/r19_$P.log | cut -c1-330
