#!/bin/bash
# tools/newround.sh <tag>: prepares an independent seeding round: 20 scratch worktrees /tmp/<tag>_Cxx of /repo HEAD,
# the property texts /tmp/ptext_Cxx.txt and one prompt file per property /tmp/<tag>_prompt_Cxx.txt
# (from tools/seed_prompt_template.txt). The sub-agents get nothing from /verif but their prompt file.
R=$1
python3 - <<'PY'
import json
for l in open('/verif/properties.jsonl'):
    d=json.loads(l)
    txt="PROPERTY %s: %s\n\nSTATEMENT: %s\n\nQUANTIFIER: %s\n\nWHY TESTS CANNOT SETTLE IT: %s\n\nANCHORS (where in the code it lives): %s\n" % (d['id'], d['title'], d['statement'], json.dumps(d['quantifier'],ensure_ascii=False), d['why_tests_cant'], json.dumps(d['anchors'],ensure_ascii=False))
    open('/tmp/ptext_%s.txt'%d['id'],'w').write(txt)
PY
for i in $(seq -w 1 20); do
  git -C /repo worktree add -q --detach /tmp/${R}_C$i HEAD
  sed "s/@ID@/C$i/g; s/@R@/$R/g" ${TEMPLATE:-/verif/tools/seed_prompt_template.txt} > /tmp/${R}_prompt_C$i.txt
done
ls /tmp/${R}_prompt_C*.txt | wc -l
