#!/usr/bin/env python3
"""Runs the quick checks against every seeded change under /verif/seeded (applied to /repo, then reverted)."""
import json, os, subprocess, sys, glob
ENV = dict(os.environ, GOFLAGS="-mod=mod", GOPROXY="off", GOSUMDB="off", GOTOOLCHAIN="local")
def main():
    if subprocess.run(["git", "-C", "/repo", "diff", "--quiet"]).returncode != 0:
        sys.exit("/repo has uncommitted changes")
    only = sys.argv[1:]
    bad = 0
    for d in sorted(glob.glob("/verif/seeded/*/")):
        meta = json.load(open(d + "meta.json"))
        if only and meta["id"] not in only:
            continue
        props = meta["breaks_property"].split(",")
        r = subprocess.run(["git", "-C", "/repo", "apply", d + "patch.diff"])
        if r.returncode != 0:
            print(f"SEEDED {meta['id']} patch-does-not-apply"); bad += 1; continue
        try:
            res = []
            hit = True
            for prop in props:
                o = subprocess.run(["/verif/bin/astisubcheck", "-prop", prop, "-tier", "quick", "-noevidence"], env=ENV, capture_output=True, text=True)
                rules = sorted({l.split()[1].replace("rule=", "") for l in o.stdout.splitlines() if l.startswith("FAIL ")})
                fired = o.returncode != 0 and ("VIOLATION property=" + prop) in o.stdout
                hit = hit and fired
                res.append(f"{prop}:{'detected' if fired else 'MISSED'} by {','.join(rules) or '-'}")
            print(f"SEEDED {meta['id']} {'detected' if hit else 'MISSED'} {' | '.join(res)}")
            if not hit: bad += 1
        finally:
            subprocess.run(["git", "-C", "/repo", "checkout", "--", "."])
    print(f"SEEDED summary bad={bad}")
    sys.exit(1 if bad else 0)
main()
