#!/usr/bin/env python3
"""tools/recursion_audit.py: lists the functions and recursive closures of internal/chk that take an ssa.Value, call
themselves and mention *ssa.Phi without carrying a visited set or a depth bound in their parameters. A stack overflow
cannot be recovered in Go: two rounds of independently written refactorings crashed the checker through such a walk
(accOfValue, ownerOf). Every line printed has to be read: either the recursion cannot follow a phi cycle, or it is guarded
inside its body (condDepth, refineDepth). Exit status is always 0; the output is for the maintainer."""
import re, glob, os
os.chdir(os.path.join(os.path.dirname(__file__), "..", "internal", "chk"))
for f in sorted(glob.glob("*.go")):
    src = open(f).read()
    for m in re.finditer(r"^func (?:\([^)]*\) )?(\w+)\(([^)]*)\)[^{]*\{\n(.*?)^\}\n", src, re.S | re.M):
        name, params, body = m.group(1), m.group(2), m.group(3)
        if re.search(r"\b%s\(" % re.escape(name), body) and "ssa.Value" in params and "Phi" in body:
            if not re.search(r"seen|depth|visited|map\[", params):
                guarded = bool(re.search(r"Depth\s*>|depth\s*>", body[:400]))
                print(f, name, "guarded-in-body" if guarded else "UNGUARDED?")
