#!/bin/bash
# usage: tools/confirm_keep.sh <worktree> <k> <keep-id> <property> "<what was restructured>"
# Confirms a behaviour-preserving refactoring in its scratch worktree (applies, builds, existing suite
# passes, its differential test - old vs new on many inputs - passes) and stores it under
# /verif/selftest/keeps/<keep-id>/ as a must-stay-quiet control.
set -u
wt=$1; k=$2; id=$3; prop=$4; what=$5
export GOFLAGS=-mod=mod GOPROXY=off GOSUMDB=off GOTOOLCHAIN=local
cd "$wt" || exit 2
git checkout -q -- . ; rm -f seed_demo*_test.go keep_demo*_test.go
git apply "keep_$k.diff" || { echo "patch does not apply"; exit 1; }
go build ./... || { echo "does not build"; git checkout -q -- .; exit 1; }
suite=$(go test -vet=off -count=1 ./... 2>&1 | grep -a -c '^ok')
fails=$(go test -vet=off -count=1 ./... 2>&1 | grep -a -c '^FAIL\|^--- FAIL')
cp "keep_demo${k}_test.go.keep" "keep_demo${k}_test.go"
go test -vet=off -count=1 -timeout 600s -run "TestKeepDemo${k}" . > /tmp/keep_with.txt 2>&1; with=$?
rm -f "keep_demo${k}_test.go"
git checkout -q -- .
echo "keep $id: existing suite ok-lines=$suite fail-lines=$fails; differential test with refactoring exit=$with"
if [ "$suite" -ge 1 ] && [ "$fails" -eq 0 ] && [ "$with" -eq 0 ]; then
  d=/verif/selftest/keeps/$id; mkdir -p "$d"
  cp "keep_$k.diff" "$d/patch.diff"; cp "keep_demo${k}_test.go.keep" "$d/difftest.go.txt"
  python3 - "$d" "$id" "$prop" "$what" <<'PY'
import json,sys
d,i,prop,what=sys.argv[1:5]
json.dump({"id":i,"anchored_in_property":prop,"restructured":what,
 "confirmed":{"patch_applies_and_builds":True,"existing_suite_passes":True,"differential_test_old_vs_new_passes":True},
 "source":"written by an independent sub-agent that saw only the property text; equivalence argued by the agent and checked by its differential test (verbatim copy of the original against the refactoring)"},open(d+"/meta.json","w"),indent=1)
PY
  echo "  stored in $d"
else
  echo "  NOT CONFIRMED"; tail -5 /tmp/keep_with.txt
fi
