module verif

go 1.23

require golang.org/x/tools v0.29.0

require (
	golang.org/x/mod v0.22.0 // indirect
	golang.org/x/sync v0.10.0 // indirect
	golang.org/x/text v0.3.2
)
