// Command astisubcheck decides structural clauses of properties C01–C20 of go-astisub by
// static analysis of /repo's current working tree (see /verif/DESIGN.md).
package main

import (
	"flag"
	"fmt"
	"os"
	"runtime/debug"
	"strconv"
	"strings"
	"time"

	"verif/internal/chk"
)

func main() {
	prop := flag.String("prop", "", "property id (C01..C20)")
	tier := flag.String("tier", "quick", "quick|thorough")
	repo := flag.String("repo", "/repo", "repository root")
	verif := flag.String("verif", "/verif", "verif root")
	dump := flag.String("dump", "", "debug: dump engine facts (effects|...) and exit")
	noev := flag.Bool("noevidence", false, "do not write the evidence file (used by the mutation self-test on scratch copies)")
	flag.Parse()
	if t := os.Getenv("VERIF_TIER"); t == "quick" || t == "thorough" {
		if !isFlagSet("tier") {
			*tier = t
		}
	}
	seed, _ := strconv.Atoi(os.Getenv("VERIF_SEED"))
	os.Unsetenv("GOWORK")
	chk.VerifDir = *verif
	start := time.Now()
	env := []string{"GOFLAGS=-mod=mod", "GOPROXY=off", "GOSUMDB=off", "GOTOOLCHAIN=local", "GOWORK=off"}

	code := 1
	func() {
		defer func() {
			if r := recover(); r != nil {
				fmt.Printf("UNDECIDED analysis panic: %v\n%s\n", r, debug.Stack())
				code = 1
			}
		}()
		p, err := chk.Load(*repo, "verif", env)
		if err != nil {
			fmt.Println("UNDECIDED load failure:", err)
			code = 1
			return
		}
		fmt.Printf("loaded %d packages, %d lib functions, %d cli functions, %d files in %.1fs\n", p.NumPkgs, len(p.LibFns), len(p.CLIFns), len(p.Files), time.Since(start).Seconds())
		if *dump != "" {
			chk.Dump(p, *dump)
			code = 0
			return
		}
		spec := chk.Spec(*prop)
		if spec == nil {
			fmt.Printf("UNDECIDED unknown property %q (have %v)\n", *prop, chk.AllProps())
			return
		}
		l, err := chk.NewLedger(*prop, *verif)
		if err != nil {
			fmt.Println("UNDECIDED ledger:", err)
			return
		}
		for _, r := range spec.Rules {
			r.Run(p, l, *tier)
		}
		if *tier == "thorough" {
			thorough(p, l, spec, *repo, *verif, env)
		}
		l.NoEvidence = *noev
		code = l.Finish(p, *tier, seed, start, *verif, spec.Explanation, spec.Assumptions, nil)
	}()
	os.Exit(code)
}

func isFlagSet(name string) bool {
	set := false
	flag.Visit(func(f *flag.Flag) {
		if f.Name == name {
			set = true
		}
	})
	return set
}

// thorough adds to the quick pass: a re-run of every rule on the CHA call graph (a superset of
// the VTA graph: verdicts must not get worse) and a re-load under GOARCH=386 (the set of source
// files and the type check must not depend on the architecture or on the verif tag).
func thorough(p *chk.Prog, l *chk.Ledger, spec *chk.PropSpec, repo, verif string, env []string) {
	bad := l.CountBad()
	if bad > 0 {
		l.Note("thorough extras skipped: the quick pass is not clean")
		return
	}
	// (i) CHA re-run
	q := p.WithCHA()
	l2, err := chk.NewLedger(l.Prop, verif)
	if err == nil {
		for _, r := range spec.Rules {
			r.Run(q, l2, "quick")
		}
		n := 0
		for _, o := range l2.Obs {
			if o.Status == chk.Violation || o.Status == chk.Undecided {
				if o.Rule == "ledger.stale-residue" || strings.HasSuffix(o.Key, "|recursion") {
					// CHA resolves r.xmlTokenReader.Token() to every Token method, incl. the caller
					// itself: a spurious cycle the VTA graph does not have
					continue
				}
				n++
				o.Rule = "cha:" + o.Rule
				o.Key = "cha:" + o.Key
				o.Why = "on the CHA call graph: " + o.Why
				l.Add(o)
			}
		}
		l.Note("thorough (i): all rules re-run on the CHA call graph: %d obligations, %d new failures", len(l2.Obs), n)
	}
	// (ii) architecture / tag independence of the loaded file set
	p386, err := chk.Load(repo, "", append(env, "GOARCH=386"))
	if err != nil {
		l.Undecide("thorough.reload-386", "", "thorough.reload-386", "", "loading with GOARCH=386 and without the verif tag failed: "+err.Error())
		return
	}
	if fmt.Sprint(p386.Files) != fmt.Sprint(p.Files) {
		l.Undecide("thorough.reload-386", "", "thorough.reload-386", "", fmt.Sprintf("the set of analysed files depends on GOARCH / build tags: %v vs %v", p386.Files, p.Files))
	} else {
		l.Prove("thorough.reload-386", "", "thorough.reload-386", "", fmt.Sprintf("same %d source files with GOARCH=386 and without -tags verif", len(p.Files)))
	}
}
