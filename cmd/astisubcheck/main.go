// Command astisubcheck decides structural clauses of properties C01–C20 of go-astisub by
// static analysis of /repo's current working tree (see /verif/DESIGN.md).
package main

import (
	"flag"
	"fmt"
	"os"
	"runtime/debug"
	"strconv"
	"time"

	"verif/internal/chk"
)

func main() {
	prop := flag.String("prop", "", "property id (C01..C20)")
	tier := flag.String("tier", "quick", "quick|thorough")
	repo := flag.String("repo", "/repo", "repository root")
	verif := flag.String("verif", "/verif", "verif root")
	dump := flag.String("dump", "", "debug: dump engine facts (effects|...) and exit")
	noev := flag.Bool("noevidence", false, "do not write the evidence file (used by the mutation self-test on scratch copies)")
	flag.Parse()
	if t := os.Getenv("VERIF_TIER"); t == "quick" || t == "thorough" {
		if !isFlagSet("tier") {
			*tier = t
		}
	}
	seed, _ := strconv.Atoi(os.Getenv("VERIF_SEED"))
	os.Unsetenv("GOWORK")
	chk.VerifDir = *verif
	start := time.Now()
	env := []string{"GOFLAGS=-mod=mod", "GOPROXY=off", "GOSUMDB=off", "GOTOOLCHAIN=local", "GOWORK=off"}

	code := 1
	func() {
		defer func() {
			if r := recover(); r != nil {
				fmt.Printf("UNDECIDED analysis panic: %v\n%s\n", r, debug.Stack())
				code = 1
			}
		}()
		p, err := chk.Load(*repo, "verif", env)
		if err != nil {
			fmt.Println("UNDECIDED load failure:", err)
			code = 1
			return
		}
		fmt.Printf("loaded %d packages, %d lib functions, %d cli functions, %d files in %.1fs\n", p.NumPkgs, len(p.LibFns), len(p.CLIFns), len(p.Files), time.Since(start).Seconds())
		if *dump != "" {
			chk.Dump(p, *dump)
			code = 0
			return
		}
		spec := chk.Spec(*prop)
		if spec == nil {
			fmt.Printf("UNDECIDED unknown property %q (have %v)\n", *prop, chk.AllProps())
			return
		}
		l, err := chk.NewLedger(*prop, *verif)
		if err != nil {
			fmt.Println("UNDECIDED ledger:", err)
			return
		}
		for _, r := range spec.Rules {
			r.Run(p, l, *tier)
		}
		l.NoEvidence = *noev
		code = l.Finish(p, *tier, seed, start, *verif, spec.Explanation, spec.Assumptions, nil)
	}()
	os.Exit(code)
}

func isFlagSet(name string) bool {
	set := false
	flag.Visit(func(f *flag.Flag) {
		if f.Name == name {
			set = true
		}
	})
	return set
}
