module positive

go 1.23
