// Package positive holds tiny examples every zero-expected rule of the checker must match on
// every run (a rule that silently stopped matching anything would otherwise pass forever).
package positive

import (
	"bufio"
	"io"
	"math/rand"
	"sort"
	"time"
)

var shared = map[string]int{}

var table = [4]int{1, 2, 3, 4}

// PosRawRead: one Read call is treated as one block.
func PosRawRead(r io.Reader) ([]byte, error) {
	b := make([]byte, 16)
	_, err := r.Read(b)
	return b, err
}

// PosGlobalWrite: memoising cache at package level.
func PosGlobalWrite(k string) int {
	if v, ok := shared[k]; ok {
		return v
	}
	shared[k] = len(k)
	table[0]++
	return len(k)
}

// PosGo: starts a goroutine.
func PosGo(f func()) {
	go f()
}

// PosClock: reads the wall clock and a random source.
func PosClock() int64 {
	return time.Now().UnixNano() + int64(rand.Intn(10))
}

// PosMapOrder: output follows map iteration order.
func PosMapOrder(m map[string]string) []string {
	var out []string
	for _, v := range m {
		out = append(out, v)
	}
	return out
}

// NegMapOrder: sorted before use (must NOT be flagged).
func NegMapOrder(m map[string]string) []string {
	var out []string
	for k := range m {
		out = append(out, k)
	}
	sort.Strings(out)
	return out
}

// PosPanic: explicit panic.
func PosPanic(i int) int {
	if i < 0 {
		panic("negative")
	}
	return i
}

// PosScannerNoErr: Scan loop without consulting Err.
func PosScannerNoErr(r io.Reader) (n int, err error) {
	sc := bufio.NewScanner(r)
	for sc.Scan() {
		n++
	}
	return
}

// PosMutatesArg: writes through its parameter.
func PosMutatesArg(p *struct{ A, B int }) {
	p.A = p.B
}

// PosManufacturedEOF: turns any error into a clean end of input.
func PosManufacturedEOF(r io.Reader) error {
	b := make([]byte, 4)
	n, err := io.ReadFull(r, b)
	if err != nil && n == 0 {
		err = io.EOF
	}
	return err
}
