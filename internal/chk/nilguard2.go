package chk

import (
	"go/constant"
	"go/token"
	"go/types"
	"strings"
	"sync"

	"golang.org/x/tools/go/ssa"
)

// nonNil decides whether v is known non-nil under fact set f.
func (a *NilAnalysis) nonNil(fn *ssa.Function, v ssa.Value, f nilFacts) bool {
	if constructorNonNil(v) {
		return true
	}
	if f != nil && f[a.key(v)] {
		return true
	}
	switch x := v.(type) {
	case *ssa.Const:
		return x.Value != nil
	case *ssa.Parameter:
		if isExportedEntry(fn) || isReflectionMethod(fn) {
			return true // P0
		}
		for k, p := range fn.Params {
			if p == x {
				return a.sum[fn].paramNonNil[k]
			}
		}
	case *ssa.Field:
		// field of an element of a package-level slice / array literal that is never written after init
		if a.globalLiteralElemFieldNonNil(x) {
			return true
		}
		// field of a struct value found in a map (comma-ok lookup known to have succeeded) whose
		// every literal of that struct type sets the field to a non-nil value
		if ex, ok := x.X.(*ssa.Extract); ok && ex.Index == 0 && f != nil && f["v:"+ex.Name()] {
			if lk, ok := ex.Tuple.(*ssa.Lookup); ok && lk.CommaOk && a.literalFieldNonNil(x.X.Type(), x.Field) {
				return true
			}
		}
		// field of a value of a private struct type that only ever exists as a literal (or a copy of one)
		if a.literalOnlyType(x.X.Type()) && a.literalFieldNonNil(x.X.Type(), x.Field) {
			return true
		}
	case *ssa.FreeVar:
		return true // address of the captured variable
	case *ssa.UnOp:
		if x.Op != token.MUL {
			return false
		}
		switch ad := x.X.(type) {
		case *ssa.FreeVar:
			// a variable of the enclosing function captured by this closure: non-nil when every value the enclosing
			// function stores into it is (a parameter handed a function literal at every call site, …)
			if par := fn.Parent(); par != nil {
				for k, fv := range fn.FreeVars {
					if fv != ad {
						continue
					}
					for _, pb := range par.Blocks {
						for _, pi := range pb.Instrs {
							mc, ok := pi.(*ssa.MakeClosure)
							if !ok || mc.Fn != ssa.Value(fn) || k >= len(mc.Bindings) {
								continue
							}
							cell, ok := mc.Bindings[k].(*ssa.Alloc)
							if !ok {
								return false
							}
							stores := 0
							for _, r := range *cell.Referrers() {
								switch y := r.(type) {
								case *ssa.Store:
									if y.Addr != ssa.Value(cell) || !a.nonNil(par, y.Val, a.at[y]) {
										return false
									}
									stores++
								case *ssa.MakeClosure:
									// other closures may assign it
									if inner, ok := y.Fn.(*ssa.Function); ok {
										for kk, b := range y.Bindings {
											if b == ssa.Value(cell) && kk < len(inner.FreeVars) && freeVarWritten(inner, inner.FreeVars[kk], 0) {
												return false
											}
										}
									}
								case *ssa.UnOp, *ssa.DebugRef:
								default:
									return false
								}
							}
							return stores > 0
						}
					}
				}
			}
			return false
		case *ssa.Global:
			return a.globN[ad.Name()]
		case *ssa.FieldAddr:
			// a local copy of a struct found in a map (v2, ok := m[k]; … v2.f): same as the Field case
			if al, ok := ad.X.(*ssa.Alloc); ok && f != nil {
				var whole *ssa.Store
				n := 0
				for _, ref := range *al.Referrers() {
					switch r := ref.(type) {
					case *ssa.Store:
						n++
						if r.Addr == ssa.Value(al) {
							whole = r
						}
					case *ssa.FieldAddr:
						for _, r2 := range *r.Referrers() {
							if s2, ok := r2.(*ssa.Store); ok && s2.Addr == ssa.Value(r) {
								n++ // a field of the copy is reassigned
							}
						}
					case *ssa.UnOp, *ssa.DebugRef:
					default:
						n += 2 // the address escapes
					}
				}
				if whole != nil && n == 1 && a.globalLiteralElemFieldNonNilOf(whole.Val, ad.Field) {
					return true // a copy of an element of a constant package-level table
				}
				if whole != nil && n == 1 {
					if ex, ok := whole.Val.(*ssa.Extract); ok && ex.Index == 0 && f["v:"+ex.Name()] {
						if lk, ok := ex.Tuple.(*ssa.Lookup); ok && lk.CommaOk && a.literalFieldNonNil(ex.Type(), ad.Field) {
							return true
						}
					}
				}
			}
			if al, ok := ad.X.(*ssa.Alloc); ok && a.literalOnlyType(al.Type().(*types.Pointer).Elem()) && a.literalFieldNonNil(al.Type().(*types.Pointer).Elem(), ad.Field) {
				// a copy of a value of a literal-only private struct type whose fields are not reassigned
				whole, n := 0, 0
				for _, ref := range *al.Referrers() {
					switch r := ref.(type) {
					case *ssa.Store:
						n++
						if r.Addr == ssa.Value(al) {
							whole++
						}
					case *ssa.FieldAddr:
						for _, r2 := range *r.Referrers() {
							switch r2.(type) {
							case *ssa.UnOp, *ssa.DebugRef:
							default:
								n += 2
							}
						}
					case *ssa.UnOp, *ssa.DebugRef:
					default:
						n += 2
					}
				}
				if whole == n && n >= 1 {
					return true
				}
			}
			st := ad.X.Type().Underlying().(*types.Pointer).Elem()
			if nt, ok := st.(*types.Named); ok {
				fk := nt.Obj().Name() + "." + fieldName(ad.X.Type(), ad.Field)
				if a.ctorF[fk] && nt.Obj().Pkg() != nil && nt.Obj().Pkg().Path() == LibPath {
					return true
				}
				if _, ok := extFieldNonNil[fk]; ok && nt.Obj().Pkg() != nil && nt.Obj().Pkg().Path() != LibPath {
					return true
				}
			}
		case *ssa.IndexAddr:
			// element of a slice/array of pointers: non-nil by the producer rule (O2) / P1
			if isElemContainer(ad.X.Type()) && !elemIsPtrToBasic(ad.X.Type()) {
				return true
			}
		}
	case *ssa.Extract:
		switch t := x.Tuple.(type) {
		case *ssa.Next:
			// range value over a map/slice of pointers: producer rule; keys are not pointers here
			return x.Index == 2 || x.Index == 1
		case *ssa.Call:
			return a.callResultNonNil(fn, t, x.Index)
		}
	case *ssa.Call:
		return a.callResultNonNil(fn, x, 0)
	case *ssa.ChangeType:
		return a.nonNil(fn, x.X, f)
	case *ssa.Convert:
		return a.nonNil(fn, x.X, f)
	case *ssa.Lookup:
		// m[k] where k is the key variable of an enclosing range over the same map, or the ID of a
		// value ranged from the same map (P1: keys equal IDs)
		return a.lookupKeyPresent(x)
	case *ssa.TypeAssert:
		return false
	case *ssa.Slice:
		return true
	}
	return false
}

func isElemContainer(t types.Type) bool {
	switch u := t.Underlying().(type) {
	case *types.Slice:
		return true
	case *types.Pointer:
		_, ok := u.Elem().Underlying().(*types.Array)
		return ok
	}
	return false
}

func isReflectionMethod(fn *ssa.Function) bool {
	n := FnName(fn)
	for _, r := range reflectionMethods {
		if r == n {
			return true
		}
	}
	return false
}

// lookupKeyPresent: see nonNil.
func (a *NilAnalysis) lookupKeyPresent(l *ssa.Lookup) bool {
	if _, ok := l.X.Type().Underlying().(*types.Map); !ok {
		return false
	}
	mk := a.key(l.X)
	// key is range key of same map
	rangeOfSameMap := func(v ssa.Value) bool {
		ex, ok := v.(*ssa.Extract)
		if !ok {
			return false
		}
		nx, ok := ex.Tuple.(*ssa.Next)
		if !ok {
			return false
		}
		r, ok := nx.Iter.(*ssa.Range)
		return ok && a.key(r.X) == mk
	}
	if ex, ok := l.Index.(*ssa.Extract); ok && ex.Index == 1 && rangeOfSameMap(ex) {
		return true
	}
	// key is an element of a slice that only ever received keys of this map ("sorted key set" idiom)
	if u, ok := l.Index.(*ssa.UnOp); ok && u.Op == token.MUL {
		if ia, ok := u.X.(*ssa.IndexAddr); ok && a.keySetOf(ia.X, l.X, mk, map[ssa.Value]bool{}) && !hasDelete(l.Parent()) {
			return true
		}
	}
	// key is <ranged value>.ID
	if u, ok := l.Index.(*ssa.UnOp); ok && u.Op == token.MUL {
		if fa, ok := u.X.(*ssa.FieldAddr); ok && fieldName(fa.X.Type(), fa.Field) == "ID" {
			if ex, ok := fa.X.(*ssa.Extract); ok && ex.Index == 2 && rangeOfSameMap(ex) {
				return true
			}
		}
	}
	return false
}

func (a *NilAnalysis) callResultNonNil(fn *ssa.Function, c *ssa.Call, idx int) bool {
	in, ext := a.p.Callees(fn, c)
	if len(in) == 0 && ext {
		return extNonNil[calleeName(&c.Call)]
	}
	if ext {
		return false
	}
	for _, callee := range in {
		s := a.sum[callee]
		if s == nil || idx >= len(s.retNonNil) || !s.retNonNil[idx] {
			return false
		}
	}
	return true
}

// callResultNonNilNoErr: result idx is non-nil whenever the error result is nil.
func (a *NilAnalysis) callResultNonNilNoErr(fn *ssa.Function, c *ssa.Call, idx int) bool {
	in, ext := a.p.Callees(fn, c)
	if len(in) == 0 && ext {
		return extNonNil[calleeName(&c.Call)]
	}
	if ext {
		return false
	}
	for _, callee := range in {
		s := a.sum[callee]
		if s == nil || idx >= len(s.retNonNilNoErr) || !s.retNonNilNoErr[idx] {
			return false
		}
	}
	return true
}

// callResultNonNilOk: result idx is non-nil whenever the last (bool) result is true.
func (a *NilAnalysis) callResultNonNilOk(fn *ssa.Function, c *ssa.Call, idx int) bool {
	in, ext := a.p.Callees(fn, c)
	if ext || len(in) == 0 {
		return false
	}
	for _, callee := range in {
		s := a.sum[callee]
		if s == nil || idx >= len(s.retNonNilOk) || !s.retNonNilOk[idx] {
			return false
		}
	}
	return true
}

// heldBy: the SSA value a local cell is known to hold ("H|loc|name" facts).
func heldValue(f nilFacts, loc string, fn *ssa.Function) string {
	pre := "H|" + loc + "|"
	for k := range f {
		if strings.HasPrefix(k, pre) {
			return k[len(pre):]
		}
	}
	return ""
}

// edgeFacts adds to f what the branch condition of pred implies on its succ-th edge.
func (a *NilAnalysis) edgeFacts(fn *ssa.Function, pred *ssa.BasicBlock, succ int, f nilFacts) {
	iff, ok := pred.Instrs[len(pred.Instrs)-1].(*ssa.If)
	if !ok {
		return
	}
	a.condFacts(fn, iff.Cond, succ == 0, f)
	a.condNumFacts(iff.Cond, succ == 0, f)
}

func (a *NilAnalysis) condFacts(fn *ssa.Function, cond ssa.Value, taken bool, f nilFacts) {
	// conditions nest (!, &&, || in value position); a phi that feeds itself through a loop must not be followed for ever
	if a.condDepth > 24 {
		return
	}
	a.condDepth++
	defer func() { a.condDepth-- }()
	switch c := cond.(type) {
	case *ssa.UnOp:
		if c.Op == token.NOT {
			a.condFacts(fn, c.X, !taken, f)
		}
	case *ssa.Phi:
		// a && b (taken) or a || b (not taken) in value position: the phi merges the constant that short-circuits
		// with the right operand; on this edge the value came from the right operand's block with that operand
		// deciding, and everything known at the end of that block still holds (nothing but the phi and the test
		// stand between)
		var rhs ssa.Value
		var from *ssa.BasicBlock
		n := 0
		for k, e := range c.Edges {
			if kc, ok := e.(*ssa.Const); ok && kc.Value != nil && kc.Value.Kind() == constant.Bool {
				if constant.BoolVal(kc.Value) == taken {
					return // the short-circuit constant itself can produce this outcome
				}
				continue
			}
			if taken && k < len(c.Block().Preds) && knownFalseAt(e, c.Block().Preds[k]) {
				continue // a flag that is false wherever this edge comes from (tested, or reset, on the way)
			}
			rhs, from = e, c.Block().Preds[k]
			n++
		}
		if n != 1 {
			return
		}
		quiet := true
		for _, ins := range c.Block().Instrs {
			switch ins.(type) {
			case *ssa.Phi, *ssa.BinOp, *ssa.UnOp, *ssa.If, *ssa.DebugRef:
			default:
				quiet = false
			}
		}
		if out := a.out[from]; out != nil && quiet {
			for k := range out {
				if !strings.HasPrefix(k, "N|") && !strings.HasPrefix(k, "NE|") {
					f[k] = true
				}
			}
		}
		a.condFacts(fn, rhs, taken, f)
	case *ssa.BinOp:
		if c.Op != token.EQL && c.Op != token.NEQ {
			return
		}
		// true == x, x != false, … (a tagless switch compares each case with the constant true)
		for _, pr := range [][2]ssa.Value{{c.X, c.Y}, {c.Y, c.X}} {
			if kc, ok := pr[0].(*ssa.Const); ok && kc.Value != nil && kc.Value.Kind() == constant.Bool {
				want := constant.BoolVal(kc.Value)
				if c.Op == token.NEQ {
					want = !want
				}
				if !taken {
					want = !want
				}
				a.condFacts(fn, pr[1], want, f)
				return
			}
		}
		var x ssa.Value
		if isNilConst(c.X) {
			x = c.Y
		} else if isNilConst(c.Y) {
			x = c.X
		} else {
			return
		}
		nonNilEdge := (c.Op == token.NEQ) == taken
		// resolve x to the SSA value a local cell holds (named results of functions with defer)
		var held ssa.Value
		if u, ok := x.(*ssa.UnOp); ok && u.Op == token.MUL {
			if al, ok := u.X.(*ssa.Alloc); ok {
				if name := heldValue(f, "a:"+al.Name(), fn); name != "" {
					held = valueByName(fn, name)
				}
			}
		}
		if nonNilEdge {
			f[a.key(x)] = true
			if held != nil {
				f[a.key(held)] = true
			}
			return
		}
		// x == nil on this edge: error-correlated siblings become non-nil
		for _, e := range []ssa.Value{x, held} {
			ex, ok := e.(*ssa.Extract)
			if !ok {
				continue
			}
			call, ok := ex.Tuple.(*ssa.Call)
			if !ok || errResultIndex(call.Call.Signature()) != ex.Index {
				continue
			}
			for _, ref := range *call.Referrers() {
				sib, ok := ref.(*ssa.Extract)
				if !ok || sib.Index == ex.Index || !isNilable(sib.Type()) {
					continue
				}
				if a.callResultNonNilNoErr(fn, call, sib.Index) {
					f["v:"+sib.Name()] = true
					// cells currently holding the sibling
					for k := range f {
						if strings.HasPrefix(k, "H|") && strings.HasSuffix(k, "|"+sib.Name()) {
							f[strings.Split(k, "|")[1]] = true
						}
					}
				}
			}
		}
	case *ssa.Extract:
		// comma-ok forms
		if !taken {
			return
		}
		if _, isCall := c.Tuple.(*ssa.Call); !isCall && c.Index != 1 {
			return
		}
		switch t := c.Tuple.(type) {
		case *ssa.Call:
			// v, ok := f(…): the results the callee only leaves nil when it answers false
			if c.Index != okResultIndex(t.Call.Signature()) {
				return
			}
			for _, ref := range *t.Referrers() {
				sib, ok := ref.(*ssa.Extract)
				if !ok || sib.Index == c.Index || !isNilable(sib.Type()) {
					continue
				}
				if a.callResultNonNilOk(fn, t, sib.Index) {
					f["v:"+sib.Name()] = true
				}
			}
		case *ssa.Lookup:
			if !t.CommaOk {
				return
			}
			for _, ref := range *t.Referrers() {
				if v, ok := ref.(*ssa.Extract); ok && v.Index == 0 {
					f["v:"+v.Name()] = true
				}
			}
			f[a.key(t.X)+"{"+idxKey(t.Index)+"}"] = true
		case *ssa.TypeAssert:
			if !t.CommaOk {
				return
			}
			// a successful assertion to a pointer type may still hold a typed nil: no fact
		}
	}
}

func valueByName(fn *ssa.Function, name string) ssa.Value {
	for _, b := range fn.Blocks {
		for _, ins := range b.Instrs {
			if v, ok := ins.(ssa.Value); ok && v.Name() == name {
				return v
			}
		}
	}
	return nil
}

func killBy(f nilFacts, pred func(k string) bool) {
	for k := range f {
		if strings.HasPrefix(k, "N|") || strings.HasPrefix(k, "NE|") {
			continue // numeric facts mention registers only
		}
		if strings.HasPrefix(k, "E|") {
			// "E|v:t3|K": dies when location K may be written
			parts := strings.SplitN(k, "|", 3)
			if pred(parts[2]) {
				delete(f, k)
			}
			continue
		}
		if strings.HasPrefix(k, "v:") || strings.HasPrefix(k, "p:") && !strings.ContainsAny(k, ".[{") {
			continue
		}
		if pred(k) {
			delete(f, k)
		}
	}
}

// killE removes register/location equalities whose location satisfies pred.
func killE(f nilFacts, pred func(K string) bool) {
	for k := range f {
		if strings.HasPrefix(k, "E|") {
			if parts := strings.SplitN(k, "|", 3); pred(parts[2]) {
				delete(f, k)
			}
		}
	}
}

func isLocKey(k string) bool {
	if strings.HasPrefix(k, "H|") {
		return true
	}
	if strings.HasPrefix(k, "a:") || strings.HasPrefix(k, "g:") || strings.HasPrefix(k, "fv:") || strings.HasPrefix(k, "dp:") {
		return true
	}
	return strings.ContainsAny(k, ".[{")
}

// transfer applies one instruction to the fact set.
func (a *NilAnalysis) transfer(fn *ssa.Function, ins ssa.Instruction, f nilFacts) {
	switch x := ins.(type) {
	case *ssa.Store:
		L := a.loc(x.Addr)
		// what a pointer parameter points to may be the very field, element or variable written here: equalities with
		// *p die at any store of a value of that type
		{
			want := typeStr(x.Val.Type())
			for k := range f {
				if strings.HasPrefix(k, "E|") {
					parts := strings.SplitN(k, "|", 3)
					if strings.HasPrefix(parts[2], "dp:") {
						if v := valueByName(fn, strings.TrimPrefix(parts[1], "v:")); v == nil || typeStr(v.Type()) == want {
							delete(f, k)
						}
					}
				}
			}
		}
		// register/location equalities of the written location die whatever the stored type
		switch ad := x.Addr.(type) {
		case *ssa.FieldAddr:
			suffix := "." + fieldName(ad.X.Type(), ad.Field)
			killE(f, func(K string) bool {
				return strings.HasSuffix(K, suffix) || strings.Contains(K, suffix+".") || strings.Contains(K, suffix+"[") || strings.Contains(K, suffix+"{")
			})
		case *ssa.IndexAddr:
			killE(f, func(K string) bool {
				return strings.HasSuffix(K, "]") || strings.Contains(K, "].") || strings.Contains(K, "][")
			})
		case *ssa.Alloc, *ssa.Global, *ssa.FreeVar:
			killE(f, func(K string) bool {
				return K == L || strings.HasPrefix(K, L+".") || strings.HasPrefix(K, L+"[") || strings.HasPrefix(K, L+"{")
			})
		default:
			// store through a computed pointer *T: only locations holding a T can change
			want := typeStr(x.Val.Type())
			for k := range f {
				if strings.HasPrefix(k, "E|") {
					parts := strings.SplitN(k, "|", 3)
					if v := valueByName(fn, strings.TrimPrefix(parts[1], "v:")); v == nil || typeStr(v.Type()) == want {
						delete(f, k)
					}
				}
			}
		}
		if L != "" {
			if _, isConst := x.Val.(*ssa.Const); !isConst {
				defer func() { f["E|"+a.regKey(x.Val)+"|"+L] = true }()
			}
		}
		if !isNilable(x.Val.Type()) {
			// whole-value store (struct / array copy): fields below the target change
			switch x.Val.Type().Underlying().(type) {
			case *types.Struct, *types.Array:
				base := L
				if base == "" {
					base = a.key(x.Addr)
				}
				killBy(f, func(k string) bool { return strings.HasPrefix(k, base+".") || strings.HasPrefix(k, base+"[") })
			}
			return
		}
		nn := a.nonNil(fn, x.Val, f)
		switch ad := x.Addr.(type) {
		case *ssa.FieldAddr:
			suffix := "." + fieldName(ad.X.Type(), ad.Field)
			if !nn {
				killBy(f, func(k string) bool { return strings.HasSuffix(k, suffix) })
			}
			killBy(f, func(k string) bool {
				return strings.Contains(k, suffix+".") || strings.Contains(k, suffix+"[") || strings.Contains(k, suffix+"{")
			})
		case *ssa.IndexAddr:
			killBy(f, func(k string) bool { return strings.HasSuffix(k, "]") || strings.Contains(k, "].") })
		case *ssa.Alloc:
			pre := "H|a:" + ad.Name() + "|"
			for k := range f {
				if strings.HasPrefix(k, pre) {
					delete(f, k)
				}
			}
			killBy(f, func(k string) bool {
				return strings.HasPrefix(k, L+".") || strings.HasPrefix(k, L+"[") || strings.HasPrefix(k, L+"{")
			})
			f[pre+x.Val.Name()] = true
		default:
			// store through an arbitrary pointer: any location of that type may change
			killBy(f, isLocKey)
		}
		if L != "" {
			if nn {
				f[L] = true
			} else {
				delete(f, L)
			}
		}
	case *ssa.MapUpdate:
		killBy(f, func(k string) bool { return strings.HasSuffix(k, "}") || strings.Contains(k, "}.") })
		if isNilable(x.Value.Type()) && a.nonNil(fn, x.Value, f) {
			f[a.key(x.Map)+"{"+idxKey(x.Key)+"}"] = true
		}
	case *ssa.UnOp:
		a.loadFact(x, f)
	case *ssa.Extract:
		if c, ok := x.Tuple.(*ssa.Call); ok {
			a.addRetFields(fn, c, x.Index, "v:"+x.Name(), f)
		}
	case ssa.CallInstruction:
		if _, isDefer := ins.(*ssa.Defer); isDefer {
			// the deferred function runs when the enclosing function returns: nothing it does happens here
			return
		}
		a.callKills(fn, x, f)
		if c, ok := ins.(*ssa.Call); ok && c.Call.Signature().Results().Len() == 1 {
			a.addRetFields(fn, c, 0, "v:"+c.Name(), f)
		}
	}
}

func (a *NilAnalysis) addRetFields(fn *ssa.Function, c *ssa.Call, idx int, base string, f nilFacts) {
	in, ext := a.p.Callees(fn, c)
	if ext || len(in) == 0 {
		return
	}
	var common strset
	for i, callee := range in {
		s := a.sum[callee]
		if s == nil || idx >= len(s.retFields) || s.retFields[idx] == nil {
			return
		}
		if i == 0 {
			common = strset{}
			common.addAll(s.retFields[idx])
		} else {
			for k := range common {
				if !s.retFields[idx][k] {
					delete(common, k)
				}
			}
		}
	}
	for suffix := range common {
		f[base+suffix] = true
	}
}

func (a *NilAnalysis) callKills(fn *ssa.Function, site ssa.CallInstruction, f nilFacts) {
	c := site.Common()
	if b, ok := c.Value.(*ssa.Builtin); ok {
		switch b.Name() {
		case "delete":
			killBy(f, func(k string) bool { return strings.HasSuffix(k, "}") || strings.Contains(k, "}.") })
		case "copy", "append":
			killBy(f, func(k string) bool { return strings.HasSuffix(k, "]") || strings.Contains(k, "].") })
		}
		return
	}
	// variables captured by closures may be written by any call
	for k := range f {
		if strings.HasPrefix(k, "a:") || strings.HasPrefix(k, "H|a:") {
			name := strings.SplitN(strings.TrimPrefix(strings.TrimPrefix(k, "H|"), "a:"), "|", 2)[0]
			name = strings.SplitN(name, ".", 2)[0]
			if v, ok := valueByName(fn, name).(*ssa.Alloc); ok && capturedByClosure(v) {
				delete(f, k)
			}
		}
	}
	in, ext := a.p.Callees(fn, site)
	keep := privateAllocs(fn)
	for _, callee := range in {
		sum := a.eff.Sum[callee]
		if sum == nil {
			continue
		}
		for _, ef := range sum.Effects {
			if loc, ok := a.derefOfActual(site, callee, ef); ok {
				if loc != "" {
					a.killLocP(loc, f, keep)
				}
				continue
			}
			a.killLocP(ef.Loc, f, keep)
			if strings.HasPrefix(ef.Loc, "deref(") {
				// a store through a pointer to a basic value: it may be the address of a field handed out somewhere
				t := strings.TrimSuffix(strings.TrimPrefix(ef.Loc, "deref("), ")")
				for suffix := range a.escapedFieldAddrs()[t] {
					sfx := suffix
					killBy(f, func(k string) bool {
						return strings.HasSuffix(k, sfx) || strings.Contains(k, sfx+".") || strings.Contains(k, sfx+"[") || strings.Contains(k, sfx+"{")
					})
				}
			}
		}
	}
	if ext {
		name := calleeName(c)
		ct, known := lookupContract(name)
		if name == "dynamic" || !known || len(ct.writes) > 0 || ct.ret == retUnknown {
			if name == "dynamic" || !known || ct.ret == retUnknown {
				killBy(f, func(k string) bool { return isLocKey(k) && !privateKey(k, keep) })
				return
			}
			// writes into one argument: locations below that argument change
			for _, w := range ct.writes {
				idx := w
				if c.IsInvoke() {
					idx = w // receiver excluded from Args already
				}
				if idx >= 0 && idx < len(c.Args) {
					base := a.key(c.Args[idx])
					if l := a.loc(c.Args[idx]); l != "" {
						base = l
					}
					killBy(f, func(k string) bool { return strings.HasPrefix(k, base) })
				}
			}
		}
	}
}

func (a *NilAnalysis) killLoc(loc string, f nilFacts) { a.killLocP(loc, f, nil) }

// killLocP: killLoc, except that locations inside the private local variables named in keep survive the
// "anything may have been written" cases (no callee can reach a variable whose address never leaves the function).
func (a *NilAnalysis) killLocP(loc string, f nilFacts, keep map[string]bool) {
	isLocKey := func(k string) bool { return isLocKey(k) && !privateKey(k, keep) }
	switch {
	case strings.HasPrefix(loc, "elem("), strings.HasPrefix(loc, "permute("):
		killBy(f, func(k string) bool { return strings.HasSuffix(k, "]") || strings.Contains(k, "].") })
	case strings.HasPrefix(loc, "map("), strings.HasPrefix(loc, "mapdelete("), strings.HasPrefix(loc, "clear("):
		killBy(f, func(k string) bool { return strings.HasSuffix(k, "}") || strings.Contains(k, "}.") })
	case strings.HasPrefix(loc, "io("), strings.HasPrefix(loc, "ext("):
	case strings.HasPrefix(loc, "deref("):
		t := strings.TrimSuffix(strings.TrimPrefix(loc, "deref("), ")")
		switch t {
		case "int", "bool", "string", "float64", "uint8", "uint32", "int64", "byte":
		default:
			killBy(f, isLocKey)
		}
	case strings.HasPrefix(loc, "extwrite("), strings.HasPrefix(loc, "unknown-callee("), strings.HasPrefix(loc, "callback("), strings.HasPrefix(loc, "var("):
		killBy(f, isLocKey)
	default:
		// "T.f"
		if i := strings.LastIndex(loc, "."); i >= 0 {
			suffix := loc[i:]
			killBy(f, func(k string) bool {
				return strings.HasSuffix(k, suffix) || strings.Contains(k, suffix+".") || strings.Contains(k, suffix+"[") || strings.Contains(k, suffix+"{")
			})
		}
	}
}

// capturedByClosure: some closure capturing the variable may assign it (a closure that only reads
// the captured variable cannot invalidate what is known about it).
func capturedByClosure(al *ssa.Alloc) bool {
	for _, ref := range *al.Referrers() {
		mc, ok := ref.(*ssa.MakeClosure)
		if !ok {
			continue
		}
		fn := mc.Fn.(*ssa.Function)
		for k, b := range mc.Bindings {
			if b != ssa.Value(al) || k >= len(fn.FreeVars) {
				continue
			}
			if freeVarWritten(fn, fn.FreeVars[k], 0) {
				return true
			}
		}
	}
	return false
}

func freeVarWritten(fn *ssa.Function, fv *ssa.FreeVar, depth int) bool {
	if depth > 3 {
		return true
	}
	for _, ref := range *fv.Referrers() {
		switch r := ref.(type) {
		case *ssa.Store:
			if r.Addr == ssa.Value(fv) {
				return true
			}
		case *ssa.MakeClosure:
			inner := r.Fn.(*ssa.Function)
			for k, b := range r.Bindings {
				if b == ssa.Value(fv) && k < len(inner.FreeVars) && freeVarWritten(inner, inner.FreeVars[k], depth+1) {
					return true
				}
			}
		case *ssa.UnOp, *ssa.DebugRef:
		default:
			return true // address escapes some other way
		}
	}
	return false
}

func hasDelete(fn *ssa.Function) bool {
	for _, b := range fn.Blocks {
		for _, ins := range b.Instrs {
			if c, ok := ins.(*ssa.Call); ok {
				if bi, ok := c.Call.Value.(*ssa.Builtin); ok && (bi.Name() == "delete" || bi.Name() == "clear") {
					return true
				}
			}
		}
	}
	return false
}

// keySetOf: every element the slice value v can hold is a key present in the map m (key mk).
func (a *NilAnalysis) keySetOf(v ssa.Value, m ssa.Value, mk string, seen map[ssa.Value]bool) bool {
	if seen[v] {
		return true
	}
	seen[v] = true
	switch x := v.(type) {
	case *ssa.Const:
		return x.Value == nil
	case *ssa.Phi:
		for _, e := range x.Edges {
			if !a.keySetOf(e, m, mk, seen) {
				return false
			}
		}
		return true
	case *ssa.Slice:
		if al, ok := x.X.(*ssa.Alloc); ok {
			// the temporary array of an append(x, e1, e2...) call, or an empty literal
			if at, ok := al.Type().(*types.Pointer).Elem().Underlying().(*types.Array); ok && at.Len() == 0 {
				return true
			}
			n := 0
			for _, ref := range *al.Referrers() {
				ia, ok := ref.(*ssa.IndexAddr)
				if !ok {
					continue
				}
				for _, r2 := range *ia.Referrers() {
					if st, ok := r2.(*ssa.Store); ok {
						n++
						if !a.isKeyOf(st.Val, st, mk) {
							return false
						}
					}
				}
			}
			return n > 0
		}
		return a.keySetOf(x.X, m, mk, seen)
	case *ssa.Call:
		if b, ok := x.Call.Value.(*ssa.Builtin); ok && b.Name() == "append" {
			return a.keySetOf(x.Call.Args[0], m, mk, seen) && a.keySetOf(x.Call.Args[1], m, mk, seen)
		}
	case *ssa.ChangeType:
		return a.keySetOf(x.X, m, mk, seen)
	case *ssa.MakeSlice:
		// make([]K, 0, n): no element yet, whatever the capacity
		if c, ok := constInt(x.Len); ok && c == 0 {
			return true
		}
	}
	return false
}

// isKeyOf: e is a key present in the map with key mk at the point of instruction at.
func (a *NilAnalysis) isKeyOf(e ssa.Value, at ssa.Instruction, mk string) bool {
	rangeOf := func(v ssa.Value, idx int) bool {
		ex, ok := v.(*ssa.Extract)
		if !ok || ex.Index != idx {
			return false
		}
		nx, ok := ex.Tuple.(*ssa.Next)
		if !ok {
			return false
		}
		r, ok := nx.Iter.(*ssa.Range)
		return ok && a.key(r.X) == mk
	}
	if rangeOf(e, 1) {
		return true
	}
	if u, ok := e.(*ssa.UnOp); ok && u.Op == token.MUL {
		if fa, ok := u.X.(*ssa.FieldAddr); ok && fieldName(fa.X.Type(), fa.Field) == "ID" && rangeOf(fa.X, 2) {
			return true // P1: map keys equal the element's ID
		}
	}
	// inserted under the same key expression earlier in this block
	ek := a.key(e)
	for _, ins := range at.Block().Instrs {
		if ins == at {
			break
		}
		if mu, ok := ins.(*ssa.MapUpdate); ok && a.key(mu.Map) == mk && a.key(mu.Key) == ek {
			return true
		}
	}
	return false
}

// literalFieldNonNil: every value of struct type st built anywhere in the library is a composite
// literal (an Alloc) whose field #idx is stored a non-nil value in the allocating block, and no
// other store to that field of an st object exists.  Restricted to unnamed struct types and
// unexported struct types of the library (nothing outside can build one).
func (a *NilAnalysis) literalFieldNonNil(t types.Type, idx int) bool {
	st, ok := t.Underlying().(*types.Struct)
	if !ok || idx >= st.NumFields() {
		return false
	}
	if nt, ok := t.(*types.Named); ok && (nt.Obj().Exported() || nt.Obj().Pkg() == nil || nt.Obj().Pkg().Path() != LibPath) {
		return false
	}
	key := typeStr(t) + "#" + itoa(idx)
	if a.litF == nil {
		a.litF = map[string]bool{}
	}
	if r, ok := a.litF[key]; ok {
		return r
	}
	a.litF[key] = false
	allocs := 0
	fns := append([]*ssa.Function{}, a.p.LibFns...)
	for _, fn := range fns {
		for _, b := range fn.Blocks {
			for _, ins := range b.Instrs {
				switch x := ins.(type) {
				case *ssa.MakeSlice:
					if sl, ok := x.Type().Underlying().(*types.Slice); ok && types.Identical(sl.Elem(), t) {
						return false // zero-valued elements
					}
				case *ssa.Alloc:
					if at, ok := x.Type().(*types.Pointer).Elem().Underlying().(*types.Array); ok && types.Identical(at.Elem(), t) {
						// a literal table: every row stores a non-nil value into the field
						rows := map[int64]bool{}
						for _, ref := range *x.Referrers() {
							ia, ok := ref.(*ssa.IndexAddr)
							if !ok {
								continue
							}
							k, isC := ia.Index.(*ssa.Const)
							if !isC || k.Value == nil {
								return false
							}
							for _, r1 := range *ia.Referrers() {
								if s1, ok := r1.(*ssa.Store); ok && s1.Addr == ssa.Value(ia) {
									rows[k.Int64()] = true // a whole value of the type, judged where it is built
									continue
								}
								fa, ok := r1.(*ssa.FieldAddr)
								if !ok || fa.Field != idx {
									continue
								}
								for _, r2 := range *fa.Referrers() {
									s2, ok := r2.(*ssa.Store)
									if !ok || s2.Addr != ssa.Value(fa) {
										continue
									}
									if s2.Block() != b || !a.nonNil(fn, s2.Val, a.at[s2]) {
										return false
									}
									rows[k.Int64()] = true
								}
							}
						}
						if int64(len(rows)) != at.Len() {
							return false
						}
						allocs++
						continue
					}
					if !types.Identical(x.Type().(*types.Pointer).Elem(), t) {
						continue
					}
					// a local that only receives whole values is a copy, not a literal
					isCopy, hasField := false, false
					for _, ref := range *x.Referrers() {
						if s0, ok := ref.(*ssa.Store); ok && s0.Addr == ssa.Value(x) {
							isCopy = true
						}
						if fa, ok := ref.(*ssa.FieldAddr); ok {
							for _, r2 := range *fa.Referrers() {
								if s2, ok := r2.(*ssa.Store); ok && s2.Addr == ssa.Value(fa) {
									hasField = true
								}
							}
						}
					}
					if isCopy && !hasField {
						continue
					}
					allocs++
					set := false
					for _, ref := range *x.Referrers() {
						fa, ok := ref.(*ssa.FieldAddr)
						if !ok || fa.Field != idx {
							continue
						}
						for _, r2 := range *fa.Referrers() {
							s2, ok := r2.(*ssa.Store)
							if !ok || s2.Addr != ssa.Value(fa) {
								continue
							}
							if s2.Block() != b || !a.nonNil(fn, s2.Val, a.at[s2]) {
								return false
							}
							set = true
						}
					}
					if !set {
						return false
					}
				case *ssa.Store:
					fa, ok := x.Addr.(*ssa.FieldAddr)
					if !ok || fa.Field != idx {
						continue
					}
					pt, ok := fa.X.Type().Underlying().(*types.Pointer)
					if !ok || !types.Identical(pt.Elem(), t) {
						continue
					}
					if _, own := fa.X.(*ssa.Alloc); own {
						continue // judged with its Alloc
					}
					if ia, ok := fa.X.(*ssa.IndexAddr); ok {
						if al, own := ia.X.(*ssa.Alloc); own {
							if _, isArr := al.Type().(*types.Pointer).Elem().Underlying().(*types.Array); isArr {
								continue // judged with its table
							}
						}
					}
					if !a.nonNil(fn, x.Val, a.at[x]) {
						return false
					}
				}
			}
		}
	}
	a.litF[key] = allocs > 0
	return allocs > 0
}

// globalLiteralElemFieldNonNil: x is field #f of an element of a package-level slice or array that
// is initialised once, in init, from a literal whose every element stores a non-nil value into
// field #f, and that nothing outside init writes (the effect summaries are consulted).
func (a *NilAnalysis) globalLiteralElemFieldNonNil(x *ssa.Field) bool {
	return a.globalLiteralElemFieldNonNilOf(x.X, x.Field)
}

func (a *NilAnalysis) globalLiteralElemFieldNonNilOf(val ssa.Value, field int) bool {
	u, ok := val.(*ssa.UnOp)
	if !ok || u.Op != token.MUL {
		return false
	}
	ia, ok := u.X.(*ssa.IndexAddr)
	if !ok {
		return false
	}
	var gl *ssa.Global
	switch b := ia.X.(type) {
	case *ssa.Global:
		gl = b
	case *ssa.UnOp:
		gl, _ = b.X.(*ssa.Global)
	}
	if gl == nil || gl.Pkg == nil {
		return false
	}
	key := "glit:" + gl.Name() + "#" + itoa(field)
	if a.litF == nil {
		a.litF = map[string]bool{}
	}
	if r, ok := a.litF[key]; ok {
		return r
	}
	a.litF[key] = false
	for _, fn := range a.p.LibFns {
		if FnName(fn) == "init" {
			continue
		}
		if sum := a.eff.Sum[fn]; sum != nil {
			for _, ef := range sum.Effects {
				if rootBase(ef.Root) == "G:"+globalName(gl) {
					return false
				}
			}
		}
	}
	init := gl.Pkg.Func("init")
	if init == nil {
		return false
	}
	// the backing array of the literal
	var backing ssa.Value = gl
	n := int64(-1)
	if at, ok := gl.Type().(*types.Pointer).Elem().Underlying().(*types.Array); ok {
		n = at.Len()
	} else {
		stores := 0
		for _, b := range init.Blocks {
			for _, ins := range b.Instrs {
				st, ok := ins.(*ssa.Store)
				if !ok || st.Addr != ssa.Value(gl) {
					continue
				}
				stores++
				if sl, ok := st.Val.(*ssa.Slice); ok && sl.Low == nil && sl.High == nil {
					if al, ok := sl.X.(*ssa.Alloc); ok {
						if at, ok := al.Type().(*types.Pointer).Elem().Underlying().(*types.Array); ok {
							backing, n = al, at.Len()
						}
					}
				}
			}
		}
		if stores != 1 {
			return false
		}
	}
	if n <= 0 {
		return false
	}
	set := map[int64]bool{}
	for _, b := range init.Blocks {
		for _, ins := range b.Instrs {
			st, ok := ins.(*ssa.Store)
			if !ok {
				continue
			}
			fa, ok := st.Addr.(*ssa.FieldAddr)
			if !ok || fa.Field != field {
				continue
			}
			ea, ok := fa.X.(*ssa.IndexAddr)
			if !ok || ea.X != backing {
				continue
			}
			i, ok := constInt(ea.Index)
			if !ok {
				return false
			}
			switch v := st.Val.(type) {
			case *ssa.Function, *ssa.MakeClosure:
			default:
				if !constructorNonNil(v) && !a.nonNil(init, v, nil) {
					return false
				}
			}
			set[i] = true
		}
	}
	if int64(len(set)) != n {
		return false
	}
	a.litF[key] = true
	return true
}

// privateKey: the location key is a private local variable itself, or a field held directly in a private local
// struct variable (a:t0.Lines: the slice header, not the elements behind it; nothing reached through a pointer).
func privateKey(k string, keep map[string]bool) bool {
	if len(keep) == 0 {
		return false
	}
	k = strings.TrimPrefix(k, "H|")
	if i := strings.Index(k, "|"); i >= 0 {
		k = k[:i]
	}
	if !(strings.HasPrefix(k, "a:") || strings.HasPrefix(k, "v:")) || strings.ContainsAny(k, "[{*") {
		return false
	}
	parts := strings.Split(k[2:], ".")
	switch len(parts) {
	case 1:
		_, ok := keep[parts[0]]
		return ok
	case 2:
		return keep[parts[0]] // true only for struct-typed variables
	}
	return false
}

var privateAllocsCache sync.Map // *ssa.Function -> map[string]bool

// privateAllocs: names of the local variables of fn whose address (and the address of every part of them) is only
// used to load from and store to: no call, closure, interface, stored pointer or return value can reach them.
func privateAllocs(fn *ssa.Function) map[string]bool {
	if v, ok := privateAllocsCache.Load(fn); ok {
		return v.(map[string]bool)
	}
	out := map[string]bool{}
	var private func(addr ssa.Value, depth int) bool
	private = func(addr ssa.Value, depth int) bool {
		refs := addr.Referrers()
		if refs == nil || depth > 4 {
			return false
		}
		for _, r := range *refs {
			switch y := r.(type) {
			case *ssa.DebugRef:
			case *ssa.UnOp:
				if y.Op != token.MUL {
					return false
				}
			case *ssa.Store:
				if y.Addr != addr {
					return false // the address itself is stored somewhere
				}
			case *ssa.FieldAddr:
				if !private(y, depth+1) {
					return false
				}
			case *ssa.IndexAddr:
				if y.X != addr || !private(y, depth+1) {
					return false
				}
			default:
				return false
			}
		}
		return true
	}
	count := map[string]int{}
	for _, b := range fn.Blocks {
		for _, ins := range b.Instrs {
			if al, ok := ins.(*ssa.Alloc); ok {
				count[al.Name()]++
				if private(al, 0) {
					_, isStruct := al.Type().Underlying().(*types.Pointer).Elem().Underlying().(*types.Struct)
					out[al.Name()] = isStruct
				}
			}
		}
	}
	privateAllocsCache.Store(fn, out)
	return out
}

// literalOnlyType: the private struct type t appears in the library only as itself, behind a pointer, or as the element of
// a slice or array (judged row by row in literalFieldNonNil): it is never a struct field, a map value, a channel element or
// the type of a package-level variable, so no zero value of it can be met.
func (a *NilAnalysis) literalOnlyType(t types.Type) bool {
	if nt, ok := t.(*types.Named); ok {
		if nt.Obj().Exported() || nt.Obj().Pkg() == nil || nt.Obj().Pkg().Path() != LibPath {
			return false
		}
	} else if _, ok := t.(*types.Struct); !ok {
		return false
	}
	if _, ok := t.Underlying().(*types.Struct); !ok {
		return false
	}
	key := "only:" + typeStr(t)
	if a.litF == nil {
		a.litF = map[string]bool{}
	}
	if r, ok := a.litF[key]; ok {
		return r
	}
	a.litF[key] = false
	namedSeen := map[*types.TypeName][2]bool{}
	var mentions func(u types.Type, depth int) (bool, bool) // (mentions t, in an allowed position only)
	mentions = func(u types.Type, depth int) (bool, bool) {
		if depth > 40 {
			return true, false
		}
		switch w := u.(type) {
		case *types.Named:
			if types.Identical(w, t) {
				return true, true
			}
			if w.Obj().Pkg() == nil || w.Obj().Pkg().Path() != LibPath {
				return false, true
			}
			if r, ok := namedSeen[w.Obj()]; ok {
				return r[0], r[1] // a recursive type: answered by the outer visit
			}
			namedSeen[w.Obj()] = [2]bool{false, true}
			m, okp := mentions(w.Underlying(), depth+1)
			namedSeen[w.Obj()] = [2]bool{m, okp}
			return m, okp
		case *types.Pointer:
			return mentions(w.Elem(), depth+1)
		case *types.Slice:
			return mentions(w.Elem(), depth+1)
		case *types.Array:
			return mentions(w.Elem(), depth+1)
		case *types.Struct:
			if types.Identical(w, t) {
				return true, true
			}
			for i := 0; i < w.NumFields(); i++ {
				if m, _ := mentions(w.Field(i).Type(), depth+1); m {
					return true, false
				}
			}
		case *types.Map:
			if m, _ := mentions(w.Elem(), depth+1); m {
				return true, false
			}
			if m, _ := mentions(w.Key(), depth+1); m {
				return true, false
			}
		case *types.Chan:
			if m, _ := mentions(w.Elem(), depth+1); m {
				return true, false
			}
		case *types.Tuple:
			for i := 0; i < w.Len(); i++ {
				if m, okp := mentions(w.At(i).Type(), depth+1); m && !okp {
					return true, false
				}
			}
		case *types.Signature:
			return false, true
		}
		return false, true
	}
	if a.p.LibSSA != nil {
		for _, m := range a.p.LibSSA.Members {
			switch g := m.(type) {
			case *ssa.Global:
				if mt, _ := mentions(g.Type().(*types.Pointer).Elem(), 0); mt {
					if _, isSl := g.Type().(*types.Pointer).Elem().Underlying().(*types.Slice); !isSl {
						return false
					}
				}
			case *ssa.Type:
				if types.Identical(g.Type(), t) {
					continue
				}
				if mt, okp := mentions(g.Type().Underlying(), 0); mt && !okp {
					return false
				}
				if st, ok := g.Type().Underlying().(*types.Struct); ok {
					for i := 0; i < st.NumFields(); i++ {
						if mt, _ := mentions(st.Field(i).Type(), 0); mt {
							return false
						}
					}
				}
			}
		}
	}
	for _, fn := range a.p.LibFns {
		for _, b := range fn.Blocks {
			for _, ins := range b.Instrs {
				v, ok := ins.(ssa.Value)
				if !ok {
					continue
				}
				if mt, okp := mentions(v.Type(), 0); mt && !okp {
					return false
				}
				if al, ok := v.(*ssa.Alloc); ok && al.Heap {
					// new(T) or an escaping zero value is judged by literalFieldNonNil (no field store -> rejected)
					_ = al
				}
			}
		}
	}
	a.litF[key] = true
	return true
}

// derefOfActual: the effect is a store through the pointer parameter itself (*p = …) and the actual at this site is the
// address of a field (&x.f): the location written is exactly that field.  Returns the location to kill ("" when the
// actual is the address of a local variable, whose facts are keyed by the variable and killed here).
func (a *NilAnalysis) derefOfActual(site ssa.CallInstruction, callee *ssa.Function, ef *Effect) (string, bool) {
	if !strings.HasPrefix(ef.Loc, "deref(") || len(ef.Root) < 2 || ef.Root[0] != 'P' {
		return "", false
	}
	k := 0
	for _, ch := range ef.Root[1:] {
		if ch < '0' || ch > '9' {
			return "", false // reached through the parameter, not the parameter itself
		}
		k = k*10 + int(ch-'0')
	}
	c := site.Common()
	var actuals []ssa.Value
	if c.IsInvoke() {
		actuals = append([]ssa.Value{c.Value}, c.Args...)
	} else {
		actuals = c.Args
	}
	if k >= len(actuals) || k >= len(callee.Params) {
		return "", false
	}
	fa, ok := actuals[k].(*ssa.FieldAddr)
	if !ok {
		return "", false
	}
	pt, ok := fa.X.Type().Underlying().(*types.Pointer)
	if !ok {
		return "", false
	}
	nt, ok := pt.Elem().(*types.Named)
	if !ok {
		return "", false
	}
	return nt.Obj().Name() + "." + fieldName(fa.X.Type(), fa.Field), true
}

// escapedFieldAddrs: per basic type name, the ".field" suffixes of the struct fields of the library whose address is used
// for anything but loading, storing and selecting a part: a store through a plain pointer of that type may reach them.
func (a *NilAnalysis) escapedFieldAddrs() map[string]map[string]bool {
	if a.escF != nil {
		return a.escF
	}
	out := map[string]map[string]bool{}
	var escapes func(addr ssa.Value, depth int) bool
	escapes = func(addr ssa.Value, depth int) bool {
		refs := addr.Referrers()
		if refs == nil || depth > 4 {
			return true
		}
		for _, r := range *refs {
			switch y := r.(type) {
			case *ssa.DebugRef, *ssa.UnOp:
			case *ssa.Store:
				if y.Addr != addr {
					return true
				}
			case *ssa.FieldAddr:
				// a part of the field: judged on its own
			case *ssa.IndexAddr:
				if escapes(y, depth+1) {
					return true
				}
			default:
				return true
			}
		}
		return false
	}
	for _, fn := range a.p.LibFns {
		for _, b := range fn.Blocks {
			for _, ins := range b.Instrs {
				fa, ok := ins.(*ssa.FieldAddr)
				if !ok || !escapes(fa, 0) {
					continue
				}
				t := typeStr(fa.Type().Underlying().(*types.Pointer).Elem())
				if out[t] == nil {
					out[t] = map[string]bool{}
				}
				out[t]["."+fieldName(fa.X.Type(), fa.Field)] = true
			}
		}
	}
	a.escF = out
	return out
}

// elemIsPtrToBasic: a slice or array of pointers to a basic type ([]*string: optional values kept in a list, such
// as a stack of colours that may be absent).  Nothing is assumed about the elements of such a container, and the
// producer rule asks nothing of what is stored into it; its elements are nil-checked like any other nilable value.
func elemIsPtrToBasic(t types.Type) bool {
	var el types.Type
	switch u := t.Underlying().(type) {
	case *types.Slice:
		el = u.Elem()
	case *types.Pointer:
		if arr, ok := u.Elem().Underlying().(*types.Array); ok {
			el = arr.Elem()
		}
	case *types.Array:
		el = u.Elem()
	}
	if el == nil {
		return false
	}
	pt, ok := el.Underlying().(*types.Pointer)
	if !ok {
		return false
	}
	_, basic := pt.Elem().Underlying().(*types.Basic)
	return basic
}
