package chk

import (
	"fmt"
	"go/token"
	"go/types"
	"strings"

	"golang.org/x/tools/go/ssa"
)

// E7 errflow: I/O errors reach the caller on every path (DESIGN.md §3 E7).

// ioErrorSources: external callees whose error result reports an I/O fault of the underlying
// stream / destination / file.
var ioErrorSources = map[string]bool{
	"invoke (io.Reader).Read": true, "invoke (io.Writer).Write": true,
	"io.ReadFull": true, "io.ReadAtLeast": true, "io.ReadAll": true, "io.Copy": true, "io.CopyN": true, "io.WriteString": true,
	"(*encoding/xml.Decoder).Decode": true, "(*encoding/xml.Decoder).DecodeElement": true, "(*encoding/xml.Decoder).Token": true,
	"(*encoding/xml.Decoder).RawToken": true, "(*encoding/xml.Decoder).Skip": true,
	"invoke (encoding/xml.TokenReader).Token": true,
	"(*encoding/xml.Encoder).Encode":          true, "(*encoding/xml.Encoder).EncodeElement": true, "(*encoding/xml.Encoder).EncodeToken": true,
	"(*encoding/xml.Encoder).Flush": true, "(*encoding/xml.Encoder).Close": true,
	"(*github.com/asticode/go-astits.Demuxer).NextData": true, "(*github.com/asticode/go-astits.Demuxer).NextPacket": true,
	"(*github.com/asticode/go-astits.Demuxer).Rewind": true,
	"os.Open": true, "os.Create": true, "os.OpenFile": true, "os.Rename": true, "os.CreateTemp": true, "os.WriteFile": true, "os.ReadFile": true,
	"(*bufio.Scanner).Err": true, "(*bufio.Writer).Flush": true, "(*bufio.Writer).Write": true, "(*bufio.Writer).WriteString": true,
	"(*bufio.Reader).Read": true, "(*bufio.Reader).ReadString": true, "(*bufio.Reader).ReadBytes": true, "(*bufio.Reader).ReadByte": true,
	"(*bufio.Reader).ReadRune": true, "(*bufio.Reader).ReadLine": true, "(*bufio.Reader).Peek": true,
	"(*os.File).Write": true, "(*os.File).Read": true, "(*os.File).WriteString": true, "(*os.File).Sync": true,
}

// allowed sentinel conversions: (function, source callee, sentinel variable) → reason
var sentinelConversions = map[string]string{
	"ReadFromSTL|readNBytes|io.EOF":                                 "end of the TTI block sequence",
	"readNBytes|io.ReadFull|io.EOF":                                 "clean end of input before a block: reported to the caller as io.EOF itself",
	"readNBytes|invoke (io.Reader).Read|io.EOF":                     "clean end of input before a block: reported to the caller as io.EOF itself",
	"TTMLInItems.UnmarshalXML|(*encoding/xml.Decoder).Token|io.EOF": "end of the in-memory <p> fragment",
	"ReadFromTeletext|(*github.com/asticode/go-astits.Demuxer).NextData|github.com/asticode/go-astits.ErrNoMorePackets": "end of the transport stream",
	"teletextPID|(*github.com/asticode/go-astits.Demuxer).NextData|github.com/asticode/go-astits.ErrNoMorePackets":      "end of stream before any PMT: converted to ErrNoValidTeletextPID (non-nil)",
}

func isErrorType(t types.Type) bool {
	nt, ok := t.(*types.Named)
	return ok && nt.Obj().Pkg() == nil && nt.Obj().Name() == "error"
}

// errResultIndex: index of the last result of type error, or -1.
func errResultIndex(sig *types.Signature) int {
	r := sig.Results()
	for i := r.Len() - 1; i >= 0; i-- {
		if isErrorType(r.At(i).Type()) {
			return i
		}
	}
	return -1
}

type errFlow struct {
	p       *Prog
	sources map[*ssa.Function]bool // in-package functions that return an I/O error
}

func newErrFlow(p *Prog) *errFlow {
	ef := &errFlow{p: p, sources: map[*ssa.Function]bool{}}
	fns := append(append([]*ssa.Function{}, p.LibFns...), p.CLIFns...)
	for changed := true; changed; {
		changed = false
		for _, fn := range fns {
			if ef.sources[fn] || errResultIndex(fn.Signature) < 0 {
				continue
			}
			for _, b := range fn.Blocks {
				for _, ins := range b.Instrs {
					site, ok := ins.(ssa.CallInstruction)
					if !ok {
						continue
					}
					if _, isDefer := ins.(*ssa.Defer); isDefer {
						continue
					}
					if ef.isSource(fn, site) != "" {
						ef.sources[fn] = true
						changed = true
					}
				}
			}
		}
	}
	return ef
}

// isSource returns the source name when site calls an I/O error source, else "".
func (ef *errFlow) isSource(fn *ssa.Function, site ssa.CallInstruction) string {
	c := site.Common()
	if errResultIndex(c.Signature()) < 0 {
		return ""
	}
	in, _ := ef.p.Callees(fn, site)
	for _, callee := range in {
		if ef.sources[callee] {
			return FnName(callee)
		}
	}
	name := calleeName(c)
	if ioErrorSources[name] {
		return name
	}
	return ""
}

// errValue finds the SSA value holding the error result of a call (nil when discarded).
func errValue(call *ssa.Call) ssa.Value {
	sig := call.Call.Signature()
	idx := errResultIndex(sig)
	if sig.Results().Len() == 1 {
		return call
	}
	for _, ref := range *call.Referrers() {
		if ex, ok := ref.(*ssa.Extract); ok && ex.Index == idx {
			return ex
		}
	}
	return nil
}

func isNilConst(v ssa.Value) bool {
	c, ok := v.(*ssa.Const)
	return ok && c.Value == nil
}

// nonNilError: v is provably a non-nil error, given that `known` values are non-nil.
func nonNilError(v ssa.Value, known map[ssa.Value]bool, depth int) bool {
	if depth > 8 {
		return false
	}
	if known[v] {
		return true
	}
	switch x := v.(type) {
	case *ssa.Call:
		if sc := x.Call.StaticCallee(); sc != nil {
			switch sc.String() {
			case "fmt.Errorf", "errors.New":
				return true
			}
		}
	case *ssa.MakeInterface:
		return true // a concrete value boxed into an error is a non-nil interface
	case *ssa.UnOp:
		if x.Op == token.MUL {
			if g, ok := x.X.(*ssa.Global); ok && isErrorType(g.Type().(*types.Pointer).Elem()) {
				return true // package-level sentinel error (initialised with errors.New, never reassigned: R5.2)
			}
		}
	case *ssa.Phi:
		for _, e := range x.Edges {
			if !nonNilError(e, known, depth+1) {
				return false
			}
		}
		return true
	}
	return false
}

// knownNonNilAt: values proven non-nil at block b by the dominating branch conditions
// (true edge of v != nil / false edge of v == nil, where the edge's target has a single predecessor).
func knownNonNilAt(b *ssa.BasicBlock) map[ssa.Value]bool {
	known := map[ssa.Value]bool{}
	for x := b; x != nil; x = x.Idom() {
		d := x.Idom()
		if d == nil || len(x.Preds) != 1 || x.Preds[0] != d {
			continue
		}
		iff, ok := d.Instrs[len(d.Instrs)-1].(*ssa.If)
		if !ok {
			continue
		}
		bo, ok := iff.Cond.(*ssa.BinOp)
		if !ok {
			continue
		}
		var v ssa.Value
		if isNilConst(bo.X) {
			v = bo.Y
		} else if isNilConst(bo.Y) {
			v = bo.X
		} else {
			continue
		}
		if (bo.Op == token.NEQ && d.Succs[0] == x) || (bo.Op == token.EQL && d.Succs[1] == x) {
			known[v] = true
			// a reload of the same named-result cell without an intervening store is the same value
		}
	}
	return known
}

// retErrOperand returns the error operand of a Return (resolving loads of named-result cells
// to the store that precedes the return in the same block, if any).
func retErrOperand(fn *ssa.Function, r *ssa.Return) ssa.Value {
	idx := errResultIndex(fn.Signature)
	if idx < 0 || idx >= len(r.Results) {
		return nil
	}
	v := r.Results[idx]
	if u, ok := v.(*ssa.UnOp); ok && u.Op == token.MUL {
		if a, ok := u.X.(*ssa.Alloc); ok {
			// last store to the cell in this block before the load
			var last ssa.Value
			for _, ins := range r.Block().Instrs {
				if ins == ssa.Instruction(u) {
					break
				}
				if st, ok := ins.(*ssa.Store); ok && st.Addr == ssa.Value(a) {
					last = st.Val
				}
			}
			if last != nil {
				return last
			}
		}
	}
	return v
}

// sentinelOf: cond compares e with a package-level error variable → its qualified name.
func sentinelOf(cond ssa.Value, e ssa.Value) (string, bool, bool) {
	b, ok := cond.(*ssa.BinOp)
	if !ok || (b.Op != token.EQL && b.Op != token.NEQ) {
		return "", false, false
	}
	other := b.Y
	if b.Y == e {
		other = b.X
	} else if b.X != e {
		return "", false, false
	}
	u, ok := other.(*ssa.UnOp)
	if !ok || u.Op != token.MUL {
		return "", false, false
	}
	g, ok := u.X.(*ssa.Global)
	if !ok {
		return "", false, false
	}
	return g.Pkg.Pkg.Path() + "." + g.Name(), b.Op == token.EQL, true
}

func shortSentinel(s string) string {
	if s == "io.EOF" {
		return s
	}
	return s
}

// checkSource decides R7.1 for one source call.
func (ef *errFlow) checkSource(l *Ledger, rule string, fn *ssa.Function, call *ssa.Call, src string) {
	p := ef.p
	fname := FnName(fn)
	key := l.Key(rule, fname, "source", src)
	pos := p.Pos(call.Pos())
	if errResultIndex(fn.Signature) < 0 {
		// the function cannot report: only package main may do this, and must die on error
		ef.checkFatal(l, rule, fn, call, src, key, pos)
		return
	}
	e := errValue(call)
	if e == nil {
		l.Fail(rule, fname, key, pos, fmt.Sprintf("%s: error result of %s is discarded", fname, src))
		return
	}
	// direct propagation: e flows into a Return operand / a named-result cell
	tested := false
	var problems []string
	for _, ref := range *e.Referrers() {
		switch r := ref.(type) {
		case *ssa.BinOp:
			if (r.Op == token.NEQ || r.Op == token.EQL) && (isNilConst(r.X) || isNilConst(r.Y)) {
				for _, u := range *r.Referrers() {
					iff, ok := u.(*ssa.If)
					if !ok {
						continue
					}
					tested = true
					nonNilSucc := iff.Block().Succs[0]
					if r.Op == token.EQL {
						nonNilSucc = iff.Block().Succs[1]
					}
					problems = append(problems, ef.exploreErrorRegion(fn, e, src, iff.Block(), nonNilSucc)...)
				}
			}
		case *ssa.Return:
			tested = true
		case *ssa.Store:
			if a, ok := r.Addr.(*ssa.Alloc); ok && isErrorType(a.Type().(*types.Pointer).Elem()) {
				// stored into a named result (function with defer): check the cell is not reset to nil
				// later and that a test of the reloaded value guards continued use
				tested = true
				problems = append(problems, ef.checkResultCell(fn, a, r, e, src)...)
			}
		case *ssa.Phi:
			// merged with other error values then returned/tested: accept when the phi reaches a Return
			for _, u := range *r.Referrers() {
				if _, ok := u.(*ssa.Return); ok {
					tested = true
				}
				if b2, ok := u.(*ssa.BinOp); ok && (isNilConst(b2.X) || isNilConst(b2.Y)) {
					tested = true
				}
			}
		}
	}
	if !tested {
		l.Fail(rule, fname, key, pos, fmt.Sprintf("%s: error of %s is neither tested against nil nor returned", fname, src))
		return
	}
	if len(problems) > 0 {
		l.Fail(rule, fname, key, pos, fmt.Sprintf("%s: error of %s does not reach the caller: %s", fname, src, strings.Join(dedupKeep(problems), "; ")))
		return
	}
	l.Prove(rule, fname, key, pos, "error of "+src+" is tested and every non-nil path returns a non-nil error (or takes a listed sentinel conversion)")
}

// exploreErrorRegion walks from the non-nil successor; every path must end in a Return with a
// provably non-nil error without rejoining the normal flow.
func (ef *errFlow) exploreErrorRegion(fn *ssa.Function, e ssa.Value, src string, from, start *ssa.BasicBlock) []string {
	p := ef.p
	var problems []string
	seen := map[*ssa.BasicBlock]bool{}
	var walk func(b *ssa.BasicBlock)
	var cameFrom *ssa.BasicBlock
	walk = func(b *ssa.BasicBlock) {
		pred := cameFrom
		if !start.Dominates(b) && pred != nil {
			// a shared exit: the block only merges the results and returns them. The error that
			// arrives from this path is the phi operand of the edge taken.
			if r, ok := returnOnlyTail(b); ok {
				v := retErrOperand(fn, r)
				if ph, isPhi := v.(*ssa.Phi); isPhi && ph.Block() == b {
					for j, pb := range b.Preds {
						if pb == pred {
							v = ph.Edges[j]
						}
					}
				}
				known := knownNonNilAt(pred)
				if len(start.Preds) == 1 {
					known[e] = true
				}
				if v == nil || !nonNilError(v, known, 0) {
					problems = append(problems, fmt.Sprintf("return at %s may carry a nil error on the failure path (arriving from %s)", p.Pos(r.Pos()), blockPos(p, pred)))
				}
				return
			}
		}
		if seen[b] {
			return
		}
		seen[b] = true
		if !start.Dominates(b) {
			problems = append(problems, fmt.Sprintf("after the non-nil test at %s control rejoins the normal flow at %s without returning (error swallowed)", blockPos(p, from), blockPos(p, b)))
			return
		}
		known := knownNonNilAt(b)
		if len(start.Preds) == 1 {
			known[e] = true
		}
		last := b.Instrs[len(b.Instrs)-1]
		switch t := last.(type) {
		case *ssa.Return:
			v := retErrOperand(fn, t)
			if v == nil || !nonNilError(v, known, 0) {
				if !ef.returnsStoredNonNil(fn, t, b, start, known) {
					problems = append(problems, fmt.Sprintf("return at %s may carry a nil error on the failure path", p.Pos(t.Pos())))
				}
			}
			return
		case *ssa.If:
			if name, eq, ok := sentinelOf(t.Cond, e); ok {
				k := FnName(fn) + "|" + src + "|" + name
				_, allowed := sentinelConversions[k]
				if !allowed && name == "io.EOF" {
					// the same conversion with another helper between this function and io.ReadFull: the helper
					// hands on the io.EOF of io.ReadFull (nothing read before a block) unchanged
					for k2 := range sentinelConversions {
						if strings.HasPrefix(k2, FnName(fn)+"|") && strings.HasSuffix(k2, "|io.EOF") && forwardsReadFullEOF(p.Fn(src), 0) {
							allowed = true
						}
					}
				}
				if allowed {
					// the sentinel edge is an accepted conversion; keep exploring the other edge
					cameFrom = b
					if eq {
						walk(b.Succs[1])
					} else {
						walk(b.Succs[0])
					}
					return
				}
			}
		case *ssa.Panic:
			return
		}
		// a call that never returns (log.Fatal*) ends the path
		for _, ins := range b.Instrs {
			if c, ok := ins.(*ssa.Call); ok {
				if sc := c.Call.StaticCallee(); sc != nil && strings.HasPrefix(sc.String(), "log.Fatal") {
					return
				}
			}
		}
		for _, s := range b.Succs {
			cameFrom = b
			walk(s)
		}
	}
	walk(start)
	return problems
}

// returnOnlyTail: b consists of phis and a return (nothing is computed after the merge).
func returnOnlyTail(b *ssa.BasicBlock) (*ssa.Return, bool) {
	for _, ins := range b.Instrs {
		switch x := ins.(type) {
		case *ssa.Phi, *ssa.DebugRef:
		case *ssa.Return:
			return x, true
		default:
			return nil, false
		}
	}
	return nil, false
}

// returnsStoredNonNil: the return reloads a named-result cell whose last store in the region is non-nil.
func (ef *errFlow) returnsStoredNonNil(fn *ssa.Function, r *ssa.Return, b, start *ssa.BasicBlock, known map[ssa.Value]bool) bool {
	idx := errResultIndex(fn.Signature)
	u, ok := r.Results[idx].(*ssa.UnOp)
	if !ok {
		return false
	}
	a, ok := u.X.(*ssa.Alloc)
	if !ok {
		return false
	}
	// every store to the cell inside the region must be non-nil, and at least one must dominate b,
	// or the cell already holds e (stored before the test)
	holdsE := false
	for _, ref := range *a.Referrers() {
		if st, ok := ref.(*ssa.Store); ok && known[st.Val] && st.Block().Dominates(start) {
			holdsE = true
		}
	}
	ok2 := holdsE
	for _, ref := range *a.Referrers() {
		st, isSt := ref.(*ssa.Store)
		if !isSt || !start.Dominates(st.Block()) {
			continue
		}
		if !nonNilError(st.Val, known, 0) {
			return false
		}
		if st.Block().Dominates(b) {
			ok2 = true
		}
	}
	return ok2
}

// checkResultCell: e was stored into named-result cell a (functions with defer).
func (ef *errFlow) checkResultCell(fn *ssa.Function, a *ssa.Alloc, st *ssa.Store, e ssa.Value, src string) []string {
	p := ef.p
	var problems []string
	// any reload of the cell that is tested against nil opens an error region like a direct test
	testedOrReturned := false
	for _, ref := range *a.Referrers() {
		u, ok := ref.(*ssa.UnOp)
		if !ok || u.Op != token.MUL {
			continue
		}
		if !instrReaches(st, u) {
			continue
		}
		for _, r2 := range *u.Referrers() {
			switch x := r2.(type) {
			case *ssa.Return:
				testedOrReturned = true
			case *ssa.BinOp:
				if (x.Op == token.NEQ || x.Op == token.EQL) && (isNilConst(x.X) || isNilConst(x.Y)) {
					for _, u2 := range *x.Referrers() {
						if iff, ok := u2.(*ssa.If); ok {
							testedOrReturned = true
							succ := iff.Block().Succs[0]
							if x.Op == token.EQL {
								succ = iff.Block().Succs[1]
							}
							problems = append(problems, ef.exploreErrorRegion(fn, u, src, iff.Block(), succ)...)
						}
					}
				}
			}
		}
	}
	if !testedOrReturned {
		problems = append(problems, "stored into the result variable but never tested or returned")
	}
	// the cell must not be overwritten with nil after the store
	for _, ref := range *a.Referrers() {
		if s2, ok := ref.(*ssa.Store); ok && s2 != st && isNilConst(s2.Val) && instrReaches(st, s2) {
			k := ""
			_ = k
			problems = append(problems, fmt.Sprintf("result variable reset to nil at %s after receiving the error", p.Pos(s2.Pos())))
		}
	}
	return problems
}

// instrReaches: b may execute after a.
func instrReaches(a, b ssa.Instruction) bool {
	if a.Block() == b.Block() {
		for _, ins := range a.Block().Instrs {
			if ins == a {
				return true
			}
			if ins == b {
				break
			}
		}
	}
	seen := map[*ssa.BasicBlock]bool{}
	work := append([]*ssa.BasicBlock{}, a.Block().Succs...)
	for len(work) > 0 {
		x := work[len(work)-1]
		work = work[:len(work)-1]
		if seen[x] {
			continue
		}
		seen[x] = true
		if x == b.Block() {
			return true
		}
		work = append(work, x.Succs...)
	}
	return false
}

func blockPos(p *Prog, b *ssa.BasicBlock) string {
	for _, ins := range b.Instrs {
		if ins.Pos().IsValid() {
			return p.Pos(ins.Pos())
		}
	}
	return fmt.Sprintf("block %d", b.Index)
}

// checkFatal: in package main an I/O error must lead to log.Fatal* on its non-nil edge.
func (ef *errFlow) checkFatal(l *Ledger, rule string, fn *ssa.Function, call *ssa.Call, src, key, pos string) {
	fname := FnName(fn)
	if fnPkg(fn) != ef.p.CLISSA {
		// a (deferred) closure of a function that returns an error: the error has to be stored into the captured
		// result of that function where it is not nil
		if fn.Parent() != nil && errResultIndex(fn.Parent().Signature) >= 0 {
			if e := errValue(call); e != nil {
				if where := storedIntoCapturedError(fn, e); where != "" {
					l.Prove(rule, fname, key, pos, "the error of "+src+" is stored into the error result the closure captures")
				} else {
					l.Fail(rule, fname, key, pos, fmt.Sprintf("%s (a closure of %s) calls %s and does not store its error into the error result of %s where it is not nil (a := inside the closure declares another variable): the failure is not reported", fname, FnName(fn.Parent()), src, FnName(fn.Parent())))
				}
				return
			}
		}
		l.Fail(rule, fname, key, pos, fmt.Sprintf("%s calls %s but cannot return an error", fname, src))
		return
	}
	e := errValue(call)
	if e == nil {
		l.Fail(rule, fname, key, pos, fmt.Sprintf("%s: error result of %s is discarded", fname, src))
		return
	}
	probs := ef.checkResultLike(fn, e, src)
	if len(probs) > 0 {
		l.Fail(rule, fname, key, pos, fname+": "+strings.Join(probs, "; "))
		return
	}
	l.Prove(rule, fname, key, pos, "error of "+src+" is tested and the non-nil edge ends in log.Fatal*")
}

func (ef *errFlow) checkResultLike(fn *ssa.Function, e ssa.Value, src string) []string {
	var problems []string
	tested := false
	visited := map[ssa.Value]bool{}
	var visit func(v ssa.Value)
	visit = func(v ssa.Value) {
		if visited[v] {
			return
		}
		visited[v] = true
		for _, ref := range *v.Referrers() {
			switch r := ref.(type) {
			case *ssa.BinOp:
				if (r.Op == token.NEQ || r.Op == token.EQL) && (isNilConst(r.X) || isNilConst(r.Y)) {
					for _, u := range *r.Referrers() {
						if iff, ok := u.(*ssa.If); ok {
							tested = true
							succ := iff.Block().Succs[0]
							if r.Op == token.EQL {
								succ = iff.Block().Succs[1]
							}
							problems = append(problems, ef.exploreErrorRegion(fn, v, src, iff.Block(), succ)...)
						}
					}
				}
			case *ssa.Store:
				if a, ok := r.Addr.(*ssa.Alloc); ok {
					for _, r2 := range *a.Referrers() {
						if u, ok := r2.(*ssa.UnOp); ok && instrReaches(r, u) {
							visit(u)
						}
					}
				}
			}
		}
	}
	visit(e)
	if !tested {
		problems = append(problems, "error of "+src+" is never tested")
	}
	return problems
}

// forwardsReadFullEOF: some return of library function f carries, unchanged, the error result of io.ReadFull (directly,
// or through another library function that does): its io.EOF means that the source ended before a block.
func forwardsReadFullEOF(f *ssa.Function, depth int) bool {
	if f == nil || len(f.Blocks) == 0 || depth > 3 {
		return false
	}
	ei := errResultIndex(f.Signature)
	if ei < 0 {
		return false
	}
	var from func(v ssa.Value, seen map[ssa.Value]bool) bool
	from = func(v ssa.Value, seen map[ssa.Value]bool) bool {
		if v == nil || seen[v] {
			return false
		}
		seen[v] = true
		switch x := v.(type) {
		case *ssa.Phi:
			for _, e := range x.Edges {
				if from(e, seen) {
					return true
				}
			}
		case *ssa.Extract:
			return from(x.Tuple, seen)
		case *ssa.UnOp:
			if al, ok := x.X.(*ssa.Alloc); ok && x.Op == token.MUL {
				for _, r := range *al.Referrers() {
					if st, ok := r.(*ssa.Store); ok && st.Addr == ssa.Value(al) && from(st.Val, seen) {
						return true
					}
				}
			}
		case *ssa.Call:
			if calleeName(&x.Call) == "io.ReadFull" {
				return true
			}
			if sc := x.Call.StaticCallee(); sc != nil && sc.Pkg == f.Pkg {
				return forwardsReadFullEOF(sc, depth+1)
			}
		}
		return false
	}
	for _, b := range f.Blocks {
		if r, ok := b.Instrs[len(b.Instrs)-1].(*ssa.Return); ok && ei < len(r.Results) {
			if from(r.Results[ei], map[ssa.Value]bool{}) {
				return true
			}
		}
	}
	return false
}

// storedIntoCapturedError: on the edge where e is not nil, the closure stores an error (e itself, or one built from it)
// into a captured variable of type error.  Returns the position of the store ("" when there is none).
func storedIntoCapturedError(fn *ssa.Function, e ssa.Value) string {
	// e may first be copied into a local of the closure
	same := map[ssa.Value]bool{e: true}
	for _, r := range *e.Referrers() {
		if st, ok := r.(*ssa.Store); ok && st.Val == e {
			if al, ok := st.Addr.(*ssa.Alloc); ok {
				for _, r2 := range *al.Referrers() {
					if u, ok := r2.(*ssa.UnOp); ok {
						same[u] = true
					}
				}
			}
		}
	}
	for _, b := range fn.Blocks {
		for _, ins := range b.Instrs {
			st, ok := ins.(*ssa.Store)
			if !ok {
				continue
			}
			fv, ok := st.Addr.(*ssa.FreeVar)
			if !ok || !isErrorType(fv.Type().Underlying().(*types.Pointer).Elem()) {
				continue
			}
			for _, dc := range dominatingConds(b) {
				bo, ok := dc.cond.(*ssa.BinOp)
				if !ok {
					continue
				}
				var tested ssa.Value
				if isNilConst(bo.Y) {
					tested = bo.X
				} else if isNilConst(bo.X) {
					tested = bo.Y
				}
				if tested == nil || !same[tested] {
					continue
				}
				if (bo.Op == token.NEQ) == dc.taken {
					return "stored"
				}
			}
		}
	}
	return ""
}
