package chk

import (
	"go/constant"
	"go/token"
	"go/types"

	"golang.org/x/tools/go/ssa"
)

// Partial evaluation of one function under "value v is the constant c".
//
// Extraction rules that ask "what does the decoder do for code c" used to look for a `switch v`
// with constant arms.  The same decision can be written as a lookup table, a range test, a boolean
// expression (started = v == 0xb) or a chain of ifs; all of them are covered by walking the
// control-flow graph from the definition of v with v fixed: every branch whose condition only
// depends on v and constants is decided, the others are followed both ways.  The walk records, for
// a phi the rule is interested in, the edge values that can arrive.

type pv struct {
	isBool bool
	isStr  bool
	i      int64
	b      bool
	s      string
}

func truncTo(t types.Type, x int64) int64 {
	b, ok := t.Underlying().(*types.Basic)
	if !ok {
		return x
	}
	switch b.Kind() {
	case types.Uint8:
		return int64(uint8(x))
	case types.Int8:
		return int64(int8(x))
	case types.Uint16:
		return int64(uint16(x))
	case types.Int16:
		return int64(int16(x))
	case types.Uint32:
		return int64(uint32(x))
	case types.Int32:
		return int64(int32(x))
	}
	return x
}

func pevalValue(x ssa.Value, env map[ssa.Value]pv, depth int) (pv, bool) {
	if depth > 16 || x == nil {
		return pv{}, false
	}
	if v, ok := env[x]; ok {
		return v, true
	}
	switch t := x.(type) {
	case *ssa.Const:
		if t.Value == nil {
			return pv{}, false
		}
		switch t.Value.Kind() {
		case constant.Int:
			n, ok := constant.Int64Val(t.Value)
			return pv{i: n}, ok
		case constant.Bool:
			return pv{isBool: true, b: constant.BoolVal(t.Value)}, true
		case constant.String:
			return pv{isStr: true, s: constant.StringVal(t.Value)}, true
		}
	case *ssa.Convert:
		a, ok := pevalValue(t.X, env, depth+1)
		if !ok || a.isBool || a.isStr || !isIntegerT(t.Type()) || !isIntegerT(t.X.Type()) {
			return pv{}, false
		}
		return pv{i: truncTo(t.Type(), a.i)}, true
	case *ssa.ChangeType:
		return pevalValue(t.X, env, depth+1)
	case *ssa.UnOp:
		a, ok := pevalValue(t.X, env, depth+1)
		if !ok {
			return pv{}, false
		}
		switch t.Op {
		case token.NOT:
			if a.isBool {
				return pv{isBool: true, b: !a.b}, true
			}
		case token.SUB:
			if !a.isBool && !a.isStr {
				return pv{i: truncTo(t.Type(), -a.i)}, true
			}
		}
	case *ssa.BinOp:
		a, ok1 := pevalValue(t.X, env, depth+1)
		b, ok2 := pevalValue(t.Y, env, depth+1)
		if !ok1 || !ok2 || a.isBool != b.isBool || a.isStr != b.isStr {
			return pv{}, false
		}
		if a.isStr {
			switch t.Op {
			case token.EQL:
				return pv{isBool: true, b: a.s == b.s}, true
			case token.NEQ:
				return pv{isBool: true, b: a.s != b.s}, true
			case token.ADD:
				return pv{isStr: true, s: a.s + b.s}, true
			}
			return pv{}, false
		}
		if a.isBool {
			switch t.Op {
			case token.EQL:
				return pv{isBool: true, b: a.b == b.b}, true
			case token.NEQ:
				return pv{isBool: true, b: a.b != b.b}, true
			}
			return pv{}, false
		}
		bl := func(v bool) (pv, bool) { return pv{isBool: true, b: v}, true }
		in := func(v int64) (pv, bool) { return pv{i: truncTo(t.Type(), v)}, true }
		switch t.Op {
		case token.EQL:
			return bl(a.i == b.i)
		case token.NEQ:
			return bl(a.i != b.i)
		case token.LSS:
			return bl(a.i < b.i)
		case token.LEQ:
			return bl(a.i <= b.i)
		case token.GTR:
			return bl(a.i > b.i)
		case token.GEQ:
			return bl(a.i >= b.i)
		case token.ADD:
			return in(a.i + b.i)
		case token.SUB:
			return in(a.i - b.i)
		case token.MUL:
			return in(a.i * b.i)
		case token.QUO:
			if b.i != 0 {
				return in(a.i / b.i)
			}
		case token.REM:
			if b.i != 0 {
				return in(a.i % b.i)
			}
		case token.AND:
			return in(a.i & b.i)
		case token.OR:
			return in(a.i | b.i)
		case token.XOR:
			return in(a.i ^ b.i)
		case token.AND_NOT:
			return in(a.i &^ b.i)
		case token.SHL:
			if b.i >= 0 && b.i < 64 {
				return in(a.i << uint(b.i))
			}
		case token.SHR:
			if b.i >= 0 && b.i < 64 {
				return in(a.i >> uint(b.i))
			}
		}
	}
	return pv{}, false
}

// pevalArrival: one way of reaching the target phi.
type pevalArrival struct {
	edge ssa.Value        // the phi operand that arrives
	env  map[ssa.Value]pv // what is known on that path
	pred *ssa.BasicBlock
}

// pevalPhi walks fn from the instruction after `from` (an instruction whose value is fixed by env0)
// and returns the ways the walk can arrive at the first phi accepted by want; reachedBack reports
// that some path came back to the starting block (or left the function) without meeting one.
func pevalPhi(from ssa.Instruction, env0 map[ssa.Value]pv, want func(*ssa.Phi) bool) (arr []pevalArrival, reachedBack bool, ok bool) {
	return pevalWalk(from, env0, want, nil)
}

// pevalWalk is pevalPhi with a callback for every block the walk enters (the starting block
// included), called with what is known on that path.
func pevalWalk(from ssa.Instruction, env0 map[ssa.Value]pv, want func(*ssa.Phi) bool, visit func(b *ssa.BasicBlock, env map[ssa.Value]pv)) (arr []pevalArrival, reachedBack bool, ok bool) {
	start := from.Block()
	steps := 0
	ok = true
	type frame struct {
		b, pred *ssa.BasicBlock
		env     map[ssa.Value]pv
		seen    map[*ssa.BasicBlock]bool
	}
	var run func(f frame, first bool)
	run = func(f frame, first bool) {
		steps++
		if steps > 4000 {
			ok = false
			return
		}
		b := f.b
		if !first {
			if b == start || f.seen[b] {
				reachedBack = true
				return
			}
			f.seen[b] = true
			// phis: evaluate with the predecessor we came from
			pi := -1
			for i, p := range b.Preds {
				if p == f.pred {
					pi = i
				}
			}
			newEnv := map[ssa.Value]pv{}
			for _, ins := range b.Instrs {
				ph, isPhi := ins.(*ssa.Phi)
				if !isPhi {
					break
				}
				if pi < 0 {
					continue
				}
				if want != nil && want(ph) {
					arr = append(arr, pevalArrival{edge: ph.Edges[pi], env: f.env, pred: f.pred})
					return
				}
				if v, ok := pevalValue(ph.Edges[pi], f.env, 0); ok {
					newEnv[ph] = v
				}
			}
			for k, v := range newEnv {
				f.env[k] = v
			}
		}
		if visit != nil {
			visit(b, f.env)
		}
		last := b.Instrs[len(b.Instrs)-1]
		switch t := last.(type) {
		case *ssa.If:
			if c, ok := pevalValue(t.Cond, f.env, 0); ok && c.isBool {
				s := b.Succs[1]
				if c.b {
					s = b.Succs[0]
				}
				run(frame{s, b, f.env, f.seen}, false)
				return
			}
			for _, s := range b.Succs {
				e2 := map[ssa.Value]pv{}
				for k, v := range f.env {
					e2[k] = v
				}
				s2 := map[*ssa.BasicBlock]bool{}
				for k := range f.seen {
					s2[k] = true
				}
				run(frame{s, b, e2, s2}, false)
			}
		case *ssa.Jump:
			run(frame{b.Succs[0], b, f.env, f.seen}, false)
		default:
			reachedBack = true // return / panic: the function is left
		}
	}
	run(frame{start, nil, env0, map[*ssa.BasicBlock]bool{}}, true)
	return arr, reachedBack, ok
}

// globalArrayElem: element idx of a package-level array / slice literal initialised in init.
func (p *Prog) globalArrayElem(g *ssa.Global, idx int64) ssa.Value {
	init := p.LibSSA.Func("init")
	if init == nil {
		return nil
	}
	var found ssa.Value
	n := 0
	for _, b := range init.Blocks {
		for _, ins := range b.Instrs {
			st, ok := ins.(*ssa.Store)
			if !ok {
				continue
			}
			ia, ok := st.Addr.(*ssa.IndexAddr)
			if !ok {
				continue
			}
			base := ia.X
			if base != ssa.Value(g) {
				// slice literal: the backing array is a local alloc whose slice is stored into g
				al, ok := base.(*ssa.Alloc)
				if !ok {
					continue
				}
				isBacking := false
				for _, r := range *al.Referrers() {
					if sl, ok := r.(*ssa.Slice); ok {
						for _, r2 := range *sl.Referrers() {
							if s2, ok := r2.(*ssa.Store); ok && s2.Addr == ssa.Value(g) {
								isBacking = true
							}
						}
					}
				}
				if !isBacking {
					continue
				}
			}
			if c, ok := constInt(ia.Index); ok && c == idx {
				found = st.Val
				n++
			}
		}
	}
	if n != 1 {
		return nil
	}
	return found
}
