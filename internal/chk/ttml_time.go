package chk

import (
	"fmt"
	"go/constant"
	"go/token"
	"regexp/syntax"

	"golang.org/x/tools/go/ssa"
)

// ---- E10-A16 TTML clock times: frames are the fourth field ------------------------------------------------
// TTMLInDuration.UnmarshalText first tries the offset-time grammar, then looks for a trailing ":digits"
// which it takes for the frame count of hh:mm:ss:ff, and hands the rest to parseDuration. A clock
// time without fraction (hh:mm:ss) also ends in ":digits". Rule: the branch that stores into
// TTMLInDuration.frames from the matched text is taken only for four-field clock times: either it is
// dominated by strings.Count(text, ":") == 3, or the frames expression is anchored at both ends and
// every string it matches contains exactly three ':'.
func globalRegexpPattern(gl *ssa.Global) (string, bool) {
	if gl.Pkg == nil {
		return "", false
	}
	init := gl.Pkg.Func("init")
	if init == nil {
		return "", false
	}
	for _, b := range init.Blocks {
		for _, ins := range b.Instrs {
			st, ok := ins.(*ssa.Store)
			if !ok || st.Addr != ssa.Value(gl) {
				continue
			}
			if c, ok := st.Val.(*ssa.Call); ok {
				if sc := c.Call.StaticCallee(); sc != nil && sc.String() == "regexp.MustCompile" {
					if pat, ok := c.Call.Args[0].(*ssa.Const); ok && pat.Value != nil {
						return constant.StringVal(pat.Value), true
					}
				}
			}
		}
	}
	return "", false
}

// colonRange: minimum and maximum number of ':' in a string matched by re (max = -1 for unbounded).
func colonRange(re *syntax.Regexp) (int, int) {
	switch re.Op {
	case syntax.OpLiteral:
		n := 0
		for _, r := range re.Rune {
			if r == ':' {
				n++
			}
		}
		return n, n
	case syntax.OpCharClass:
		has, only := false, true
		for i := 0; i+1 < len(re.Rune); i += 2 {
			if re.Rune[i] <= ':' && ':' <= re.Rune[i+1] {
				has = true
			}
			if !(re.Rune[i] == ':' && re.Rune[i+1] == ':') {
				only = false
			}
		}
		switch {
		case has && only:
			return 1, 1
		case has:
			return 0, 1
		}
		return 0, 0
	case syntax.OpAnyChar, syntax.OpAnyCharNotNL:
		return 0, 1
	case syntax.OpCapture:
		return colonRange(re.Sub[0])
	case syntax.OpConcat:
		lo, hi := 0, 0
		for _, s := range re.Sub {
			l, h := colonRange(s)
			lo += l
			if hi >= 0 && h >= 0 {
				hi += h
			} else {
				hi = -1
			}
		}
		return lo, hi
	case syntax.OpAlternate:
		lo, hi := -1, 0
		for _, s := range re.Sub {
			l, h := colonRange(s)
			if lo < 0 || l < lo {
				lo = l
			}
			if h < 0 || hi < 0 {
				hi = -1
			} else if h > hi {
				hi = h
			}
		}
		return lo, hi
	case syntax.OpStar:
		_, h := colonRange(re.Sub[0])
		if h == 0 {
			return 0, 0
		}
		return 0, -1
	case syntax.OpPlus:
		l, h := colonRange(re.Sub[0])
		if h == 0 {
			return 0, 0
		}
		return l, -1
	case syntax.OpQuest:
		_, h := colonRange(re.Sub[0])
		return 0, h
	case syntax.OpRepeat:
		l, h := colonRange(re.Sub[0])
		if re.Max < 0 {
			if h == 0 {
				return l * re.Min, 0
			}
			return l * re.Min, -1
		}
		if h < 0 {
			return l * re.Min, -1
		}
		return l * re.Min, h * re.Max
	}
	return 0, 0
}

func anchoredBothEnds(re *syntax.Regexp) bool {
	if re.Op != syntax.OpConcat || len(re.Sub) < 2 {
		return false
	}
	first, last := re.Sub[0].Op, re.Sub[len(re.Sub)-1].Op
	return (first == syntax.OpBeginText || first == syntax.OpBeginLine) && (last == syntax.OpEndText || last == syntax.OpEndLine)
}

func ruleTTMLFramesField(p *Prog, l *Ledger, tier string) {
	const rule = "E10.A16-ttml-frames-field"
	const name = "TTMLInDuration.UnmarshalText"
	fn := anchor(p, l, rule, name)
	if fn == nil {
		return
	}
	key := rule + "|frames-branch"
	// stores into .frames whose value comes from strconv.Atoi (the clock-time-with-frames branch)
	n := 0
	for _, b := range fn.Blocks {
		for _, ins := range b.Instrs {
			st, ok := ins.(*ssa.Store)
			if !ok {
				continue
			}
			if t, f := fieldOfAddr(st.Addr); t != "TTMLInDuration" || f != "frames" {
				continue
			}
			ex, ok := st.Val.(*ssa.Extract)
			if !ok {
				continue
			}
			if c, ok := ex.Tuple.(*ssa.Call); !ok || calleeName(&c.Call) != "strconv.Atoi" {
				continue
			}
			n++
			guarded := false
			var rx *ssa.Global
			for _, dc := range dominatingConds(b) {
				if bo, ok := dc.cond.(*ssa.BinOp); ok && bo.Op == token.EQL && dc.taken {
					if c, ok := bo.X.(*ssa.Call); ok && calleeName(&c.Call) == "strings.Count" {
						if sep, ok := constStr(c.Call.Args[1]); ok && sep == ":" {
							if k, ok := constInt(bo.Y); ok && k == 3 {
								guarded = true
							}
						}
					}
				}
				// the regexp whose match leads here
				var find func(v ssa.Value, d int)
				find = func(v ssa.Value, d int) {
					if d > 4 || v == nil {
						return
					}
					switch t := v.(type) {
					case *ssa.BinOp:
						find(t.X, d+1)
						find(t.Y, d+1)
					case *ssa.Call:
						if len(t.Call.Args) > 0 {
							if u, ok := t.Call.Args[0].(*ssa.UnOp); ok {
								if g, ok := u.X.(*ssa.Global); ok {
									if _, isRe := globalRegexpPattern(g); isRe && rx == nil {
										rx = g // the nearest dominating match
									}
								}
							}
						}
					}
				}
				find(dc.cond, 0)
			}
			if guarded {
				l.Prove(rule, name, key, p.Pos(st.Pos()), "the frames branch is taken only when the text has exactly three ':' (strings.Count)")
				continue
			}
			if rx != nil {
				pat, _ := globalRegexpPattern(rx)
				if re, err := syntax.Parse(pat, syntax.Perl); err == nil {
					re = re.Simplify()
					lo, hi := colonRange(re)
					if anchoredBothEnds(re) && lo == 3 && hi == 3 {
						l.Prove(rule, name, key, p.Pos(st.Pos()), fmt.Sprintf("the frames expression %q is anchored and matches only strings with three ':'", pat))
						continue
					}
					l.Fail(rule, name, key, p.Pos(st.Pos()), fmt.Sprintf("%s takes the trailing \":digits\" of any clock time for a frame count (expression %q, %d..%d ':' in a match, not anchored to four fields, no count of ':' on the way): begin=\"00:01:30\" is read as 1 second plus 30 frames instead of 1m30s", name, pat, lo, hi))
					continue
				}
			}
			l.Undecide(rule, name, key, p.Pos(st.Pos()), "the condition under which a trailing field is read as frames could not be related to the number of fields of the clock time")
		}
	}
	l.Min(rule, n, 1)
}
