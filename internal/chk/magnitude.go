package chk

import (
	"fmt"
	"go/token"
	"go/types"
	"math"
	"sort"

	"golang.org/x/tools/go/ssa"
)

// ---- E3d no integer overflow on the property's domain (added after seeded change C14/3 → C15) ---------
// C15 quantifies over boundaries and reference instants in [0, 24h]. Magnitude analysis: every
// time.Duration input (parameter, captured variable, field of a cue) is at most 24h = 8.64e13 ns in
// absolute value; bounds propagate through +, −, ×, ÷, conversions and the Duration accessor methods
// (Microseconds ÷1e3, Milliseconds ÷1e6). An integer multiplication whose bound exceeds 2^63−1 can
// overflow for inputs inside the property's domain. Floating-point arithmetic does not overflow at
// these magnitudes and is not constrained (its rounding is C15's tolerance). A quotient by a variable
// is bounded with the slope domain of C15 (≤ 2).
const domain24h = 8.64e13

func isDurationT(t types.Type) bool {
	n, ok := t.(*types.Named)
	return ok && n.Obj().Pkg() != nil && n.Obj().Pkg().Path() == "time" && n.Obj().Name() == "Duration"
}

func magnitude(v ssa.Value, memo map[ssa.Value]float64, depth int) float64 {
	if m, ok := memo[v]; ok {
		return m
	}
	if depth > 40 {
		return math.Inf(1)
	}
	memo[v] = 0 // cycles (loop counters) contribute nothing by themselves
	m := magnitude1(v, memo, depth)
	memo[v] = m
	return m
}

// fieldDomain: largest value a parsed count can take on the properties' domains (instants up to 24 h;
// TTML tick rates up to the 10 MHz used by Windows/MediaFoundation style documents; frame rates up to 120).
var fieldDomain = map[string]float64{
	"TTMLInDuration.ticks":     8.64e11, // 24 h at 10 MHz
	"TTMLInDuration.tickrate":  1e7,
	"TTMLInDuration.frames":    120,
	"TTMLInDuration.framerate": 120,
}

func magnitude1(v ssa.Value, memo map[ssa.Value]float64, depth int) float64 {
	if t, f, _ := loadedField(v); f != "" {
		if d, ok := fieldDomain[t+"."+f]; ok {
			return d
		}
	}
	leaf := func() float64 {
		if isDurationT(v.Type()) {
			return domain24h
		}
		if isIntegerT(v.Type()) {
			return math.Pow(2, 31)
		}
		return 0
	}
	if c, ok := constInt(v); ok {
		return math.Abs(float64(c))
	}
	switch t := v.(type) {
	case *ssa.BinOp:
		if !isIntegerT(t.Type()) {
			return 0
		}
		x, y := magnitude(t.X, memo, depth+1), magnitude(t.Y, memo, depth+1)
		switch t.Op {
		case token.ADD, token.SUB:
			return x + y
		case token.MUL:
			return x * y
		case token.QUO:
			if c, ok := constInt(t.Y); ok && c != 0 {
				return x / math.Abs(float64(c))
			}
			// a·b/c with a variable divisor: C15's domain bounds the slope b/c by 2, so the quotient is
			// at most twice the bound of a = bound(a·b)/bound(c) when b and c range over the same domain
			if y > 0 {
				return math.Min(x, 2*x/y)
			}
			return x
		case token.REM:
			return math.Min(x, y)
		}
		return math.Max(x, y)
	case *ssa.Convert:
		if isIntegerT(t.X.Type()) {
			return magnitude(t.X, memo, depth+1)
		}
		return leaf() // from a float: back to the type's domain
	case *ssa.ChangeType:
		return magnitude(t.X, memo, depth+1)
	case *ssa.Phi:
		m := 0.0
		for _, e := range t.Edges {
			m = math.Max(m, magnitude(e, memo, depth+1))
		}
		return m
	case *ssa.Call:
		div := map[string]float64{"(time.Duration).Microseconds": 1e3, "(time.Duration).Milliseconds": 1e6, "(time.Duration).Nanoseconds": 1}[calleeName(&t.Call)]
		if div > 0 && len(t.Call.Args) > 0 {
			return magnitude(t.Call.Args[0], memo, depth+1) / div
		}
		return leaf()
	}
	return leaf()
}

func ruleNoOverflow(names ...string) func(p *Prog, l *Ledger, tier string) {
	return func(p *Prog, l *Ledger, tier string) {
		const rule = "E3d.no-overflow"
		defer func() { l.Min(rule, 1, 1) }()
		n := 0
		for _, name := range names {
			root := anchor(p, l, rule, name)
			if root == nil {
				continue
			}
			fns := []*ssa.Function{root}
			fns = append(fns, root.AnonFuncs...)
			// library helpers the conversion was extracted into: their integer parameters range over what
			// the call sites (inside the root and its other helpers) pass
			seeded := map[*ssa.Function]map[ssa.Value]float64{}
			for round := 0; round < 3; round++ {
				for _, h := range p.Helpers(root) {
					if h == root || fnPkg(h) != p.LibSSA || h.Parent() != nil {
						continue
					}
					for _, caller := range p.Helpers(root) {
						cm := map[ssa.Value]float64{}
						for k, v := range seeded[caller] {
							cm[k] = v
						}
						for _, b := range caller.Blocks {
							for _, ins := range b.Instrs {
								c, ok := ins.(ssa.CallInstruction)
								if !ok || c.Common().StaticCallee() != h {
									continue
								}
								if seeded[h] == nil {
									seeded[h] = map[ssa.Value]float64{}
								}
								for k, prm := range h.Params {
									if k < len(c.Common().Args) && (isIntegerT(prm.Type()) || isDurationT(prm.Type())) {
										m := magnitude(c.Common().Args[k], cm, 0)
										if m > seeded[h][prm] {
											seeded[h][prm] = m
										}
									}
								}
							}
						}
					}
				}
			}
			for h := range seeded {
				fns = append(fns, h)
			}
			sort.Slice(fns, func(i, j int) bool { return FnName(fns[i]) < FnName(fns[j]) })
			for _, fn := range fns {
				memo := map[ssa.Value]float64{}
				for k, v := range seeded[fn] {
					memo[k] = v
				}
				for _, b := range fn.Blocks {
					for _, ins := range b.Instrs {
						m, ok := ins.(*ssa.BinOp)
						if !ok || m.Op != token.MUL || !isIntegerT(m.Type()) {
							continue
						}
						if _, c1 := constInt(m.X); c1 {
							if _, c2 := constInt(m.Y); c2 {
								continue
							}
						}
						// in a helper only the products of what the conversion hands it are its business
						if fn != root && fn.Parent() == nil {
							fromParam := false
							for prm := range seeded[fn] {
								if mentions(m, prm, 0) {
									fromParam = true
								}
							}
							if !fromParam {
								continue
							}
						}
						n++
						key := l.Key(rule, FnName(fn), "mul", descOf(m.X)+"*"+descOf(m.Y))
						bound := magnitude(m, memo, 0)
						if bound <= math.MaxInt64 {
							l.Prove(rule, FnName(fn), key, p.Pos(m.Pos()), fmt.Sprintf("|product| ≤ %.3g < 2^63 for inputs within 24h", bound))
						} else {
							l.Fail(rule, FnName(fn), key, p.Pos(m.Pos()), fmt.Sprintf("%s: the integer product %s × %s can reach %.3g for instants within 24 hours, beyond 2^63−1 ≈ 9.22e18: it overflows (wraps to a wrong, possibly negative time) for inputs inside the property's domain", FnName(fn), descOf(m.X), descOf(m.Y), bound))
						}
					}
				}
			}
		}
		l.Note("%s: %d non-constant integer multiplications examined in %v", rule, n, names)
	}
}
