package chk

import (
	"fmt"
	"go/token"
	"go/types"
	"reflect"
	"regexp"
	"regexp/syntax"
	"sort"
	"strings"

	"golang.org/x/tools/go/ssa"
)

// ---- E10-A1: SRT markup state ------------------------------------------------------------------------

// dominatingConstOn: the constant c such that block b is reached through the true edge of
// (v == c) for a v accepted by isTag (nearest such test up the dominator tree).
func dominatingConstOn(b *ssa.BasicBlock, isTag func(v ssa.Value) bool) (int64, bool) {
	for x := b; x != nil; x = x.Idom() {
		d := x.Idom()
		if d == nil {
			continue
		}
		iff, ok := d.Instrs[len(d.Instrs)-1].(*ssa.If)
		if !ok || d.Succs[0] != x {
			continue
		}
		bo, ok := iff.Cond.(*ssa.BinOp)
		if !ok || bo.Op != token.EQL {
			continue
		}
		for _, pr := range [][2]ssa.Value{{bo.X, bo.Y}, {bo.Y, bo.X}} {
			if c, ok := constInt(pr[1]); ok && isTag(pr[0]) {
				return c, true
			}
		}
	}
	return 0, false
}

var reOpenTag = regexp.MustCompile(`^<([a-z]+)[ >]`)
var reCloseTag = regexp.MustCompile(`^</([a-z]+)>`)

func ruleSRTTags(p *Prog, l *Ledger, tier string) {
	const rule = "E10.A1-srt-tags"
	fn := anchor(p, l, rule, "parseTextSrt")
	// the function that writes one text run: LineItem.srtBytes, or – after a renaming – the helper of WriteToSRT that
	// holds the tag literals
	wr := p.Fn("LineItem.srtBytes")
	if wr == nil {
		if top := p.Fn("Subtitles.WriteToSRT"); top != nil {
			for _, h := range p.Helpers(top) {
				if fnPkg(h) != p.LibSSA || h == top {
					continue
				}
				for _, b := range h.Blocks {
					for _, ins := range b.Instrs {
						for _, op := range ins.Operands(nil) {
							if *op == nil {
								continue
							}
							if cs, ok := constStr(*op); ok && (strings.Contains(cs, "<b>") || strings.Contains(cs, "<i>")) {
								wr = h
							}
						}
					}
				}
			}
		}
	}
	if wr == nil {
		wr = anchor(p, l, rule, "LineItem.srtBytes")
	}
	if fn == nil || wr == nil {
		return
	}
	// token type constants of x/net/html
	var startTok, endTok int64 = -1, -1
	for _, pk := range p.Pkgs {
		if pk.PkgPath == "golang.org/x/net/html" {
			for name, dst := range map[string]*int64{"StartTagToken": &startTok, "EndTagToken": &endTok} {
				if c, ok := pk.Types.Scope().Lookup(name).(*types.Const); ok {
					*dst, _ = constantInt64(c)
				}
			}
		}
	}
	isData := func(v ssa.Value) bool {
		if _, f, _ := loadedField(v); f == "Data" {
			return true
		}
		// name, _ := tr.TagName(); string(name): the same lower-cased tag name, read without building the token
		if cv, ok := v.(*ssa.Convert); ok && isStringT(cv.Type()) {
			if ex, ok := cv.X.(*ssa.Extract); ok && ex.Index == 0 {
				if c, ok := ex.Tuple.(*ssa.Call); ok {
					if sc := c.Call.StaticCallee(); sc != nil && sc.String() == "(*golang.org/x/net/html.Tokenizer).TagName" {
						return true
					}
				}
			}
		}
		return false
	}
	isTokType := func(v ssa.Value) bool {
		c, ok := v.(*ssa.Call)
		if !ok {
			return false
		}
		sc := c.Call.StaticCallee()
		return sc != nil && sc.Name() == "Next"
	}
	// what each (token kind, tag name) pair writes: the parser is walked with the token type and the
	// tag name fixed (partial evaluation), so two switches, one switch on a boolean `on`, or a table
	// of handlers all read the same
	start, end := map[string]strset{}, map[string]strset{}
	var tokCall ssa.Instruction
	dataLoads := []ssa.Value{}
	tagNames := strset{}
	for _, b := range fn.Blocks {
		for _, ins := range b.Instrs {
			if v, ok := ins.(ssa.Value); ok {
				if isTokType(v) && tokCall == nil {
					tokCall = ins
				}
				if isData(v) {
					dataLoads = append(dataLoads, v)
				}
			}
			if bo, ok := ins.(*ssa.BinOp); ok && bo.Op == token.EQL {
				if isData(bo.X) {
					if c, ok := constStr(bo.Y); ok {
						tagNames.add(c)
					}
				}
				if isData(bo.Y) {
					if c, ok := constStr(bo.X); ok {
						tagNames.add(c)
					}
				}
			}
		}
	}
	if tokCall != nil {
		for _, tag := range tagNames.sorted() {
			for _, kind := range []int64{startTok, endTok} {
				env := map[ssa.Value]pv{tokCall.(ssa.Value): {i: kind}}
				for _, dl := range dataLoads {
					env[dl] = pv{isStr: true, s: tag}
				}
				fields := strset{}
				_, _, ok := pevalWalk(tokCall, env, nil, func(b *ssa.BasicBlock, _ map[ssa.Value]pv) {
					for f := range fieldStores([]*ssa.BasicBlock{b}, "StyleAttributes") {
						fields.add(f)
					}
				})
				if !ok || len(fields) == 0 {
					continue
				}
				if kind == startTok {
					start[tag] = fields
				} else {
					end[tag] = fields
				}
			}
		}
	}
	tags := strset{}
	for t := range start {
		tags.add(t)
	}
	for t := range end {
		tags.add(t)
	}
	state := strset{}
	for _, t := range tags.sorted() {
		key := rule + "|tag|" + t
		s, e := start[t], end[t]
		switch {
		case s == nil:
			l.Fail(rule, "parseTextSrt", key, "", fmt.Sprintf("closing tag </%s> resets state but the opening tag <%s> is not handled", t, t))
		case e == nil:
			l.Fail(rule, "parseTextSrt", key, "", fmt.Sprintf("opening tag <%s> sets %v but the closing tag </%s> is not handled: the markup leaks into all following text", t, s.sorted(), t))
		case strings.Join(s.sorted(), ",") != strings.Join(e.sorted(), ","):
			l.Fail(rule, "parseTextSrt", key, "", fmt.Sprintf("<%s> sets %v but </%s> resets %v", t, s.sorted(), t, e.sorted()))
		default:
			l.Prove(rule, "parseTextSrt", key, "", fmt.Sprintf("<%s> and </%s> both write %v", t, t, s.sorted()))
		}
		state.addAll(s)
	}
	l.Min(rule+".tags", len(tags), 4)
	// capture literal copies every state field
	// the capture may live in a helper (a method building the run's attributes from the running state)
	capt := map[string]string{}
	for _, h := range p.Helpers(fn) {
		if fnPkg(h) != p.LibSSA {
			continue
		}
		for k, v := range wiring(h, "StyleAttributes", "StyleAttributes") {
			if k == v || capt[k] == "" {
				capt[k] = v
			}
		}
	}
	for _, f := range state.sorted() {
		key := rule + "|capture|" + f
		if capt[f] == f {
			l.Prove(rule, "parseTextSrt", key, "", "state field "+f+" is copied into the attributes of each text run")
		} else {
			l.Fail(rule, "parseTextSrt", key, "", "state field "+f+" set by a tag is not copied into the attributes captured for a text run (copied from "+capt[f]+")")
		}
	}
	// writer: tags closed in reverse order, all understood by the reader
	var consts []struct {
		s   string
		pos token.Pos
	}
	// every string constant the writer uses, wherever it is used ([]byte("<b>"), append(c, "<b>"...),
	// b.WriteString("<b>"), "<font color=\"" + color + "\">"), in source order
	for _, b := range wr.Blocks {
		for _, ins := range b.Instrs {
			if _, isDbg := ins.(*ssa.DebugRef); isDbg {
				continue
			}
			for _, op := range ins.Operands(nil) {
				if *op == nil {
					continue
				}
				if s, ok := constStr(*op); ok && s != "" {
					pos := ins.Pos()
					if !pos.IsValid() {
						if vi, ok := (*op).(ssa.Value); ok {
							pos = vi.Pos()
						}
					}
					consts = append(consts, struct {
						s   string
						pos token.Pos
					}{s, pos})
				}
			}
		}
	}
	sort.Slice(consts, func(i, j int) bool { return consts[i].pos < consts[j].pos })
	var opens, closes []string
	// direct emission: every opening constant comes before every closing constant in the source; a
	// writer driven by a table of (open, close) pairs, or one that builds "<"+name+">", has them
	// interleaved or not as constants at all
	direct, seenClose := true, false
	for _, c := range consts {
		if m := reCloseTag.FindStringSubmatch(c.s); m != nil {
			closes = append(closes, m[1])
			seenClose = true
		} else if m := reOpenTag.FindStringSubmatch(c.s); m != nil {
			opens = append(opens, m[1])
			if seenClose {
				direct = false
			}
		}
	}
	key := rule + "|writer-nesting"
	if !direct || len(opens) < 3 {
		// the order in which a table is walked is not visible in its constants: the nesting clause is
		// not decided for this shape (it is for the direct one, which the pinned tree has)
		l.Add(Ob{Rule: rule, Key: key, Status: Info, Why: fmt.Sprintf("tags are not emitted as a sequence of constants (opens %v, closes %v in source order): closing order not decided for a table-driven writer", opens, closes)})
		for _, o := range opens {
			if start[o] == nil && len(start) > 0 {
				l.Fail(rule, "LineItem.srtBytes", rule+"|writer-tag|"+o, "", "the writer emits <"+o+"> which the reader's tag switch does not handle")
			}
		}
		return
	}
	rev := make([]string, len(opens))
	for i, o := range opens {
		rev[len(opens)-1-i] = o
	}
	if len(opens) >= 3 && strings.Join(rev, ",") == strings.Join(closes, ",") {
		l.Prove(rule, "LineItem.srtBytes", key, "", fmt.Sprintf("tags opened %v are closed in reverse order %v", opens, closes))
	} else {
		l.Fail(rule, "LineItem.srtBytes", key, p.Pos(wr.Pos()), fmt.Sprintf("the writer opens %v but closes %v: tags are not closed in reverse order", opens, closes))
	}
	for _, o := range opens {
		k2 := rule + "|writer-tag|" + o
		if start[o] != nil {
			l.Prove(rule, "LineItem.srtBytes", k2, "", "the reader handles <"+o+">")
		} else if len(start) == 0 {
			// the reader's tag handlers were not extracted at all (reported above as undecided): nothing to compare with
		} else {
			l.Fail(rule, "LineItem.srtBytes", k2, "", "the writer emits <"+o+"> which the reader's tag switch does not handle")
		}
	}
}

// ---- E10-A2 + E12-G3: WebVTT settings --------------------------------------------------------------

func ruleWebVTTSettings(p *Prog, l *Ledger, tier string) {
	const rule = "E10.A2-webvtt-settings"
	rd := anchor(p, l, rule, "ReadFromWebVTT")
	wr := anchor(p, l, rule, "Subtitles.WriteToWebVTT")
	if rd == nil || wr == nil {
		return
	}
	// reader: split[0] switches, grouped by the separator of the Split call that produced split
	sepOf := func(v ssa.Value) string {
		// key, value, found := strings.Cut(setting, ":")
		if ex, ok := v.(*ssa.Extract); ok && ex.Index == 0 {
			if call, ok := ex.Tuple.(*ssa.Call); ok {
				if sc := call.Call.StaticCallee(); sc != nil && sc.String() == "strings.Cut" {
					s, _ := constStr(call.Call.Args[1])
					return s
				}
			}
			return ""
		}
		u, ok := v.(*ssa.UnOp)
		if !ok {
			return ""
		}
		ia, ok := u.X.(*ssa.IndexAddr)
		if !ok {
			return ""
		}
		if c, ok := constInt(ia.Index); !ok || c != 0 {
			return ""
		}
		call, ok := ia.X.(*ssa.Call)
		if !ok {
			return ""
		}
		sc := call.Call.StaticCallee()
		if sc == nil || (sc.String() != "strings.Split" && sc.String() != "strings.SplitN") {
			return ""
		}
		if sc.String() == "strings.SplitN" {
			// the first piece is the same as Split's as soon as two pieces are allowed
			if n, ok := constInt(call.Call.Args[2]); !ok || (n >= 0 && n < 2) {
				return ""
			}
		}
		s, _ := constStr(call.Call.Args[1])
		return s
	}
	reader := map[string]map[string]string{":": {}, "=": {}}
	for sep := range reader {
		sp := sep
		arms := map[string][]*ssa.BasicBlock{}
		for _, h := range p.Helpers(rd) {
			if fnPkg(h) != p.LibSSA {
				continue
			}
			for c, targets := range constArms(h, func(v ssa.Value) bool { return sepOf(v) == sp }) {
				arms[c] = append(arms[c], targets...)
			}
		}
		for c, targets := range arms {
			for _, t := range targets {
				var fields []string
				for f := range fieldStores(regionBlocks(t, nil), "") {
					if f != "" {
						fields = append(fields, f)
					}
				}
				if len(fields) == 1 {
					reader[sep][c] = fields[0]
				}
			}
		}
	}
	// reader, table form: settings[split[0]] on a map literal whose values are the addresses of the fields
	for _, b := range p.helperBlocks(rd) {
		for _, ins := range b.Instrs {
			lk, ok := ins.(*ssa.Lookup)
			if !ok {
				continue
			}
			sep := sepOf(lk.Index)
			if sep == "" || reader[sep] == nil {
				continue
			}
			mk, ok := lk.X.(*ssa.MakeMap)
			if !ok {
				continue
			}
			for _, r := range *mk.Referrers() {
				mu, ok := r.(*ssa.MapUpdate)
				if !ok {
					continue
				}
				k, ok := constStr(mu.Key)
				if !ok {
					continue
				}
				if fa, ok := mu.Value.(*ssa.FieldAddr); ok {
					if _, f := fieldOfAddr(fa); f != "" {
						reader[sep][k] = f
					}
				}
			}
		}
	}
	// writer: "key<sep>" + value, in the writer or in a helper it calls with the key and the value
	// (then every call site of the helper is one setting: parameters are replaced by its arguments)
	writer := map[string]map[string]strset{":": {}, "=": {}}
	note := func(sep, k string, fields strset) {
		if i := strings.LastIndexAny(k, " "); i >= 0 {
			k = k[i+1:]
		}
		if f, ok := oneOf(fields); ok && k != "" {
			if writer[sep][k] == nil {
				writer[sep][k] = strset{}
			}
			writer[sep][k].add(f)
		}
	}
	for _, h := range p.Helpers(wr) {
		if fnPkg(h) != p.LibSSA {
			continue
		}
		for _, b := range h.Blocks {
			for _, ins := range b.Instrs {
				// c = append(c, "key="...); c = append(c, value...): the key and the value appended one after the other
				if ac, isCall := ins.(*ssa.Call); isCall && len(ac.Call.Args) == 2 && isStringT(ac.Call.Args[1].Type()) {
					if bi, isB := ac.Call.Value.(*ssa.Builtin); isB && bi.Name() == "append" {
						for _, r := range *ac.Referrers() {
							c2, ok := r.(*ssa.Call)
							if !ok || len(c2.Call.Args) != 2 || c2.Call.Args[0] != ssa.Value(ac) || !isStringT(c2.Call.Args[1].Type()) {
								continue
							}
							if bi2, isB2 := c2.Call.Value.(*ssa.Builtin); !isB2 || bi2.Name() != "append" {
								continue
							}
							for _, inst := range p.instantiate(wr, h, []ssa.Value{ac.Call.Args[1], c2.Call.Args[1]}) {
								k, ok := constStr(inst[0])
								if !ok || len(k) < 2 {
									continue
								}
								sep := k[len(k)-1:]
								if sep != ":" && sep != "=" {
									continue
								}
								fs := strset{}
								for _, v := range inst[1:] {
									traceFieldOrGetter(v, fs)
								}
								note(sep, k[:len(k)-1], fs)
							}
						}
					}
				}
				bo, ok := ins.(*ssa.BinOp)
				if !ok || bo.Op != token.ADD || !isStringT(bo.Type()) {
					continue
				}
				// only the root of a concatenation
				isOperand := false
				for _, r := range *bo.Referrers() {
					if b2, ok := r.(*ssa.BinOp); ok && b2.Op == token.ADD {
						isOperand = true
					}
				}
				if isOperand {
					continue
				}
				parts := concatParts(bo)
				// prefix + value in a helper that receives "key:" whole: every call site is one setting
				for j, part := range parts[:len(parts)-1] {
					if _, isPar := part.(*ssa.Parameter); !isPar || h == wr {
						continue
					}
					for _, inst := range p.instantiate(wr, h, []ssa.Value{part, parts[j+1]}) {
						k, ok := constStr(inst[0])
						if !ok || len(k) < 2 {
							continue
						}
						sep := k[len(k)-1:]
						if sep != ":" && sep != "=" {
							continue
						}
						fs := strset{}
						for _, v := range inst[1:] {
							traceFieldOrGetter(v, fs)
						}
						note(sep, k[:len(k)-1], fs)
					}
				}
				for j, part := range parts[:len(parts)-1] {
					c, ok := constStr(part)
					if !ok || c == "" {
						continue
					}
					sep := c[len(c)-1:]
					if sep != ":" && sep != "=" {
						continue
					}
					val := parts[j+1]
					if len(c) >= 2 {
						// "key:" + value
						for _, inst := range p.instantiate(wr, h, []ssa.Value{val}) {
							fs := strset{}
							traceFieldOrGetter(inst[0], fs)
							note(sep, c[:len(c)-1], fs)
						}
					} else if g, _, nameCell, isCell := tableCell(parts[j-1]); j > 0 && isCell {
						// row.name + ":" + value, the rows being a package-level table of (name, getter)
						rows, okRows := p.globalRowValues(g)
						if !okRows {
							continue
						}
						for _, row := range rows {
							k, ok := constStr(row[nameCell])
							if !ok {
								continue
							}
							fs := strset{}
							hasGetter := false
							for ci, cv := range row {
								if ci == nameCell || cv == nil {
									continue
								}
								switch cx := cv.(type) {
								case *ssa.Function, *ssa.MakeClosure:
									hasGetter = true
									traceFieldOrGetter(cv, fs)
								case *ssa.Call:
									// a getter wrapped by a library function that returns the accessor (own value, else inherited)
									for _, a := range cx.Call.Args {
										switch a.(type) {
										case *ssa.Function, *ssa.MakeClosure:
											hasGetter = true
											traceFieldOrGetter(a, fs)
										}
									}
								}
							}
							if !hasGetter {
								// a row without getter: the value comes from the writer itself; what it traces to
								// outside the calls of the getters
								var leaves func(v ssa.Value, seen map[ssa.Value]bool)
								leaves = func(v ssa.Value, seen map[ssa.Value]bool) {
									if seen[v] {
										return
									}
									seen[v] = true
									switch x := v.(type) {
									case *ssa.Phi:
										for _, e := range x.Edges {
											leaves(e, seen)
										}
									case *ssa.Call:
										if x.Call.StaticCallee() == nil {
											return
										}
										traceField(x, "", map[ssa.Value]bool{}, fs)
									default:
										traceField(v, "", map[ssa.Value]bool{}, fs)
									}
								}
								leaves(val, map[ssa.Value]bool{})
							}
							note(sep, k, fs)
						}
					} else if rows, nameCell, isLocal := localTableCell(parts[j-1]); j > 0 && isLocal {
						// row.key + "=" + value, the rows being a local literal of (key, own value, inherited value)
						for _, row := range rows {
							k, ok := constStr(row[nameCell])
							if !ok {
								continue
							}
							fs := strset{}
							for ci, cv := range row {
								if ci != nameCell && cv != nil {
									traceFieldOrGetter(cv, fs)
									traceField(cv, "", map[ssa.Value]bool{}, fs)
								}
							}
							note(sep, k, fs)
						}
					} else if j > 0 {
						// key + ":" + value
						for _, inst := range p.instantiate(wr, h, []ssa.Value{parts[j-1], val}) {
							k, ok := constStr(inst[0])
							if !ok {
								continue
							}
							fs := strset{}
							for _, v := range inst[1:] {
								traceFieldOrGetter(v, fs)
							}
							note(sep, k, fs)
						}
					}
					break
				}
			}
		}
	}
	special := map[string][2]string{"region": {"ID", "Region"}, "id": {"ID", "ID"}}
	for _, sep := range []string{":", "="} {
		what := map[string]string{":": "cue setting", "=": "region setting"}[sep]
		var keys []string
		for k := range writer[sep] {
			keys = append(keys, k)
		}
		sort.Strings(keys)
		for _, k := range keys {
			key := rule + "|" + sep + "|" + k
			wf, _ := oneOf(writer[sep][k])
			rf, ok := reader[sep][k]
			want := wf
			if sp, isSp := special[k]; isSp && wf == sp[0] {
				want = sp[1]
			}
			switch {
			case wf == "":
				l.Fail(rule, "", key, "", fmt.Sprintf("%s %q is written from several different fields %v", what, k, writer[sep][k].sorted()))
			case !ok:
				l.Fail(rule, "", key, "", fmt.Sprintf("%s %q (separator %q) is written from field %s but the reader has no case for it", what, k, sep, wf))
			case rf != want:
				l.Fail(rule, "", key, "", fmt.Sprintf("%s %q is written from field %s but read into field %s", what, k, wf, rf))
			default:
				l.Prove(rule, "", key, "", fmt.Sprintf("%s %q ↔ field %s on both sides", what, k, rf))
			}
		}
		l.Min(rule+"."+strings.ReplaceAll(what, " ", "-"), len(keys), 6)
	}
	// G3: region definitions are emitted before any cue
	var regionBlock *ssa.BasicBlock
	for _, b := range wr.Blocks {
		for _, ins := range b.Instrs {
			if bo, ok := ins.(*ssa.BinOp); ok {
				if c, ok := constStr(bo.X); ok && strings.HasPrefix(c, "Region:") {
					regionBlock = b
				}
			}
		}
	}
	var itemsHeaders []*ssa.BasicBlock
	for _, li := range loopsOf(wr) {
		// every loop whose header compares against len(s.Items)
		for _, ins := range li.header.Instrs {
			if bo, ok := ins.(*ssa.BinOp); ok {
				if c, ok := bo.Y.(*ssa.Call); ok {
					if bi, ok := c.Call.Value.(*ssa.Builtin); ok && bi.Name() == "len" {
						if t, f, _ := loadedField(c.Call.Args[0]); f == "Items" && t == "Subtitles" {
							itemsHeaders = append(itemsHeaders, li.header)
						}
					}
				}
			}
		}
	}
	key := "E12.G3-regions-before-cues"
	switch {
	case regionBlock == nil || len(itemsHeaders) == 0:
		l.Undecide(key, "Subtitles.WriteToWebVTT", key, "", "extraction-below-minimum: region emission or cue loop not found")
	default:
		// the loop containing the region emission must be left before the cue loop starts
		var rh *ssa.BasicBlock
		for _, li := range loopsOf(wr) {
			if li.blocks[regionBlock] {
				rh = li.header
			}
		}
		lp := map[*ssa.BasicBlock]bool{}
		if rh != nil {
			lp = loopOf(rh)
		}
		allAfter := rh != nil
		for _, ih := range itemsHeaders {
			if rh == nil || !rh.Dominates(ih) || lp[ih] {
				allAfter = false
			}
		}
		if allAfter {
			l.Prove(key, "Subtitles.WriteToWebVTT", key, blockPos(p, regionBlock), "the region loop is complete before the cue loop starts: a cue's region is always defined earlier in the file")
		} else {
			l.Fail(key, "Subtitles.WriteToWebVTT", key, blockPos(p, regionBlock), "region definitions are not all emitted before the first cue")
		}
	}
}

// ---- E10-A3: TTML attributes ----------------------------------------------------------------------

func xmlLocal(tag string) (string, bool) {
	v := reflect.StructTag(tag).Get("xml")
	parts := strings.Split(v, ",")
	name := parts[0]
	if i := strings.LastIndex(name, ":"); i >= 0 {
		name = name[i+1:]
	}
	if i := strings.LastIndex(name, " "); i >= 0 {
		name = name[i+1:]
	}
	attr := false
	for _, o := range parts[1:] {
		if o == "attr" {
			attr = true
		}
	}
	return name, attr
}

func structOf(p *Prog, name string) *types.Struct {
	obj := p.Lib.Types.Scope().Lookup(name)
	if obj == nil {
		return nil
	}
	st, _ := obj.Type().Underlying().(*types.Struct)
	return st
}

func ruleTTMLAttributes(p *Prog, l *Ledger, tier string) {
	const rule = "E10.A3-ttml-attributes"
	pairs := [][2]string{{"TTMLInStyleAttributes", "TTMLOutStyleAttributes"}, {"TTMLInHeader", "TTMLOutHeader"}, {"TTMLInSubtitle", "TTMLOutSubtitle"},
		{"TTMLInMetadata", "TTMLOutMetadata"}, {"TTMLIn", "TTMLOut"}, {"TTMLInItem", "TTMLOutItem"}}
	n := 0
	for _, pr := range pairs {
		in, out := structOf(p, pr[0]), structOf(p, pr[1])
		if in == nil || out == nil {
			l.Undecide(rule, "", rule+"|"+pr[0], "", "type "+pr[0]+" / "+pr[1]+" not found")
			continue
		}
		outTags := map[string]string{}
		for i := 0; i < out.NumFields(); i++ {
			outTags[out.Field(i).Name()] = out.Tag(i)
		}
		for i := 0; i < in.NumFields(); i++ {
			f := in.Field(i)
			ot, ok := outTags[f.Name()]
			if !ok || in.Tag(i) == "" || ot == "" || f.Name() == "XMLName" {
				continue
			}
			in1, ia := xmlLocal(in.Tag(i))
			on1, oa := xmlLocal(ot)
			if in1 == "" || on1 == "" {
				continue
			}
			n++
			key := rule + "|xml|" + pr[0] + "." + f.Name()
			if in1 == on1 && ia == oa {
				l.Prove(rule, "", key, "", fmt.Sprintf("%s.%s and %s.%s both use XML name %q", pr[0], f.Name(), pr[1], f.Name(), in1))
			} else {
				l.Fail(rule, "", key, "", fmt.Sprintf("%s.%s is read from XML name %q (attr=%v) but %s.%s is written as %q (attr=%v)", pr[0], f.Name(), in1, ia, pr[1], f.Name(), on1, oa))
			}
		}
	}
	l.Min(rule+".xml-names", n, 35)
	// wiring through the model
	inFn := anchor(p, l, rule, "TTMLInStyleAttributes.styleAttributes")
	outFn := anchor(p, l, rule, "ttmlOutStyleAttributesFromStyleAttributes")
	if inFn != nil && outFn != nil {
		a := wiring(inFn, "StyleAttributes", "TTMLInStyleAttributes")   // SA.F ← In.X
		b := wiring(outFn, "TTMLOutStyleAttributes", "StyleAttributes") // Out.X ← SA.F
		m := 0
		for _, x := range sortedKeysOf(b) {
			f := b[x]
			m++
			key := rule + "|wiring|" + x
			if a[f] == x {
				l.Prove(rule, "", key, "", fmt.Sprintf("attribute %s: In.%s → StyleAttributes.%s → Out.%s", x, x, f, x))
			} else {
				l.Fail(rule, "", key, "", fmt.Sprintf("Out.%s is written from StyleAttributes.%s, which the reader fills from In.%s", x, f, a[f]))
			}
		}
		l.Min(rule+".wiring", m, 24)
	}
	// offset-time metrics: alternatives of capture group 3 are all handled
	um := anchor(p, l, rule, "TTMLInDuration.UnmarshalText")
	if c, ok := p.globalInit("ttmlRegexpOffsetTime").(*ssa.Call); ok && um != nil {
		if pat, ok := constStr(c.Call.Args[0]); ok {
			var alts []string
			if re, err := syntax.Parse(pat, syntax.Perl); err == nil {
				var walk func(r *syntax.Regexp)
				walk = func(r *syntax.Regexp) {
					if r.Op == syntax.OpCapture && r.Cap == 3 {
						collectLiterals(r.Sub[0], "", &alts)
						return
					}
					for _, s := range r.Sub {
						walk(s)
					}
				}
				walk(re)
			}
			// handled: compared with a constant, or a key of a constant table that is looked up, in
			// UnmarshalText or a library helper it calls
			handled := strset{}
			for _, h := range p.Helpers(um) {
				if fnPkg(h) != p.LibSSA {
					continue
				}
				for _, b := range h.Blocks {
					for _, ins := range b.Instrs {
						if bo, ok := ins.(*ssa.BinOp); ok && bo.Op == token.EQL {
							if s, ok := constStr(bo.Y); ok {
								handled.add(s)
							}
							if s, ok := constStr(bo.X); ok {
								handled.add(s)
							}
						}
						if lk, ok := ins.(*ssa.Lookup); ok && lk.CommaOk {
							if u, ok := lk.X.(*ssa.UnOp); ok {
								if gl, ok := u.X.(*ssa.Global); ok {
									for _, k := range p.globalMapKeys(gl.Name()) {
										handled.add(k)
									}
								}
							}
						}
					}
				}
			}
			sort.Strings(alts)
			for _, a := range alts {
				key := rule + "|metric|" + a
				if handled[a] {
					l.Prove(rule, "", key, "", "offset-time metric "+a+" admitted by the grammar is handled")
				} else {
					l.Fail(rule, "", key, "", "offset-time metric "+a+" is admitted by ttmlRegexpOffsetTime but UnmarshalText has no case for it")
				}
			}
			l.Min(rule+".metrics", len(alts), 6)
		}
	}
	// language table used forwards by the reader and backwards by the writer
	uses := func(fnName, method string) bool {
		fn := p.Fn(fnName)
		if fn == nil {
			return false
		}
		for _, b := range fn.Blocks {
			for _, ins := range b.Instrs {
				if c, ok := ins.(*ssa.Call); ok && isBiMapMethod(&c.Call, method) {
					if u, ok := c.Call.Args[0].(*ssa.UnOp); ok {
						if g, ok := u.X.(*ssa.Global); ok && g.Name() == "ttmlLanguageMapping" {
							return true
						}
					}
				}
			}
		}
		return false
	}
	key := rule + "|language-direction"
	if uses("TTMLIn.metadata", "Get") && uses("Subtitles.WriteToTTML", "GetInverse") {
		l.Prove(rule, "", key, "", "ttmlLanguageMapping: Get in the reader, GetInverse in the writer")
	} else {
		l.Fail(rule, "", key, "", "ttmlLanguageMapping is not used with Get in the reader and GetInverse in the writer")
	}
}

// collectLiterals enumerates the literal alternatives of a small regexp (alternation of literals / char classes).
func collectLiterals(r *syntax.Regexp, prefix string, out *[]string) {
	switch r.Op {
	case syntax.OpLiteral:
		*out = append(*out, prefix+string(r.Rune))
	case syntax.OpCharClass:
		for i := 0; i+1 < len(r.Rune); i += 2 {
			for c := r.Rune[i]; c <= r.Rune[i+1] && c-r.Rune[i] < 16; c++ {
				*out = append(*out, prefix+string(c))
			}
		}
	case syntax.OpAlternate:
		for _, s := range r.Sub {
			collectLiterals(s, prefix, out)
		}
	case syntax.OpConcat:
		// literal followed by optional literal etc.: expand left to right
		cur := []string{prefix}
		for _, s := range r.Sub {
			var next []string
			for _, pfx := range cur {
				var tmp []string
				collectLiterals(s, pfx, &tmp)
				next = append(next, tmp...)
			}
			cur = next
		}
		*out = append(*out, cur...)
	case syntax.OpQuest:
		*out = append(*out, prefix)
		collectLiterals(r.Sub[0], prefix, out)
	case syntax.OpCapture:
		collectLiterals(r.Sub[0], prefix, out)
	}
}

func isStringT(t types.Type) bool {
	b, ok := t.Underlying().(*types.Basic)
	return ok && b.Info()&types.IsString != 0
}

// concatParts: the operands of a left-nested string concatenation a + b + c, in order.
func concatParts(v ssa.Value) []ssa.Value {
	if bo, ok := v.(*ssa.BinOp); ok && bo.Op == token.ADD && isStringT(bo.Type()) {
		return append(concatParts(bo.X), concatParts(bo.Y)...)
	}
	return []ssa.Value{v}
}

// instantiate: the values vs of helper h as the call sites of h inside Helpers(root) see them.
// Each value is followed through phis to the parameters of h it can come from; for every call
// site the result holds, per value, the arguments bound to those parameters (first value: exactly
// one argument expected, further values are flattened after it).  For h == root, or values that do
// not depend on parameters, the values are returned as they are.
func (p *Prog) instantiate(root, h *ssa.Function, vs []ssa.Value) [][]ssa.Value {
	paramsOf := func(v ssa.Value) []int {
		var out []int
		seen := map[ssa.Value]bool{}
		var walk func(x ssa.Value)
		walk = func(x ssa.Value) {
			if seen[x] {
				return
			}
			seen[x] = true
			switch t := x.(type) {
			case *ssa.Parameter:
				for i, q := range h.Params {
					if q == t {
						out = append(out, i)
					}
				}
			case *ssa.Phi:
				for _, e := range t.Edges {
					walk(e)
				}
			case *ssa.UnOp:
				// an element of a variadic / slice parameter (for _, v := range candidates)
				if ia, ok := t.X.(*ssa.IndexAddr); ok && t.Op == token.MUL {
					if _, isPar := ia.X.(*ssa.Parameter); isPar {
						walk(ia.X)
					}
				}
			case *ssa.Call:
				// the value is produced by a function handed in as a parameter (a getter)
				if !t.Call.IsInvoke() {
					if _, isPar := t.Call.Value.(*ssa.Parameter); isPar {
						walk(t.Call.Value)
					}
				}
			}
		}
		walk(v)
		return out
	}
	if h == root {
		return [][]ssa.Value{vs}
	}
	idx := make([][]int, len(vs))
	any := false
	for i, v := range vs {
		idx[i] = paramsOf(v)
		if len(idx[i]) > 0 {
			any = true
		}
	}
	if !any {
		return [][]ssa.Value{vs}
	}
	var out [][]ssa.Value
	for _, b := range p.helperBlocks(root) {
		for _, ins := range b.Instrs {
			c, ok := ins.(ssa.CallInstruction)
			if !ok || c.Common().StaticCallee() != h {
				continue
			}
			args := c.Common().Args
			var inst []ssa.Value
			for i, v := range vs {
				if len(idx[i]) == 0 {
					inst = append(inst, v)
					continue
				}
				for _, k := range idx[i] {
					if k < len(args) {
						inst = append(inst, args[k])
					}
				}
			}
			out = append(out, inst)
		}
	}
	return out
}

// traceFieldOrGetter: traceField, except that a function value (a getter passed to a helper) stands
// for the fields its results are loaded from.
func traceFieldOrGetter(v ssa.Value, out strset) {
	var f *ssa.Function
	switch x := v.(type) {
	case *ssa.MakeClosure:
		f, _ = x.Fn.(*ssa.Function)
	case *ssa.Function:
		f = x
	}
	// the argument list of a variadic call: every element stored into the temporary array
	if sl, ok := v.(*ssa.Slice); ok {
		if al, ok := sl.X.(*ssa.Alloc); ok {
			for _, r := range *al.Referrers() {
				if ia, ok := r.(*ssa.IndexAddr); ok {
					for _, r2 := range *ia.Referrers() {
						if st, ok := r2.(*ssa.Store); ok && st.Addr == ssa.Value(ia) {
							traceField(st.Val, "", map[ssa.Value]bool{}, out)
						}
					}
				}
			}
			return
		}
	}
	if f == nil || len(f.Blocks) == 0 {
		traceField(v, "", map[ssa.Value]bool{}, out)
		return
	}
	for _, b := range f.Blocks {
		if r, ok := b.Instrs[len(b.Instrs)-1].(*ssa.Return); ok {
			for _, res := range r.Results {
				traceField(res, "", map[ssa.Value]bool{}, out)
			}
		}
	}
}
