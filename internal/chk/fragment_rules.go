package chk

import (
	"fmt"
	"go/token"
	"go/types"

	"golang.org/x/tools/go/ssa"
)

// ---- E14-M7 Fragment: the sweep over the multiples of f (added in round 3) ----------------------------
// Fragment simulates windows [k·f, (k+1)·f) and cuts the cues that contain a window boundary.
// Three structural necessary conditions of "no cue strictly contains a multiple of f" on lists
// whose cues overlap or nest:
//
//	(a) the sweep runs until the end of the cue that ends last: its bound is computed by a scan over
//	    all cues, it is not the EndAt of one designated element (the last listed cue need not end last);
//	(b) the window advances by exactly f on every trip (a jump over several windows skips the
//	    multiples inside a cue that is still running);
//	(c) the inner loop does not insert into the slice a `range` clause is iterating: the range keeps
//	    the length it saw at the start, so the cues pushed beyond it are not visited for that boundary.
func ruleFragmentSweep(p *Prog, l *Ledger, tier string) {
	const rule = "E14.M7-fragment-sweep"
	const name = "Subtitles.Fragment"
	fn := anchor(p, l, rule, name)
	if fn == nil {
		return
	}
	f := ssa.Value(fn.Params[1])
	loops := loopsOf(fn)
	// the sweep loop: a loop whose header has a Duration phi stepped by f
	var sweep *loopInfo
	var windowPhis []*ssa.Phi
	for _, li := range loops {
		var phs []*ssa.Phi
		for _, ins := range li.header.Instrs {
			ph, ok := ins.(*ssa.Phi)
			if !ok {
				break
			}
			if isDurationT(ph.Type()) {
				phs = append(phs, ph)
			}
		}
		if len(phs) > 0 && (sweep == nil || len(li.blocks) > len(sweep.blocks)) {
			sweep, windowPhis = li, phs
		}
	}
	if sweep == nil {
		l.Undecide(rule, name, rule+"|sweep", "", "no loop with a time.Duration window variable found in Fragment: the algorithm changed shape")
		return
	}
	// (b) every window phi is phi + f on every back edge
	for _, ph := range windowPhis {
		key := l.Key(rule, name, "step", phiName(ph))
		bad := ""
		for i, e := range ph.Edges {
			if !sweep.blocks[ph.Block().Preds[i]] {
				continue
			}
			bo, ok := e.(*ssa.BinOp)
			if !ok || bo.Op != token.ADD || !((bo.X == ssa.Value(ph) && bo.Y == f) || (bo.Y == ssa.Value(ph) && bo.X == f)) {
				bad = descOf(e)
			}
		}
		if bad == "" {
			l.Prove(rule, name, key, p.Pos(ph.Pos()), phiName(ph)+" advances by exactly the period on every trip")
		} else {
			l.Fail(rule, name, key, p.Pos(ph.Pos()), fmt.Sprintf("%s: window variable %s is not simply advanced by the period f on every trip (it can become %s): windows are skipped, and the multiples of f inside a cue that is still running at that point are never cut", name, phiName(ph), bad))
		}
	}
	// (a) the bound of the sweep
	keyA := rule + "|bound"
	var bound ssa.Value
	for b := range sweep.blocks {
		iff, ok := b.Instrs[len(b.Instrs)-1].(*ssa.If)
		if !ok {
			continue
		}
		exits := false
		for _, s := range b.Succs {
			if !sweep.blocks[s] {
				exits = true
			}
		}
		bo, ok := iff.Cond.(*ssa.BinOp)
		if !exits || !ok {
			continue
		}
		for _, ph := range windowPhis {
			if bo.X == ssa.Value(ph) {
				bound = bo.Y
			} else if bo.Y == ssa.Value(ph) {
				bound = bo.X
			}
		}
	}
	switch {
	case bound == nil:
		l.Undecide(rule, name, keyA, "", "the exit test of the sweep does not compare a window variable with a bound")
	default:
		// a bound computed by a helper: look at what the helper returns
		boundLoops := loops
		if c, ok := bound.(*ssa.Call); ok {
			if sc := c.Call.StaticCallee(); sc != nil && p.inScope(sc) && len(sc.Blocks) > 0 {
				var results []ssa.Value
				for _, b := range sc.Blocks {
					if r, ok := b.Instrs[len(b.Instrs)-1].(*ssa.Return); ok && len(r.Results) == 1 {
						results = append(results, r.Results[0])
					}
				}
				boundLoops = loopsOf(sc)
				for _, r := range results {
					if _, isConst := r.(*ssa.Const); isConst && len(results) > 1 {
						continue // the empty-list answer
					}
					bound = r
				}
			}
		}
		if t, fld, base := loadedField(bound); t == "Item" && fld == "EndAt" {
			// the EndAt of one element: which one?
			l.Fail(rule, name, keyA, p.Pos(bound.Pos()), fmt.Sprintf("%s: the sweep stops at the end of one designated cue (%s.EndAt). On a start-ordered list the last cue need not be the one that ends last ([0,9) then [1,2)): the rest of a longer, earlier cue is never cut", name, descOf(base)))
		} else if ph, ok := bound.(*ssa.Phi); ok && maxScanOverItems(ph, boundLoops) {
			l.Prove(rule, name, keyA, p.Pos(ph.Pos()), "the bound is the maximum of EndAt accumulated by a loop over all cues")
		} else {
			l.Undecide(rule, name, keyA, p.Pos(bound.Pos()), "the bound of the sweep ("+descOf(bound)+") is neither one cue's EndAt nor a maximum accumulated over all cues")
		}
	}
	// (c) no store to a location while a range over its earlier value is running
	n := 0
	for _, li := range loops {
		if li.header.Comment != "rangeindex.loop" {
			continue
		}
		// the ranged value: len(X) in the header or its predecessor
		var ranged ssa.Value
		for _, ins := range li.header.Instrs {
			if bo, ok := ins.(*ssa.BinOp); ok && bo.Op == token.LSS {
				if c, ok := bo.Y.(*ssa.Call); ok {
					if bi, ok := c.Call.Value.(*ssa.Builtin); ok && bi.Name() == "len" {
						ranged = c.Call.Args[0]
					}
				}
			}
		}
		ld, ok := ranged.(*ssa.UnOp)
		if !ok {
			continue
		}
		loc, _ := locOf(ld.X)
		if loc == "" {
			continue
		}
		n++
		key := l.Key(rule, name, "range", loc)
		bad := ""
		for b := range li.blocks {
			for _, ins := range b.Instrs {
				if st, ok := ins.(*ssa.Store); ok {
					if l2, _ := locOf(st.Addr); l2 == loc {
						bad = p.Pos(st.Pos())
					}
				}
			}
		}
		if bad == "" {
			l.Prove(rule, name, key, loopPos(p, li), "the ranged slice is not reassigned inside the range loop")
		} else {
			l.Fail(rule, name, key, bad, fmt.Sprintf("%s assigns %s at %s inside a `range` over it: the range clause keeps the slice (and length) it evaluated at the start, so after an insertion the last elements are not visited in this pass and the boundary is not cut in them", name, loc, bad))
		}
	}
	// (c') a counted loop that inserts into the list re-reads the length on every trip: a bound taken
	// before the loop does not see the cues the insertions push beyond it
	for _, li := range loops {
		if li.header.Comment == "rangeindex.loop" {
			continue
		}
		var ins *ssa.Store
		for b := range li.blocks {
			for _, x := range b.Instrs {
				if st, ok := x.(*ssa.Store); ok {
					if t, fld := fieldOfAddr(st.Addr); t == "Subtitles" && fld == "Items" {
						ins = st
					}
				}
			}
		}
		if ins == nil {
			continue
		}
		// innermost loop holding the store only
		inner := true
		for _, l2 := range loops {
			if l2 != li && li.blocks[l2.header] && l2.blocks[ins.Block()] {
				inner = false
			}
		}
		if !inner {
			continue
		}
		key := l.Key(rule, name, "bound-reread", loopDesc(li))
		bad := ""
		for b := range li.blocks {
			iff, ok := b.Instrs[len(b.Instrs)-1].(*ssa.If)
			if !ok {
				continue
			}
			exits := false
			for _, sc := range b.Succs {
				if !li.blocks[sc] {
					exits = true
				}
			}
			bo, ok := iff.Cond.(*ssa.BinOp)
			if !exits || !ok {
				continue
			}
			for _, side := range []ssa.Value{bo.X, bo.Y} {
				base, _ := linear(side)
				if _, isPhi := base.(*ssa.Phi); isPhi {
					continue
				}
				if _, isC := base.(*ssa.Const); isC {
					continue
				}
				bi, isIns := base.(ssa.Instruction)
				if isIns && li.blocks[bi.Block()] {
					continue // evaluated inside the loop
				}
				if isIntegerT(base.Type()) {
					bad = descOf(base)
				}
			}
		}
		if bad == "" {
			l.Prove(rule, name, key, loopPos(p, li), "the loop that inserts into the list compares its counter with a length read inside the loop")
		} else {
			l.Fail(rule, name, key, loopPos(p, li), fmt.Sprintf("%s: the loop at %s inserts into the list but stops at %s, a bound computed before the loop: the cues that the insertions push beyond it are not visited in this pass, so a boundary is not cut in them", name, loopPos(p, li), bad))
		}
	}
	// (e) inside the sweep, the scan over the cues starts at the first cue – or at a cursor that is only
	// moved past a contiguous run of finished cues: start order is not end order, a finished cue listed
	// after a running one says nothing about the running one
	for _, li := range loops {
		if li == sweep || !sweep.blocks[li.header] {
			continue
		}
		// a counted loop whose counter indexes Items
		for _, ins := range li.header.Instrs {
			ph, ok := ins.(*ssa.Phi)
			if !ok {
				break
			}
			if !isIntegerT(ph.Type()) || !indexesItems(ph, li) {
				continue
			}
			for i, e := range ph.Edges {
				if li.blocks[li.header.Preds[i]] {
					continue
				}
				key := l.Key(rule, name, "scan-start", phiName(ph))
				if c, ok := constInt(e); ok {
					if c <= 0 {
						l.Prove(rule, name, key, loopPos(p, li), "the scan of a window starts at the first cue")
					} else {
						l.Fail(rule, name, key, loopPos(p, li), fmt.Sprintf("%s: the scan of a window starts at cue %d, not at the first one", name, c))
					}
					continue
				}
				cur, ok := e.(*ssa.Phi)
				if !ok || cur.Block() != sweep.header {
					l.Undecide(rule, name, key, loopPos(p, li), "the scan of a window starts at "+descOf(e)+", which is neither 0 nor a cursor carried by the sweep")
					continue
				}
				// every update of the cursor is under `counter == cursor`
				bad := ""
				var chk func(v ssa.Value, from *ssa.BasicBlock, seen map[ssa.Value]bool)
				chk = func(v ssa.Value, from *ssa.BasicBlock, seen map[ssa.Value]bool) {
					if v == ssa.Value(cur) || seen[v] {
						return
					}
					seen[v] = true
					if p2, ok := v.(*ssa.Phi); ok {
						for j, e2 := range p2.Edges {
							chk(e2, p2.Block().Preds[j], seen)
						}
						return
					}
					contiguous := false
					if from != nil {
						for _, dc := range dominatingConds(from) {
							bo, ok := dc.cond.(*ssa.BinOp)
							if ok && bo.Op == token.EQL && dc.taken && ((bo.X == ssa.Value(ph) && isCursor(bo.Y, cur)) || (bo.Y == ssa.Value(ph) && isCursor(bo.X, cur))) {
								contiguous = true
							}
						}
					}
					if !contiguous {
						bad = descOf(v)
					}
				}
				for j, e2 := range cur.Edges {
					if sweep.blocks[sweep.header.Preds[j]] {
						chk(e2, sweep.header.Preds[j], map[ssa.Value]bool{})
					}
				}
				if bad == "" {
					l.Prove(rule, name, key, loopPos(p, li), "the scan starts at a cursor that only moves past a contiguous run of finished cues")
				} else {
					l.Fail(rule, name, key, loopPos(p, li), fmt.Sprintf("%s: the scan of a window starts at a cursor (%s) that is moved to %s whenever a finished cue is met, not only while the finished cues form a prefix: a short cue listed after a long one finishes first, and the rest of the long cue, which sits before it, is never visited again", name, phiName(cur), bad))
				}
			}
		}
	}
	// (d) the list installed by one trip of the sweep is not the buffer the next trip refills while
	// reading it: s.Items = buf with buf = buf[:0] reused across trips makes the range over s.Items
	// and the appends into buf walk the same array; with two elements appended for one element read
	// (a cue that is cut) the writes overtake the reads and the cue that follows is overwritten
	for _, b := range fn.Blocks {
		for _, ins := range b.Instrs {
			st, ok := ins.(*ssa.Store)
			if !ok {
				continue
			}
			if t, fld := fieldOfAddr(st.Addr); t != "Subtitles" || fld != "Items" {
				continue
			}
			reset, grow2 := bufferReuse(st.Val, map[ssa.Value]bool{})
			if reset == nil {
				continue
			}
			// reset is buf[:0] with buf carried round a loop that also contains this store
			carried := false
			if ph, ok := reset.X.(*ssa.Phi); ok {
				for _, li := range loops {
					if li.header == ph.Block() && li.blocks[b] {
						carried = true
					}
				}
			}
			if !carried {
				continue
			}
			key := l.Key(rule, name, "buffer-reuse", "")
			if grow2 {
				l.Fail(rule, name, key, p.Pos(st.Pos()), fmt.Sprintf("%s installs as the cue list a buffer that the next trip of the sweep empties (%s) and refills while it ranges over that same list, and some trip appends two elements for one element read: the writes overtake the reads, so the cue that follows a cut one is overwritten before it is visited", name, p.Pos(reset.Pos())))
			} else {
				l.Prove(rule, name, key, p.Pos(st.Pos()), "the reused buffer receives at most one element per element read: writes never overtake reads")
			}
		}
	}
	l.Min(rule, len(windowPhis)+1, 2)
}

// bufferReuse follows v back through appends and phis: the x[:0] reset it grows from (nil if none),
// and whether some append on the way adds two or more elements at once.
func bufferReuse(v ssa.Value, seen map[ssa.Value]bool) (*ssa.Slice, bool) {
	if seen[v] {
		return nil, false
	}
	seen[v] = true
	switch x := v.(type) {
	case *ssa.Slice:
		if x.Low == nil && x.High != nil {
			if c, ok := constInt(x.High); ok && c == 0 {
				return x, false
			}
		}
	case *ssa.Call:
		if bi, ok := x.Call.Value.(*ssa.Builtin); ok && bi.Name() == "append" {
			r, g := bufferReuse(x.Call.Args[0], seen)
			if sl, ok := x.Call.Args[1].(*ssa.Slice); ok {
				if al, ok := sl.X.(*ssa.Alloc); ok {
					if at, ok := al.Type().(*types.Pointer).Elem().Underlying().(*types.Array); ok && at.Len() >= 2 {
						g = true
					}
				}
			}
			return r, g
		}
	case *ssa.Phi:
		var r *ssa.Slice
		g := false
		for _, e := range x.Edges {
			r2, g2 := bufferReuse(e, seen)
			if r2 != nil {
				r = r2
			}
			g = g || g2
		}
		return r, g
	}
	return nil, false
}

// maxScanOverItems: ph is the exit value of a loop that keeps the larger of ph and a cue's EndAt.
func maxScanOverItems(ph *ssa.Phi, loops []*loopInfo) bool {
	seen := map[ssa.Value]bool{}
	found := false
	var walk func(v ssa.Value)
	walk = func(v ssa.Value) {
		if seen[v] {
			return
		}
		seen[v] = true
		switch t := v.(type) {
		case *ssa.Phi:
			for _, e := range t.Edges {
				walk(e)
			}
		default:
			if tn, f, _ := loadedField(v); tn == "Item" && f == "EndAt" {
				// loaded inside some loop (the scan)
				if ins, ok := v.(ssa.Instruction); ok {
					for _, li := range loops {
						if li.blocks[ins.Block()] && fullScan(li) {
							found = true
						}
					}
				}
			}
		}
	}
	walk(ph)
	return found
}

// endBoundKind classifies a time.Duration value as an upper bound of the cues' ends: "one-cue" when
// it is (or a helper returns) the EndAt of one designated element, "max-scan" when it is the
// maximum accumulated over all cues by a loop, "" when it is neither.
func endBoundKind(p *Prog, v ssa.Value) (string, string) {
	v = stripAllConv(v)
	loops := []*loopInfo(nil)
	if ins, ok := v.(ssa.Instruction); ok && ins.Parent() != nil {
		loops = loopsOf(ins.Parent())
	}
	if c, ok := v.(*ssa.Call); ok {
		sc := c.Call.StaticCallee()
		if sc == nil || !p.inScope(sc) || len(sc.Blocks) == 0 {
			return "", ""
		}
		var results []ssa.Value
		for _, b := range sc.Blocks {
			if r, ok := b.Instrs[len(b.Instrs)-1].(*ssa.Return); ok && len(r.Results) == 1 {
				results = append(results, r.Results[0])
			}
		}
		loops = loopsOf(sc)
		v = nil
		for _, r := range results {
			if _, isConst := r.(*ssa.Const); isConst && len(results) > 1 {
				continue
			}
			v = r
		}
		if v == nil {
			return "", ""
		}
	}
	if t, fld, base := loadedField(v); t == "Item" && fld == "EndAt" {
		return "one-cue", descOf(base) + ".EndAt"
	}
	if ph, ok := v.(*ssa.Phi); ok && maxScanOverItems(ph, loops) {
		return "max-scan", phiName(ph)
	}
	return "", ""
}

// indexesItems: the counter is used as index into a load of Subtitles.Items inside the loop.
func indexesItems(ph *ssa.Phi, li *loopInfo) bool {
	for _, r := range *ph.Referrers() {
		if ia, ok := r.(*ssa.IndexAddr); ok && li.blocks[ia.Block()] {
			if _, f, _ := loadedField(ia.X); f == "Items" {
				return true
			}
		}
	}
	return false
}

// isCursor: v is the cursor phi or a merge that can only hold the cursor's values of this trip.
func isCursor(v ssa.Value, cur *ssa.Phi) bool {
	if v == ssa.Value(cur) {
		return true
	}
	if p2, ok := v.(*ssa.Phi); ok {
		for _, e := range p2.Edges {
			if e == ssa.Value(cur) {
				return true
			}
		}
	}
	return false
}

// fullScan: the loop visits every element: it is left only from its header, on a test against a length (or the end of a
// range); a scan that also stops on what it finds (walking back while the cues overlap the last one) does not.
func fullScan(li *loopInfo) bool {
	for b := range li.blocks {
		for _, s := range b.Succs {
			if !li.blocks[s] && b != li.header {
				return false
			}
		}
	}
	iff, ok := li.header.Instrs[len(li.header.Instrs)-1].(*ssa.If)
	return ok && isLoopBoundCond(iff.Cond)
}
