package chk

import (
	"fmt"
	"sort"
	"strings"

	"golang.org/x/tools/go/ssa"
)

// ---- E12-G5 the frame rate written into the GSI block is a rate of the table -------------------------
// The writer renders the disk format code by looking the frame rate up in stlFramerateMapping and
// every timecode by multiplying with it. A rate outside the table (0 for metadata that come from
// another format) gives a blank code – which the reader rejects – and frame number 0 everywhere.
// Rule: every store into gsiBlock.framerate in newGSIBlock is a constant of the table, or is
// dominated by the ok branch of a lookup of the same Metadata field in the table.
func ruleGSIFramerateValidated(p *Prog, l *Ledger, tier string) {
	const rule = "E12.G5-gsi-framerate-validated"
	const name = "newGSIBlock"
	fn := anchor(p, l, rule, name)
	if fn == nil {
		return
	}
	rates := map[int64]bool{}
	for _, pr := range p.BiMaps().byGlobal["stlFramerateMapping"] {
		if v, ok := constInt(pr.v); ok {
			rates[v] = true
		}
	}
	n := 0
	for _, b := range fn.Blocks {
		for _, ins := range b.Instrs {
			st, ok := ins.(*ssa.Store)
			if !ok {
				continue
			}
			if t, f := fieldOfAddr(st.Addr); t != "gsiBlock" || f != "framerate" {
				continue
			}
			n++
			key := l.Key(rule, name, "store", "gsiBlock.framerate")
			if c, ok := constInt(st.Val); ok {
				if rates[c] {
					l.Prove(rule, name, key, p.Pos(st.Pos()), fmt.Sprintf("default %d is a rate of the table", c))
				} else {
					l.Fail(rule, name, key, p.Pos(st.Pos()), fmt.Sprintf("%s sets the frame rate to %d, which has no disk format code in stlFramerateMapping", name, c))
				}
				continue
			}
			st1, sf, _ := loadedField(st.Val)
			validated := false
			for _, dc := range dominatingConds(b) {
				ex, ok := dc.cond.(*ssa.Extract)
				if !ok || ex.Index != 1 || !dc.taken {
					continue
				}
				c, ok := ex.Tuple.(*ssa.Call)
				if !ok || !(isBiMapMethod(&c.Call, "GetInverse") || isBiMapMethod(&c.Call, "Get")) {
					continue
				}
				if u, ok := c.Call.Args[0].(*ssa.UnOp); !ok {
					continue
				} else if g, ok := u.X.(*ssa.Global); !ok || g.Name() != "stlFramerateMapping" {
					continue
				}
				arg := c.Call.Args[1]
				if mi, ok := arg.(*ssa.MakeInterface); ok {
					arg = mi.X
				}
				at, af, _ := loadedField(arg)
				if arg == st.Val || (sf != "" && at == st1 && af == sf) {
					validated = true
				}
			}
			if validated {
				l.Prove(rule, name, key, p.Pos(st.Pos()), "the stored rate was found in stlFramerateMapping on the dominating branch")
			} else {
				l.Fail(rule, name, key, p.Pos(st.Pos()), fmt.Sprintf("%s copies %s into the GSI block without checking it against stlFramerateMapping: metadata inherited from another format carry frame rate 0, the disk format code is then written blank (the library's reader rejects the file) and every frame number is 0", name, descOf(st.Val)))
			}
		}
	}
	l.Min(rule, n, 2)
}

// ---- E10-A10 teletext boxing agreement ----------------------------------------------------------------
// For every display standard other than open subtitling the STL reader decodes rows with
// parseTeletextRow, which keeps characters only while `started` is true, and `started` becomes true
// only on the start-box code. A writer that never emits that code produces, for those display
// standards (the default one included), files whose text its own reader drops. Rule: the control
// codes that switch `started` on in parseTeletextRow are among the constants the STL writer can put
// into the text field.
func ruleSTLBoxAgreement(p *Prog, l *Ledger, tier string) {
	const rule = "E10.A10-stl-teletext-box"
	rd := anchor(p, l, rule, "parseTeletextRow")
	if rd == nil {
		return
	}
	// reader: the phi of `started` and the switch arms feeding it true
	var started *ssa.Phi
	for _, b := range rd.Blocks {
		for _, ins := range b.Instrs {
			if ph, ok := ins.(*ssa.Phi); ok && ph.Comment == "started" && started == nil {
				started = ph
			}
		}
	}
	key := rule + "|start-codes"
	if started == nil {
		l.Undecide(rule, "parseTeletextRow", key, "", "no variable `started` gating the text in parseTeletextRow: the boxing logic moved")
		return
	}
	// is text accumulation really gated by it?
	gated := false
	for _, b := range rd.Blocks {
		if iff, ok := b.Instrs[len(b.Instrs)-1].(*ssa.If); ok && derivesFromPhi(iff.Cond, started, 0) {
			gated = true
		}
	}
	if !gated {
		l.Add(Ob{Rule: rule, Key: key, Status: Info, Why: "`started` does not control any branch: text is kept regardless of boxing"})
		return
	}
	isRowByte := func(v ssa.Value) bool {
		v = stripAllConv(v)
		if u, ok := v.(*ssa.UnOp); ok {
			_, isIdx := u.X.(*ssa.IndexAddr)
			return isIdx
		}
		_, isExtract := v.(*ssa.Extract)
		return isExtract
	}
	arms := switchConstArms(rd, isRowByte)
	// which arm blocks feed `true` into a phi of started?
	trueFrom := map[*ssa.BasicBlock]bool{}
	var walk func(ph *ssa.Phi, seen map[*ssa.Phi]bool)
	walk = func(ph *ssa.Phi, seen map[*ssa.Phi]bool) {
		if seen[ph] {
			return
		}
		seen[ph] = true
		for i, e := range ph.Edges {
			if c, ok := e.(*ssa.Const); ok && c.Value != nil && c.Value.ExactString() == "true" {
				trueFrom[ph.Block().Preds[i]] = true
			}
			if q, ok := e.(*ssa.Phi); ok {
				walk(q, seen)
			}
		}
	}
	walk(started, map[*ssa.Phi]bool{})
	var startCodes []int64
	for cs, tgt := range arms {
		// the arm's target block (or a straight-line successor) is a predecessor feeding true
		b := tgt
		for k := 0; k < 3 && b != nil; k++ {
			if trueFrom[b] {
				var c int64
				fmt.Sscan(cs, &c)
				startCodes = append(startCodes, c)
				break
			}
			if len(b.Succs) == 1 {
				b = b.Succs[0]
			} else {
				b = nil
			}
		}
	}
	sort.Slice(startCodes, func(i, j int) bool { return startCodes[i] < startCodes[j] })
	if len(startCodes) == 0 {
		l.Undecide(rule, "parseTeletextRow", key, "", "could not find the switch arm that sets `started` to true")
		return
	}
	// writer: integer constants that can reach the text field
	emitted := map[int64]bool{}
	var wfns []string
	for _, wn := range []string{"newTTIBlock", "LineItem.STLString", "ttiBlock.bytes", "encodeTextSTL"} {
		fn := p.Fn(wn)
		if fn == nil {
			continue
		}
		wfns = append(wfns, wn)
		for _, f := range p.Closure([]*ssa.Function{fn}) {
			if fnPkg(f) != p.LibSSA {
				continue
			}
			for _, b := range f.Blocks {
				for _, ins := range b.Instrs {
					for _, op := range ins.Operands(nil) {
						if *op == nil {
							continue
						}
						if c, ok := constInt(*op); ok && c >= 0 && c < 256 {
							emitted[c] = true
						}
					}
				}
			}
		}
	}
	var missing []string
	for _, c := range startCodes {
		if !emitted[c] {
			missing = append(missing, fmt.Sprintf("%#x", c))
		}
	}
	l.Min(rule, 1, 1)
	if len(missing) == 0 {
		l.Prove(rule, "parseTeletextRow", key, p.Pos(started.Pos()), fmt.Sprintf("start-box code(s) %v occur among the constants of the STL writer (%s)", startCodes, strings.Join(wfns, ", ")))
		return
	}
	l.Fail(rule, "parseTeletextRow", key, p.Pos(started.Pos()), fmt.Sprintf("for every display standard other than open subtitling ReadFromSTL decodes rows with parseTeletextRow, which keeps text only after a start-box code (%s); the STL writer (%s) never emits that code, so the text of a file written with display standard 1, 2 or blank – 1 is the writer's default – is dropped by the library's own reader", strings.Join(missing, ", "), strings.Join(wfns, ", ")))
}

func derivesFromPhi(v ssa.Value, ph *ssa.Phi, depth int) bool {
	if depth > 4 {
		return false
	}
	if v == ssa.Value(ph) {
		return true
	}
	switch t := v.(type) {
	case *ssa.UnOp:
		return derivesFromPhi(t.X, ph, depth+1)
	case *ssa.Phi:
		for _, e := range t.Edges {
			if e == ssa.Value(ph) {
				return true
			}
		}
	case *ssa.BinOp:
		return derivesFromPhi(t.X, ph, depth+1) || derivesFromPhi(t.Y, ph, depth+1)
	}
	return false
}
