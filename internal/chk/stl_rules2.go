package chk

import (
	"fmt"
	"go/types"
	"sort"
	"strings"

	"golang.org/x/tools/go/ssa"
)

// ---- E12-G5 the frame rate written into the GSI block is a rate of the table -------------------------
// The writer renders the disk format code by looking the frame rate up in stlFramerateMapping and
// every timecode by multiplying with it. A rate outside the table (0 for metadata that come from
// another format) gives a blank code – which the reader rejects – and frame number 0 everywhere.
// Rule: every store into gsiBlock.framerate in newGSIBlock is a constant of the table, or is
// dominated by the ok branch of a lookup of the same Metadata field in the table.
func ruleGSIFramerateValidated(p *Prog, l *Ledger, tier string) {
	const rule = "E12.G5-gsi-framerate-validated"
	const name = "newGSIBlock"
	fn := anchor(p, l, rule, name)
	if fn == nil {
		return
	}
	rates := map[int64]bool{}
	for _, pr := range p.BiMaps().byGlobal["stlFramerateMapping"] {
		if v, ok := constInt(pr.v); ok {
			rates[v] = true
		}
	}
	n := 0
	for _, b := range fn.Blocks {
		for _, ins := range b.Instrs {
			st, ok := ins.(*ssa.Store)
			if !ok {
				continue
			}
			if t, f := fieldOfAddr(st.Addr); t != "gsiBlock" || f != "framerate" {
				continue
			}
			n++
			key := l.Key(rule, name, "store", "gsiBlock.framerate")
			if c, ok := constInt(st.Val); ok {
				if rates[c] {
					l.Prove(rule, name, key, p.Pos(st.Pos()), fmt.Sprintf("default %d is a rate of the table", c))
				} else {
					l.Fail(rule, name, key, p.Pos(st.Pos()), fmt.Sprintf("%s sets the frame rate to %d, which has no disk format code in stlFramerateMapping", name, c))
				}
				continue
			}
			st1, sf, _ := loadedField(st.Val)
			validated := false
			for _, dc := range dominatingConds(b) {
				ex, ok := dc.cond.(*ssa.Extract)
				if !ok || ex.Index != 1 || !dc.taken {
					continue
				}
				c, ok := ex.Tuple.(*ssa.Call)
				if !ok || !(isBiMapMethod(&c.Call, "GetInverse") || isBiMapMethod(&c.Call, "Get")) {
					continue
				}
				if u, ok := c.Call.Args[0].(*ssa.UnOp); !ok {
					continue
				} else if g, ok := u.X.(*ssa.Global); !ok || g.Name() != "stlFramerateMapping" {
					continue
				}
				arg := c.Call.Args[1]
				if mi, ok := arg.(*ssa.MakeInterface); ok {
					arg = mi.X
				}
				at, af, _ := loadedField(arg)
				if arg == st.Val || (sf != "" && at == st1 && af == sf) {
					validated = true
				}
			}
			if validated {
				l.Prove(rule, name, key, p.Pos(st.Pos()), "the stored rate was found in stlFramerateMapping on the dominating branch")
			} else {
				l.Fail(rule, name, key, p.Pos(st.Pos()), fmt.Sprintf("%s copies %s into the GSI block without checking it against stlFramerateMapping: metadata inherited from another format carry frame rate 0, the disk format code is then written blank (the library's reader rejects the file) and every frame number is 0", name, descOf(st.Val)))
			}
		}
	}
	l.Min(rule, n, 2)
}

// ---- E10-A10 teletext boxing agreement ----------------------------------------------------------------
// For every display standard other than open subtitling the STL reader decodes rows with
// parseTeletextRow, which keeps characters only while `started` is true, and `started` becomes true
// only on the start-box code. A writer that never emits that code produces, for those display
// standards (the default one included), files whose text its own reader drops. Rule: the control
// codes that switch `started` on in parseTeletextRow are among the constants the STL writer can put
// into the text field.
func ruleSTLBoxAgreement(p *Prog, l *Ledger, tier string) {
	const rule = "E10.A10-stl-teletext-box"
	rd := anchor(p, l, rule, "parseTeletextRow")
	if rd == nil {
		return
	}
	// reader: the phi of `started` and the switch arms feeding it true
	var started *ssa.Phi
	for _, b := range rd.Blocks {
		for _, ins := range b.Instrs {
			if ph, ok := ins.(*ssa.Phi); ok && ph.Comment == "started" && started == nil {
				started = ph
			}
		}
	}
	key := rule + "|start-codes"
	if started == nil {
		l.Undecide(rule, "parseTeletextRow", key, "", "no variable `started` gating the text in parseTeletextRow: the boxing logic moved")
		return
	}
	// is text accumulation really gated by it?
	gated := false
	for _, b := range rd.Blocks {
		if iff, ok := b.Instrs[len(b.Instrs)-1].(*ssa.If); ok && derivesFromPhi(iff.Cond, started, 0) {
			gated = true
		}
	}
	if !gated {
		l.Add(Ob{Rule: rule, Key: key, Status: Info, Why: "`started` does not control any branch: text is kept regardless of boxing"})
		return
	}
	// which codes make `started` true: partial evaluation of the decoder with the row byte fixed to
	// each control code (a switch arm, `started = v == 0xb`, a table: all evaluate the same way)
	var startCodes []int64
	rowByte := rowByteOf(rd)
	if rowByte == nil {
		l.Undecide(rule, "parseTeletextRow", key, "", "the current byte of the row is not a single load of row[i]")
		return
	}
	for c := int64(0); c < 0x20; c++ {
		arr, _, ok := pevalPhi(rowByte, map[ssa.Value]pv{rowByte: {i: c}}, func(ph *ssa.Phi) bool { return ph.Comment == "started" })
		if !ok {
			l.Undecide(rule, "parseTeletextRow", key, "", "the decoder is too large to evaluate per code")
			return
		}
		nTrue, nOther := 0, 0
		for _, a := range arr {
			if v, ok := pevalValue(a.edge, a.env, 0); ok && v.isBool {
				if v.b {
					nTrue++
				} else {
					nOther++
				}
				continue
			}
			if ph, ok := a.edge.(*ssa.Phi); ok && ph.Comment == "started" {
				nOther++ // unchanged
				continue
			}
			l.Undecide(rule, "parseTeletextRow", key, p.Pos(a.edge.Pos()), fmt.Sprintf("what code %#x does to `started` cannot be evaluated", c))
			return
		}
		if nTrue > 0 && nOther == 0 {
			startCodes = append(startCodes, c)
		} else if nTrue > 0 {
			l.Undecide(rule, "parseTeletextRow", key, "", fmt.Sprintf("code %#x sets `started` on some paths only", c))
			return
		}
	}
	sort.Slice(startCodes, func(i, j int) bool { return startCodes[i] < startCodes[j] })
	if len(startCodes) == 0 {
		l.Undecide(rule, "parseTeletextRow", key, "", "could not find the switch arm that sets `started` to true")
		return
	}
	// writer: integer constants that can reach the text field
	emitted := map[int64]bool{}
	var wfns []string
	for _, wn := range []string{"newTTIBlock", "LineItem.STLString", "ttiBlock.bytes", "encodeTextSTL"} {
		fn := p.Fn(wn)
		if fn == nil {
			continue
		}
		wfns = append(wfns, wn)
		for _, f := range p.Closure([]*ssa.Function{fn}) {
			if fnPkg(f) != p.LibSSA {
				continue
			}
			for _, b := range f.Blocks {
				for _, ins := range b.Instrs {
					for _, op := range ins.Operands(nil) {
						if *op == nil {
							continue
						}
						if c, ok := constInt(*op); ok && c >= 0 && c < 256 {
							emitted[c] = true
						}
					}
				}
			}
		}
	}
	var missing []string
	for _, c := range startCodes {
		if !emitted[c] {
			missing = append(missing, fmt.Sprintf("%#x", c))
		}
	}
	l.Min(rule, 1, 1)
	if len(missing) == 0 {
		l.Prove(rule, "parseTeletextRow", key, p.Pos(started.Pos()), fmt.Sprintf("start-box code(s) %v occur among the constants of the STL writer (%s)", startCodes, strings.Join(wfns, ", ")))
		return
	}
	l.Fail(rule, "parseTeletextRow", key, p.Pos(started.Pos()), fmt.Sprintf("for every display standard other than open subtitling ReadFromSTL decodes rows with parseTeletextRow, which keeps text only after a start-box code (%s); the STL writer (%s) never emits that code, so the text of a file written with display standard 1, 2 or blank – 1 is the writer's default – is dropped by the library's own reader", strings.Join(missing, ", "), strings.Join(wfns, ", ")))
}

func derivesFromPhi(v ssa.Value, ph *ssa.Phi, depth int) bool {
	if depth > 4 {
		return false
	}
	if v == ssa.Value(ph) {
		return true
	}
	switch t := v.(type) {
	case *ssa.UnOp:
		return derivesFromPhi(t.X, ph, depth+1)
	case *ssa.Phi:
		for _, e := range t.Edges {
			if e == ssa.Value(ph) {
				return true
			}
		}
	case *ssa.BinOp:
		return derivesFromPhi(t.X, ph, depth+1) || derivesFromPhi(t.Y, ph, depth+1)
	}
	return false
}

// ---- E10-A11 timecode offsets are applied symmetrically ----------------------------------------------
// ReadFromSTL stores timecode − offset into the cue boundaries, where the offset is a GSI value it
// also hands to the caller in Metadata; the writer puts that Metadata value back into the GSI block
// (E10-A5). The written timecodes therefore have to be boundary + the same offset, or a file read
// and written again has every timecode moved by the offset. Rule: the set of offset fields the
// reader subtracts equals the set the writer adds (compared by GSI field name).
// offsetResolve maps a helper parameter to what its call sites pass (set while a rule runs; rules run one at a time).
var offsetResolve func(ssa.Value) ssa.Value

func canonOffsetName(f string) string {
	f = strings.ToLower(f)
	return strings.TrimPrefix(f, "stl")
}

func offsetTerms(v ssa.Value, sign int, plus, minus strset, depth int) {
	if depth > 6 {
		return
	}
	if offsetResolve != nil {
		v = offsetResolve(v)
	}
	switch t := v.(type) {
	case *ssa.BinOp:
		switch t.Op.String() {
		case "+":
			offsetTerms(t.X, sign, plus, minus, depth+1)
			offsetTerms(t.Y, sign, plus, minus, depth+1)
		case "-":
			offsetTerms(t.X, sign, plus, minus, depth+1)
			offsetTerms(t.Y, -sign, plus, minus, depth+1)
		}
		return
	case *ssa.Convert:
		offsetTerms(t.X, sign, plus, minus, depth+1)
		return
	case *ssa.ChangeType:
		offsetTerms(t.X, sign, plus, minus, depth+1)
		return
	}
	_, f, _ := loadedField(v)
	if f == "" {
		// a local that is also what the function stores into a field of the metadata: the offset by that field's name
		if refs := v.Referrers(); refs != nil {
			for _, r := range *refs {
				if st, ok := r.(*ssa.Store); ok && st.Val == v {
					if fa, ok := st.Addr.(*ssa.FieldAddr); ok && isPtrToNamed(fa.X.Type(), "Metadata") {
						f = fieldName(fa.X.Type(), fa.Field)
					}
				}
			}
		}
	}
	if f != "" {
		if sign > 0 {
			plus.add(canonOffsetName(f))
		} else {
			minus.add(canonOffsetName(f))
		}
	}
}

func ruleSTLOffsetSymmetry(p *Prog, l *Ledger, tier string) {
	const rule = "E10.A11-stl-offset-symmetry"
	defer func() { offsetResolve = nil }()
	rd := anchor(p, l, rule, "ReadFromSTL")
	wr := anchor(p, l, rule, "ttiBlock.bytes")
	if rd == nil || wr == nil {
		return
	}
	n := 0
	for _, pair := range [][2]string{{"StartAt", "timecodeIn"}, {"EndAt", "timecodeOut"}} {
		key := rule + "|" + pair[0]
		// reader
		rPlus, rMinus := strset{}, strset{}
		var rblocks []*ssa.BasicBlock
		for _, h := range p.Helpers(rd) {
			if fnPkg(h) == p.LibSSA {
				rblocks = append(rblocks, h.Blocks...)
			}
		}
		offsetResolve = func(v ssa.Value) ssa.Value { return p.rootValue(rd, v) }
		vals := fieldStores(rblocks, "Item")[pair[0]]
		if len(vals) == 0 {
			l.Undecide(rule, "ReadFromSTL", key, "", "no store to Item."+pair[0]+" in ReadFromSTL")
			continue
		}
		for _, v := range vals {
			offsetTerms(v, 1, rPlus, rMinus, 0)
		}
		// writer: the duration formatted for this timecode
		wPlus, wMinus := strset{}, strset{}
		found := false
		var fmtCalls []*ssa.Call
		for _, h := range p.Helpers(wr) {
			if fnPkg(h) == p.LibSSA && (h == wr || (h.Signature.Recv() != nil && wr.Signature.Recv() != nil && types.Identical(h.Signature.Recv().Type(), wr.Signature.Recv().Type()))) {
				fmtCalls = append(fmtCalls, callsTo(h, "formatDurationSTLBytes")...)
			}
		}
		for _, c := range fmtCalls {
			tp, tm := strset{}, strset{}
			offsetTerms(c.Call.Args[0], 1, tp, tm, 0)
			if tp[strings.ToLower(pair[1])] {
				found = true
				for k := range tp {
					wPlus.add(k)
				}
				for k := range tm {
					wMinus.add(k)
				}
			}
		}
		offsetResolve = nil
		if !found {
			l.Undecide(rule, "ttiBlock.bytes", key, "", "the call formatting "+pair[1]+" was not found in ttiBlock.bytes")
			continue
		}
		n++
		delete(rPlus, strings.ToLower(pair[1]))
		delete(wPlus, strings.ToLower(pair[1]))
		// (round 16) the offset recorded for the caller is the offset applied: the reader does not assign the GSI
		// field it subtracts (an "ignore" option that zeroes the field after the metadata have been filled leaves
		// the two apart, and the writer adds back what the reader never took off)
		if pair[0] == "StartAt" {
			for _, b := range rd.Blocks {
				for _, ins := range b.Instrs {
					st, ok := ins.(*ssa.Store)
					if !ok {
						continue
					}
					fa, ok := st.Addr.(*ssa.FieldAddr)
					if !ok || !isPtrToNamed(fa.X.Type(), "gsiBlock") {
						continue
					}
					if f := fieldName(fa.X.Type(), fa.Field); rMinus[canonOffsetName(f)] {
						l.Fail(rule, "ReadFromSTL", rule+"|assigned|"+f, p.Pos(st.Pos()), "ReadFromSTL assigns gsiBlock."+f+", the offset it subtracts from every timecode, after the GSI block has been parsed: what is recorded in the metadata (and written back by the writer) and what is taken off the cues are no longer one value on every path")
					}
				}
			}
		}
		// reader subtracts X ⇔ writer adds X; reader adds X ⇔ writer subtracts X
		a, b := strings.Join(rMinus.sorted(), ","), strings.Join(wPlus.sorted(), ",")
		c, d := strings.Join(rPlus.sorted(), ","), strings.Join(wMinus.sorted(), ",")
		if a == b && c == d {
			l.Prove(rule, "ReadFromSTL", key, "", fmt.Sprintf("reader: %s = %s − {%s}; writer: %s + {%s}", pair[0], pair[1], a, pair[1], b))
		} else {
			l.Fail(rule, "ttiBlock.bytes", key, blockPos(p, wr.Blocks[0]), fmt.Sprintf("ReadFromSTL computes Item.%s as %s minus {%s} plus {%s}, but the writer emits %s plus {%s} minus {%s}: the offset is kept in the metadata and written back to the GSI block, so a file read and written again has this timecode moved by the offset", pair[0], pair[1], a, c, pair[1], b, d))
		}
	}
	l.Min(rule, n, 2)
}
