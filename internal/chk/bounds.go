package chk

import (
	"fmt"
	"go/types"
	"strconv"
	"strings"

	"golang.org/x/tools/go/ssa"
)

// E2 bounds: every index and slice expression is in range on all paths (DESIGN.md §3 E2).

type boundSite struct {
	ins  ssa.Instruction
	kind string // index | slice
	x    ssa.Value
	idx  ssa.Value
	lo   ssa.Value
	hi   ssa.Value
}

func boundSites(fn *ssa.Function) []boundSite {
	var out []boundSite
	for _, b := range fn.Blocks {
		for _, ins := range b.Instrs {
			switch x := ins.(type) {
			case *ssa.IndexAddr:
				out = append(out, boundSite{ins: ins, kind: "index", x: x.X, idx: x.Index})
			case *ssa.Index:
				out = append(out, boundSite{ins: ins, kind: "index", x: x.X, idx: x.Index})
			case *ssa.Lookup:
				if bt, ok := x.X.Type().Underlying().(*types.Basic); ok && bt.Info()&types.IsString != 0 {
					out = append(out, boundSite{ins: ins, kind: "index", x: x.X, idx: x.Index})
				}
			case *ssa.Slice:
				if x.Low == nil && x.High == nil && x.Max == nil {
					continue // x[:] never fails
				}
				out = append(out, boundSite{ins: ins, kind: "slice", x: x.X, lo: x.Low, hi: x.High})
			}
		}
	}
	return out
}

// containerLen returns the length term of x: a constant for arrays, else "len(reg)".
func (a *NilAnalysis) containerLen(g *cgraph, x ssa.Value) (string, int64) {
	t := x.Type().Underlying()
	if pt, ok := t.(*types.Pointer); ok {
		t = pt.Elem().Underlying()
	}
	if at, ok := t.(*types.Array); ok {
		return "", at.Len()
	}
	g.defineLen(x, 0)
	return "len(" + a.regKey(x) + ")", 0
}

// proveSite decides one site; why explains a failure.
// phiCase: while proving a site, phi ph is taken to be its operand e, arriving from pred.
type phiCase struct {
	ph   *ssa.Phi
	e    ssa.Value
	pred *ssa.BasicBlock
}

// proveSite proves the site directly, or by cases on a merge (a phi that is not loop-carried) used
// as index or bound: for every operand of the phi, with the facts that hold on the edge it arrives
// from added to those that hold at the site.
func (a *NilAnalysis) proveSite(fn *ssa.Function, s boundSite) (bool, string) {
	ok, why := a.proveSiteIn(fn, s, nil)
	if ok {
		return ok, why
	}
	// phis among the operands that merge values of this trip (not loop-carried)
	var phis []*ssa.Phi
	for _, v := range []ssa.Value{s.idx, s.lo, s.hi} {
		if v == nil {
			continue
		}
		base, _ := linear(v)
		ph, isPhi := base.(*ssa.Phi)
		if !isPhi || !isIntegerT(ph.Type()) {
			continue
		}
		carried, dup := false, false
		for i := range ph.Edges {
			if ph.Block().Dominates(ph.Block().Preds[i]) { // loop-carried: the operand belongs to another trip
				carried = true
			}
		}
		for _, q := range phis {
			if q == ph {
				dup = true
			}
		}
		if !carried && !dup {
			phis = append(phis, ph)
		}
	}
	casesOf := func(ph *ssa.Phi) []*phiCase {
		var out []*phiCase
		for i, e := range ph.Edges {
			out = append(out, &phiCase{ph, e, ph.Block().Preds[i]})
		}
		return out
	}
	for _, ph := range phis {
		all := true
		for _, pc := range casesOf(ph) {
			if ok2, _ := a.proveSiteIn(fn, s, pc); !ok2 {
				all = false
				break
			}
		}
		if all {
			return true, ""
		}
	}
	// two merged operands (low and high of a slice expression): every combination of their cases
	if len(phis) == 2 {
		all := true
		for _, pc1 := range casesOf(phis[0]) {
			for _, pc2 := range casesOf(phis[1]) {
				if ok2, _ := a.proveSiteIn(fn, s, pc1, pc2); !ok2 {
					all = false
					break
				}
			}
			if !all {
				break
			}
		}
		if all {
			return true, ""
		}
	}
	return ok, why
}

func (a *NilAnalysis) proveSiteIn(fn *ssa.Function, s boundSite, pc *phiCase, more ...*phiCase) (bool, string) {
	a.cur, a.curFn, a.curCase, a.curCases = s.ins, fn, pc, more
	defer func() { a.cur, a.curFn, a.curCase, a.curCases = nil, nil, nil, nil }()
	g := a.newGraph(fn, s.ins)
	for _, pc := range append([]*phiCase{pc}, more...) {
		if pc == nil {
			continue
		}
		// facts on the edge pred -> phi block (facts about registers never expire)
		if out, ok := a.out[pc.pred]; ok {
			f := out.clone()
			for si, sc := range pc.pred.Succs {
				if sc == pc.ph.Block() {
					if !(len(pc.pred.Succs) == 2 && pc.pred.Succs[0] == pc.pred.Succs[1]) {
						a.edgeFacts(fn, pc.pred, si, f)
					}
					break
				}
			}
			for k := range f {
				switch {
				case strings.HasPrefix(k, "N|"):
					p := strings.Split(k, "|")
					if c, err := strconv.ParseInt(p[3], 10, 64); err == nil {
						g.le(p[1], p[2], c)
					}
				case strings.HasPrefix(k, "NE|"):
					p := strings.Split(k, "|")
					g.ne[g.canon(p[1])+"|"+g.canon(p[2])+"|"+p[3]] = true
				}
			}
		}
		if t, k, ok := a.intTerm(pc.e); ok {
			g.define(pc.e, 0)
			own := a.regKey(pc.ph)
			g.le(own, orZero(t), k)
			g.le(orZero(t), own, -k)
		}
	}
	lt, lk := a.containerLen(g, s.x)
	switch s.kind {
	case "index":
		t, k, ok := a.intTerm(s.idx)
		if !ok {
			return false, "index is not an integer expression the analysis can name"
		}
		g.define(s.idx, 0)
		if !g.proveLE(zeroTerm, 0, t, k) {
			return false, "cannot establish index ≥ 0"
		}
		if !g.proveLE(t, k+1, lt, lk) {
			return false, "cannot establish index < length"
		}
		return true, ""
	case "slice":
		loT, loK := "", int64(0)
		if s.lo != nil {
			t, k, ok := a.intTerm(s.lo)
			if !ok {
				return false, "low bound is not a nameable integer expression"
			}
			g.define(s.lo, 0)
			loT, loK = t, k
			if !g.proveLE(zeroTerm, 0, t, k) {
				return false, "cannot establish low ≥ 0"
			}
		}
		hiT, hiK := lt, lk
		if s.hi != nil {
			t, k, ok := a.intTerm(s.hi)
			if !ok {
				return false, "high bound is not a nameable integer expression"
			}
			g.define(s.hi, 0)
			hiT, hiK = t, k
			// slices may be extended up to cap(x) ≥ len(x); len(x) is the bound we can name
			if !g.proveLE(t, k, lt, lk) {
				return false, "cannot establish high ≤ length"
			}
		}
		if !g.proveLE(loT, loK, hiT, hiK) {
			return false, "cannot establish low ≤ high"
		}
		return true, ""
	}
	return false, "unknown site kind"
}

func siteDesc(s boundSite) string {
	switch s.kind {
	case "index":
		return descOf(s.x) + "[" + idxDesc(s.idx) + "]"
	default:
		lo, hi := "", ""
		if s.lo != nil {
			lo = idxDesc(s.lo)
		}
		if s.hi != nil {
			hi = idxDesc(s.hi)
		}
		return descOf(s.x) + "[" + lo + ":" + hi + "]"
	}
}

func ruleBounds(p *Prog, l *Ledger, tier string) {
	const rule = "E2.bounds"
	a := NewNilAnalysis(p)
	n, trivial := 0, 0
	for _, fn := range c08Scope(p, l, rule, tier) {
		fname := FnName(fn)
		for _, s := range boundSites(fn) {
			// constant index into a fixed array: decided by the compiler
			if s.kind == "index" {
				if c, ok := constInt(s.idx); ok {
					t := s.x.Type().Underlying()
					if pt, ok := t.(*types.Pointer); ok {
						t = pt.Elem().Underlying()
					}
					if at, ok := t.(*types.Array); ok && c >= 0 && c < at.Len() {
						trivial++
						continue
					}
				}
			}
			n++
			key := l.Key(rule, fname, s.kind, siteDesc(s))
			pos := p.Pos(s.ins.Pos())
			if ok, why := a.proveSite(fn, s); ok {
				l.Prove(rule, fname, key, pos, "in range by dominating tests, loop bounds, length contracts")
			} else {
				l.Fail(rule, fname, key, pos, fmt.Sprintf("%s: %s expression %s may be out of range: %s", fname, s.kind, siteDesc(s), why))
			}
		}
	}
	if tier == "thorough" {
		nw, bw := 0, 0
		for _, fn := range widerScope(p, l, rule) {
			for _, s := range boundSites(fn) {
				nw++
				if ok, why := a.proveSite(fn, s); !ok {
					bw++
					l.Add(Ob{Rule: rule + ".wider-scope", Fn: FnName(fn), Key: l.Key(rule+".wider-scope", FnName(fn), s.kind, siteDesc(s)), Pos: p.Pos(s.ins.Pos()), Status: Info, Why: "outside the reader/writer closures: " + siteDesc(s) + ": " + why})
				}
			}
		}
		l.Note("E2 thorough: %d further index/slice sites outside the C08 scope, %d unproved (listed as info)", nw, bw)
	}
	l.Note("E2: %d constant indexes into fixed-size arrays not listed", trivial)
	l.Min(rule, n, 150)
}

var _ = strings.Join
