package chk

import (
	"fmt"
	"go/token"
	"strings"

	"golang.org/x/tools/go/ssa"
)

// ---- E7-R7.4 end-of-input sentinels are never manufactured (added after seeded change C18/2, round 3) --
// Callers treat io.EOF / astits.ErrNoMorePackets as the clean end of the source (the conversions
// frozen in sentinelConversions). A function that *assigns* such a sentinel to its error – instead
// of passing on the one it received – turns whatever failure it had in hand into a clean end: a
// truncated cue list with a nil error. Rule: in the library, a load of an end-of-input sentinel is
// only ever compared (==, !=, errors.Is); it is never stored, returned, wrapped or passed on.
var endOfInputSentinels = map[string]bool{
	"io.EOF": true,
	"github.com/asticode/go-astits.ErrNoMorePackets": true,
}

func sentinelMisuses(fns []*ssa.Function, pos func(token.Pos) string) (uses int, bad []string, badFn []string) {
	for _, fn := range fns {
		for _, b := range fn.Blocks {
			for _, ins := range b.Instrs {
				u, ok := ins.(*ssa.UnOp)
				if !ok || u.Op != token.MUL {
					continue
				}
				g, ok := u.X.(*ssa.Global)
				if !ok || g.Pkg == nil || !endOfInputSentinels[g.Pkg.Pkg.Path()+"."+g.Name()] {
					continue
				}
				for _, ref := range *u.Referrers() {
					uses++
					switch r := ref.(type) {
					case *ssa.BinOp:
						if r.Op == token.EQL || r.Op == token.NEQ {
							continue
						}
					case *ssa.Call:
						if n := calleeName(&r.Call); n == "errors.Is" {
							continue
						}
					case *ssa.MakeInterface:
						// errors.Is(err, io.EOF) boxes nothing (already an interface); be conservative
					case *ssa.Return:
						// return …, io.EOF under `err == io.EOF`: the sentinel returned IS the error in hand
						if sentinelInHand(r.Block(), g) {
							continue
						}
					}
					bad = append(bad, fmt.Sprintf("%s.%s used by `%s` at %s", g.Pkg.Pkg.Name(), g.Name(), strings.TrimSpace(ref.String()), pos(ref.Pos())))
					badFn = append(badFn, FnName(fn))
				}
			}
		}
	}
	return
}

func ruleNoManufacturedSentinel(p *Prog, l *Ledger, tier string) {
	const rule = "E7.R7.4-no-manufactured-eof"
	uses, bad, badFn := sentinelMisuses(p.LibFns, p.Pos)
	for i, b := range bad {
		key := l.Key(rule, badFn[i], "sentinel", "")
		l.Fail(rule, badFn[i], key, "", fmt.Sprintf("%s produces an end-of-input sentinel itself (%s): its caller takes that value as the clean end of the source, so whatever error was in hand is turned into a truncated result with a nil error", badFn[i], b))
	}
	if len(bad) == 0 {
		l.Prove(rule, "", rule+"|all", "", fmt.Sprintf("%d uses of io.EOF / ErrNoMorePackets in the library, all of them comparisons", uses))
	}
	l.Min(rule, uses, 3)
}

// sentinelInHand: on entry of block b some error value is known to be equal to the sentinel g (a dominating
// `x == g` taken, or `x != g` not taken, x not a constant): handing g on is handing x on.
func sentinelInHand(b *ssa.BasicBlock, g *ssa.Global) bool {
	isG := func(v ssa.Value) bool {
		u, ok := v.(*ssa.UnOp)
		return ok && u.Op == token.MUL && u.X == ssa.Value(g)
	}
	for _, dc := range dominatingConds(b) {
		bo, ok := dc.cond.(*ssa.BinOp)
		if !ok {
			continue
		}
		if !((bo.Op == token.EQL && dc.taken) || (bo.Op == token.NEQ && !dc.taken)) {
			continue
		}
		var other ssa.Value
		switch {
		case isG(bo.X):
			other = bo.Y
		case isG(bo.Y):
			other = bo.X
		default:
			continue
		}
		if _, isC := other.(*ssa.Const); !isC && !isG(other) {
			return true
		}
	}
	return false
}
