package chk

import (
	"fmt"
	"go/constant"
	"go/token"
	"go/types"
	"strings"

	"golang.org/x/tools/go/ssa"
)

// E4 loops: every loop in the reader/writer closures has a progress argument (DESIGN.md §3 E4).

var progressPrimitives = map[string]bool{
	"(*bufio.Scanner).Scan": true, "(*golang.org/x/net/html.Tokenizer).Next": true, "(*golang.org/x/net/html.Tokenizer).TagAttr": true, // one attribute of the current tag per call, false after the last
	"(*encoding/xml.Decoder).Token": true, "(*encoding/xml.Decoder).RawToken": true, "invoke (encoding/xml.TokenReader).Token": true,
	"(*github.com/asticode/go-astits.Demuxer).NextData": true, "(*github.com/asticode/go-astits.Demuxer).NextPacket": true,
	"io.ReadFull": true, "io.ReadAtLeast": true, "invoke (io.Reader).Read": true,
	"(*bufio.Reader).ReadString": true, "(*bufio.Reader).ReadBytes": true, "(*bufio.Reader).ReadByte": true, "(*bufio.Reader).ReadRune": true, "(*bufio.Reader).ReadLine": true,
}

// status calls report the (sticky) outcome of a progress primitive on the same receiver
var statusOf = map[string]string{
	"(*golang.org/x/net/html.Tokenizer).Err": "(*golang.org/x/net/html.Tokenizer).Next",
	"(*bufio.Scanner).Err":                   "(*bufio.Scanner).Scan",
}

type loopInfo struct {
	header *ssa.BasicBlock
	blocks map[*ssa.BasicBlock]bool
	latch  []*ssa.BasicBlock
}

func loopsOf(fn *ssa.Function) []*loopInfo {
	var out []*loopInfo
	for _, b := range fn.Blocks {
		blocks := loopOf(b)
		if blocks == nil {
			continue
		}
		li := &loopInfo{header: b, blocks: blocks}
		for _, p := range b.Preds {
			if b.Dominates(p) {
				li.latch = append(li.latch, p)
			}
		}
		out = append(out, li)
	}
	return out
}

// progressFns: in-package functions that call a progress primitive on every path (here: simply
// contain a call to one in their entry block or dominate all returns); used for readNBytes.
func progressFns(p *Prog) map[*ssa.Function]bool {
	out := map[*ssa.Function]bool{}
	for changed := true; changed; {
		changed = false
		for _, fn := range p.LibFns {
			if out[fn] || len(fn.Blocks) == 0 {
				continue
			}
			for _, b := range fn.Blocks {
				// the call must execute on every path through the function: its block dominates every return
				domAll := true
				for _, rb := range fn.Blocks {
					if _, ok := rb.Instrs[len(rb.Instrs)-1].(*ssa.Return); ok && !b.Dominates(rb) {
						domAll = false
					}
				}
				if !domAll {
					continue
				}
				// a verified read-until-full loop whose header is on every path stands for io.ReadFull
				if isLoopHeader(b) {
					for _, li := range loopsOf(fn) {
						if li.header != b {
							continue
						}
						for lb := range li.blocks {
							for _, ins := range lb.Instrs {
								if c, ok := ins.(*ssa.Call); ok && isRawReadCall(&c.Call) {
									if fl, _ := recogniseFillLoop(fn, c); fl != nil && !out[fn] {
										out[fn] = true
										changed = true
									}
								}
							}
						}
					}
				}
				for _, ins := range b.Instrs {
					if c, ok := ins.(*ssa.Call); ok {
						if progressPrimitives[calleeName(&c.Call)] {
							out[fn] = true
							changed = true
						} else if sc := c.Call.StaticCallee(); sc != nil && out[sc] {
							out[fn] = true
							changed = true
						}
					}
				}
			}
		}
	}
	return out
}

func ruleLoops(p *Prog, l *Ledger, tier string) {
	const rule = "E4.loops"
	pf := progressFns(p)
	n := 0
	// reader / writer closures only: the property's "never loops forever" clause
	seen := map[*ssa.Function]bool{}
	var fns []*ssa.Function
	for _, f := range append(p.ReaderClosure(l, rule), p.WriterClosure(l, rule)...) {
		if !seen[f] && fnPkg(f) == p.LibSSA && FnName(f) != "init" {
			seen[f] = true
			fns = append(fns, f)
		}
	}
	for _, fn := range fns {
		fname := FnName(fn)
		for _, li := range loopsOf(fn) {
			n++
			key := l.Key(rule, fname, "loop", loopDesc(li))
			pos := blockPos(p, li.header)
			if class, why := classifyLoop(p, fn, li, pf); class != "" {
				l.Prove(rule, fname, key, pos, class+": "+why)
			} else {
				l.Fail(rule, fname, key, pos, fmt.Sprintf("%s: loop at %s has no recognised progress argument (%s)", fname, pos, why))
			}
		}
	}
	l.Min(rule, n, 60)
	// recursion
	cyc := recursionCycles(p, fns)
	if len(cyc) > 0 {
		l.Fail(rule, "", rule+"|recursion", "", "recursive call cycle among reader/writer functions: "+strings.Join(cyc, " -> "))
	} else {
		l.Prove(rule, "", rule+"|recursion", "", fmt.Sprintf("call graph restricted to %d closure functions is acyclic", len(fns)))
	}
}

func loopDesc(li *loopInfo) string {
	// a description stable under unrelated edits: the comment of the header block (go/ssa names
	// blocks after the construct: for.loop, rangeindex.loop, rangeiter.loop) plus the induction variable
	d := li.header.Comment
	for _, ins := range li.header.Instrs {
		if ph, ok := ins.(*ssa.Phi); ok && ph.Comment != "" {
			d += ":" + ph.Comment
			break
		}
	}
	return d
}

func classifyLoop(p *Prog, fn *ssa.Function, li *loopInfo, pf map[*ssa.Function]bool) (string, string) {
	// L1: range over map / string (Next in header)
	for _, ins := range li.header.Instrs {
		if nx, ok := ins.(*ssa.Next); ok {
			_ = nx
			return "L1 range", "range over a map or string terminates by language semantics"
		}
	}
	// exit edges
	type exit struct {
		from *ssa.BasicBlock
		cond ssa.Value
	}
	var exits []exit
	for b := range li.blocks {
		for _, s := range b.Succs {
			if !li.blocks[s] {
				var cond ssa.Value
				if iff, ok := b.Instrs[len(b.Instrs)-1].(*ssa.If); ok {
					cond = iff.Cond
				}
				exits = append(exits, exit{b, cond})
			}
		}
		if _, ok := b.Instrs[len(b.Instrs)-1].(*ssa.Return); ok {
			// a return inside the loop is an exit too, controlled by the branch that leads to it
			exits = append(exits, exit{b, nil})
		}
	}
	if len(exits) == 0 {
		return "", "the loop has no exit edge at all"
	}
	// L2/L3: a strictly monotone induction variable compared against a loop-invariant bound
	for _, ex := range exits {
		bo, ok := ex.cond.(*ssa.BinOp)
		if !ok {
			continue
		}
		for _, pair := range [][2]ssa.Value{{bo.X, bo.Y}, {bo.Y, bo.X}} {
			iv, bound := pair[0], pair[1]
			base, _ := linear(iv)
			ph, ok := base.(*ssa.Phi)
			if !ok || !li.blocks[ph.Block()] {
				continue
			}
			dir := monotone(ph, li)
			if dir == 0 {
				continue
			}
			if !loopInvariant(bound, li, fn, p) {
				continue
			}
			switch bo.Op {
			case token.LSS, token.LEQ, token.GTR, token.GEQ, token.NEQ:
				if dir > 0 {
					return "L2/L3 counted", fmt.Sprintf("induction variable %s strictly increases on every path round the loop and is compared with a loop-invariant bound", phiName(ph))
				}
				return "L2/L3 counted", fmt.Sprintf("induction variable %s strictly decreases on every path round the loop and is compared with a loop-invariant bound", phiName(ph))
			}
		}
	}
	// L4: source-driven
	for b := range li.blocks {
		for _, ins := range b.Instrs {
			c, ok := ins.(*ssa.Call)
			if !ok {
				continue
			}
			name := calleeName(&c.Call)
			isProg := progressPrimitives[name]
			if sc := c.Call.StaticCallee(); sc != nil && pf[sc] {
				isProg = true
			}
			if !isProg {
				continue
			}
			// every trip round the loop re-executes the call
			domLatches := true
			for _, lt := range li.latch {
				if !b.Dominates(lt) {
					domLatches = false
				}
			}
			if !domLatches {
				continue
			}
			// some exit condition depends on its result (or on the status call of the same receiver)
			for _, ex := range exits {
				if ex.cond == nil {
					continue
				}
				if dependsOnCall(ex.cond, c, li, map[ssa.Value]bool{}) {
					if pos := errorGoesRound(c, li); pos != nil {
						return "", "the loop is driven by " + calleeShort(&c.Call) + ", whose error is sticky (a source that has failed keeps failing), and a path on which that error is not nil goes round the loop again (through " + blockPos(p, pos) + "): a source that keeps failing keeps the loop spinning for ever"
					}
					return "L4 source-driven", "an exit condition depends on the result of " + calleeShort(&c.Call) + ", executed on every trip (each call consumes input or reports a sticky end/error)"
				}
			}
		}
	}
	// L5: the loop runs while a container is non-empty and every trip makes it shorter
	for _, ex := range exits {
		bo, ok := ex.cond.(*ssa.BinOp)
		if !ok {
			continue
		}
		lc, ok := bo.X.(*ssa.Call)
		if !ok {
			continue
		}
		if bi, ok := lc.Call.Value.(*ssa.Builtin); !ok || bi.Name() != "len" {
			continue
		}
		k, isC := constInt(bo.Y)
		if !isC || !((bo.Op == token.GTR && k >= 0) || (bo.Op == token.NEQ && k == 0) || (bo.Op == token.GEQ && k >= 1)) {
			continue
		}
		ld, ok := lc.Call.Args[0].(*ssa.UnOp)
		if !ok || ld.Op != token.MUL {
			continue
		}
		loc, _ := locOf(ld.X)
		if loc == "" {
			continue
		}
		shrinks, other, dom := 0, 0, false
		for b := range li.blocks {
			for _, ins := range b.Instrs {
				st, ok := ins.(*ssa.Store)
				if !ok {
					continue
				}
				if l2, _ := locOf(st.Addr); l2 != loc {
					continue
				}
				good := false
				if sl, ok := st.Val.(*ssa.Slice); ok && sl.Low == nil && sl.High != nil {
					if sx, ok := sl.X.(*ssa.UnOp); ok && sx.Op == token.MUL {
						if l3, _ := locOf(sx.X); l3 == loc {
							base, off := linear(sl.High)
							if hc, ok := base.(*ssa.Call); ok && off <= -1 {
								if bi, ok := hc.Call.Value.(*ssa.Builtin); ok && bi.Name() == "len" {
									if hx, ok := hc.Call.Args[0].(*ssa.UnOp); ok && hx.Op == token.MUL {
										if l4, _ := locOf(hx.X); l4 == loc {
											good = true
										}
									}
								}
							}
						}
					}
				}
				if !good {
					other++
					continue
				}
				shrinks++
				d := true
				for _, lt := range li.latch {
					if !b.Dominates(lt) {
						d = false
					}
				}
				if d {
					dom = true
				}
			}
		}
		if shrinks > 0 && other == 0 && dom && !loopCallsWrite(ld.X, li, fn, p) {
			return "L5 shrinking", "the loop runs while " + loc + " is non-empty and every trip stores a strictly shorter prefix of it back (no other write to it in the loop)"
		}
	}
	// L6: the loop runs while a slice/string register is long enough and every trip drops a non-empty prefix of it
	for _, ex := range exits {
		bo, ok := ex.cond.(*ssa.BinOp)
		if !ok {
			continue
		}
		lc, ok := bo.X.(*ssa.Call)
		if !ok {
			continue
		}
		if bi, ok := lc.Call.Value.(*ssa.Builtin); !ok || bi.Name() != "len" {
			continue
		}
		if _, isC := constInt(bo.Y); !isC {
			continue
		}
		switch bo.Op {
		case token.GTR, token.GEQ, token.NEQ:
		default:
			continue
		}
		ph, ok := lc.Call.Args[0].(*ssa.Phi)
		if !ok || ph.Block() != li.header {
			continue
		}
		good := true
		cK, _ := constInt(bo.Y)
		emptyEnds := (bo.Op == token.GTR && cK >= 0) || (bo.Op == token.GEQ && cK >= 1) || (bo.Op == token.NEQ && cK == 0)
		for i, e := range ph.Edges {
			if !li.blocks[li.header.Preds[i]] {
				continue
			}
			if drop, ok := droppedPrefix(e, ph, 0, emptyEnds); !ok || drop < 1 {
				// or a non-empty suffix dropped: ph[:len(ph)-k], k ≥ 1
				if sl, isSl := e.(*ssa.Slice); isSl && sl.X == ssa.Value(ph) && sl.Low == nil && sl.High != nil {
					base, off := linear(sl.High)
					if hc, isC := base.(*ssa.Call); isC && off <= -1 {
						if bi, isB := hc.Call.Value.(*ssa.Builtin); isB && bi.Name() == "len" && hc.Call.Args[0] == ssa.Value(ph) {
							continue
						}
					}
				}
				good = false
				break
			}
		}
		if good {
			return "L6 consuming", fmt.Sprintf("the loop runs while %s is long enough and every trip continues with %s[n:], n ≥ 1: its length strictly decreases", phiName(ph), phiName(ph))
		}
	}
	// L7: the loop runs until a flag is set, and every trip either sets the flag or continues with a strictly
	// shorter rest of a slice/string (for rest, last := text, false; !last; { if i := Index(rest, sep); i >= 0
	// { rest = rest[i+1:] } else { last = true } … })
	if iff, ok := li.header.Instrs[len(li.header.Instrs)-1].(*ssa.If); ok && len(li.header.Succs) == 2 {
		cond, contOnTrue := iff.Cond, li.blocks[li.header.Succs[0]] && !li.blocks[li.header.Succs[1]]
		contOnFalse := li.blocks[li.header.Succs[1]] && !li.blocks[li.header.Succs[0]]
		if u, ok := cond.(*ssa.UnOp); ok && u.Op == token.NOT {
			cond, contOnTrue, contOnFalse = u.X, contOnFalse, contOnTrue
		}
		flag, isPhi := cond.(*ssa.Phi)
		if isPhi && flag.Block() == li.header && contOnFalse && !contOnTrue {
			if why, ok := flagOrShrink(flag, li); ok {
				return "L7 flag or shrink", why
			}
		}
		// L8: for more := true; more; { before, s, more = strings.Cut(s, sep) … }: the loop goes on while the separator
		// was found, and then continues with what follows it, which is shorter by at least the separator
		if isPhi && flag.Block() == li.header && contOnTrue && !contOnFalse {
			if why, ok := cutUntilNotFound(flag, li); ok {
				return "L8 cut until not found", why
			}
			if why, ok := indexUntilNotFound(flag, li); ok {
				return "L9 index until not found", why
			}
		}
	}
	return "", "no monotone induction variable against an invariant bound, and no exit controlled by an input-consuming call executed on every trip"
}

// flagOrShrink: flag is a boolean header phi that ends the loop when true. On every way round the loop the
// flag becomes the constant true, or stays as it is while a slice/string header phi continues with a strictly
// shorter rest of itself. The two are merged in the same block, so the ways are matched predecessor by predecessor.
func flagOrShrink(flag *ssa.Phi, li *loopInfo) (string, bool) {
	for _, ins := range li.header.Instrs {
		rest, ok := ins.(*ssa.Phi)
		if !ok {
			break
		}
		if rest == flag {
			continue
		}
		switch rest.Type().Underlying().(type) {
		case *types.Slice:
		case *types.Basic:
			if !isStringT(rest.Type()) {
				continue
			}
		default:
			continue
		}
		good, any := true, false
		for i := range flag.Edges {
			if !li.blocks[li.header.Preds[i]] {
				continue
			}
			any = true
			if !flagOrShrinkPair(flag.Edges[i], rest.Edges[i], flag, rest, li, 0) {
				good = false
			}
		}
		if good && any {
			return fmt.Sprintf("the loop runs until %s is set, and every trip sets it or continues with a strictly shorter rest of %s", phiName(flag), phiName(rest)), true
		}
	}
	return "", false
}

func flagOrShrinkPair(f, r ssa.Value, flag, rest *ssa.Phi, li *loopInfo, depth int) bool {
	if depth > 4 {
		return false
	}
	if c, ok := f.(*ssa.Const); ok && c.Value != nil && c.Value.Kind() == constant.Bool && constant.BoolVal(c.Value) {
		return true // the flag is set: the next test leaves the loop, whatever the rest is
	}
	if f == ssa.Value(flag) {
		d, ok := droppedPrefix(r, rest, 0, false)
		return ok && d >= 1
	}
	// both merged in the same block: match the ways into it
	fp, ok1 := f.(*ssa.Phi)
	rp, ok2 := r.(*ssa.Phi)
	if ok1 && ok2 && fp.Block() == rp.Block() && li.blocks[fp.Block()] && fp != flag && rp != rest {
		for i := range fp.Edges {
			if !flagOrShrinkPair(fp.Edges[i], rp.Edges[i], flag, rest, li, depth+1) {
				return false
			}
		}
		return true
	}
	if ok1 && !ok2 && li.blocks[fp.Block()] && fp != flag {
		// the rest is the same on every way into the merge
		for i := range fp.Edges {
			if !flagOrShrinkPair(fp.Edges[i], r, flag, rest, li, depth+1) {
				return false
			}
		}
		return true
	}
	return false
}

// loopCallsWrite: some call of the loop may write the location addr designates (stores are judged by the caller).
func loopCallsWrite(addr ssa.Value, li *loopInfo, fn *ssa.Function, p *Prog) bool {
	loc, _ := locOf(addr)
	eff := ComputeEffects(p)
	for b := range li.blocks {
		for _, ins := range b.Instrs {
			x, ok := ins.(ssa.CallInstruction)
			if !ok {
				continue
			}
			if _, isB := x.Common().Value.(*ssa.Builtin); isB {
				continue
			}
			in, ext := p.Callees(fn, x)
			for _, callee := range in {
				for _, ef := range eff.Sum[callee].Effects {
					if ef.Loc == loc || strings.HasPrefix(ef.Loc, "unknown-callee") || strings.HasPrefix(ef.Loc, "callback") {
						return true
					}
				}
			}
			if ext {
				if ct, known := lookupContract(calleeName(x.Common())); !known || ct.ret == retUnknown {
					return true
				}
			}
		}
	}
	return false
}

func phiName(ph *ssa.Phi) string {
	if ph.Comment != "" {
		return ph.Comment
	}
	return ph.Name()
}

// monotone: +1 if every path round the loop adds a positive amount to ph, -1 if negative, else 0.
func monotone(ph *ssa.Phi, li *loopInfo) int {
	var self func(v ssa.Value, seen map[ssa.Value]bool) (int64, int64, bool)
	self = func(v ssa.Value, seen map[ssa.Value]bool) (int64, int64, bool) {
		if v == ssa.Value(ph) {
			return 0, 0, true
		}
		if seen[v] {
			return 0, 0, false
		}
		seen[v] = true
		base, k := linear(v)
		if base != v {
			lo, hi, ok := self(base, seen)
			return lo + k, hi + k, ok
		}
		if bo, ok := v.(*ssa.BinOp); ok && bo.Op == token.ADD {
			for _, pr := range [][2]ssa.Value{{bo.X, bo.Y}, {bo.Y, bo.X}} {
				if nonNegByType(pr[1]) {
					if lo, _, ok := self(pr[0], seen); ok {
						return lo, infW, true
					}
				}
			}
		}
		if p2, ok := v.(*ssa.Phi); ok {
			lo, hi := infW, -infW
			for _, e := range p2.Edges {
				l, h, ok := self(e, seen)
				if !ok {
					return 0, 0, false
				}
				if l < lo {
					lo = l
				}
				if h > hi {
					hi = h
				}
			}
			return lo, hi, true
		}
		return 0, 0, false
	}
	lo, hi := infW, -infW
	any := false
	for i, e := range ph.Edges {
		if !li.blocks[ph.Block().Preds[i]] {
			continue // entry edge
		}
		l, h, ok := self(e, map[ssa.Value]bool{})
		if !ok {
			return 0
		}
		any = true
		if l < lo {
			lo = l
		}
		if h > hi {
			hi = h
		}
	}
	if !any {
		return 0
	}
	if lo > 0 {
		return 1
	}
	if hi < 0 {
		return -1
	}
	return 0
}

// loopInvariant: the bound cannot change while the loop runs.
func loopInvariant(v ssa.Value, li *loopInfo, fn *ssa.Function, p *Prog) bool {
	switch x := v.(type) {
	case *ssa.Const, *ssa.Parameter, *ssa.FreeVar:
		return true
	case ssa.Instruction:
		if !li.blocks[x.Block()] {
			return true
		}
	}
	// len(y) / y+c recomputed inside the loop: invariant when y is, or when y is a load of a
	// location the loop never writes
	base, _ := linear(v)
	if base != v {
		return loopInvariant(base, li, fn, p)
	}
	switch x := v.(type) {
	case *ssa.Call:
		if b, ok := x.Call.Value.(*ssa.Builtin); ok && (b.Name() == "len" || b.Name() == "cap") {
			return loopInvariant(x.Call.Args[0], li, fn, p)
		}
	case *ssa.Convert:
		return loopInvariant(x.X, li, fn, p)
	case *ssa.UnOp:
		if x.Op == token.MUL {
			return !loopWrites(x.X, li, fn, p)
		}
	}
	return false
}

// loopWrites: some instruction of the loop may write the location addr designates.
func loopWrites(addr ssa.Value, li *loopInfo, fn *ssa.Function, p *Prog) bool {
	loc, _ := locOf(addr)
	eff := ComputeEffects(p)
	for b := range li.blocks {
		for _, ins := range b.Instrs {
			switch x := ins.(type) {
			case *ssa.Store:
				if l2, _ := locOf(x.Addr); l2 == loc {
					return true
				}
			case ssa.CallInstruction:
				if _, isB := x.Common().Value.(*ssa.Builtin); isB {
					continue // append/copy/delete cannot replace the content of a struct field or variable
				}
				in, ext := p.Callees(fn, x)
				for _, callee := range in {
					for _, ef := range eff.Sum[callee].Effects {
						if ef.Loc == loc || strings.HasPrefix(ef.Loc, "unknown-callee") || strings.HasPrefix(ef.Loc, "callback") {
							return true
						}
					}
				}
				if ext {
					if ct, known := lookupContract(calleeName(x.Common())); !known || ct.ret == retUnknown {
						return true
					}
				}
			}
		}
	}
	return false
}

// dependsOnCall: cond is computed from the result of call c, or from a status call on c's receiver.
func dependsOnCall(v ssa.Value, c *ssa.Call, li *loopInfo, seen map[ssa.Value]bool) bool {
	if v == ssa.Value(c) {
		return true
	}
	if seen[v] {
		return false
	}
	seen[v] = true
	ins, ok := v.(ssa.Instruction)
	if !ok || !li.blocks[ins.Block()] {
		return false
	}
	if c2, ok := v.(*ssa.Call); ok {
		if prim, ok := statusOf[calleeName(&c2.Call)]; ok && prim == calleeName(&c.Call) && len(c2.Call.Args) > 0 && len(c.Call.Args) > 0 && c2.Call.Args[0] == c.Call.Args[0] {
			return true
		}
	}
	for _, op := range ins.Operands(nil) {
		if *op != nil && dependsOnCall(*op, c, li, seen) {
			return true
		}
	}
	// values reloaded from a named-result cell the call's result was stored into
	if u, ok := v.(*ssa.UnOp); ok && u.Op == token.MUL {
		if al, ok := u.X.(*ssa.Alloc); ok {
			for _, ref := range *al.Referrers() {
				if st, ok := ref.(*ssa.Store); ok && li.blocks[st.Block()] && dependsOnCall(st.Val, c, li, seen) {
					return true
				}
			}
		}
	}
	return false
}

// recursionCycles finds a call cycle among fns (nil when acyclic).
func recursionCycles(p *Prog, fns []*ssa.Function) []string {
	in := map[*ssa.Function]bool{}
	for _, f := range fns {
		in[f] = true
	}
	color := map[*ssa.Function]int{}
	var stack []*ssa.Function
	var cyc []string
	var dfs func(f *ssa.Function) bool
	dfs = func(f *ssa.Function) bool {
		color[f] = 1
		stack = append(stack, f)
		for _, b := range f.Blocks {
			for _, ins := range b.Instrs {
				site, ok := ins.(ssa.CallInstruction)
				if !ok {
					continue
				}
				callees, _ := p.Callees(f, site)
				for _, c := range callees {
					if !in[c] {
						continue
					}
					if color[c] == 1 {
						for i := len(stack) - 1; i >= 0; i-- {
							cyc = append([]string{FnName(stack[i])}, cyc...)
							if stack[i] == c {
								break
							}
						}
						cyc = append(cyc, FnName(c))
						return true
					}
					if color[c] == 0 && dfs(c) {
						return true
					}
				}
			}
		}
		stack = stack[:len(stack)-1]
		color[f] = 2
		return false
	}
	for _, f := range fns {
		if color[f] == 0 && dfs(f) {
			return cyc
		}
	}
	return nil
}

// droppedPrefix: v is ph cut by a chain of slice expressions ph[a:][b:c]…; the result is a lower
// bound of the number of leading elements dropped (each low bound is a constant, a value that is
// non-negative by its type, or their sum).
func droppedPrefix(v ssa.Value, ph *ssa.Phi, depth int, emptyEnds bool) (int64, bool) {
	if v == ssa.Value(ph) {
		return 0, true
	}
	if depth > 6 {
		return 0, false
	}
	// the rest is given up (s = ""): the whole of it is dropped (callers make sure the loop condition demands a
	// non-empty value, emptyEnds: len(x) > c with c >= 0, len(x) >= c with c >= 1, len(x) != 0)
	if c, ok := v.(*ssa.Const); ok && emptyEnds {
		if c.Value == nil || (c.Value.Kind() == constant.String && constant.StringVal(c.Value) == "") {
			return 1 << 30, true
		}
	}
	// a merge inside the trip: the least of what its ways drop
	if m, ok := v.(*ssa.Phi); ok && m != ph {
		best := int64(-1)
		for _, e := range m.Edges {
			d, ok := droppedPrefix(e, ph, depth+1, emptyEnds)
			if !ok {
				return 0, false
			}
			if best < 0 || d < best {
				best = d
			}
		}
		return best, best >= 0
	}
	sl, ok := v.(*ssa.Slice)
	if !ok {
		return 0, false
	}
	d, ok := droppedPrefix(sl.X, ph, depth+1, emptyEnds)
	if !ok {
		return 0, false
	}
	if sl.Low == nil {
		return d, true
	}
	base, k := linear(sl.Low)
	if c, isC := constInt(base); isC {
		if c+k < 0 {
			return 0, false
		}
		return d + c + k, true
	}
	if (!nonNegByType(base) && !nonNegByGuard(base, sl.Block())) || k < 0 {
		return 0, false
	}
	return d + k, true
}

// nonNegByGuard: a dominating test at block b establishes v >= 0 (v >= 0, !(v < 0), v > -1, or v != -1 for the
// result of an Index* search, which is never below -1).
func nonNegByGuard(v ssa.Value, b *ssa.BasicBlock) bool {
	for _, dc := range dominatingConds(b) {
		bo, ok := dc.cond.(*ssa.BinOp)
		if !ok || bo.X != v {
			continue
		}
		c, ok := constInt(bo.Y)
		if !ok {
			continue
		}
		op := bo.Op
		if !dc.taken {
			op = negateCompare(op)
		}
		switch {
		case op == token.GEQ && c >= 0, op == token.GTR && c >= -1:
			return true
		case op == token.NEQ && c == -1:
			if call, ok := v.(*ssa.Call); ok {
				if sc := call.Call.StaticCallee(); sc != nil && sc.Pkg != nil && (sc.Pkg.Pkg.Path() == "strings" || sc.Pkg.Pkg.Path() == "bytes") && strings.HasPrefix(sc.Name(), "Index") {
					return true
				}
			}
		}
	}
	return false
}

// cutUntilNotFound: more is a header phi fed round the loop by the "found" result of strings.Cut / bytes.Cut of a
// header phi s with a non-empty constant separator, and s is fed by the "after" result of the same call.
func cutUntilNotFound(more *ssa.Phi, li *loopInfo) (string, bool) {
	for i, e := range more.Edges {
		if !li.blocks[li.header.Preds[i]] {
			continue
		}
		ex, ok := e.(*ssa.Extract)
		if !ok || ex.Index != 2 {
			return "", false
		}
		call, ok := ex.Tuple.(*ssa.Call)
		if !ok {
			return "", false
		}
		if n := calleeName(&call.Call); n != "strings.Cut" && n != "bytes.Cut" {
			return "", false
		}
		sep := call.Call.Args[1]
		if cs, ok := constStr(stripConv(sep)); ok {
			if cs == "" {
				return "", false
			}
		} else if sl, ok := sep.(*ssa.Slice); ok {
			// []byte{c}: a literal of at least one byte
			al, isAl := sl.X.(*ssa.Alloc)
			if !isAl {
				return "", false
			}
			if at, ok := al.Type().Underlying().(*types.Pointer).Elem().Underlying().(*types.Array); !ok || at.Len() < 1 {
				return "", false
			}
		} else {
			return "", false
		}
		sph, ok := call.Call.Args[0].(*ssa.Phi)
		if !ok || sph.Block() != li.header {
			return "", false
		}
		for j, se := range sph.Edges {
			if !li.blocks[li.header.Preds[j]] {
				continue
			}
			sx, ok := se.(*ssa.Extract)
			if !ok || sx.Tuple != ssa.Value(call) || sx.Index != 1 {
				return "", false
			}
		}
		return fmt.Sprintf("the loop goes on while Cut finds the separator in %s and continues with what follows it: each further trip starts with a strictly shorter text", phiName(sph)), true
	}
	return "", false
}

// indexUntilNotFound: more is a header phi fed round the loop by `idx >= 0` where idx is strings.Index*/bytes.Index* of
// a header phi `rest`, and on every way round the loop on which more is true rest continues with rest[idx+k:], k ≥ 1
// (where more is false the value of rest does not matter: the loop ends).
func indexUntilNotFound(more *ssa.Phi, li *loopInfo) (string, bool) {
	for i, e := range more.Edges {
		if !li.blocks[li.header.Preds[i]] {
			continue
		}
		bo, ok := e.(*ssa.BinOp)
		if !ok {
			return "", false
		}
		var idx ssa.Value
		switch {
		case bo.Op == token.GEQ && isZeroConst(bo.Y):
			idx = bo.X
		case bo.Op == token.LEQ && isZeroConst(bo.X):
			idx = bo.Y
		case bo.Op == token.NEQ || bo.Op == token.GTR:
			if c, isC := constInt(bo.Y); isC && c == -1 {
				idx = bo.X
			}
		}
		call, ok := idx.(*ssa.Call)
		if !ok {
			return "", false
		}
		switch calleeName(&call.Call) {
		case "strings.IndexByte", "strings.Index", "strings.IndexRune", "strings.IndexAny", "bytes.IndexByte", "bytes.Index", "bytes.IndexRune", "bytes.IndexAny":
		default:
			return "", false
		}
		rest, ok := call.Call.Args[0].(*ssa.Phi)
		if !ok || rest.Block() != li.header {
			return "", false
		}
		// every in-loop value of rest is rest itself (not found: the loop ends) or rest[idx+k:]
		shrinks := false
		seen := map[ssa.Value]bool{}
		var okVal func(v ssa.Value) bool
		okVal = func(v ssa.Value) bool {
			if seen[v] {
				return true
			}
			seen[v] = true
			switch x := v.(type) {
			case *ssa.Phi:
				if x == rest {
					return true
				}
				for _, pe := range x.Edges {
					if !okVal(pe) {
						return false
					}
				}
				return true
			case *ssa.Slice:
				if x.X != ssa.Value(rest) || x.High != nil || x.Low == nil {
					return false
				}
				lb, isB := x.Low.(*ssa.BinOp)
				if !isB || lb.Op != token.ADD {
					return false
				}
				if k, isC := constInt(lb.Y); isC && k >= 1 && lb.X == ssa.Value(call) {
					shrinks = true
					return true
				}
				return false
			}
			return false
		}
		for j, se := range rest.Edges {
			if !li.blocks[li.header.Preds[j]] {
				continue
			}
			if !okVal(se) {
				return "", false
			}
		}
		if !shrinks {
			return "", false
		}
		return fmt.Sprintf("the loop goes on while the separator is found in %s and continues with what follows it: each further trip starts with a strictly shorter text", phiName(rest)), true
	}
	return "", false
}

// errorGoesRound: the call returns an error, the loop tests it against nil, and from the edge on which it is not nil
// the head of the loop can be reached again.  Returns a block on such a path (nil when there is none, or no such test).
func errorGoesRound(c *ssa.Call, li *loopInfo) *ssa.BasicBlock {
	ei := errResultIndex(c.Call.Signature())
	if ei < 0 {
		return nil
	}
	var errv ssa.Value
	if c.Call.Signature().Results().Len() == 1 {
		errv = c
	} else {
		for _, r := range *c.Referrers() {
			if ex, ok := r.(*ssa.Extract); ok && ex.Index == ei {
				errv = ex
			}
		}
	}
	if errv == nil {
		return nil
	}
	// values the error is copied into on the way (named results, phis)
	same := map[ssa.Value]bool{errv: true}
	for changed := true; changed; {
		changed = false
		for b := range li.blocks {
			for _, ins := range b.Instrs {
				if ph, ok := ins.(*ssa.Phi); ok && !same[ph] {
					all := len(ph.Edges) > 0
					for _, e := range ph.Edges {
						if !same[e] {
							all = false
						}
					}
					if all {
						same[ph] = true
						changed = true
					}
				}
			}
		}
	}
	for b := range li.blocks {
		iff, ok := b.Instrs[len(b.Instrs)-1].(*ssa.If)
		if !ok {
			continue
		}
		bo, ok := iff.Cond.(*ssa.BinOp)
		if !ok || (bo.Op != token.NEQ && bo.Op != token.EQL) {
			continue
		}
		var tested ssa.Value
		if isNilConst(bo.Y) {
			tested = bo.X
		} else if isNilConst(bo.X) {
			tested = bo.Y
		}
		if tested == nil || !same[tested] {
			continue
		}
		start := b.Succs[0]
		if bo.Op == token.EQL {
			start = b.Succs[1]
		}
		if !li.blocks[start] {
			continue
		}
		seen := map[*ssa.BasicBlock]bool{}
		work := []*ssa.BasicBlock{start}
		for len(work) > 0 {
			x := work[len(work)-1]
			work = work[:len(work)-1]
			if seen[x] {
				continue
			}
			seen[x] = true
			if x == li.header {
				return start
			}
			for _, s := range x.Succs {
				if li.blocks[s] {
					work = append(work, s)
				}
			}
		}
	}
	return nil
}
