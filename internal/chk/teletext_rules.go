package chk

import (
	"fmt"
	"go/constant"
	"go/token"
	"go/types"
	"strings"
	"unicode/utf8"

	"golang.org/x/tools/go/ssa"
)

// E12-G2: only selected, checked packets contribute text (C06 exclusion clause) and E9-T5 tables.

type domCond struct {
	cond  ssa.Value
	taken bool
}

// dominatingConds: branch conditions that hold at block b (edges whose target has one predecessor).
func dominatingConds(b *ssa.BasicBlock) []domCond {
	var out []domCond
	for x := b; x != nil; x = x.Idom() {
		d := x.Idom()
		if d == nil {
			continue
		}
		// the edge d→x must be the only way into x, other than back edges of a loop headed by x
		// (conditions over SSA values defined before the loop keep holding round the loop)
		entries := 0
		fromD := false
		for _, pb := range x.Preds {
			if x.Dominates(pb) {
				continue
			}
			entries++
			if pb == d {
				fromD = true
			}
		}
		if entries != 1 || !fromD || (d.Succs[0] == x && len(d.Succs) == 2 && d.Succs[1] == x) {
			continue
		}
		if iff, ok := d.Instrs[len(d.Instrs)-1].(*ssa.If); ok {
			out = append(out, domCond{iff.Cond, d.Succs[0] == x})
		}
	}
	// a && b / a || b in value position are compiled to a phi of a constant and the right operand:
	// the phi being true (false) implies the right operand is, and everything that dominates the
	// block the right operand comes from
	for i := 0; i < len(out); i++ {
		ph, ok := out[i].cond.(*ssa.Phi)
		if !ok {
			continue
		}
		var rhs ssa.Value
		var from *ssa.BasicBlock
		simple := true
		for k, e := range ph.Edges {
			if c, isC := e.(*ssa.Const); isC && c.Value != nil && c.Value.Kind() == constant.Bool {
				if constant.BoolVal(c.Value) == out[i].taken {
					simple = false // the constant itself yields the observed value: nothing is implied
				}
				continue
			}
			if rhs != nil {
				simple = false
			}
			rhs, from = e, ph.Block().Preds[k]
		}
		if !simple || rhs == nil {
			continue
		}
		out = append(out, domCond{rhs, out[i].taken})
		seen := map[ssa.Value]bool{}
		for _, dc := range out {
			seen[dc.cond] = true
		}
		for _, dc := range dominatingCondsIncl(from) {
			if !seen[dc.cond] {
				out = append(out, dc)
			}
		}
	}
	return out
}

// dominatingCondsIncl: conditions that hold on entry of b (those of dominatingConds(b)).
func dominatingCondsIncl(b *ssa.BasicBlock) []domCond { return dominatingConds(b) }

type valPred func(v ssa.Value) bool

func isParamNamed(name string) valPred {
	return func(v ssa.Value) bool {
		for {
			switch x := v.(type) {
			case *ssa.Convert:
				v = x.X
				continue
			case *ssa.ChangeType:
				v = x.X
				continue
			}
			break
		}
		p, ok := v.(*ssa.Parameter)
		return ok && p.Name() == name
	}
}

func isFieldNamed(name string) valPred {
	return func(v ssa.Value) bool {
		for {
			if c, ok := v.(*ssa.Convert); ok {
				v = c.X
				continue
			}
			break
		}
		_, f, _ := loadedField(v)
		return f == name
	}
}

func isConstVal(n int64) valPred {
	return func(v ssa.Value) bool { c, ok := constInt(v); return ok && c == n }
}

func isStrConst(s string) valPred {
	return func(v ssa.Value) bool { c, ok := constStr(v); return ok && c == s }
}

func isResultOf(callee string) valPred {
	return func(v ssa.Value) bool {
		for {
			switch x := v.(type) {
			case *ssa.Convert:
				v = x.X
				continue
			case *ssa.Extract:
				v = x.Tuple
				continue
			}
			break
		}
		c, ok := v.(*ssa.Call)
		if !ok {
			return false
		}
		sc := c.Call.StaticCallee()
		return sc != nil && (FnName(sc) == callee || sc.Name() == callee)
	}
}

func derivedFromIndex(par string, idx int64) valPred {
	return func(v ssa.Value) bool {
		for {
			if c, ok := v.(*ssa.Convert); ok {
				v = c.X
				continue
			}
			break
		}
		u, ok := v.(*ssa.UnOp)
		if !ok {
			return false
		}
		ia, ok := u.X.(*ssa.IndexAddr)
		if !ok {
			return false
		}
		c, ok := constInt(ia.Index)
		return ok && c == idx && isParamNamed(par)(ia.X)
	}
}

// holdsEq: the conditions establish x == y (as a true EQL edge or a false NEQ edge).
func holdsEq(conds []domCond, x, y valPred) bool {
	for _, dc := range conds {
		bo, ok := dc.cond.(*ssa.BinOp)
		if !ok {
			continue
		}
		if !((bo.Op == token.EQL && dc.taken) || (bo.Op == token.NEQ && !dc.taken)) {
			continue
		}
		if (x(bo.X) && y(bo.Y)) || (x(bo.Y) && y(bo.X)) {
			return true
		}
	}
	return false
}

// holdsCmp: establishes x op n for op in {>=, <=} allowing the equivalent strict forms.
func holdsCmp(conds []domCond, x valPred, op token.Token, n int64) bool {
	for _, dc := range conds {
		bo, ok := dc.cond.(*ssa.BinOp)
		if !ok || !x(bo.X) {
			continue
		}
		c, ok := constInt(bo.Y)
		if !ok {
			continue
		}
		o := bo.Op
		if !dc.taken {
			o = map[token.Token]token.Token{token.LSS: token.GEQ, token.LEQ: token.GTR, token.GTR: token.LEQ, token.GEQ: token.LSS, token.EQL: token.NEQ, token.NEQ: token.EQL}[o]
		}
		// equalities: x == c settles both directions; x != lowest value of an unsigned type gives x ≥ 1
		if o == token.EQL && ((op == token.GEQ && c >= n) || (op == token.LEQ && c <= n)) {
			return true
		}
		if o == token.NEQ && op == token.GEQ {
			if lo, _, ok := typeRange(bo.X.Type()); ok && c == lo && n <= lo+1 {
				return true
			}
		}
		switch op {
		case token.GEQ:
			if (o == token.GEQ && c >= n) || (o == token.GTR && c >= n-1) {
				return true
			}
		case token.LEQ:
			if (o == token.LEQ && c <= n) || (o == token.LSS && c <= n+1) {
				return true
			}
		}
	}
	return false
}

// holdsTruth: the boolean value matched by x is known true (want=true) or false.
func holdsTruth(conds []domCond, x valPred, want bool) bool {
	for _, dc := range conds {
		c := dc.cond
		taken := dc.taken
		for {
			if u, ok := c.(*ssa.UnOp); ok && u.Op == token.NOT {
				c, taken = u.X, !taken
				continue
			}
			break
		}
		if x(c) && taken == want {
			return true
		}
	}
	return false
}

type guardAtom struct {
	name string
	ok   func(conds []domCond) bool
}

func checkGuards(p *Prog, l *Ledger, rule, fnName, sinkDesc string, sinks []ssa.Instruction, atoms []guardAtom) {
	if len(sinks) == 0 {
		l.Undecide(rule, fnName, rule+"|"+fnName+"|"+sinkDesc, "", "anchor unresolved: no "+sinkDesc+" in "+fnName)
		return
	}
	for _, s := range sinks {
		conds := dominatingConds(s.Block())
		for _, a := range atoms {
			key := l.Key(rule, fnName, sinkDesc, a.name)
			if a.ok(conds) {
				l.Prove(rule, fnName, key, p.Pos(s.Pos()), sinkDesc+" executes only where "+a.name)
			} else {
				l.Fail(rule, fnName, key, p.Pos(s.Pos()), fmt.Sprintf("%s: %s is reachable on a path that does not establish %q: data of other pages / magazines / PIDs / unit types, or unchecked bytes, can contribute text", fnName, sinkDesc, a.name))
			}
		}
	}
}

func callSites(fn *ssa.Function, callee string) []ssa.Instruction {
	var out []ssa.Instruction
	for _, c := range callsTo(fn, callee) {
		out = append(out, c)
	}
	return out
}

func ruleTeletextGuards(p *Prog, l *Ledger, tier string) {
	const rule = "E12.G2-teletext-guards"
	get := func(n string) *ssa.Function { return anchor(p, l, rule, n) }
	pp, du, pr, rd, ph, row, pd := get("teletextPageBuffer.parsePacket"), get("teletextPageBuffer.parseDataUnit"), get("teletextPageBuffer.process"), get("ReadFromTeletext"), get("teletextPageBuffer.parsePacketHeader"), get("parseTeletextRow"), get("teletextPageBuffer.parsePacketData")
	for _, f := range []*ssa.Function{pp, du, pr, rd, ph, row, pd} {
		if f == nil {
			return
		}
	}
	checkGuards(p, l, rule, "teletextPageBuffer.parsePacket", "call of parsePacketData", callSites(pp, "teletextPageBuffer.parsePacketData"), []guardAtom{
		{"the page buffer is receiving", func(c []domCond) bool { return holdsTruth(c, isFieldNamed("receiving"), true) }},
		{"the packet's magazine equals the selected magazine", func(c []domCond) bool {
			return holdsEq(c, isParamNamed("magazineNumber"), isFieldNamed("magazineNumber"))
		}},
		{"packet number ≥ 1", func(c []domCond) bool { return holdsCmp(c, isParamNamed("packetNumber"), token.GEQ, 1) }},
		{"packet number ≤ 25", func(c []domCond) bool { return holdsCmp(c, isParamNamed("packetNumber"), token.LEQ, 25) }},
	})
	checkGuards(p, l, rule, "teletextPageBuffer.parseDataUnit", "call of parsePacket", callSites(du, "teletextPageBuffer.parsePacket"), []guardAtom{
		{"data unit id is EBU subtitle data (0x03)", func(c []domCond) bool { return holdsEq(c, isParamNamed("id"), isConstVal(3)) }},
		{"framing code is 0xe4", func(c []domCond) bool { return holdsEq(c, derivedFromIndex("i", 1), isConstVal(0xe4)) }},
		{"both Hamming 8/4 decodes succeeded", func(c []domCond) bool {
			n := 0
			for _, dc := range c {
				v, taken := dc.cond, dc.taken
				if u, ok := v.(*ssa.UnOp); ok && u.Op == token.NOT {
					v, taken = u.X, !taken
				}
				if ex, ok := v.(*ssa.Extract); ok && ex.Index == 1 && taken && isResultOf("ByteHamming84Decode")(ex) {
					n++
				}
			}
			return n >= 2
		}},
	})
	checkGuards(p, l, rule, "teletextPageBuffer.process", "call of parseDataUnit", callSites(pr, "teletextPageBuffer.parseDataUnit"), []guardAtom{
		{"the PES data identifier is in the EBU range", func(c []domCond) bool { return holdsEq(c, isResultOf("teletextPESDataType"), isStrConst("EBU")) }},
	})
	var streamID int64 = -1
	for _, pk := range p.Pkgs {
		if pk.PkgPath == "github.com/asticode/go-astits" {
			if c, ok := pk.Types.Scope().Lookup("StreamIDPrivateStream1").(*types.Const); ok {
				streamID, _ = constantInt64(c)
			}
		}
	}
	checkGuards(p, l, rule, "ReadFromTeletext", "call of process", callSites(rd, "teletextPageBuffer.process"), []guardAtom{
		{"the data's PID is the teletext PID", func(c []domCond) bool { return holdsEq(c, isFieldNamed("PID"), isResultOf("teletextPID")) }},
		{"the PES stream id is private stream 1", func(c []domCond) bool { return holdsEq(c, isFieldNamed("StreamID"), isConstVal(streamID)) }},
		{"the data carries a presentation time", func(c []domCond) bool { return holdsTruth(c, isResultOf("IsZero"), false) }},
	})
	// a new page instance starts only for the selected page and magazine
	var starts []ssa.Instruction
	for _, b := range ph.Blocks {
		for _, ins := range b.Instrs {
			if st, ok := ins.(*ssa.Store); ok {
				if _, f := fieldOfAddr(st.Addr); f == "receiving" {
					if c, ok := st.Val.(*ssa.Const); ok && c.Value != nil && c.Value.String() == "true" {
						starts = append(starts, st)
					}
				}
			}
		}
	}
	checkGuards(p, l, rule, "teletextPageBuffer.parsePacketHeader", "start of a page instance", starts, []guardAtom{
		{"the header's page number equals the selected page", func(c []domCond) bool {
			return holdsEq(c, func(v ssa.Value) bool { _, isB := v.(*ssa.BinOp); return isB }, isFieldNamed("pageNumber"))
		}},
		{"the header's magazine equals the selected magazine", func(c []domCond) bool {
			return holdsEq(c, isParamNamed("magazineNumber"), isFieldNamed("magazineNumber"))
		}},
	})
	// text is appended only inside a box (started)
	var textStores []ssa.Instruction
	for _, b := range row.Blocks {
		for _, ins := range b.Instrs {
			if st, ok := ins.(*ssa.Store); ok {
				if t, f := fieldOfAddr(st.Addr); t == "LineItem" && f == "Text" {
					if _, isConst := st.Val.(*ssa.Const); !isConst {
						if bo, ok := st.Val.(*ssa.BinOp); ok && bo.Op == token.ADD {
							textStores = append(textStores, st)
						}
					}
				}
			}
		}
	}
	checkGuards(p, l, rule, "parseTeletextRow", "append to the run text", textStores, []guardAtom{
		{"a start-box code has been seen (started)", func(c []domCond) bool {
			return holdsTruth(c, func(v ssa.Value) bool { ph, ok := v.(*ssa.Phi); return ok && ph.Comment == "started" }, true)
		}},
	})
	// parity: the stored byte is ByteParity's result under ok, else the constant 0
	key := rule + "|parity"
	okParity := false
	for _, b := range pd.Blocks {
		for _, ins := range b.Instrs {
			st, ok := ins.(*ssa.Store)
			if !ok {
				continue
			}
			if _, isIdx := st.Addr.(*ssa.IndexAddr); !isIdx {
				continue
			}
			ph, ok := st.Val.(*ssa.Phi)
			if !ok {
				continue
			}
			good := len(ph.Edges) == 2
			for i, e := range ph.Edges {
				pb := ph.Block().Preds[i]
				if c, isC := constInt(e); isC {
					if c != 0 {
						good = false
					}
					// the constant comes from the branch taken when ok is false
					conds := dominatingConds(pb)
					if !holdsTruth(conds, func(v ssa.Value) bool {
						ex, ok := v.(*ssa.Extract)
						return ok && ex.Index == 1 && isResultOf("ByteParity")(ex)
					}, false) {
						good = false
					}
				} else if !isResultOf("ByteParity")(e) {
					good = false
				}
			}
			if good {
				okParity = true
			}
		}
	}
	if okParity {
		l.Prove(rule, "teletextPageBuffer.parsePacketData", key, "", "the byte stored into a row is ByteParity's result, replaced by 0 when the parity check fails")
	} else {
		l.Fail(rule, "teletextPageBuffer.parsePacketData", key, p.Pos(pd.Pos()), "the byte stored into a page row is not (ByteParity result if ok else 0): characters failing parity contribute text")
	}
}

// ---- E9-T5 teletext tables -----------------------------------------------------------------------

func ruleTeletextTables(p *Prog, l *Ledger, tier string) {
	const rule = "E9.T5-teletext-tables"
	a := NewNilAnalysis(p)
	init := p.LibSSA.Func("init")
	if init == nil {
		l.Undecide(rule, "", rule, "", "package initialiser not found")
		return
	}
	// rows of teletextCharsets: anonymous struct {g0, g2, national}; every row sets g0 to a non-nil global
	rows, bad := 0, 0
	for _, b := range init.Blocks {
		for _, ins := range b.Instrs {
			al, ok := ins.(*ssa.Alloc)
			if !ok {
				continue
			}
			st, ok := al.Type().(*types.Pointer).Elem().Underlying().(*types.Struct)
			if !ok || st.NumFields() != 3 || st.Field(0).Name() != "g0" {
				continue
			}
			rows++
			set := false
			for _, ref := range *al.Referrers() {
				fa, ok := ref.(*ssa.FieldAddr)
				if !ok || fa.Field != 0 {
					continue
				}
				for _, r2 := range *fa.Referrers() {
					if s2, ok := r2.(*ssa.Store); ok {
						if u, ok := s2.Val.(*ssa.UnOp); ok {
							if g, ok := u.X.(*ssa.Global); ok && a.globN[g.Name()] {
								set = true
							}
						}
					}
				}
			}
			if !set {
				bad++
			}
		}
	}
	key := "E9.T5-teletext-g0-set"
	if rows >= 40 && bad == 0 {
		l.Prove(key, "", key, "", fmt.Sprintf("all %d rows of teletextCharsets set g0 to a package-level table that is non-nil after init", rows))
	} else {
		l.Fail(key, "", key, "", fmt.Sprintf("%d of %d rows of teletextCharsets leave g0 unset (it is dereferenced unconditionally in updateCharset)", bad, rows))
	}
	// national option positions inside the 96-entry table
	for _, m := range p.LibSSA.Members {
		g, ok := m.(*ssa.Global)
		if !ok || g.Name() != "teletextNationalSubsetCharactersPositionInG0" {
			continue
		}
		lo, hi, ok := a.globalIntArray(g)
		k2 := rule + "|national-positions"
		if ok && lo >= 0 && hi < 96 {
			l.Prove(rule, "", k2, "", fmt.Sprintf("national option positions lie in [%d, %d] ⊂ [0, 96)", lo, hi))
		} else {
			l.Fail(rule, "", k2, "", "a national option position is outside the 96-entry G0 table")
		}
	}
	// every character of every charset / national subset literal is one UTF-8 rune (or the 0x00 placeholder)
	n, badRunes := 0, 0
	var first string
	for _, b := range init.Blocks {
		for _, ins := range b.Instrs {
			st, ok := ins.(*ssa.Store)
			if !ok {
				continue
			}
			ia, ok := st.Addr.(*ssa.IndexAddr)
			if !ok {
				continue
			}
			tn := typeStr(ia.X.Type())
			if !strings.Contains(tn, "teletextCharset") && !strings.Contains(tn, "teletextNationalSubset") {
				continue
			}
			elems, ok := sliceLiteral(st.Val)
			if !ok {
				continue
			}
			var bs []byte
			for _, e := range elems {
				c, _ := constInt(e)
				bs = append(bs, byte(c))
			}
			n++
			if !(len(bs) == 1 && bs[0] == 0) && !(utf8.Valid(bs) && utf8.RuneCount(bs) == 1) {
				badRunes++
				if first == "" {
					first = fmt.Sprintf("% x at %s", bs, p.Pos(st.Pos()))
				}
			}
		}
	}
	k3 := rule + "|utf8"
	if badRunes == 0 {
		l.Prove(rule, "", k3, "", fmt.Sprintf("%d table entries are each one valid UTF-8 rune or the 0x00 placeholder", n))
	} else {
		l.Fail(rule, "", k3, "", fmt.Sprintf("%d table entries are not a single valid UTF-8 rune, e.g. %s", badRunes, first))
	}
	l.Min(rule+".entries", n, 700)
	// colour codes 0..7 (ETS 300 706 §12.2: black red green yellow blue magenta cyan white)
	row := p.Fn("parseTeletextRow")
	want := []string{"ColorBlack", "ColorRed", "ColorGreen", "ColorYellow", "ColorBlue", "ColorMagenta", "ColorCyan", "ColorWhite"}
	if row != nil {
		// the colour selected for code c: partial evaluation of parseTeletextRow with the row byte
		// fixed to c, up to the first merge of *Color values (switch arms, a lookup table, a chain of
		// ifs all evaluate the same way)
		rowByte := rowByteOf(row)
		for code, name := range want {
			k4 := fmt.Sprintf("%s|colour|%d", rule, code)
			got := ""
			if rowByte != nil {
				arr, _, ok := pevalPhi(rowByte, map[ssa.Value]pv{rowByte: {i: int64(code)}}, func(ph *ssa.Phi) bool { return isPtrToNamed(ph.Type(), "Color") })
				names := strset{}
				for _, a := range arr {
					names.add(p.colourName(a.edge, a.env, 0))
				}
				if ok && len(names) == 1 {
					got, _ = oneOf(names)
				} else if len(names) > 1 {
					got = strings.Join(names.sorted(), "|")
				}
			}
			if got == name {
				l.Prove(rule, "parseTeletextRow", k4, "", fmt.Sprintf("spacing attribute %d selects %s", code, name))
			} else {
				l.Fail(rule, "parseTeletextRow", k4, "", fmt.Sprintf("spacing attribute %d selects %q, ETS 300 706 assigns it %s", code, got, name))
			}
		}
	}
	// RGB values of the colour variables (CSS basic colours)
	rgb := map[string][3]int64{"ColorBlack": {0, 0, 0}, "ColorRed": {255, 0, 0}, "ColorGreen": {0, 128, 0}, "ColorYellow": {255, 255, 0}, "ColorBlue": {0, 0, 255}, "ColorMagenta": {255, 0, 255}, "ColorCyan": {0, 255, 255}, "ColorWhite": {255, 255, 255}}
	for _, name := range want {
		k5 := rule + "|rgb|" + name
		al, ok := p.globalInit(name).(*ssa.Alloc)
		if !ok {
			l.Undecide(rule, "", k5, "", name+" is not initialised with a composite literal")
			continue
		}
		vals := map[string]int64{}
		for _, ref := range *al.Referrers() {
			if fa, ok := ref.(*ssa.FieldAddr); ok {
				for _, r2 := range *fa.Referrers() {
					if st, ok := r2.(*ssa.Store); ok {
						if c, ok := constInt(st.Val); ok {
							vals[fieldName(fa.X.Type(), fa.Field)] = c
						}
					}
				}
			}
		}
		w := rgb[name]
		if vals["Red"] == w[0] && vals["Green"] == w[1] && vals["Blue"] == w[2] {
			l.Prove(rule, "", k5, "", fmt.Sprintf("%s = rgb(%d,%d,%d)", name, w[0], w[1], w[2]))
		} else {
			l.Fail(rule, "", k5, "", fmt.Sprintf("%s is rgb(%d,%d,%d), expected rgb(%d,%d,%d)", name, vals["Red"], vals["Green"], vals["Blue"], w[0], w[1], w[2]))
		}
	}
}

// rowByteOf: the load of the current byte of the `row` parameter in a row decoder (nil if not unique).
func rowByteOf(fn *ssa.Function) *ssa.UnOp {
	var found *ssa.UnOp
	for _, b := range fn.Blocks {
		for _, ins := range b.Instrs {
			u, ok := ins.(*ssa.UnOp)
			if !ok || u.Op != token.MUL {
				continue
			}
			ia, ok := u.X.(*ssa.IndexAddr)
			if !ok || !isParamNamed("row")(ia.X) {
				continue
			}
			if found != nil {
				return nil
			}
			found = u
		}
	}
	return found
}

// colourName: the package-level colour a *Color value is: a load of ColorX, or of a constant-index
// element of a package-level table of such loads; "" for nil, "?" when it cannot be told.
func (p *Prog) colourName(v ssa.Value, env map[ssa.Value]pv, depth int) string {
	if depth > 4 {
		return "?"
	}
	if c, ok := v.(*ssa.Const); ok && c.IsNil() {
		return ""
	}
	u, ok := v.(*ssa.UnOp)
	if !ok || u.Op != token.MUL {
		return "?"
	}
	switch x := u.X.(type) {
	case *ssa.Global:
		return x.Name()
	case *ssa.IndexAddr:
		idx, ok := pevalValue(x.Index, env, 0)
		if !ok || idx.isBool {
			return "?"
		}
		var g *ssa.Global
		switch b := x.X.(type) {
		case *ssa.Global:
			g = b
		case *ssa.UnOp: // a slice variable
			g, _ = b.X.(*ssa.Global)
		case *ssa.Alloc:
			// a table local to the function: its element #idx is stored exactly once, with a constant index
			var elem ssa.Value
			n := 0
			for _, r := range *b.Referrers() {
				ia, ok := r.(*ssa.IndexAddr)
				if !ok {
					continue
				}
				c, ok := constInt(ia.Index)
				for _, r2 := range *ia.Referrers() {
					if st, isSt := r2.(*ssa.Store); isSt && st.Addr == ssa.Value(ia) {
						if !ok {
							return "?" // a store at a variable position: the table is not constant
						}
						if c == idx.i {
							elem = st.Val
							n++
						}
					}
				}
			}
			if n == 1 {
				return p.colourName(elem, env, depth+1)
			}
			return "?"
		}
		if g == nil {
			return "?"
		}
		if e := p.globalArrayElem(g, idx.i); e != nil {
			return p.colourName(e, nil, depth+1)
		}
	}
	return "?"
}
