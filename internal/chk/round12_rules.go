package chk

import (
	"fmt"
	"go/token"
	"go/types"
	"strings"

	"golang.org/x/tools/go/ssa"
)

// Rules added after the twelfth round of seeded changes.

var modelTypes = map[string]bool{"Item": true, "Line": true, "LineItem": true, "StyleAttributes": true, "Style": true, "Region": true, "Metadata": true, "Subtitles": true}

// ---- E5-R5.6 a writer emits the elements as they are (C02/r12) ---------------------------------------------------------
// A writer walks the list with copies of its elements (range variables).  Storing into a field of such a copy before it is
// rendered makes what is written for an element depend on something else than the element (its neighbour, a counter):
// a voice name blanked because the previous line had the same one is lost by every decoder, which reads voices per line.
// Rule: in the closure of the writers, no store into a field of a local variable of a model type that holds a whole-value
// copy of an existing element.  Literals built field by field are not copies.
func ruleWriterKeepsElements(p *Prog, l *Ledger, tier string) {
	const rule = "E5.R5.6-writer-keeps-elements"
	n := 0
	for _, fn := range p.WriterClosure(l, rule) {
		if fnPkg(fn) != p.LibSSA {
			continue
		}
		name := FnName(fn)
		for _, b := range fn.Blocks {
			for _, ins := range b.Instrs {
				al, ok := ins.(*ssa.Alloc)
				if !ok {
					continue
				}
				nt, ok := al.Type().(*types.Pointer).Elem().(*types.Named)
				if !ok || !modelTypes[nt.Obj().Name()] || nt.Obj().Pkg() == nil || nt.Obj().Pkg().Path() != LibPath {
					continue
				}
				var whole *ssa.Store
				var fieldStores []*ssa.Store
				for _, r := range *al.Referrers() {
					switch y := r.(type) {
					case *ssa.Store:
						if y.Addr == ssa.Value(al) {
							whole = y
						}
					case *ssa.FieldAddr:
						for _, r2 := range *y.Referrers() {
							if st, ok := r2.(*ssa.Store); ok && st.Addr == ssa.Value(y) {
								fieldStores = append(fieldStores, st)
							}
						}
					}
				}
				if whole == nil {
					continue
				}
				if _, isParam := whole.Val.(*ssa.Parameter); isParam {
					// the spilled receiver or parameter: still a copy of an element handed in by the caller
				}
				n++
				key := l.Key(rule, name, "copy", al.Comment)
				if len(fieldStores) == 0 {
					l.Prove(rule, name, key, p.Pos(al.Pos()), "the copy of the element is only read")
					continue
				}
				st := fieldStores[0]
				_, f := fieldOfAddr(st.Addr)
				l.Fail(rule, name, key, p.Pos(st.Pos()), fmt.Sprintf("%s stores into %s.%s of its copy of an element (%s) before writing it: what is written for the element no longer depends on the element alone, and every decoder reads it back differently from what the list holds", name, nt.Obj().Name(), f, al.Comment))
			}
		}
	}
	l.Min(rule, n, 3)
}

var _ = token.ADD
var _ = strings.TrimSpace

// ---- E14-M5g the duration of a list is the end of one of its cues, untouched (C14/r12) -------------------------------
// ForceDuration promises a list that lasts exactly d, for any d of at least a millisecond.  Duration() is what "lasts"
// means.  Rule: every value Subtitles.Duration returns is zero or a loaded Item.EndAt, chosen by comparisons only
// (phi nodes, min/max): no call and no arithmetic stands between the field and the result (a truncation to the
// millisecond makes a list forced to 1500µs last 1ms).
func ruleDurationIsACueEnd(p *Prog, l *Ledger, tier string) {
	const rule = "E14.M5g-duration-is-a-cue-end"
	const name = "Subtitles.Duration"
	fn := anchor(p, l, rule, name)
	if fn == nil {
		return
	}
	var bad func(f *ssa.Function, v ssa.Value, seen map[ssa.Value]bool, depth int) (ssa.Value, string)
	bad = func(f *ssa.Function, v ssa.Value, seen map[ssa.Value]bool, depth int) (ssa.Value, string) {
		if seen[v] {
			return nil, ""
		}
		seen[v] = true
		switch x := v.(type) {
		case *ssa.Const:
			if c, ok := constInt(x); ok && c == 0 {
				return nil, ""
			}
			return x, "a constant other than zero"
		case *ssa.Phi:
			for _, e := range x.Edges {
				if w, why := bad(f, e, seen, depth); w != nil {
					return w, why
				}
			}
			return nil, ""
		case *ssa.ChangeType:
			return bad(f, x.X, seen, depth)
		case *ssa.UnOp:
			if x.Op != token.MUL {
				return x, "an operation on the value"
			}
			if t, fld := fieldOfAddr(x.X); t == "Item" {
				if fld == "EndAt" {
					return nil, ""
				}
				return x, "Item." + fld
			}
			if al, ok := x.X.(*ssa.Alloc); ok {
				// a local cell (named result, running maximum): every value stored into it
				for _, r := range *al.Referrers() {
					if st, ok := r.(*ssa.Store); ok && st.Addr == ssa.Value(al) {
						if w, why := bad(f, st.Val, seen, depth); w != nil {
							return w, why
						}
					}
				}
				return nil, ""
			}
			return x, "a load of something else than Item.EndAt"
		case *ssa.Field:
			if typeStr(x.X.Type()) == "Item" && fieldName(x.X.Type(), x.Field) == "EndAt" {
				return nil, ""
			}
			return x, "a field other than Item.EndAt"
		case *ssa.Call:
			if bi, ok := x.Call.Value.(*ssa.Builtin); ok && (bi.Name() == "max" || bi.Name() == "min") {
				for _, a := range x.Call.Args {
					if w, why := bad(f, a, seen, depth); w != nil {
						return w, why
					}
				}
				return nil, ""
			}
			sc := x.Call.StaticCallee()
			if sc != nil && fnPkg(sc) == p.LibSSA && len(sc.Blocks) > 0 && depth < 3 && sc.Signature.Results().Len() == 1 {
				for _, b := range sc.Blocks {
					if r, ok := b.Instrs[len(b.Instrs)-1].(*ssa.Return); ok {
						if w, why := bad(sc, r.Results[0], map[ssa.Value]bool{}, depth+1); w != nil {
							return x, "the result of " + FnName(sc) + " (" + why + ")"
						}
					}
				}
				return nil, ""
			}
			return x, "the result of " + calleeName(&x.Call)
		case *ssa.BinOp:
			return x, "arithmetic (" + x.Op.String() + ")"
		}
		return v, fmt.Sprintf("a %T", v)
	}
	n := 0
	for _, b := range fn.Blocks {
		r, ok := b.Instrs[len(b.Instrs)-1].(*ssa.Return)
		if !ok || len(r.Results) != 1 {
			continue
		}
		n++
		key := l.Key(rule, name, "return", "")
		if w, why := bad(fn, r.Results[0], map[ssa.Value]bool{}, 0); w != nil {
			pos := p.Pos(r.Pos())
			if ins, ok := w.(ssa.Instruction); ok && ins.Pos().IsValid() {
				pos = p.Pos(ins.Pos())
			}
			l.Fail(rule, name, key, pos, "Subtitles.Duration returns "+why+" instead of the end of a cue as stored: after ForceDuration(d) the list must last exactly d for any d of at least a millisecond, and it is Duration that says how long it lasts (ForceDuration also decides from it whether a filler is needed)")
		} else {
			l.Prove(rule, name, key, p.Pos(r.Pos()), "the value returned is zero or a loaded Item.EndAt selected by comparisons only")
		}
	}
	l.Min(rule, n, 1)
}

// ---- E13-I15 a splitting loop asks Cut whether the separator was there (C03/r12) --------------------------------------
// Every line break of a TTML run is a <br/>: "a\n" is two lines, the second one empty.  A loop that splits with
// strings.Cut and carries on with what follows the separator sees ("a", "", false) for "a" and ("a", "", true) for
// "a\n": the two texts can only be told apart by the third result.  Rule: in the closure of the TTML reader, a Cut whose
// remainder is fed back into the same Cut has its third result consulted.
func ruleCutFoundConsulted(p *Prog, l *Ledger, tier string) {
	const rule = "E13.I15-cut-found-consulted"
	roots := p.fnsByName(l, rule, []string{"ReadFromTTML", "TTMLInItems.UnmarshalXML"})
	n := 0
	for _, fn := range p.Closure(roots) {
		if fnPkg(fn) != p.LibSSA {
			continue
		}
		name := FnName(fn)
		for _, b := range fn.Blocks {
			for _, ins := range b.Instrs {
				call, ok := ins.(*ssa.Call)
				if !ok {
					continue
				}
				if cn := calleeName(&call.Call); cn != "strings.Cut" && cn != "bytes.Cut" {
					continue
				}
				var after, found *ssa.Extract
				for _, r := range *call.Referrers() {
					if ex, ok := r.(*ssa.Extract); ok {
						switch ex.Index {
						case 1:
							after = ex
						case 2:
							found = ex
						}
					}
				}
				if after == nil || !feedsBack(after, call.Call.Args[0]) {
					continue // a single cut, not a splitting loop
				}
				n++
				key := l.Key(rule, name, "cut", "")
				used := false
				if found != nil {
					for _, r := range *found.Referrers() {
						if _, dbg := r.(*ssa.DebugRef); !dbg {
							used = true
						}
					}
				}
				if used {
					l.Prove(rule, name, key, p.Pos(call.Pos()), "the loop consults whether the separator was found")
				} else {
					l.Fail(rule, name, key, p.Pos(call.Pos()), name+" splits a text with "+calleeName(&call.Call)+" in a loop and never looks at whether the separator was found: a text that ends with the separator is cut like the same text without it, so a line break at the end of a run (a trailing <br/>) yields no line")
				}
			}
		}
	}
	l.Note("%s: %d splitting loops built on Cut in the TTML reader", rule, n)
}

// feedsBack: value v reaches arg through phi nodes and local cells only (the next trip cuts what this one left).
func feedsBack(v ssa.Value, arg ssa.Value) bool {
	seen := map[ssa.Value]bool{}
	var up func(a ssa.Value) bool
	up = func(a ssa.Value) bool {
		if a == v {
			return true
		}
		if seen[a] {
			return false
		}
		seen[a] = true
		switch x := a.(type) {
		case *ssa.Phi:
			for _, e := range x.Edges {
				if up(e) {
					return true
				}
			}
		case *ssa.UnOp:
			if al, ok := x.X.(*ssa.Alloc); ok && x.Op == token.MUL {
				for _, r := range *al.Referrers() {
					if st, ok := r.(*ssa.Store); ok && st.Addr == ssa.Value(al) && up(st.Val) {
						return true
					}
				}
			}
		}
		return false
	}
	return up(arg)
}

// ---- E14-M9 a table is complete before it is looked up (C04/r12) ------------------------------------------------------
// An SSA event names its style; the reader resolves the name in Subtitles.Styles.  Sections may come in any order in a
// file the format allows, so the table has to be complete before the first name is resolved.  Rule: in the reader, no
// instruction that consults Subtitles.Styles (a lookup, or a call that receives the map) can be followed on any path by a
// store into that map.
func ruleTableCompleteBeforeLookup(fname, field string) func(p *Prog, l *Ledger, tier string) {
	return func(p *Prog, l *Ledger, tier string) {
		const rule = "E14.M9-table-complete-before-lookup"
		fn := anchor(p, l, rule, fname)
		if fn == nil {
			return
		}
		isTable := func(v ssa.Value) bool {
			t, f, _ := loadedField(v)
			return t == "Subtitles" && f == field
		}
		// what a library helper does with the map it receives as parameter #k (or finds in the Subtitles it receives)
		var uses func(h *ssa.Function, k int, depth int) (st, rd bool)
		uses = func(h *ssa.Function, k int, depth int) (st, rd bool) {
			if len(h.Blocks) == 0 || fnPkg(h) != p.LibSSA || depth > 3 || k >= len(h.Params) {
				return false, true
			}
			mine := func(v ssa.Value) bool { return v == ssa.Value(h.Params[k]) || isTable(v) }
			for _, b := range h.Blocks {
				for _, ins := range b.Instrs {
					switch x := ins.(type) {
					case *ssa.MapUpdate:
						if mine(x.Map) {
							st = true
						}
					case *ssa.Lookup:
						if mine(x.X) {
							rd = true
						}
					case *ssa.Range:
						if mine(x.X) {
							rd = true
						}
					case *ssa.Call:
						for j, a := range x.Call.Args {
							if !mine(a) {
								continue
							}
							if sc := x.Call.StaticCallee(); sc != nil {
								s2, r2 := uses(sc, j, depth+1)
								st, rd = st || s2, rd || r2
							} else {
								rd = true
							}
						}
					}
				}
			}
			return st, rd
		}
		var stores, reads []ssa.Instruction
		for _, b := range fn.Blocks {
			for _, ins := range b.Instrs {
				switch x := ins.(type) {
				case *ssa.MapUpdate:
					if isTable(x.Map) {
						stores = append(stores, x)
					}
				case *ssa.Lookup:
					if isTable(x.X) {
						reads = append(reads, x)
					}
				case *ssa.Call:
					for j, a := range x.Call.Args {
						isSubs := false
						if pt, ok := a.Type().Underlying().(*types.Pointer); ok && typeStr(pt.Elem()) == "Subtitles" {
							isSubs = true
						}
						if !isTable(a) && !isSubs {
							continue
						}
						sc := x.Call.StaticCallee()
						if sc == nil {
							if isTable(a) {
								reads = append(reads, x)
							}
							continue
						}
						if isSubs && (len(sc.Blocks) == 0 || fnPkg(sc) != p.LibSSA) {
							continue
						}
						st, rd := uses(sc, j, 0)
						if isSubs {
							// a helper handed the whole result: only what it does with the table itself counts
							st, rd = false, false
							for _, hb := range sc.Blocks {
								for _, hi := range hb.Instrs {
									switch y := hi.(type) {
									case *ssa.MapUpdate:
										st = st || isTable(y.Map)
									case *ssa.Lookup:
										rd = rd || isTable(y.X)
									case *ssa.Call:
										for _, ha := range y.Call.Args {
											rd = rd || isTable(ha)
										}
									}
								}
							}
						}
						if st {
							stores = append(stores, x)
						}
						if rd {
							reads = append(reads, x)
						}
					}
				}
			}
		}
		reaches := func(from, to ssa.Instruction) bool {
			fb, tb := from.Block(), to.Block()
			if fb == tb {
				for _, ins := range fb.Instrs {
					if ins == from {
						return true // from comes first
					}
					if ins == to {
						break
					}
				}
			}
			seen := map[*ssa.BasicBlock]bool{}
			work := append([]*ssa.BasicBlock{}, fb.Succs...)
			for len(work) > 0 {
				b := work[len(work)-1]
				work = work[:len(work)-1]
				if seen[b] {
					continue
				}
				seen[b] = true
				if b == tb {
					return true
				}
				work = append(work, b.Succs...)
			}
			return false
		}
		for _, rd := range reads {
			key := l.Key(rule, fname, "lookup", field)
			var late ssa.Instruction
			for _, st := range stores {
				if reaches(rd, st) {
					late = st
					break
				}
			}
			if late != nil {
				l.Fail(rule, fname, key, p.Pos(rd.Pos()), fmt.Sprintf("%s consults Subtitles.%s at %s and may still add to it afterwards (%s): a name defined further down the file than the line that uses it is not found, although the document is the same whatever the order of its sections", fname, field, p.Pos(rd.Pos()), p.Pos(late.Pos())))
			} else {
				l.Prove(rule, fname, key, p.Pos(rd.Pos()), "no store into the table can follow")
			}
		}
		l.Min(rule, len(reads), 1)
		l.Min(rule, len(stores), 1)
	}
}

// ---- E6-R6.3 the teletext PID is the first one the PMT lists (C06/r12) -------------------------------------------------
// With no PID given, the reader decodes "the first teletext PID of the PMT".  Rule: nothing the PID returned by
// teletextPID is computed from has been through a map iteration or a sorting call: both replace the order of the PMT
// by another one (the lowest PID is not the first one listed).
func ruleFirstPIDInPMTOrder(p *Prog, l *Ledger, tier string) {
	const rule = "E6.R6.3-first-pid-in-pmt-order"
	const name = "teletextPID"
	fn := anchor(p, l, rule, name)
	if fn == nil {
		return
	}
	deps := map[ssa.Value]bool{}
	var walk func(v ssa.Value)
	walk = func(v ssa.Value) {
		if v == nil || deps[v] {
			return
		}
		deps[v] = true
		switch x := v.(type) {
		case *ssa.UnOp:
			if x.Op == token.MUL {
				switch ad := x.X.(type) {
				case *ssa.Alloc:
					for _, r := range *ad.Referrers() {
						if st, ok := r.(*ssa.Store); ok && st.Addr == ssa.Value(ad) {
							walk(st.Val)
						}
					}
					return
				case *ssa.IndexAddr:
					walk(ad.X)
					return
				case *ssa.FieldAddr:
					return // a field of the PMT data
				}
			}
		case *ssa.Slice:
			if al, ok := x.X.(*ssa.Alloc); ok {
				// a literal / the variadic part of an append: the elements stored
				for _, r := range *al.Referrers() {
					if ia, ok := r.(*ssa.IndexAddr); ok {
						for _, r2 := range *ia.Referrers() {
							if st, ok := r2.(*ssa.Store); ok && st.Addr == ssa.Value(ia) {
								walk(st.Val)
							}
						}
					}
				}
				return
			}
		case *ssa.Call:
			if _, isB := x.Call.Value.(*ssa.Builtin); !isB {
				return // results of other calls: the demuxer's data
			}
		case *ssa.Next, *ssa.Parameter, *ssa.Const, *ssa.Global, *ssa.FreeVar:
			if nx, ok := v.(*ssa.Next); ok {
				walk(nx.Iter)
			}
			return
		}
		if ins, ok := v.(ssa.Instruction); ok {
			for _, op := range ins.Operands(nil) {
				if *op != nil {
					walk(*op)
				}
			}
		}
	}
	n := 0
	for _, b := range fn.Blocks {
		if r, ok := b.Instrs[len(b.Instrs)-1].(*ssa.Return); ok && len(r.Results) > 0 {
			walk(r.Results[0])
			n++
		}
	}
	key := rule + "|" + name
	for v := range deps {
		if rg, ok := v.(*ssa.Range); ok {
			if _, isMap := rg.X.Type().Underlying().(*types.Map); isMap {
				l.Fail(rule, name, key, p.Pos(rg.Pos()), "teletextPID computes the PID it returns from an iteration over a map at "+p.Pos(rg.Pos())+": the order of the PMT is lost there, and the PID selected is no longer the first teletext stream the PMT lists")
				return
			}
		}
		if _, isSl := v.Type().Underlying().(*types.Slice); !isSl {
			continue
		}
		if refs := v.Referrers(); refs != nil {
			for _, r := range *refs {
				c, ok := r.(*ssa.Call)
				if !ok {
					continue
				}
				cn := calleeName(&c.Call)
				if strings.HasPrefix(cn, "sort.") || strings.HasPrefix(cn, "slices.Sort") {
					l.Fail(rule, name, key, p.Pos(c.Pos()), "teletextPID sorts the candidate PIDs ("+cn+") before choosing one: the PID selected is the lowest, not the first teletext stream the PMT lists")
					return
				}
			}
		}
	}
	l.Prove(rule, name, key, p.Pos(fn.Pos()), fmt.Sprintf("the PID returned is computed from %d values, none of them a map iteration or a sorted slice", len(deps)))
	l.Min(rule, n, 1)
}
