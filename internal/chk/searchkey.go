package chk

import (
	"fmt"
	"strings"

	"golang.org/x/tools/go/ssa"
)

// ---- E14-M8 a binary search over the cue list uses the key the list is ordered by (added after C10/r9) ------
// sort.Search(n, pred) returns a meaningful index only when pred is false on a prefix and true on the rest.
// The only order the library establishes on Subtitles.Items is by StartAt (Order: a stable sort on StartAt).
// A predicate that reads another boundary of the cues (EndAt) is not monotone over such a list as soon as cues
// overlap or nest - a long cue that starts early ends after a short one that starts later - so the index found
// skips cues that still need the treatment (a cue still running when the search says "all of these are over").
// Rule: a predicate handed to sort.Search / sort.Find / slices.BinarySearchFunc in the library that reads fields
// of Item reads StartAt only.

func ruleBinarySearchKey(p *Prog, l *Ledger, tier string) {
	const rule = "E14.M8-binary-search-key"
	n, sites := 0, 0
	for _, fn := range p.LibFns {
		n++
		for _, b := range fn.Blocks {
			for _, ins := range b.Instrs {
				c, ok := ins.(*ssa.Call)
				if !ok {
					continue
				}
				sc := c.Call.StaticCallee()
				if sc == nil {
					continue
				}
				arg := -1
				switch sc.String() {
				case "sort.Search", "sort.Find":
					arg = 1
				default:
					if sc.Pkg != nil && sc.Pkg.Pkg.Path() == "slices" && strings.HasPrefix(sc.Name(), "BinarySearchFunc") {
						arg = 2
					}
				}
				if arg < 0 || arg >= len(c.Call.Args) {
					continue
				}
				var pred *ssa.Function
				switch x := c.Call.Args[arg].(type) {
				case *ssa.MakeClosure:
					pred, _ = x.Fn.(*ssa.Function)
				case *ssa.Function:
					pred = x
				}
				if pred == nil {
					continue
				}
				read := fieldsRead(p, []*ssa.Function{pred})
				var item []string
				for f := range read {
					if strings.HasPrefix(f, "Item.") {
						item = append(item, f)
					}
				}
				if len(item) == 0 {
					continue // not a search over cues
				}
				sites++
				key := l.Key(rule, FnName(fn), "search", strings.Join(sortedStrings(item), ","))
				bad := ""
				for _, f := range item {
					if f != "Item.StartAt" {
						bad = f
					}
				}
				if bad != "" {
					l.Fail(rule, FnName(fn), key, p.Pos(c.Pos()), fmt.Sprintf("%s: the predicate of the binary search reads %s, but the cue list is ordered by StartAt only: with overlapping or nested cues the predicate is not monotone, and the index found skips cues that still have to be treated", FnName(fn), bad))
				} else {
					l.Prove(rule, FnName(fn), key, p.Pos(c.Pos()), "the predicate of the binary search reads StartAt, the key the list is ordered by")
				}
			}
		}
	}
	l.Note("%s: %d functions scanned, %d binary searches over cues", rule, n, sites)
	l.Min(rule, n, 100)
}

func sortedStrings(s []string) []string {
	out := append([]string(nil), s...)
	for i := 1; i < len(out); i++ {
		for j := i; j > 0 && out[j] < out[j-1]; j-- {
			out[j], out[j-1] = out[j-1], out[j]
		}
	}
	return out
}
