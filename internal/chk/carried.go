package chk

import (
	"fmt"
	"go/constant"
	"go/token"
	"go/types"
	"sort"

	"golang.org/x/tools/go/ssa"
)

// ---- E13-I6 per-cue independence (added after seeded change C02/1) ---------------------------------
// What a writer emits for one cue / line / text piece may depend on that element only. In SSA form a
// value that survives from one iteration of a loop to the next is a phi of the loop header with an
// incoming value defined inside the loop. Such a phi is accepted when it is
//   - a counter (phi ± constant), the range index or range iterator of the loop;
//   - an accumulator of output: the new value is built from the old one by append / concatenation /
//     a call that takes the old value and returns the same type (c = append(c, …), s += …);
//   - a constant state machine: every value fed back is a constant (first := true … first = false).
//   - an error variable (E7 decides what happens to errors).
// Anything else (a pointer, struct, string or number computed from the current element and read
// again for the next element) is state of the previous cue leaking into the next one.

func carriedOrigins(ph *ssa.Phi, v ssa.Value, li *loopInfo, seen map[ssa.Value]bool, out map[string]ssa.Value) {
	if seen[v] {
		return
	}
	seen[v] = true
	if v == ssa.Value(ph) {
		return
	}
	if c, ok := v.(*ssa.Const); ok {
		_ = c
		return
	}
	ins, isIns := v.(ssa.Instruction)
	if isIns && ins.Block() != nil && !li.blocks[ins.Block()] {
		// defined before the loop: loop-invariant input, not state of a previous iteration
		return
	}
	if !isIns {
		// parameters, globals, functions
		return
	}
	switch x := v.(type) {
	case *ssa.Phi:
		for _, e := range x.Edges {
			carriedOrigins(ph, e, li, seen, out)
		}
		return
	case *ssa.BinOp:
		// counter / concatenation: old ± something
		if reachesPhi(ph, x.X, li, map[ssa.Value]bool{}) || reachesPhi(ph, x.Y, li, map[ssa.Value]bool{}) {
			return
		}
	case *ssa.Call:
		if b, ok := x.Call.Value.(*ssa.Builtin); ok && b.Name() == "append" && len(x.Call.Args) > 0 {
			if reachesPhi(ph, x.Call.Args[0], li, map[ssa.Value]bool{}) {
				return
			}
		}
		for _, a := range x.Call.Args {
			if types.Identical(a.Type(), ph.Type()) && reachesPhi(ph, a, li, map[ssa.Value]bool{}) {
				return
			}
		}
	case *ssa.Slice:
		if reachesPhi(ph, x.X, li, map[ssa.Value]bool{}) {
			return
		}
	case *ssa.Convert:
		carriedOrigins(ph, x.X, li, seen, out)
		return
	case *ssa.ChangeType:
		carriedOrigins(ph, x.X, li, seen, out)
		return
	case *ssa.Extract:
		// multi-value call taking the old value (c, err = f(c, …))
		if c, ok := x.Tuple.(*ssa.Call); ok {
			for _, a := range c.Call.Args {
				if types.Identical(a.Type(), ph.Type()) && reachesPhi(ph, a, li, map[ssa.Value]bool{}) {
					return
				}
			}
		}
		if _, ok := x.Tuple.(*ssa.Next); ok {
			return
		}
	case *ssa.Next:
		return
	case *ssa.IndexAddr:
		// a cursor into the input: the address of the element at the loop's own position (previous = &items[idx])
		// says nothing that items[idx-1] would not say on the next trip
		if inputCursor(x, li) {
			return
		}
	}
	out[v.Name()+" = "+v.String()] = v
}

// inputCursor: ia addresses an element of a list the loop does not change (defined before the loop, or a field of
// something defined before the loop that is not stored to inside it), at the loop's own counter.
func inputCursor(ia *ssa.IndexAddr, li *loopInfo) bool {
	// the index: the loop's counter (a header phi) or counter+1 (range loops)
	idx := ia.Index
	if b, ok := idx.(*ssa.BinOp); ok && b.Op == token.ADD {
		if _, isC := b.Y.(*ssa.Const); isC {
			idx = b.X
		}
	}
	ph, ok := idx.(*ssa.Phi)
	if !ok || ph.Block() != li.header {
		return false
	}
	// the list
	switch x := ia.X.(type) {
	case *ssa.Parameter, *ssa.FreeVar, *ssa.Global:
		return true
	case *ssa.UnOp:
		if x.Op != token.MUL {
			return false
		}
		fa, ok := x.X.(*ssa.FieldAddr)
		if !ok {
			return false
		}
		if in, ok := fa.X.(ssa.Instruction); ok && li.blocks[in.Block()] {
			return false
		}
		// no store to that field inside the loop
		for b := range li.blocks {
			for _, ins := range b.Instrs {
				if st, ok := ins.(*ssa.Store); ok {
					if fa2, ok := st.Addr.(*ssa.FieldAddr); ok && fa2.X == fa.X && fa2.Field == fa.Field {
						return false
					}
				}
			}
		}
		return true
	default:
		if in, ok := ia.X.(ssa.Instruction); ok {
			return !li.blocks[in.Block()]
		}
	}
	return false
}

// reachesPhi: v is the loop-carried phi itself or an accumulator step built on it.
func reachesPhi(ph *ssa.Phi, v ssa.Value, li *loopInfo, seen map[ssa.Value]bool) bool {
	if v == ssa.Value(ph) {
		return true
	}
	if seen[v] {
		return false
	}
	seen[v] = true
	switch x := v.(type) {
	case *ssa.Phi:
		if !li.blocks[x.Block()] {
			return false
		}
		for _, e := range x.Edges {
			if reachesPhi(ph, e, li, seen) {
				return true
			}
		}
	case *ssa.BinOp:
		return reachesPhi(ph, x.X, li, seen) || reachesPhi(ph, x.Y, li, seen)
	case *ssa.Call:
		for _, a := range x.Call.Args {
			if types.Identical(a.Type(), ph.Type()) && reachesPhi(ph, a, li, seen) {
				return true
			}
		}
	case *ssa.Slice:
		return reachesPhi(ph, x.X, li, seen)
	case *ssa.Convert:
		return reachesPhi(ph, x.X, li, seen)
	case *ssa.ChangeType:
		return reachesPhi(ph, x.X, li, seen)
	case *ssa.Extract:
		if c, ok := x.Tuple.(*ssa.Call); ok {
			for _, a := range c.Call.Args {
				if types.Identical(a.Type(), ph.Type()) && reachesPhi(ph, a, li, seen) {
					return true
				}
			}
		}
	}
	return false
}

func ruleNoCarriedState(scope func(p *Prog, l *Ledger, rule string) []*ssa.Function, min int) func(p *Prog, l *Ledger, tier string) {
	return ruleNoCarriedStateMsg(scope, min, "what is written for an element then depends on the elements before it")
}

func ruleNoCarriedStateMsg(scope func(p *Prog, l *Ledger, rule string) []*ssa.Function, min int, consequence string) func(p *Prog, l *Ledger, tier string) {
	return func(p *Prog, l *Ledger, tier string) {
		const rule = "E13.I6-per-cue-independence"
		n := 0
		for _, fn := range scope(p, l, rule) {
			name := FnName(fn)
			for _, li := range loopsOf(fn) {
				ord := 0
				if fixedLocalTableLoop(li) {
					continue // steps of a computation laid out as a literal table (units, tags), not elements of the data
				}
				for _, ins := range li.header.Instrs {
					ph, ok := ins.(*ssa.Phi)
					if !ok {
						break
					}
					if isErrorType(ph.Type()) {
						continue // error variables are governed by E7; a carried error is not cue data
					}
					ord++
					n++
					desc := ph.Comment
					if desc == "" {
						desc = ph.Name()
					}
					key := l.Key(rule, name, "carried", loopDesc(li)+"/"+desc)
					origins := map[string]ssa.Value{}
					for i, e := range ph.Edges {
						pred := li.header.Preds[i]
						if !li.blocks[pred] {
							continue // initial value
						}
						carriedOrigins(ph, e, li, map[ssa.Value]bool{}, origins)
					}
					if len(origins) == 0 {
						l.Prove(rule, name, key, p.Pos(ph.Pos()), "loop-carried value "+desc+" is a counter, an output accumulator or a constant state machine")
						continue
					}
					var os []string
					for o := range origins {
						os = append(os, o)
					}
					sort.Strings(os)
					pos := p.Pos(ph.Pos())
					for _, o := range os {
						if q := p.Pos(origins[o].Pos()); q != "-" {
							pos = q
							break
						}
					}
					l.Fail(rule, name, key, pos, fmt.Sprintf("%s: variable %q carries a value computed for one element (%s) into the next iteration of the loop at %s: %s", name, desc, os[0], blockPos(p, li.header), consequence))
				}
			}
		}
		l.Min(rule, n, min)
	}
}

var _ = constant.MakeBool

// fixedLocalTableLoop: the loop is a range (or counted loop) over a literal table built in the function itself:
// its exit test compares the index with a constant or with the length of a slice of a local array.
func fixedLocalTableLoop(li *loopInfo) bool {
	iff, ok := li.header.Instrs[len(li.header.Instrs)-1].(*ssa.If)
	if !ok {
		return false
	}
	bo, ok := iff.Cond.(*ssa.BinOp)
	if !ok || bo.Op != token.LSS {
		return false
	}
	idxOK := false
	switch x := bo.X.(type) {
	case *ssa.Phi:
		idxOK = x.Block() == li.header
	case *ssa.BinOp:
		if ph, ok := x.X.(*ssa.Phi); ok && ph.Block() == li.header {
			idxOK = true
		}
	}
	if !idxOK {
		return false
	}
	if _, isC := constInt(bo.Y); isC {
		// range over an array literal
		for b := range li.blocks {
			for _, ins := range b.Instrs {
				if ia, ok := ins.(*ssa.IndexAddr); ok && (ia.Index == bo.X) {
					if al, ok := ia.X.(*ssa.Alloc); ok && !li.blocks[al.Block()] {
						return true
					}
				}
			}
		}
		return false
	}
	c, ok := bo.Y.(*ssa.Call)
	if !ok {
		return false
	}
	if bi, ok := c.Call.Value.(*ssa.Builtin); !ok || bi.Name() != "len" {
		return false
	}
	sl, ok := c.Call.Args[0].(*ssa.Slice)
	if !ok || sl.Low != nil || sl.High != nil {
		return false
	}
	al, ok := sl.X.(*ssa.Alloc)
	if !ok || li.blocks[al.Block()] {
		return false
	}
	_, isArr := al.Type().Underlying().(*types.Pointer).Elem().Underlying().(*types.Array)
	return isArr
}
