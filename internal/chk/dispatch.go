package chk

import (
	"fmt"
	"go/constant"
	"go/token"
	"go/types"
	"sort"
	"strings"

	"golang.org/x/tools/go/ssa"
)

// E11 dispatch: extension tables of Open / Write and the CLI sub-command table (DESIGN.md §3 E11).

type caseArm struct {
	consts []string
	target *ssa.BasicBlock
	iff    *ssa.If
}

// switchArms: If instructions comparing tag == "const" in fn, grouped by target block.
func switchArms(fn *ssa.Function, isTag func(v ssa.Value) bool) (arms []*caseArm, tag ssa.Value, lastFalse *ssa.BasicBlock) {
	byTarget := map[*ssa.BasicBlock]*caseArm{}
	for _, b := range fn.Blocks {
		iff, ok := b.Instrs[len(b.Instrs)-1].(*ssa.If)
		if !ok {
			continue
		}
		bo, ok := iff.Cond.(*ssa.BinOp)
		if !ok || bo.Op != token.EQL {
			continue
		}
		var t ssa.Value
		var c *ssa.Const
		if k, ok := bo.Y.(*ssa.Const); ok {
			t, c = bo.X, k
		} else if k, ok := bo.X.(*ssa.Const); ok {
			t, c = bo.Y, k
		}
		if c == nil || c.Value == nil || c.Value.Kind() != constant.String || !isTag(t) {
			continue
		}
		tag = t
		arm := byTarget[b.Succs[0]]
		if arm == nil {
			arm = &caseArm{target: b.Succs[0], iff: iff}
			byTarget[b.Succs[0]] = arm
			arms = append(arms, arm)
		}
		arm.consts = append(arm.consts, constant.StringVal(c.Value))
		// the default arm is the false successor that is not itself a tag comparison
		fs := b.Succs[1]
		if iff2, ok := fs.Instrs[len(fs.Instrs)-1].(*ssa.If); ok {
			if bo2, ok := iff2.Cond.(*ssa.BinOp); ok && bo2.Op == token.EQL && (isTag(bo2.X) || isTag(bo2.Y)) && len(fs.Instrs) == 2 {
				continue
			}
		}
		lastFalse = fs
	}
	return
}

// callsIn: static callees called in block b and the blocks it dominates (stopping at other arms).
func callsUnder(b *ssa.BasicBlock, stop map[*ssa.BasicBlock]bool) []*ssa.Call {
	// everything control can reach from the head of the case without entering another case: the body of the case and
	// what follows the switch (a Write hoisted behind it belongs to every case)
	reach := map[*ssa.BasicBlock]bool{b: true}
	work := []*ssa.BasicBlock{b}
	for len(work) > 0 {
		x := work[len(work)-1]
		work = work[:len(work)-1]
		for _, s := range x.Succs {
			if !reach[s] && !stop[s] {
				reach[s] = true
				work = append(work, s)
			}
		}
	}
	var out []*ssa.Call
	for _, x := range b.Parent().Blocks {
		if !reach[x] {
			continue
		}
		for _, ins := range x.Instrs {
			if c, ok := ins.(*ssa.Call); ok {
				out = append(out, c)
			}
		}
	}
	return out
}

func codecFamily(name string) (kind, family string) {
	n := name
	if i := strings.LastIndex(n, "."); i >= 0 {
		n = n[i+1:]
	}
	// ReadFromXWithOptions / WriteToXWithOptions are the X codec with its options spelled out
	n = strings.TrimSuffix(n, "WithOptions")
	switch {
	case strings.HasPrefix(n, "ReadFrom"):
		return "read", strings.TrimPrefix(n, "ReadFrom")
	case strings.HasPrefix(n, "WriteTo"):
		return "write", strings.TrimPrefix(n, "WriteTo")
	}
	return "", ""
}

func extTable(p *Prog, l *Ledger, rule, fname string) (map[string]string, bool, bool) {
	fn := anchor(p, l, rule, fname)
	if fn == nil {
		return nil, false, false
	}
	isExt := func(v ssa.Value) bool {
		hasExt, _ := extExpr(p, v, 0)
		return hasExt
	}
	arms, tag, def := switchArms(fn, isExt)
	table := map[string]string{}
	note := func(arm *caseArm, sc *ssa.Function) {
		if sc == nil {
			return
		}
		if kind, fam := codecFamily(FnName(sc)); kind != "" {
			for _, ext := range arm.consts {
				if old, dup := table[ext]; dup && old != fam {
					table[ext] = old + "+" + fam
				} else {
					table[ext] = fam
				}
			}
		}
	}
	for _, arm := range arms {
		for _, c := range callsUnder(arm.target, nil) {
			note(arm, c.Call.StaticCallee())
		}
		// a codec selected as a function value (write = s.WriteToSRT; write = func(o) { return s.WriteToTTML(o) })
		for _, x := range fn.Blocks {
			if x != arm.target && !arm.target.Dominates(x) {
				continue
			}
			for _, ins := range x.Instrs {
				mc, ok := ins.(*ssa.MakeClosure)
				if !ok {
					continue
				}
				for _, cb := range mc.Fn.(*ssa.Function).Blocks {
					for _, ci := range cb.Instrs {
						if c, ok := ci.(ssa.CallInstruction); ok {
							note(arm, c.Common().StaticCallee())
						}
					}
				}
			}
		}
	}
	// the same dispatch written as a lookup table: a comma-ok lookup of a package-level map literal
	// under the extension; a row's codec is what the function value stored for that key calls
	if len(arms) == 0 {
		for _, b := range fn.Blocks {
			for _, ins := range b.Instrs {
				lk, ok := ins.(*ssa.Lookup)
				if !ok || !lk.CommaOk || !isExt(lk.Index) {
					continue
				}
				u, ok := lk.X.(*ssa.UnOp)
				if !ok {
					continue
				}
				gl, ok := u.X.(*ssa.Global)
				if !ok {
					continue
				}
				mk, ok := p.globalInit(gl.Name()).(*ssa.MakeMap)
				if !ok {
					continue
				}
				tag = lk.Index
				for _, r := range *mk.Referrers() {
					mu, ok := r.(*ssa.MapUpdate)
					if !ok {
						continue
					}
					key, ok := constStr(mu.Key)
					if !ok {
						continue
					}
					var target *ssa.Function
					switch v := mu.Value.(type) {
					case *ssa.Function:
						target = v
					case *ssa.MakeClosure:
						target, _ = v.Fn.(*ssa.Function)
					case *ssa.ChangeType:
						target, _ = v.X.(*ssa.Function)
					}
					if target == nil {
						continue
					}
					arm := &caseArm{consts: []string{key}}
					for _, cb := range target.Blocks {
						for _, ci := range cb.Instrs {
							if c, ok := ci.(ssa.CallInstruction); ok {
								note(arm, c.Common().StaticCallee())
							}
						}
					}
				}
				// the not-found edge of the lookup is the default
				for _, r := range *lk.Referrers() {
					ex, ok := r.(*ssa.Extract)
					if !ok || ex.Index != 1 {
						continue
					}
					for _, r2 := range *ex.Referrers() {
						if iff, ok := r2.(*ssa.If); ok {
							def = iff.Block().Succs[1]
						}
					}
				}
			}
		}
	}
	// case-insensitive: the tag applies ToLower (or ToUpper) somewhere around filepath.Ext
	_, lower := extExpr(p, tag, 0)
	for _, ins := range caseSensitiveNameTests(p, fn) {
		lower = false
		l.Fail(rule, fname, l.Key(rule, fname, "case-sensitive-name-test", ""), p.Pos(ins.Pos()), fname+" decides on a string taken from the file name without lower-casing it: an upper-case extension is treated differently from its lower-case form")
	}
	// default: ErrInvalidExtension is what the function returns
	defOK := false
	if def != nil {
		for _, ins := range def.Instrs {
			if st, ok := ins.(*ssa.Store); ok {
				if u, ok := st.Val.(*ssa.UnOp); ok {
					if g, ok := u.X.(*ssa.Global); ok && g.Name() == "ErrInvalidExtension" {
						defOK = true
					}
				}
			}
			if r, ok := ins.(*ssa.Return); ok {
				for _, res := range r.Results {
					if u, ok := res.(*ssa.UnOp); ok {
						if g, ok := u.X.(*ssa.Global); ok && g.Name() == "ErrInvalidExtension" {
							defOK = true
						}
					}
				}
			}
		}
	}
	return table, lower, defOK
}

func ruleExtDispatch(p *Prog, l *Ledger, tier string) {
	const rule = "E11.ext-dispatch"
	ot, olower, odef := extTable(p, l, rule, "Open")
	wt, wlower, wdef := extTable(p, l, rule, "Subtitles.Write")
	if ot == nil || wt == nil {
		return
	}
	show := func(m map[string]string) string {
		var ks []string
		for k, v := range m {
			ks = append(ks, k+"→"+v)
		}
		sort.Strings(ks)
		return strings.Join(ks, " ")
	}
	l.Note("Open table: %s; Write table: %s", show(ot), show(wt))
	if len(ot) < 6 || len(wt) < 5 {
		// a dispatch the rule cannot read (rows of a struct of functions looked up in a helper, …): nothing below would
		// be compared
		l.Undecide(rule, "", rule+"|tables", "", fmt.Sprintf("extraction-below-minimum: the extension tables of Open (%d rows) and Write (%d rows) could not be read from the code (confirmed by hand: 7 and 6)", len(ot), len(wt)))
		return
	}
	chk := func(ok bool, key, good, bad string) {
		if ok {
			l.Prove(rule, "", rule+"|"+key, "", good)
		} else {
			l.Fail(rule, "", rule+"|"+key, "", bad)
		}
	}
	chk(olower, "open-case-insensitive", "Open switches on filepath.Ext(strings.ToLower(name))", "Open does not lower-case the file name before taking its extension: .SRT is rejected")
	chk(wlower, "write-case-insensitive", "Write switches on filepath.Ext(strings.ToLower(name))", "Write does not lower-case the file name before taking its extension")
	chk(odef, "open-default", "unknown extensions yield ErrInvalidExtension in Open", "the default arm of Open does not return ErrInvalidExtension")
	chk(wdef, "write-default", "unknown extensions yield ErrInvalidExtension in Write", "the default arm of Write does not return ErrInvalidExtension")
	exts := map[string]bool{}
	for k := range ot {
		exts[k] = true
	}
	for k := range wt {
		exts[k] = true
	}
	var names []string
	for k := range exts {
		names = append(names, k)
	}
	sort.Strings(names)
	for _, ext := range names {
		o, w := ot[ext], wt[ext]
		key := "ext|" + ext
		switch {
		case o != "" && w != "" && o == w:
			l.Prove(rule, "", rule+"|"+key, "", fmt.Sprintf("%s is read and written by the %s codec", ext, o))
		case o != "" && w == "" && o == "Teletext":
			l.Prove(rule, "", rule+"|"+key, "", ext+" is read-only (teletext in a transport stream has no writer)")
		case o == "" && w != "":
			l.Fail(rule, "", rule+"|"+key, "", fmt.Sprintf("%s can be written (%s) but not opened", ext, w))
		case o != "" && w == "":
			l.Fail(rule, "", rule+"|"+key, "", fmt.Sprintf("%s can be opened (%s) but not written", ext, o))
		default:
			l.Fail(rule, "", rule+"|"+key, "", fmt.Sprintf("%s is read by the %s codec but written by the %s codec", ext, o, w))
		}
	}
	l.Min(rule, len(names), 7)
}

// expected CLI table (README "Using the CLI"): sub-command → operation, flag variables in order
var cliTable = map[string]struct {
	method string
	flags  []string
}{
	"apply-linear-correction": {"Subtitles.ApplyLinearCorrection", []string{"actual1", "desired1", "actual2", "desired2"}},
	"convert":                 {"", nil},
	"fragment":                {"Subtitles.Fragment", []string{"fragmentDuration"}},
	"merge":                   {"Subtitles.Merge", nil},
	"optimize":                {"Subtitles.Optimize", nil},
	"sync":                    {"Subtitles.Add", []string{"syncDuration"}},
	"unfragment":              {"Subtitles.Unfragment", nil},
}

// flagVarOf: v = *<global flag pointer> → name of the global.
func flagVarOf(v ssa.Value) string {
	u, ok := v.(*ssa.UnOp)
	if !ok {
		return ""
	}
	u2, ok := u.X.(*ssa.UnOp)
	if !ok {
		return ""
	}
	if g, ok := u2.X.(*ssa.Global); ok {
		return g.Name()
	}
	return ""
}

func ruleCLIDispatch(only ...string) func(p *Prog, l *Ledger, tier string) {
	return func(p *Prog, l *Ledger, tier string) {
		const rule = "E11.cli-dispatch"
		fn := anchor(p, l, rule, "main.main")
		if fn == nil {
			return
		}
		isCmd := func(v ssa.Value) bool {
			c, ok := v.(*ssa.Call)
			if !ok {
				return false
			}
			sc := c.Call.StaticCallee()
			return sc != nil && sc.String() == "github.com/asticode/go-astikit.FlagCmd"
		}
		arms, _, _ := switchArms(fn, isCmd)
		// a case without a body of its own jumps to the block where the cases meet: that block belongs to every case
		dispatch := map[*ssa.BasicBlock]bool{}
		for _, a := range arms {
			if a.iff != nil {
				dispatch[a.iff.Block()] = true
			}
		}
		stop := map[*ssa.BasicBlock]bool{}
		for _, a := range arms {
			join := false
			for _, pb := range a.target.Preds {
				if !dispatch[pb] {
					join = true
				}
			}
			if !join {
				stop[a.target] = true
			}
		}
		// operations applied before the switch apply to every sub-command
		var before []*ssa.Call
		for _, b := range fn.Blocks {
			all := len(dispatch) > 0
			for d := range dispatch {
				if !b.Dominates(d) { // the block of the first case test dominates itself: what precedes the test counts
					all = false
				}
			}
			if !all {
				continue
			}
			for _, ins := range b.Instrs {
				if c, ok := ins.(*ssa.Call); ok && c.Call.StaticCallee() != nil {
					before = append(before, c)
				}
			}
		}
		found := map[string]*caseArm{}
		for _, a := range arms {
			for _, c := range a.consts {
				found[c] = a
			}
		}
		want := only
		if len(want) == 0 {
			for k := range cliTable {
				want = append(want, k)
			}
			sort.Strings(want)
			// no undocumented sub-command
			for c := range found {
				if _, ok := cliTable[c]; !ok {
					l.Fail(rule, "main.main", rule+"|extra|"+c, "", "sub-command "+c+" is not in the documented table")
				}
			}
		}
		transformSet := map[string]bool{}
		for _, t := range transformFns {
			transformSet[t] = true
		}
		for _, cmd := range want {
			exp := cliTable[cmd]
			key := rule + "|" + cmd
			arm := found[cmd]
			if arm == nil {
				l.Fail(rule, "main.main", key, "", "sub-command "+cmd+" has no case in main")
				continue
			}
			wasStop := stop[arm.target]
			delete(stop, arm.target)
			calls := append(append([]*ssa.Call{}, before...), callsUnder(arm.target, stop)...)
			if wasStop {
				stop[arm.target] = true
			}
			var ops []*ssa.Call
			var write, writeVia *ssa.Call
			for _, c := range calls {
				sc := c.Call.StaticCallee()
				if sc == nil {
					continue
				}
				n := FnName(sc)
				if transformSet[n] {
					ops = append(ops, c)
				}
				if n == "Subtitles.Write" {
					write = c
				}
				// a helper of the command that writes the list it is given to the -o path
				if fnPkg(sc) == p.CLISSA && len(sc.Blocks) > 0 && write == nil {
					for _, hb := range sc.Blocks {
						for _, hi := range hb.Instrs {
							if hc, ok := hi.(*ssa.Call); ok && hc.Call.StaticCallee() != nil && FnName(hc.Call.StaticCallee()) == "Subtitles.Write" && len(hc.Call.Args) > 1 && flagVarOf(hc.Call.Args[1]) == "outputPath" {
								write, writeVia = c, hc
							}
						}
					}
				}
			}
			var problems []string
			switch {
			case exp.method == "" && len(ops) > 0:
				problems = append(problems, "applies "+FnName(ops[0].Call.StaticCallee())+" although it should only convert")
			case exp.method != "" && len(ops) != 1:
				problems = append(problems, fmt.Sprintf("calls %d operations, expected exactly %s", len(ops), exp.method))
			case exp.method != "" && FnName(ops[0].Call.StaticCallee()) != exp.method:
				problems = append(problems, "calls "+FnName(ops[0].Call.StaticCallee())+" instead of "+exp.method)
			}
			if exp.method != "" && len(ops) == 1 && len(problems) == 0 && pairSwapOK(ops[0], exp.flags) {
				// the two (actual, desired) reference pairs may be exchanged as pairs: the map through two
				// points does not depend on their order
			} else if exp.method != "" && len(ops) == 1 && len(problems) == 0 {
				for i, fv := range exp.flags {
					if i+1 >= len(ops[0].Call.Args) || flagVarOf(ops[0].Call.Args[i+1]) != fv {
						got := "?"
						if i+1 < len(ops[0].Call.Args) {
							got = flagVarOf(ops[0].Call.Args[i+1])
						}
						problems = append(problems, fmt.Sprintf("argument %d of %s is flag variable %q, expected %q", i+1, exp.method, got, fv))
					}
				}
				if write != nil && !(instrDominates(ops[0], write) || (instrReaches(ops[0], write) && !instrReaches(write, ops[0]) && !reachesAvoiding(arm.target, write.Block(), ops[0].Block()))) {
					problems = append(problems, "can write the output without having applied the operation (the call does not lie on every path from the case to Write)")
				}
			}
			if write == nil {
				problems = append(problems, "never calls Write")
			} else if writeVia == nil && flagVarOf(write.Call.Args[1]) != "outputPath" {
				problems = append(problems, "writes to something other than the -o path")
			}
			if len(problems) > 0 {
				l.Fail(rule, "main.main", key, p.Pos(arm.iff.Pos()), "sub-command "+cmd+": "+strings.Join(problems, "; "))
			} else {
				l.Prove(rule, "main.main", key, p.Pos(arm.iff.Pos()), "sub-command "+cmd+" → "+orNone(exp.method)+" with the documented flags, then Write(-o)")
			}
		}
	}
}

func orNone(s string) string {
	if s == "" {
		return "(no operation)"
	}
	return s
}

// ruleEmptyListGuard: G1 — every Write/Encode on the destination of a WriteTo* is dominated by
// len(s.Items) ≥ 1 (the empty list returns ErrNoSubtitlesToWrite first).
func ruleEmptyListGuard(p *Prog, l *Ledger, tier string) {
	const rule = "E12.G1-empty-list"
	a := NewNilAnalysis(p)
	n := 0
	for _, name := range writerFns[:5] {
		fn := anchor(p, l, rule, name)
		if fn == nil {
			continue
		}
		// the len(s.Items) registers of this function
		var lens []string
		var lenArgs []ssa.Value
		for _, b := range fn.Blocks {
			for _, ins := range b.Instrs {
				if c, ok := ins.(*ssa.Call); ok {
					if bi, ok := c.Call.Value.(*ssa.Builtin); ok && bi.Name() == "len" {
						if _, f, _ := loadedField(c.Call.Args[0]); f == "Items" {
							lens = append(lens, "len("+a.regKey(c.Call.Args[0])+")")
							lenArgs = append(lenArgs, c.Call.Args[0])
						}
					}
				}
			}
		}
		returnsSentinel := false
		for _, b := range fn.Blocks {
			for _, ins := range b.Instrs {
				var v ssa.Value
				switch x := ins.(type) {
				case *ssa.Return:
					if len(x.Results) > 0 {
						v = x.Results[len(x.Results)-1]
					}
				case *ssa.Store:
					v = x.Val
				}
				if u, ok := v.(*ssa.UnOp); ok {
					if g, ok := u.X.(*ssa.Global); ok && g.Name() == "ErrNoSubtitlesToWrite" {
						returnsSentinel = true
					}
				}
			}
		}
		for _, b := range fn.Blocks {
			for _, ins := range b.Instrs {
				c, ok := ins.(*ssa.Call)
				if !ok {
					continue
				}
				name2 := calleeName(&c.Call)
				ct, _ := lookupContract(name2)
				if !ct.io || !(strings.Contains(name2, "Write") || strings.Contains(name2, "Encode")) {
					continue
				}
				n++
				key := l.Key(rule, name, "output", calleeShort(&c.Call))
				a.cur, a.curFn = ins, fn
				g := a.newGraph(fn, ins)
				for _, la := range lenArgs {
					g.defineLen(la, 0)
				}
				ok2 := false
				for _, lt := range lens {
					if g.proveLE(zeroTerm, 1, lt, 0) {
						ok2 = true
					}
				}
				a.cur, a.curFn = nil, nil
				if ok2 && returnsSentinel {
					l.Prove(rule, name, key, p.Pos(c.Pos()), "output happens only where len(s.Items) ≥ 1; the empty list returns ErrNoSubtitlesToWrite")
				} else {
					l.Fail(rule, name, key, p.Pos(c.Pos()), name+" can start writing although the cue list may be empty (no dominating len(s.Items) test / ErrNoSubtitlesToWrite return)")
				}
			}
		}
	}
	l.Min(rule, n, 7)
}

// ruleWritersNilTolerant: E1 restricted to the writers' closure (C07 clause d).
func ruleWritersNilTolerant(p *Prog, l *Ledger, tier string) {
	const rule = "E1.nilderef"
	a := NewNilAnalysis(p)
	n := 0
	for _, fn := range p.WriterClosure(l, rule) {
		if fnPkg(fn) != p.LibSSA {
			continue
		}
		fname := FnName(fn)
		for _, ds := range derefSites(fn, p) {
			if constructorNonNil(ds.op) {
				continue
			}
			n++
			key := l.Key(rule, fname, ds.kind, descOf(ds.op))
			if a.nonNil(fn, ds.op, a.at[ds.ins]) {
				l.Prove(rule, fname, key, p.Pos(ds.ins.Pos()), "non-nil by dominating test / construction / call-site join")
			} else {
				l.Fail(rule, fname, key, p.Pos(ds.ins.Pos()), fmt.Sprintf("%s: %s of %s (%s) is not preceded by a nil test on every path: a cue list produced by another reader makes this writer panic", fname, derefVerb(ds.kind), descOf(ds.op), typeStr(ds.op.Type())))
			}
		}
	}
	l.Min(rule, n, 100)
}

// pairSwapOK: the four arguments are phis of one block whose edges carry, position by position,
// either (a1,d1,a2,d2) or (a2,d2,a1,d1) – the reference pairs exchanged as pairs.
func pairSwapOK(c *ssa.Call, flags []string) bool {
	if len(flags) != 4 || len(c.Call.Args) < 5 {
		return false
	}
	var phis [4]*ssa.Phi
	for i := 0; i < 4; i++ {
		ph, ok := c.Call.Args[i+1].(*ssa.Phi)
		if !ok {
			return false
		}
		phis[i] = ph
		if ph.Block() != phis[0].Block() || len(ph.Edges) != len(phis[0].Edges) {
			return false
		}
	}
	for e := range phis[0].Edges {
		var got [4]string
		for i := 0; i < 4; i++ {
			got[i] = flagVarOf(phis[i].Edges[e])
		}
		straight := got[0] == flags[0] && got[1] == flags[1] && got[2] == flags[2] && got[3] == flags[3]
		swapped := got[0] == flags[2] && got[1] == flags[3] && got[2] == flags[0] && got[3] == flags[1]
		if !straight && !swapped {
			return false
		}
	}
	return true
}

// extExpr: v is built from filepath.Ext and strings.ToLower/ToUpper applications (in either order,
// possibly inside a single-return helper of the package): reports which of the two are applied.
// ToLower maps rune by rune and neither creates nor removes '.' or a separator, so
// Ext(ToLower(x)) == ToLower(Ext(x)).
func extExpr(p *Prog, v ssa.Value, depth int) (hasExt, hasLower bool) {
	if depth > 4 || v == nil {
		return false, false
	}
	c, ok := v.(*ssa.Call)
	if !ok {
		return false, false
	}
	sc := c.Call.StaticCallee()
	if sc == nil {
		return false, false
	}
	switch sc.String() {
	case "path/filepath.Ext":
		_, l2 := extExpr(p, c.Call.Args[0], depth+1)
		return true, l2
	case "strings.ToLower", "strings.ToUpper":
		e2, _ := extExpr(p, c.Call.Args[0], depth+1)
		return e2, true
	}
	if p.inScope(sc) && len(sc.Blocks) == 1 {
		if r, ok := sc.Blocks[0].Instrs[len(sc.Blocks[0].Instrs)-1].(*ssa.Return); ok && len(r.Results) == 1 {
			return extExpr(p, r.Results[0], depth+1)
		}
	}
	return false, false
}

// nameDerived: v is a string computed from a string parameter (or a string field of a parameter) of
// the dispatcher through string-to-string functions; lowered reports whether every derivation chain
// passes through strings.ToLower/ToUpper.
func nameDerived(p *Prog, v ssa.Value, depth int) (derived, lowered bool) {
	if depth > 8 || v == nil {
		return false, false
	}
	isString := func(t types.Type) bool {
		b, ok := t.Underlying().(*types.Basic)
		return ok && b.Info()&types.IsString != 0
	}
	if !isString(v.Type()) {
		return false, false
	}
	switch x := v.(type) {
	case *ssa.Parameter:
		return true, false
	case *ssa.UnOp:
		if x.Op == token.MUL {
			if fa, ok := x.X.(*ssa.FieldAddr); ok {
				if _, ok := fa.X.(*ssa.Parameter); ok {
					return true, false
				}
				if al, ok := fa.X.(*ssa.Alloc); ok { // spilled value parameter
					for _, r := range *al.Referrers() {
						if st, ok := r.(*ssa.Store); ok && st.Addr == ssa.Value(al) {
							if _, ok := st.Val.(*ssa.Parameter); ok {
								return true, false
							}
						}
					}
				}
			}
		}
	case *ssa.Field:
		if _, ok := x.X.(*ssa.Parameter); ok {
			return true, false
		}
	case *ssa.Slice:
		return nameDerived(p, x.X, depth+1)
	case *ssa.Phi:
		d, lo := false, true
		for _, e := range x.Edges {
			de, le := nameDerived(p, e, depth+1)
			if de {
				d = true
				lo = lo && le
			}
		}
		return d, d && lo
	case *ssa.Call:
		sc := x.Call.StaticCallee()
		if sc == nil {
			return false, false
		}
		if s := sc.String(); s == "strings.ToLower" || s == "strings.ToUpper" {
			d, _ := nameDerived(p, x.Call.Args[0], depth+1)
			return d, d
		}
		if p.inScope(sc) && len(sc.Blocks) == 1 {
			if r, ok := sc.Blocks[0].Instrs[len(sc.Blocks[0].Instrs)-1].(*ssa.Return); ok && len(r.Results) == 1 {
				// the helper's own parameter stands for the argument
				d, lo := nameDerived(p, r.Results[0], depth+1)
				if d {
					for _, a := range x.Call.Args {
						if da, la := nameDerived(p, a, depth+1); da {
							return true, lo || la
						}
					}
				}
				return false, false
			}
		}
		d, lo := false, true
		for _, a := range x.Call.Args {
			if da, la := nameDerived(p, a, depth+1); da {
				d = true
				lo = lo && la
			}
		}
		return d, d && lo
	}
	return false, false
}

// caseSensitiveNameTests lists the places where fn (or a helper) decides something on a string
// derived from the file name without lower-casing it first.
func caseSensitiveNameTests(p *Prog, fn *ssa.Function) []ssa.Instruction {
	var out []ssa.Instruction
	bad := func(v ssa.Value) bool {
		d, lo := nameDerived(p, v, 0)
		return d && !lo
	}
	// a constant without letters ("." or "") is the same in either case
	neutral := func(v ssa.Value) bool {
		c, ok := v.(*ssa.Const)
		if !ok || c.Value == nil || c.Value.Kind() != constant.String {
			return false
		}
		s := constant.StringVal(c.Value)
		return strings.ToLower(s) == strings.ToUpper(s)
	}
	for _, b := range fn.Blocks {
		for _, ins := range b.Instrs {
			switch x := ins.(type) {
			case *ssa.BinOp:
				switch x.Op {
				case token.EQL, token.NEQ, token.LSS, token.LEQ, token.GTR, token.GEQ:
					if (bad(x.X) && !neutral(x.Y)) || (bad(x.Y) && !neutral(x.X)) {
						out = append(out, ins)
					}
				}
			case *ssa.Lookup:
				if bad(x.Index) || bad(x.X) {
					out = append(out, ins)
				}
			case *ssa.Call:
				sc := x.Call.StaticCallee()
				if sc == nil {
					continue
				}
				switch sc.String() {
				case "strings.HasSuffix", "strings.HasPrefix", "strings.Contains", "strings.Index", "strings.LastIndex", "strings.Compare", "path/filepath.Match", "path.Match":
					nb, nn := 0, 0
					for _, a := range x.Call.Args {
						if bad(a) {
							nb++
						} else if neutral(a) {
							nn++
						}
					}
					if nb > 0 && nb+nn < len(x.Call.Args) {
						out = append(out, ins)
					}
				}
			}
		}
	}
	return out
}

// reachesAvoiding: control can go from the head of block from to block to without entering block avoid.
func reachesAvoiding(from, to, avoid *ssa.BasicBlock) bool {
	if from == avoid {
		return false
	}
	seen := map[*ssa.BasicBlock]bool{from: true}
	work := []*ssa.BasicBlock{from}
	for len(work) > 0 {
		x := work[len(work)-1]
		work = work[:len(work)-1]
		if x == to {
			return true
		}
		for _, s := range x.Succs {
			if !seen[s] && s != avoid {
				seen[s] = true
				work = append(work, s)
			}
		}
	}
	return false
}
