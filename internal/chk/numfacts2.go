package chk

import (
	"go/constant"
	"go/token"
	"go/types"
	"regexp/syntax"
	"strings"

	"golang.org/x/tools/go/ssa"
)

const infW = int64(1) << 50

// shortest returns the tightest c with  to - from ≤ c  implied by the graph (Bellman-Ford from `from`).
func (g *cgraph) shortest(from, to string) (int64, bool) {
	from, to = g.canon(from), g.canon(to)
	if from == to {
		return 0, true
	}
	dist := map[string]int64{from: 0}
	for iter := 0; iter < 64; iter++ {
		changed := false
		for b, outs := range g.edges {
			db, ok := dist[b]
			if !ok {
				continue
			}
			for a, c := range outs {
				nd := db + c
				if nd < -infW {
					nd = -infW
				}
				if old, ok := dist[a]; !ok || nd < old {
					dist[a] = nd
					changed = true
				}
			}
		}
		if !changed {
			break
		}
	}
	d, ok := dist[to]
	return d, ok
}

// proveLE: term ta + ka ≤ term tb + kb ?
func (g *cgraph) proveLE(ta string, ka int64, tb string, kb int64) bool {
	if ta == "" {
		ta = zeroTerm
	}
	if tb == "" {
		tb = zeroTerm
	}
	c, ok := g.shortest(tb, ta) // ta - tb ≤ c
	if !ok {
		return false
	}
	if c <= kb-ka {
		return true
	}
	// a disequality can tighten a non-strict bound by one
	if c == kb-ka+1 {
		if g.ne[g.canon(ta)+"|"+g.canon(tb)+"|"+itoa64(c)] {
			return true
		}
	}
	return false
}

func itoa64(n int64) string {
	neg := n < 0
	if neg {
		n = -n
	}
	s := ""
	if n == 0 {
		s = "0"
	}
	for n > 0 {
		s = string(rune('0'+n%10)) + s
		n /= 10
	}
	if neg {
		s = "-" + s
	}
	return s
}

// bounds: constant interval of a term, when both ends are known.
func (g *cgraph) bounds(t string) (int64, int64, bool) {
	hi, ok1 := g.shortest(zeroTerm, t)
	lo, ok2 := g.shortest(t, zeroTerm)
	if !ok1 || !ok2 {
		return 0, 0, false
	}
	return -lo, hi, true
}

func (g *cgraph) boundsLo(t string) (int64, int64, bool) {
	lo, ok := g.shortest(t, zeroTerm) // 0 - t ≤ lo  ⇒ t ≥ -lo
	if !ok {
		return 0, 0, false
	}
	return -lo, 0, true
}

// defineLen adds what is known about len(x) from the way x is built.
func (g *cgraph) defineLen(x ssa.Value, depth int) {
	a := g.a
	lt := "len(" + a.regKey(x) + ")"
	if g.seen[lt] || depth > 10 {
		return
	}
	g.seen[lt] = true
	g.le(zeroTerm, lt, 0)
	if n := a.prefixHolds(x); n > 0 {
		g.le(zeroTerm, lt, -n)
	}
	switch v := x.(type) {
	case *ssa.Const:
		if v.Value != nil && v.Value.Kind() == constant.String {
			n := int64(len(constant.StringVal(v.Value)))
			g.le(lt, zeroTerm, n)
			g.le(zeroTerm, lt, -n)
		}
		if v.Value == nil {
			g.le(lt, zeroTerm, 0)
		}
	case *ssa.Slice:
		g.defineLenSlice(v, lt, depth)
	case *ssa.MakeSlice:
		if t, k, ok := a.intTerm(v.Len); ok {
			g.define(v.Len, depth+1)
			g.le(lt, orZero(t), k)
			g.le(orZero(t), lt, -k)
		}
	case *ssa.Convert:
		// string <-> []byte keep the length
		_, fromStr := v.X.Type().Underlying().(*types.Basic)
		_, toStr := v.Type().Underlying().(*types.Basic)
		if fromStr != toStr || (fromStr && toStr) {
			if bt, ok := elemBasic(v.X.Type(), v.Type()); ok && bt {
				g.defineLen(v.X, depth+1)
				other := "len(" + a.regKey(v.X) + ")"
				g.le(lt, other, 0)
				g.le(other, lt, 0)
			}
		}
	case *ssa.ChangeType:
		g.defineLen(v.X, depth+1)
		other := "len(" + a.regKey(v.X) + ")"
		g.le(lt, other, 0)
		g.le(other, lt, 0)
	case *ssa.Call:
		g.defineLenCall(v, 0, lt, x, depth)
	case *ssa.Extract:
		if c, ok := v.Tuple.(*ssa.Call); ok {
			g.defineLenCall(c, v.Index, lt, x, depth)
		}
		if nx, ok := v.Tuple.(*ssa.Next); ok && v.Index == 2 {
			if r, ok := nx.Iter.(*ssa.Range); ok {
				g.defineElemLen(r.X, lt)
			}
		}
	case *ssa.Lookup:
		// rows of a map field that is only ever given make([]T, L) values: len is L once the key is known to be
		// present (the ensure-present idiom: if _, ok := m[k]; !ok { m[k] = make(…) } … m[k])
		if !v.CommaOk {
			if L, ok := a.mapFieldRowLen(v.X); ok {
				g.le(lt, zeroTerm, L)
				if ensuredPresent(a, v) {
					g.le(zeroTerm, lt, -L)
				}
			}
		}
	case *ssa.UnOp:
		if v.Op == token.MUL {
			if n := g.growCellLenLo(v); n > 0 {
				g.le(zeroTerm, lt, -n)
			}
			g.memReverseScan(v, lt)
			switch ad := v.X.(type) {
			case *ssa.Global:
				if n, ok := a.globalLen(ad); ok {
					g.le(lt, zeroTerm, n)
					g.le(zeroTerm, lt, -n)
				}
			case *ssa.IndexAddr:
				g.defineElemLen(ad.X, lt)
			}
		}
	case *ssa.Phi:
		if L, ok := a.ensuredRowPhi(v); ok {
			g.le(lt, zeroTerm, L)
			g.le(zeroTerm, lt, -L)
			return
		}
		// lower bound: min over the edges that are not grown from the phi itself by append.
		// Edge values of a loop-carried phi belong to the previous iteration: they are bounded in
		// a separate graph (definitional facts only) so that no relation between same-named
		// values of different iterations leaks into the current one.
		lo := infW
		known := true
		knownNonNil := a.cur != nil && a.at[a.cur] != nil && a.at[a.cur]["v:"+v.Name()]
		// the values that can arrive: through inner merges, v itself standing for "unchanged"
		var leaves []ssa.Value
		seenPhi := map[ssa.Value]bool{v: true}
		var collect func(p *ssa.Phi)
		collect = func(p *ssa.Phi) {
			for _, e := range p.Edges {
				if p2, ok := e.(*ssa.Phi); ok {
					if !seenPhi[p2] {
						seenPhi[p2] = true
						collect(p2)
					}
					continue
				}
				leaves = append(leaves, e)
			}
		}
		collect(v)
		for _, e := range leaves {
			if grownFrom(e, v, map[ssa.Value]bool{}) {
				continue
			}
			// the nil operand is excluded where the merge is known to be non-nil (if x != nil { … x[k] … })
			if c, isC := e.(*ssa.Const); isC && c.IsNil() && knownNonNil {
				continue
			}
			sb := &cgraph{a: a, fn: g.fn, edges: map[string]map[string]int64{}, ne: map[string]bool{}, seen: map[string]bool{lt: true}, vals: map[string]ssa.Value{}, alias: map[string]string{}}
			sb.le(zeroTerm, lt, 0)
			sb.defineLen(e, depth+1)
			l, _, ok := sb.boundsLo("len(" + a.regKey(e) + ")")
			if !ok {
				known = false
				break
			}
			if l < lo {
				lo = l
			}
		}
		if known && lo < infW && lo > 0 {
			g.le(zeroTerm, lt, -lo)
		}
	case *ssa.Parameter:
		g.defineParamLen(v, lt)
	case *ssa.BinOp:
		if v.Op == token.ADD { // string concatenation
			g.defineLen(v.X, depth+1)
			g.defineLen(v.Y, depth+1)
			l1, _, ok1 := g.boundsLo("len(" + a.regKey(v.X) + ")")
			l2, _, ok2 := g.boundsLo("len(" + a.regKey(v.Y) + ")")
			if ok1 && ok2 {
				g.le(zeroTerm, lt, -(l1 + l2))
			}
		}
	}
}

func orZero(t string) string {
	if t == "" {
		return zeroTerm
	}
	return t
}

func elemBasic(a, b types.Type) (bool, bool) {
	isBytes := func(t types.Type) bool {
		if sl, ok := t.Underlying().(*types.Slice); ok {
			if bt, ok := sl.Elem().Underlying().(*types.Basic); ok && bt.Kind() == types.Uint8 {
				return true
			}
		}
		return false
	}
	isStr := func(t types.Type) bool {
		bt, ok := t.Underlying().(*types.Basic)
		return ok && bt.Info()&types.IsString != 0
	}
	return (isBytes(a) && isStr(b)) || (isStr(a) && isBytes(b)) || (isStr(a) && isStr(b)) || (isBytes(a) && isBytes(b)), true
}

// grownFrom: e is obtained from phi by a chain of append calls (so len(e) ≥ len(phi)).
func grownFrom(e ssa.Value, phi *ssa.Phi, seen map[ssa.Value]bool) bool {
	if e == ssa.Value(phi) {
		return true
	}
	if seen[e] {
		return true
	}
	seen[e] = true
	switch x := e.(type) {
	case *ssa.Call:
		if b, ok := x.Call.Value.(*ssa.Builtin); ok && b.Name() == "append" {
			return grownFrom(x.Call.Args[0], phi, seen)
		}
	case *ssa.Phi:
		for _, ed := range x.Edges {
			if !grownFrom(ed, phi, seen) {
				return false
			}
		}
		return true
	}
	return false
}

func (g *cgraph) defineLenSlice(v *ssa.Slice, lt string, depth int) {
	a := g.a
	// length of the sliced operand
	var baseLen string
	var baseConst int64 = -1
	switch t := v.X.Type().Underlying().(type) {
	case *types.Pointer:
		if at, ok := t.Elem().Underlying().(*types.Array); ok {
			baseConst = at.Len()
		}
	default:
		g.defineLen(v.X, depth+1)
		baseLen = "len(" + a.regKey(v.X) + ")"
	}
	loT, loK := "", int64(0)
	if v.Low != nil {
		t, k, ok := a.intTerm(v.Low)
		if !ok {
			return
		}
		g.define(v.Low, depth+1)
		loT, loK = t, k
	}
	hiT, hiK := baseLen, int64(0)
	if baseConst >= 0 {
		hiT, hiK = "", baseConst
	}
	if v.High != nil {
		t, k, ok := a.intTerm(v.High)
		if !ok {
			return
		}
		g.define(v.High, depth+1)
		hiT, hiK = t, k
	}
	// len = hi - lo ; expressible as a difference constraint when lo or hi is constant
	switch {
	case loT == "":
		g.le(lt, orZero(hiT), hiK-loK)
		g.le(orZero(hiT), lt, loK-hiK)
	case hiT == "":
		// len = hiK - (loT + loK): len + loT = hiK - loK → only an upper bound on len given lo ≥ ...
		if lo, _, ok := g.boundsLo(loT); ok {
			g.le(lt, zeroTerm, hiK-loK-lo)
		}
	default:
		// len = (hiT+hiK) - (loT+loK): use known difference hiT - loT
		if c, ok := g.shortest(loT, hiT); ok { // hiT - loT ≤ c
			g.le(lt, zeroTerm, c+hiK-loK)
		}
		if c, ok := g.shortest(hiT, loT); ok { // loT - hiT ≤ c ⇒ hiT - loT ≥ -c
			g.le(zeroTerm, lt, c-hiK+loK)
		}
	}
}

// elemLen contracts: elements of the results of these calls have a fixed length.
func (g *cgraph) defineElemLen(container ssa.Value, lt string) {
	c, ok := container.(*ssa.Call)
	if !ok {
		return
	}
	sc := c.Call.StaticCallee()
	if sc == nil {
		return
	}
	switch sc.String() {
	case "(*regexp.Regexp).FindAllStringSubmatchIndex", "(*regexp.Regexp).FindAllSubmatchIndex":
		if n, ok := g.a.regexpSubexp(c.Call.Args[0]); ok {
			g.le(lt, zeroTerm, int64(2*(n+1)))
			g.le(zeroTerm, lt, -int64(2*(n+1)))
		}
	case "(*regexp.Regexp).FindAllStringIndex", "(*regexp.Regexp).FindAllIndex":
		g.le(lt, zeroTerm, 2)
		g.le(zeroTerm, lt, -2)
	}
}

func (g *cgraph) defineLenCall(c *ssa.Call, idx int, lt string, val ssa.Value, depth int) {
	a := g.a
	if b, ok := c.Call.Value.(*ssa.Builtin); ok {
		if b.Name() == "append" {
			g.defineLen(c.Call.Args[0], depth+1)
			base := "len(" + a.regKey(c.Call.Args[0]) + ")"
			g.le(base, lt, 0) // len(result) ≥ len(first operand)
			// explicit elements: append(x, e1..ek) adds exactly k
			if sl, ok := c.Call.Args[1].(*ssa.Slice); ok {
				if al, ok := sl.X.(*ssa.Alloc); ok {
					if at, ok := al.Type().(*types.Pointer).Elem().Underlying().(*types.Array); ok && sl.Low == nil && sl.High == nil {
						g.le(base, lt, -at.Len())
						g.le(lt, base, at.Len())
						return
					}
				}
			}
			g.defineLen(c.Call.Args[1], depth+1)
			if l2, _, ok := g.boundsLo("len(" + a.regKey(c.Call.Args[1]) + ")"); ok {
				g.le(base, lt, -l2)
			}
		}
		return
	}
	sc := c.Call.StaticCallee()
	if sc == nil {
		return
	}
	nonNil := a.at[instrOf(val)] != nil && a.nonNilHere(val)
	switch sc.String() {
	case "(*regexp.Regexp).Split":
		// for a pattern that cannot match the empty string and n != 0 the piece after the last match is always
		// appended, so there is at least one piece; with n < 0 there is exactly one piece more than FindAll*(s, -1) of
		// the same pattern on the same text finds matches
		if n, ok := constInt(c.Call.Args[2]); ok && n != 0 {
			if m, okm := a.regexpMinLen(c.Call.Args[0]); okm && m >= 1 {
				g.le(zeroTerm, lt, -1)
				if n < 0 {
					for _, b := range c.Parent().Blocks {
						for _, ins := range b.Instrs {
							fa, ok := ins.(*ssa.Call)
							if !ok || fa == c {
								continue
							}
							switch calleeName(&fa.Call) {
							case "(*regexp.Regexp).FindAllString", "(*regexp.Regexp).FindAllStringIndex", "(*regexp.Regexp).FindAllStringSubmatch", "(*regexp.Regexp).FindAllStringSubmatchIndex":
							default:
								continue
							}
							if k, ok := constInt(fa.Call.Args[2]); !ok || k >= 0 {
								continue
							}
							if a.key(fa.Call.Args[0]) != a.key(c.Call.Args[0]) || fa.Call.Args[1] != c.Call.Args[1] {
								continue
							}
							g.defineLen(fa, depth+1)
							other := "len(" + a.regKey(fa) + ")"
							g.le(lt, other, 1)
							g.le(other, lt, -1)
						}
					}
				}
			}
		}
	case "strings.Split", "strings.SplitN", "bytes.Split", "bytes.SplitN", "strings.SplitAfter":
		// a non-empty separator yields at least one element
		if sep, ok := c.Call.Args[1].(*ssa.Const); ok && sep.Value != nil && sep.Value.Kind() == constant.String && constant.StringVal(sep.Value) != "" {
			g.le(zeroTerm, lt, -1)
			// a dominating strings.Contains(s, sep) on the same operands ⇒ at least two elements
			if a.containsHolds(c) {
				g.le(zeroTerm, lt, -2)
			}
		} else if _, isSlice := c.Call.Args[1].Type().Underlying().(*types.Slice); isSlice {
			g.le(zeroTerm, lt, -1)
		}
	case "(*regexp.Regexp).FindStringSubmatch", "(*regexp.Regexp).FindSubmatch":
		if n, ok := a.regexpSubexp(c.Call.Args[0]); ok {
			g.le(lt, zeroTerm, int64(n+1))
			if nonNil {
				g.le(zeroTerm, lt, -int64(n+1))
			}
		}
	case "(*regexp.Regexp).FindStringIndex", "(*regexp.Regexp).FindIndex":
		g.le(lt, zeroTerm, 2)
		if nonNil {
			g.le(zeroTerm, lt, -2)
		}
	}
	// in-package callees: length summaries
	if a.p.inScope(sc) {
		if ls := a.lenSum[sc]; ls != nil && idx < len(ls) && ls[idx] != nil {
			s := ls[idx]
			if s.eqParam >= 0 && s.eqParam < len(c.Call.Args) {
				if t, k, ok := a.intTerm(c.Call.Args[s.eqParam]); ok {
					g.define(c.Call.Args[s.eqParam], depth+1)
					g.le(lt, orZero(t), k)
					g.le(orZero(t), lt, -k)
				}
			}
			if s.lo > 0 {
				g.le(zeroTerm, lt, -s.lo)
			}
		}
	}
}

func instrOf(v ssa.Value) ssa.Instruction {
	ins, _ := v.(ssa.Instruction)
	return ins
}

// nonNilHere: v is non-nil at the point currently being proved (set by the prover).
func (a *NilAnalysis) nonNilHere(v ssa.Value) bool {
	if a.cur == nil {
		return false
	}
	return a.nonNil(a.curFn, v, a.at[a.cur])
}

// containsHolds: the Split call c = Split(s, sep) is dominated by the true edge of a
// strings.Contains(s', sep') with the same operands (same registers or same constants).
func (a *NilAnalysis) containsHolds(c *ssa.Call) bool {
	if a.cur == nil {
		return false
	}
	same := func(x, y ssa.Value) bool {
		if x == y {
			return true
		}
		cx, ok1 := x.(*ssa.Const)
		cy, ok2 := y.(*ssa.Const)
		return ok1 && ok2 && cx.Value != nil && cy.Value != nil && constant.Compare(cx.Value, token.EQL, cy.Value)
	}
	for x := c.Block(); x != nil; x = x.Idom() {
		d := x.Idom()
		if d == nil || len(x.Preds) != 1 || x.Preds[0] != d {
			continue
		}
		iff, ok := d.Instrs[len(d.Instrs)-1].(*ssa.If)
		if !ok || d.Succs[0] != x {
			continue
		}
		cc, ok := iff.Cond.(*ssa.Call)
		if !ok {
			continue
		}
		if sc := cc.Call.StaticCallee(); sc != nil && (sc.String() == "strings.Contains" || sc.String() == "bytes.Contains") {
			if same(cc.Call.Args[0], c.Call.Args[0]) && same(cc.Call.Args[1], c.Call.Args[1]) {
				return true
			}
		}
	}
	return false
}

// prefixHolds: the current site is dominated by the true edge of strings.HasPrefix/HasSuffix(x, "const") on the same
// register (directly, negated on the false edge, or as an operand of a && in value position) ⇒ len(x) is at least the
// length of the shortest string that starts with the longest such prefix and ends with the longest such suffix
// ("[" and "]" cannot be the same character: two at least).
func (a *NilAnalysis) prefixHolds(x ssa.Value) int64 {
	if a.cur == nil {
		return 0
	}
	pre, suf := "", ""
	for _, dc := range dominatingConds(a.cur.Block()) {
		cond, taken := dc.cond, dc.taken
		for {
			if u, ok := cond.(*ssa.UnOp); ok && u.Op == token.NOT {
				cond, taken = u.X, !taken
				continue
			}
			break
		}
		cc, ok := cond.(*ssa.Call)
		if !ok || !taken {
			continue
		}
		sc := cc.Call.StaticCallee()
		if sc == nil || len(cc.Call.Args) != 2 || cc.Call.Args[0] != x {
			continue
		}
		c, ok := stripConv(cc.Call.Args[1]).(*ssa.Const)
		if !ok || c.Value == nil || c.Value.Kind() != constant.String {
			continue
		}
		k := constant.StringVal(c.Value)
		switch sc.String() {
		case "strings.HasPrefix", "bytes.HasPrefix":
			if len(k) > len(pre) {
				pre = k
			}
		case "strings.HasSuffix", "bytes.HasSuffix":
			if len(k) > len(suf) {
				suf = k
			}
		}
	}
	// the shortest string with that prefix and that suffix: they may overlap only where they agree
	lo := len(pre)
	if len(suf) > lo {
		lo = len(suf)
	}
	for n := lo; n < len(pre)+len(suf); n++ {
		o := len(pre) + len(suf) - n
		if pre[len(pre)-o:] == suf[:o] {
			return int64(n)
		}
	}
	return int64(len(pre) + len(suf))
}

// regexpSubexp: number of capture groups of the package-level regexp the value is loaded from.
func (a *NilAnalysis) regexpSubexp(recv ssa.Value) (int, bool) {
	u, ok := recv.(*ssa.UnOp)
	if !ok || u.Op != token.MUL {
		return 0, false
	}
	gl, ok := u.X.(*ssa.Global)
	if !ok {
		return 0, false
	}
	if n, ok := a.reSub[gl.Name()]; ok {
		return n, n >= 0
	}
	n := -1
	if init := gl.Pkg.Func("init"); init != nil {
		for _, b := range init.Blocks {
			for _, ins := range b.Instrs {
				st, ok := ins.(*ssa.Store)
				if !ok || st.Addr != ssa.Value(gl) {
					continue
				}
				if c, ok := st.Val.(*ssa.Call); ok {
					if sc := c.Call.StaticCallee(); sc != nil && sc.String() == "regexp.MustCompile" {
						if pat, ok := c.Call.Args[0].(*ssa.Const); ok && pat.Value != nil {
							if re, err := syntax.Parse(constant.StringVal(pat.Value), syntax.Perl); err == nil {
								n = re.MaxCap()
							}
						}
					}
				}
			}
		}
	}
	a.reSub[gl.Name()] = n
	return n, n >= 0
}

// globalLen: constant length of a package-level slice/array/string variable initialised once
// with a literal and never written afterwards (R5.2).
func (a *NilAnalysis) globalLen(gl *ssa.Global) (int64, bool) {
	if n, ok := a.gLen[gl.Name()]; ok {
		return n, n >= 0
	}
	n := int64(-1)
	stores := 0
	if gl.Pkg != nil {
		if init := gl.Pkg.Func("init"); init != nil {
			for _, b := range init.Blocks {
				for _, ins := range b.Instrs {
					st, ok := ins.(*ssa.Store)
					if !ok || st.Addr != ssa.Value(gl) {
						continue
					}
					stores++
					switch v := st.Val.(type) {
					case *ssa.Slice:
						if al, ok := v.X.(*ssa.Alloc); ok && v.Low == nil && v.High == nil {
							if at, ok := al.Type().(*types.Pointer).Elem().Underlying().(*types.Array); ok {
								n = at.Len()
							}
						}
					case *ssa.Const:
						if v.Value != nil && v.Value.Kind() == constant.String {
							n = int64(len(constant.StringVal(v.Value)))
						}
					case *ssa.Convert:
						if c, ok := v.X.(*ssa.Const); ok && c.Value != nil && c.Value.Kind() == constant.String {
							n = int64(len(constant.StringVal(c.Value)))
						}
					}
				}
			}
		}
	}
	if stores != 1 {
		n = -1
	}
	if at, ok := gl.Type().(*types.Pointer).Elem().Underlying().(*types.Array); ok {
		n = at.Len()
	}
	a.gLen[gl.Name()] = n
	return n, n >= 0
}

var _ = strings.HasPrefix

// mapFieldRowLen: m is loaded from a struct field T.f of map type with slice values, and every update of a map
// loaded from T.f anywhere in the library stores make([]E, L) with one constant L (the map is created empty).
func (a *NilAnalysis) mapFieldRowLen(m ssa.Value) (int64, bool) {
	t, f, _ := loadedField(m)

	if f == "" {
		return 0, false
	}
	L, n := int64(-1), 0
	for _, fn := range a.p.LibFns {
		for _, b := range fn.Blocks {
			for _, ins := range b.Instrs {
				mu, ok := ins.(*ssa.MapUpdate)
				if !ok {
					continue
				}
				t2, f2, _ := loadedField(mu.Map)
				if t2 != t || f2 != f {
					// a map of the same type reached some other way could alias the field: refuse
					if types.Identical(mu.Map.Type(), m.Type()) {
						return 0, false
					}
					continue
				}
				c, ok := freshSliceLen(mu.Value)
				if !ok || (L >= 0 && c != L) {
					return 0, false
				}
				L = c
				n++
			}
		}
	}
	return L, n > 0
}

// ensuredPresent: lk = m[k] is dominated by the ensure-present idiom on the same map location and the same key
// value: a comma-ok lookup whose !ok branch stores m[k] and rejoins, with no delete in the function.
func ensuredPresent(a *NilAnalysis, lk *ssa.Lookup) bool {
	fn := lk.Parent()
	if hasDelete(fn) {
		return false
	}
	mkey := a.key(lk.X)
	for _, b := range fn.Blocks {
		for _, ins := range b.Instrs {
			c, ok := ins.(*ssa.Lookup)
			if !ok || !c.CommaOk || c.Index != lk.Index || a.key(c.X) != mkey {
				continue
			}
			if !(b.Dominates(lk.Block())) {
				continue
			}
			iff, ok := b.Instrs[len(b.Instrs)-1].(*ssa.If)
			if !ok {
				continue
			}
			ex, ok := iff.Cond.(*ssa.Extract)
			neg := false
			if !ok {
				if u, isNot := iff.Cond.(*ssa.UnOp); isNot && u.Op == token.NOT {
					ex, ok = u.X.(*ssa.Extract)
					neg = true
				}
			}
			if !ok || ex.Tuple != ssa.Value(c) || ex.Index != 1 {
				continue
			}
			missing := b.Succs[1] // !ok
			if neg {
				missing = b.Succs[0]
			}
			stores := false
			for _, i2 := range missing.Instrs {
				if mu, ok := i2.(*ssa.MapUpdate); ok && mu.Key == lk.Index && a.key(mu.Map) == mkey {
					stores = true
				}
			}
			if !stores || len(missing.Succs) != 1 {
				continue
			}
			join := missing.Succs[0]
			if join == lk.Block() || join.Dominates(lk.Block()) {
				return true
			}
		}
	}
	return false
}

// ensuredRowPhi: row, ok := m[k]; if !ok { row = make([]T, L); … }  – the merge of the looked-up row (arriving on
// the ok edge, where the key is present) and a fresh row of the length every row of that map field has.
func (a *NilAnalysis) ensuredRowPhi(ph *ssa.Phi) (int64, bool) {
	if len(ph.Edges) != 2 {
		return 0, false
	}
	for k := 0; k < 2; k++ {
		ex, ok := ph.Edges[k].(*ssa.Extract)
		if !ok || ex.Index != 0 {
			continue
		}
		lk, ok := ex.Tuple.(*ssa.Lookup)
		if !ok || !lk.CommaOk {
			continue
		}
		L, ok := a.mapFieldRowLen(lk.X)
		if !ok {
			return 0, false
		}
		if c, ok := freshSliceLen(ph.Edges[1-k]); !ok || c != L {
			return 0, false
		}
		// the looked-up value arrives on the ok edge: its predecessor is the block testing ok, with the merge as the
		// true successor (or the false one under a negation)
		pred := ph.Block().Preds[k]
		iff, ok := pred.Instrs[len(pred.Instrs)-1].(*ssa.If)
		if !ok {
			return 0, false
		}
		cond, neg := iff.Cond, false
		if u, isNot := cond.(*ssa.UnOp); isNot && u.Op == token.NOT {
			cond, neg = u.X, true
		}
		okx, isEx := cond.(*ssa.Extract)
		if !isEx || okx.Tuple != ssa.Value(lk) || okx.Index != 1 {
			return 0, false
		}
		want := 0
		if neg {
			want = 1
		}
		if pred.Succs[want] != ph.Block() {
			return 0, false
		}
		return L, true
	}
	return 0, false
}

// freshSliceLen: v is make([]T, L) with a constant L (go/ssa: a MakeSlice, or new [L]T sliced whole).
func freshSliceLen(v ssa.Value) (int64, bool) {
	switch x := v.(type) {
	case *ssa.MakeSlice:
		return constInt(x.Len)
	case *ssa.Slice:
		if x.Low != nil {
			return 0, false
		}
		if al, ok := x.X.(*ssa.Alloc); ok && al.Heap {
			if at, ok := al.Type().Underlying().(*types.Pointer).Elem().Underlying().(*types.Array); ok {
				if x.High == nil {
					return at.Len(), true
				}
				if h, ok := constInt(x.High); ok && h >= 0 && h <= at.Len() {
					return h, true
				}
			}
		}
	}
	return 0, false
}
