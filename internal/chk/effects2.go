package chk

import (
	"go/token"
	"go/types"

	"golang.org/x/tools/go/ssa"
)

// analyze re-runs the intraprocedural propagation for fn; reports whether anything changed.
func (e *Effects) analyze(fn *ssa.Function) bool {
	s := e.st[fn]
	sum := e.Sum[fn]
	any := false
	for round := 0; round < 200; round++ {
		s.changed = false
		for k, par := range fn.Params {
			if !isRefType(par.Type()) {
				continue
			}
			switch par.Type().Underlying().(type) {
			case *types.Struct, *types.Array:
				s.addRoot(par, paramRoot(k)+"@")
			default:
				s.addRoot(par, paramRoot(k))
			}
		}
		for k, fv := range fn.FreeVars {
			s.addRoot(fv, "FV"+itoa(k))
		}
		for _, b := range fn.Blocks {
			for _, ins := range b.Instrs {
				e.step(fn, s, sum, ins)
			}
		}
		if !s.changed {
			break
		}
		any = true
	}
	return any
}

func itoa(k int) string { return paramRoot(k)[1:] }

func (e *Effects) operandFacts(s *fnState, v ssa.Value) {
	if g, ok := v.(*ssa.Global); ok {
		s.addRoot(g, "G:"+globalName(g))
	}
}

func globalName(g *ssa.Global) string {
	if g.Pkg != nil {
		return g.Pkg.Pkg.Path() + "." + g.Name()
	}
	return g.Name()
}

func fieldName(structPtrOrVal types.Type, i int) string {
	t := structPtrOrVal.Underlying()
	if pt, ok := t.(*types.Pointer); ok {
		t = pt.Elem().Underlying()
	}
	return t.(*types.Struct).Field(i).Name()
}

func (e *Effects) step(fn *ssa.Function, s *fnState, sum *Summary, ins ssa.Instruction) {
	for _, op := range ins.Operands(nil) {
		if *op != nil {
			e.operandFacts(s, *op)
		}
	}
	where := FnName(fn)
	switch x := ins.(type) {
	case *ssa.Alloc:
		s.addCell(x, x)
	case *ssa.MakeSlice:
		s.addCell(x, x)
	case *ssa.MakeMap:
		s.addCell(x, x)
	case *ssa.MakeChan:
		s.addCell(x, x)
	case *ssa.MakeClosure:
		s.addCell(x, x)
		cl := x.Fn.(*ssa.Function)
		for _, b := range x.Bindings {
			s.storeCells(x, s.roots[b], s.cells[b], b.Type())
		}
		if csum := e.Sum[cl]; csum != nil {
			for _, ef := range sortedEffects(csum.Effects) {
				ri := parseRoot(ef.Root)
				via := FnName(cl)
				if ef.Via != "" {
					via += ">" + ef.Via
				}
				switch {
				case len(ri.base) > 2 && ri.base[:2] == "FV":
					k := atoi(ri.base[2:])
					if k >= 0 && k < len(x.Bindings) {
						r, cs := s.substF(ri, x.Bindings[k], ef.CT, e)
						e.emit(fn, s, r, ef.Loc, ef.CT, ef.Pos, ef.Fn, via, nil)
						s.taint(cs, subst0(ef.Val))
					}
				case ri.base[0] == 'W':
					k := atoi(ri.base[1:])
					if k >= 0 && k < len(x.Bindings) {
						A, C := s.cellValue(x.Bindings[k])
						r, cs := s.substFS(ri, A, C, ef.CT, e)
						e.emit(fn, s, r, ef.Loc, ef.CT, ef.Pos, ef.Fn, via, nil)
						s.taint(cs, subst0(ef.Val))
					}
				case ri.base[0] == 'P':
					if e.resolvedCallback(x) {
						// the closure is only handed to library helpers that do nothing with it but call it: its
						// effects on what it is called with are accounted inside those helpers (where the call graph
						// resolves the call and the arguments are known), not as "some callback parameter"
						continue
					}
					e.emit(fn, s, strset{"CBP" + ri.base[1:]: true}, ef.Loc, ef.CT, ef.Pos, ef.Fn, via, nil)
				default:
					e.emit(fn, s, strset{ef.Root: true}, ef.Loc, ef.CT, ef.Pos, ef.Fn, via, nil)
				}
			}
			sum.GlobalsRead.addAll(csum.GlobalsRead)
		}
	case *ssa.MakeInterface:
		s.inherit(x, x.X)
	case *ssa.ChangeType:
		s.inherit(x, x.X)
	case *ssa.ChangeInterface:
		s.inherit(x, x.X)
	case *ssa.SliceToArrayPointer:
		s.inherit(x, x.X)
	case *ssa.Convert:
		if isRefType(x.Type()) {
			if isRefType(x.X.Type()) {
				s.inherit(x, x.X)
			} else {
				s.addCell(x, x) // []byte(string), []rune(string)
			}
		}
	case *ssa.FieldAddr:
		f := fieldName(x.X.Type(), x.Field)
		for r := range s.roots[x.X] {
			s.addRoot(x, withField(r, f))
		}
		for c := range s.cells[x.X] {
			if sc := c.sub(f); !s.C(x)[sc] {
				s.C(x)[sc] = true
				s.changed = true
			}
		}
	case *ssa.IndexAddr:
		s.addRoots(x, s.roots[x.X])
		for c := range s.cells[x.X] {
			if sc := c.sub("[]"); !s.C(x)[sc] {
				s.C(x)[sc] = true
				s.changed = true
			}
		}
	case *ssa.Field:
		if isRefType(x.Type()) {
			f := fieldName(x.X.Type(), x.Field)
			for r := range s.roots[x.X] {
				s.addRoot(x, withField(r, f))
			}
			s.addCells(x, s.cells[x.X])
		}
	case *ssa.Index:
		if isRefType(x.Type()) {
			s.inherit(x, x.X)
		}
	case *ssa.Slice:
		if isRefType(x.X.Type()) {
			s.inherit(x, x.X)
		}
	case *ssa.Lookup:
		if _, ok := x.X.Type().Underlying().(*types.Map); ok {
			s.load(x, x.X)
		}
	case *ssa.Range:
		s.inherit(x, x.X)
	case *ssa.Next:
		if r, ok := x.Iter.(*ssa.Range); ok {
			if _, isMap := r.X.Type().Underlying().(*types.Map); isMap {
				s.load(x, r.X)
			}
		}
	case *ssa.Extract:
		if isRefType(x.Type()) {
			s.inherit(x, x.Tuple)
		}
	case *ssa.TypeAssert:
		if isRefType(x.Type()) {
			s.inherit(x, x.X)
		}
	case *ssa.Phi:
		for _, ed := range x.Edges {
			e.operandFacts(s, ed)
			s.inherit(x, ed)
		}
	case *ssa.Select:
		for _, st := range x.States {
			if st.Dir == types.RecvOnly {
				s.load(x, st.Chan)
			}
		}
	case *ssa.UnOp:
		switch x.Op {
		case token.MUL:
			if g, ok := x.X.(*ssa.Global); ok {
				sum.GlobalsRead.add(globalName(g))
			}
			s.load(x, x.X)
		case token.ARROW:
			s.load(x, x.X)
		}
	case *ssa.Store:
		if isRefType(x.Val.Type()) {
			s.storeCells(x.Addr, s.roots[x.Val], s.cells[x.Val], x.Val.Type())
		}
		if len(s.roots[x.Addr]) > 0 {
			var vr strset
			if isRefType(x.Val.Type()) {
				vr = s.roots[x.Val]
			}
			e.vtypes[typeStr(x.Val.Type())] = x.Val.Type()
			for _, lc := range locsOf(x.Addr, 0) {
				loc, ct := lc[0], lc[1]
				if isRefType(x.Val.Type()) {
					s.storeRegion(s.roots[x.Addr], loc, s.roots[x.Val], s.cells[x.Val])
				}
				e.emit(fn, s, s.roots[x.Addr], loc, ct, x.Pos(), where, "", vr, typeStr(x.Val.Type()))
			}
		}
	case *ssa.MapUpdate:
		all := strset{}
		all.addAll(s.roots[x.Key])
		all.addAll(s.roots[x.Value])
		s.storeCells(x.Map, s.roots[x.Key], s.cells[x.Key], x.Key.Type())
		s.storeCells(x.Map, s.roots[x.Value], s.cells[x.Value], x.Value.Type())
		if len(s.roots[x.Map]) > 0 {
			s.storeRegion(s.roots[x.Map], "map("+ownerOf(x.Map)+")", all, nil)
			e.emit(fn, s, s.roots[x.Map], "map("+ownerOf(x.Map)+")", typeStr(x.Map.Type()), x.Pos(), where, "", all)
		}
	case *ssa.Send:
		s.storeCells(x.Chan, s.roots[x.X], s.cells[x.X], x.X.Type())
		if len(s.roots[x.Chan]) > 0 {
			e.emit(fn, s, s.roots[x.Chan], "chansend("+typeStr(x.Chan.Type())+")", typeStr(x.Chan.Type()), x.Pos(), where, "", nil)
		}
	case *ssa.Return:
		for _, r := range x.Results {
			e.operandFacts(s, r)
			if !isRefType(r.Type()) {
				continue
			}
			if sum.RetDirect.addAll(s.roots[r]) {
				s.changed = true
			}
			if len(s.cells[r]) > 0 {
				if !sum.RetFresh {
					sum.RetFresh = true
					s.changed = true
				}
				rr, _ := s.reachCells(s.cells[r])
				if sum.RetContent.addAll(rr) {
					s.changed = true
				}
				if sum.RetCells.addAll(s.cells[r]) {
					s.changed = true
				}
			}
		}
	case *ssa.Call:
		e.call(fn, s, sum, x, x)
	case *ssa.Go:
		e.call(fn, s, sum, x, nil)
	case *ssa.Defer:
		e.call(fn, s, sum, x, nil)
	}
}

func atoi(s string) int {
	if s == "" {
		return -1
	}
	n := 0
	for _, c := range s {
		if c < '0' || c > '9' {
			return -1
		}
		n = n*10 + int(c-'0')
	}
	return n
}

// subst0 keeps only caller-independent roots (globals, unknown).
func subst0(v strset) strset {
	out := strset{}
	for r := range v {
		if r[0] == 'G' || r[0] == 'U' {
			out.add(r)
		}
	}
	return out
}

// resolvedCallback: every use of the closure value is as an argument of a static call to an analysed function
// whose corresponding parameter is only ever called (or compared with nil), or as the callee of a direct call.
func (e *Effects) resolvedCallback(x *ssa.MakeClosure) bool {
	used := false
	for _, r := range *x.Referrers() {
		switch y := r.(type) {
		case *ssa.DebugRef:
		case *ssa.Call:
			if y.Call.Value == ssa.Value(x) {
				used = true
				continue
			}
			h := y.Call.StaticCallee()
			if h == nil || e.Sum[h] == nil || len(h.Blocks) == 0 {
				return false
			}
			for k, a := range y.Call.Args {
				if a != ssa.Value(x) {
					continue
				}
				if k >= len(h.Params) || !paramOnlyCalled(h.Params[k]) {
					return false
				}
				used = true
			}
		default:
			return false
		}
	}
	return used
}

func paramOnlyCalled(par *ssa.Parameter) bool {
	refs := par.Referrers()
	if refs == nil {
		return false
	}
	for _, r := range *refs {
		switch y := r.(type) {
		case *ssa.DebugRef:
		case *ssa.Call:
			if y.Call.Value != ssa.Value(par) {
				return false
			}
			for _, a := range y.Call.Args {
				if a == ssa.Value(par) {
					return false
				}
			}
		case *ssa.BinOp:
			other := y.Y
			if y.Y == ssa.Value(par) {
				other = y.X
			}
			if c, ok := other.(*ssa.Const); !ok || c.Value != nil {
				return false
			}
		default:
			return false
		}
	}
	return true
}
