package chk

import (
	"fmt"
	"go/token"
	"sort"
	"strings"

	"golang.org/x/tools/go/ssa"
)

// ---- E11 cli-guards (added after seeded change C07/2) ---------------------------------------------------
// The command line must not refuse parameter values the library operation accepts. For every flag
// that is passed to an operation, the set of orderings against zero ({<, =, >}) under which main
// ends in log.Fatal* is extracted – from tests in main itself and from helper functions that receive
// the flag value as an argument – and compared with what the operation's contract allows to reject:
//
//	sync (Subtitles.Add)                 only 0   (a negative shift is the documented `-s "-2s"`)
//	fragment (Subtitles.Fragment)        ≤ 0
//	apply-linear-correction              ≤ 0 for each of the four instants
var cliMayReject = map[string]string{
	"syncDuration":     "=",
	"fragmentDuration": "<=",
	"actual1":          "<=", "actual2": "<=", "desired1": "<=", "desired2": "<=",
}

func isFatalCall(c *ssa.Call) bool {
	n := calleeName(&c.Call)
	return strings.HasPrefix(n, "log.Fatal") || strings.HasPrefix(n, "(*log.Logger).Fatal") || n == "os.Exit"
}

// fatalRegion: blocks from which every path hits a Fatal call before returning … approximated as the
// blocks dominated by the branch target that contain a Fatal call themselves or lead only to one.
func leadsToFatal(b *ssa.BasicBlock, seen map[*ssa.BasicBlock]bool) bool {
	if seen[b] {
		return false
	}
	seen[b] = true
	for _, ins := range b.Instrs {
		if c, ok := ins.(*ssa.Call); ok && isFatalCall(c) {
			return true
		}
	}
	// straight-line continuation only
	if len(b.Succs) == 1 {
		return leadsToFatal(b.Succs[0], seen)
	}
	return false
}

// rejectedRelations: orderings of match-ing values against 0 under which fn ends in a fatal call.
func rejectedRelations(fn *ssa.Function, match func(v ssa.Value) bool) map[byte]bool {
	out := map[byte]bool{}
	for _, b := range fn.Blocks {
		iff, ok := b.Instrs[len(b.Instrs)-1].(*ssa.If)
		if !ok {
			continue
		}
		bo, ok := iff.Cond.(*ssa.BinOp)
		if !ok {
			continue
		}
		var swapped bool
		switch {
		case match(bo.X) && isZeroConst(bo.Y):
		case match(bo.Y) && isZeroConst(bo.X):
			swapped = true
		default:
			continue
		}
		for i, taken := range []bool{true, false} {
			if leadsToFatal(b.Succs[i], map[*ssa.BasicBlock]bool{}) {
				for r := range relSet(bo.Op, swapped, taken) {
					out[r] = true
				}
			}
		}
	}
	return out
}

func isZeroConst(v ssa.Value) bool {
	c, ok := constInt(v)
	return ok && c == 0
}

func ruleCLIGuards(p *Prog, l *Ledger, tier string) {
	const rule = "E11.cli-guards"
	fn := anchor(p, l, rule, "main.main")
	if fn == nil {
		return
	}
	var flags []string
	for f := range cliMayReject {
		flags = append(flags, f)
	}
	sort.Strings(flags)
	n := 0
	for _, f := range flags {
		f := f
		isFlag := func(v ssa.Value) bool { return flagVarOf(v) == f }
		rej := rejectedRelations(fn, isFlag)
		where := ""
		// helpers that receive the flag value
		for _, b := range fn.Blocks {
			for _, ins := range b.Instrs {
				c, ok := ins.(*ssa.Call)
				if !ok {
					continue
				}
				sc := c.Call.StaticCallee()
				if sc == nil || fnPkg(sc) != p.CLISSA || len(sc.Blocks) == 0 {
					continue
				}
				for k, a := range c.Call.Args {
					if k >= len(sc.Params) {
						continue
					}
					prm := sc.Params[k]
					match := func(v ssa.Value) bool { return v == ssa.Value(prm) }
					if !isFlag(a) {
						// the flag handed over by address (the *time.Duration flag.Duration returned): the helper tests *p
						u, ok := a.(*ssa.UnOp)
						g, isG := ssa.Value(nil), false
						if ok {
							g, isG = u.X.(*ssa.Global)
						}
						if !ok || !isG || g.(*ssa.Global).Name() != f {
							continue
						}
						match = func(v ssa.Value) bool {
							d, ok := v.(*ssa.UnOp)
							return ok && d.Op == token.MUL && d.X == ssa.Value(prm)
						}
					}
					for r := range rejectedRelations(sc, match) {
						if !rej[r] {
							where = FnName(sc) + " (called at " + p.Pos(c.Pos()) + ")"
						}
						rej[r] = true
					}
				}
			}
		}
		n++
		key := rule + "|" + f
		allowed := cliMayReject[f]
		var extra []string
		for _, r := range []byte{'<', '=', '>'} {
			if rej[r] && !strings.ContainsRune(allowed, rune(r)) {
				extra = append(extra, map[byte]string{'<': "negative", '=': "zero", '>': "positive"}[r])
			}
		}
		if len(extra) == 0 {
			l.Prove(rule, "main.main", key, "", fmt.Sprintf("-%s: the command line refuses only values with ordering {%s} against 0, within what the operation may refuse {%s}", f, relString(rej), allowed))
		} else {
			if where != "" {
				where = " through " + where
			}
			l.Fail(rule, "main.main", key, "", fmt.Sprintf("the command line exits with a fatal error%s when flag %s is %s, a value the library operation accepts (it may only refuse {%s})", where, f, strings.Join(extra, " or "), allowed))
		}
	}
	l.Min(rule, n, len(cliMayReject))
}

func relString(m map[byte]bool) string {
	s := ""
	for _, r := range []byte{'<', '=', '>'} {
		if m[r] {
			s += string(r)
		}
	}
	return s
}
