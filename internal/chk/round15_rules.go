package chk

import (
	"fmt"
	"go/token"
	"strings"

	"golang.org/x/tools/go/ssa"
)

// Rules added after the fifteenth round of seeded changes.

// derivedFromDuration: v is computed from a time.Duration (through conversions, arithmetic, calls).
func derivedFromDuration(v ssa.Value, seen map[ssa.Value]bool) bool {
	if v == nil || seen[v] {
		return false
	}
	seen[v] = true
	if isDurationT(v.Type()) {
		return true
	}
	switch x := v.(type) {
	case *ssa.Convert:
		return derivedFromDuration(x.X, seen)
	case *ssa.ChangeType:
		return derivedFromDuration(x.X, seen)
	case *ssa.BinOp:
		return derivedFromDuration(x.X, seen) || derivedFromDuration(x.Y, seen)
	case *ssa.UnOp:
		if x.Op == token.SUB {
			return derivedFromDuration(x.X, seen)
		}
	case *ssa.Phi:
		for _, e := range x.Edges {
			if derivedFromDuration(e, seen) {
				return true
			}
		}
	case *ssa.Call:
		for _, a := range x.Call.Args {
			if derivedFromDuration(a, seen) {
				return true
			}
		}
	}
	return false
}

// fromDuration: the float v is computed from a time.Duration by float arithmetic and has not been through math.Floor
// or math.Trunc since: it may hold a fraction.  A float that is an integer converted (float64(n / unit)) holds none.
func fromDuration(v ssa.Value, seen map[ssa.Value]bool) bool {
	if v == nil || seen[v] {
		return false
	}
	seen[v] = true
	switch x := v.(type) {
	case *ssa.Convert:
		if !isFloatT(x.X.Type()) {
			return false // an integer converted: no fraction
		}
		return fromDuration(x.X, seen)
	case *ssa.ChangeType:
		return fromDuration(x.X, seen)
	case *ssa.BinOp:
		return derivedFromDuration(x.X, map[ssa.Value]bool{}) || derivedFromDuration(x.Y, map[ssa.Value]bool{})
	case *ssa.UnOp:
		if x.Op == token.SUB {
			return fromDuration(x.X, seen)
		}
		return false
	case *ssa.Phi:
		for _, e := range x.Edges {
			if fromDuration(e, seen) {
				return true
			}
		}
		return false
	case *ssa.Call:
		switch calleeName(&x.Call) {
		case "math.Floor", "math.Trunc":
			return false
		}
		for _, a := range x.Call.Args {
			if derivedFromDuration(a, map[ssa.Value]bool{}) {
				return true
			}
		}
	}
	return false
}

// ---- E3c-R6 a timestamp writer does not hand an unfloored float to a formatter (C16, C07/r15) -----------------------
// strconv.FormatFloat and the %f, %e and %g verbs of fmt round to the nearest representable digit string.  A
// fraction computed from a time.Duration and formatted that way turns 999.6 ms into "1000" (or into "60.000" for the
// seconds of a minute): the writers truncate to their resolution, so such a float has to be floored first.
func ruleNoRoundingFormat(scope func(*Prog, *Ledger, string) []*ssa.Function) func(p *Prog, l *Ledger, tier string) {
	return func(p *Prog, l *Ledger, tier string) {
		const rule = "E3c.R6-no-rounding-format"
		fns := map[*ssa.Function]bool{}
		for _, f := range scope(p, l, rule) {
			fns[f] = true
		}
		var roots []*ssa.Function
		for _, f := range p.LibFns {
			if strings.HasPrefix(FnName(f), "formatDuration") {
				roots = append(roots, f)
			}
		}
		for _, f := range p.Closure(roots) {
			fns[f] = true
		}
		n, sites, bad := 0, 0, 0
		for _, fn := range p.LibFns {
			if !fns[fn] {
				continue
			}
			n++
			for _, b := range fn.Blocks {
				for _, ins := range b.Instrs {
					c, ok := ins.(*ssa.Call)
					if !ok {
						continue
					}
					name := calleeName(&c.Call)
					var floats []ssa.Value
					switch {
					case name == "strconv.FormatFloat" || name == "strconv.AppendFloat":
						for _, a := range c.Call.Args {
							if isFloatT(a.Type()) {
								floats = append(floats, a)
							}
						}
					case strings.HasPrefix(name, "fmt.") && (strings.Contains(name, "rintf") || strings.HasSuffix(name, "Errorf")):
						// the values boxed into the variadic slice
						if len(c.Call.Args) == 0 {
							continue
						}
						sl, ok := c.Call.Args[len(c.Call.Args)-1].(*ssa.Slice)
						if !ok {
							continue
						}
						al, ok := sl.X.(*ssa.Alloc)
						if !ok {
							continue
						}
						for _, r := range *al.Referrers() {
							ia, ok := r.(*ssa.IndexAddr)
							if !ok {
								continue
							}
							for _, r2 := range *ia.Referrers() {
								if st, ok := r2.(*ssa.Store); ok {
									if mi, ok := st.Val.(*ssa.MakeInterface); ok && isFloatT(mi.X.Type()) {
										floats = append(floats, mi.X)
									}
								}
							}
						}
					}
					for _, f := range floats {
						sites++
						key := l.Key(rule, FnName(fn), name, descOf(f))
						if fromDuration(f, map[ssa.Value]bool{}) {
							bad++
							l.Fail(rule, FnName(fn), key, p.Pos(c.Pos()), fmt.Sprintf("%s formats with %s a float computed from a time.Duration that has not been through math.Floor or math.Trunc: the formatter rounds to the nearest digit string, so a fraction just below the next unit is written as a full unit (999.6 ms as 1000, 59.9996 s as 60.000) instead of being truncated", FnName(fn), name))
						} else {
							l.Prove(rule, FnName(fn), key, p.Pos(c.Pos()), "the formatted float is floored (or not computed from a Duration)")
						}
					}
				}
			}
		}
		if sites == 0 {
			l.Prove(rule, "", rule+"|none", "", fmt.Sprintf("no float is formatted in the %d writer functions", n))
		}
		l.Min(rule, n, 5)
	}
}

// ---- E14-M10 the reference times of the linear correction enter it at full resolution (C15/r15) -----------------------
// slope = (d2-d1)/(a2-a1) and intercept = d1 - slope*a1 are computed from the four time.Duration parameters.  A
// truncating accessor (Milliseconds, Microseconds, Truncate, Round) or an integer division on the way drops the part
// of a reference time below that unit, and every corrected time is off by up to the slope times that part.
func ruleLinearParamsExact(p *Prog, l *Ledger, tier string) {
	const rule = "E14.M10-linear-params-exact"
	const name = "Subtitles.ApplyLinearCorrection"
	fn := anchor(p, l, rule, name)
	if fn == nil {
		return
	}
	// tainted parameters: the four reference times of fn, and the parameters of library helpers that receive
	// something computed from them
	taint := map[*ssa.Parameter]bool{}
	for _, par := range fn.Params {
		if isDurationT(par.Type()) {
			taint[par] = true
		}
	}
	var fromParam func(v ssa.Value, seen map[ssa.Value]bool) bool
	fromParam = func(v ssa.Value, seen map[ssa.Value]bool) bool {
		if v == nil || seen[v] {
			return false
		}
		seen[v] = true
		switch x := v.(type) {
		case *ssa.Parameter:
			return taint[x]
		case *ssa.Convert:
			return fromParam(x.X, seen)
		case *ssa.ChangeType:
			return fromParam(x.X, seen)
		case *ssa.BinOp:
			return fromParam(x.X, seen) || fromParam(x.Y, seen)
		case *ssa.UnOp:
			if x.Op == token.SUB {
				return fromParam(x.X, seen)
			}
		case *ssa.Phi:
			for _, e := range x.Edges {
				if fromParam(e, seen) {
					return true
				}
			}
		case *ssa.Extract:
			return fromParam(x.Tuple, seen)
		case *ssa.Call:
			// the result of a library helper fed with a reference time
			if sc := x.Call.StaticCallee(); sc != nil && fnPkg(sc) == p.LibSSA {
				for _, a := range x.Call.Args {
					if fromParam(a, seen) {
						return true
					}
				}
			}
		}
		return false
	}
	nParams := len(taint)
	if nParams < 4 {
		l.Undecide(rule, name, rule+"|params", p.Pos(fn.Pos()), fmt.Sprintf("%s has %d time.Duration parameters, four expected: the reference times cannot be followed", name, nParams))
		return
	}
	// propagate into helpers (a few levels)
	scope := []*ssa.Function{fn}
	inScope := map[*ssa.Function]bool{fn: true}
	for round := 0; round < 4; round++ {
		grew := false
		for _, f := range scope {
			for _, b := range f.Blocks {
				for _, ins := range b.Instrs {
					ci, ok := ins.(ssa.CallInstruction)
					if !ok {
						continue
					}
					sc := ci.Common().StaticCallee()
					if sc == nil || fnPkg(sc) != p.LibSSA || len(sc.Blocks) == 0 {
						continue
					}
					for k, a := range ci.Common().Args {
						if k < len(sc.Params) && !taint[sc.Params[k]] && fromParam(a, map[ssa.Value]bool{}) {
							taint[sc.Params[k]] = true
							grew = true
							if !inScope[sc] {
								inScope[sc] = true
								scope = append(scope, sc)
							}
						}
					}
				}
			}
		}
		if !grew {
			break
		}
	}
	bad := 0
	for _, f := range scope {
		for _, b := range f.Blocks {
			for _, ins := range b.Instrs {
				switch x := ins.(type) {
				case *ssa.Call:
					switch cn := calleeName(&x.Call); cn {
					case "(time.Duration).Milliseconds", "(time.Duration).Microseconds", "(time.Duration).Truncate", "(time.Duration).Round":
						if len(x.Call.Args) > 0 && fromParam(x.Call.Args[0], map[ssa.Value]bool{}) {
							bad++
							l.Fail(rule, name, l.Key(rule, FnName(f), cn, descOf(x.Call.Args[0])), p.Pos(x.Pos()), fmt.Sprintf("%s takes %s of a reference time: the part of it below that unit is dropped before the slope and the intercept are computed, and every corrected time is off by as much (times the slope)", FnName(f), cn))
						}
					}
				case *ssa.BinOp:
					if (x.Op == token.QUO || x.Op == token.REM) && isIntegerT(x.Type()) && fromParam(x.X, map[ssa.Value]bool{}) {
						bad++
						l.Fail(rule, name, l.Key(rule, FnName(f), "intdiv", descOf(x.X)), p.Pos(x.Pos()), fmt.Sprintf("%s divides something computed from a reference time of %s as an integer: the remainder is dropped (or the operands are about to be multiplied as integers, with no room for the product) before the slope and the intercept are applied", FnName(f), name))
					}
				}
			}
		}
	}
	if bad == 0 {
		l.Prove(rule, name, rule, p.Pos(fn.Pos()), fmt.Sprintf("the four reference times reach the slope and the intercept through subtraction and conversion to float only (%d function(s) followed)", len(scope)))
	}
}

// ---- E6-S2 a binary search runs over a slice that has been sorted since it last grew (C13/r15) ------------------------
// sort.SearchStrings, sort.SearchInts, sort.Search over a slice and slices.BinarySearch answer for a sorted slice
// only.  The value searched must be the very value a sort call has sorted on every path to the search: a slice
// that has been appended to since (a new value) is not known to be sorted.
func ruleSearchOverSorted(p *Prog, l *Ledger, tier string) {
	const rule = "E6.S2-search-over-sorted"
	isSearch := func(cn string) bool {
		switch cn {
		case "sort.SearchStrings", "sort.SearchInts", "sort.SearchFloat64s", "slices.BinarySearch", "slices.BinarySearchFunc":
			return true
		}
		return false
	}
	isSort := func(cn string) bool {
		switch cn {
		case "sort.Strings", "sort.Ints", "sort.Float64s", "sort.Slice", "sort.SliceStable", "slices.Sort", "slices.SortFunc", "slices.SortStableFunc":
			return true
		}
		return false
	}
	// sortedAt: v is the argument of a sort call that dominates at, or the result of slices.Sorted
	// sortsArg: the call sorts v, itself (arg 0 of a sort function) or through a function of the library that
	// sorts the parameter v is passed for before every return
	var sortsArg func(c *ssa.Call, v ssa.Value, depth int) bool
	sortsArg = func(c *ssa.Call, v ssa.Value, depth int) bool {
		if isSort(calleeName(&c.Call)) {
			return len(c.Call.Args) > 0 && c.Call.Args[0] == v
		}
		h := c.Call.StaticCallee()
		if h == nil || fnPkg(h) != p.LibSSA || len(h.Blocks) == 0 || depth > 2 {
			return false
		}
		for k, a := range c.Call.Args {
			if a != v || k >= len(h.Params) {
				continue
			}
			for _, hb := range h.Blocks {
				for _, ins := range hb.Instrs {
					hc, ok := ins.(*ssa.Call)
					if !ok {
						continue
					}
					for _, alias := range aliasesOf(h.Params[k]) {
						if sortsArg(hc, alias, depth+1) && dominatesReturns(hc) {
							return true
						}
					}
				}
			}
		}
		return false
	}
	// sortedAt: v is the argument of a sort call that dominates at, or the result of slices.Sorted
	sortedAt := func(v ssa.Value, at ssa.Instruction) bool {
		if c, ok := v.(*ssa.Call); ok && calleeName(&c.Call) == "slices.Sorted" {
			return true
		}
		for _, alias := range aliasesOf(v) {
			refs := alias.Referrers()
			if refs == nil {
				continue
			}
			for _, r := range *refs {
				if c, ok := r.(*ssa.Call); ok && sortsArg(c, alias, 0) && instrDominates(c, at) {
					return true
				}
			}
		}
		return false
	}
	all := map[*ssa.Function]bool{}
	for _, f := range p.LibFns {
		all[f] = true
	}
	n := 0
	var check func(fn *ssa.Function, v ssa.Value, at ssa.Instruction, depth int) (bool, string)
	check = func(fn *ssa.Function, v ssa.Value, at ssa.Instruction, depth int) (bool, string) {
		for {
			ct, ok := v.(*ssa.ChangeType)
			if !ok {
				break
			}
			v = ct.X
		}
		if sortedAt(v, at) {
			return true, ""
		}
		if par, ok := v.(*ssa.Parameter); ok && depth < 3 {
			idx := -1
			for k, q := range fn.Params {
				if q == par {
					idx = k
				}
			}
			sites := 0
			for caller := range all {
				for _, b := range caller.Blocks {
					for _, ins := range b.Instrs {
						ci, ok := ins.(ssa.CallInstruction)
						if !ok || ci.Common().StaticCallee() != fn || idx >= len(ci.Common().Args) {
							continue
						}
						sites++
						if ok, why := check(caller, ci.Common().Args[idx], ins, depth+1); !ok {
							return false, why
						}
					}
				}
			}
			if sites == 0 {
				return false, FnName(fn) + " searches its parameter and no call of it was found"
			}
			return true, ""
		}
		return false, fmt.Sprintf("%s searches %s at %s, a value no dominating sort call has sorted (the slice has been assigned or appended to since it was last sorted, or never was)", FnName(fn), descOf(v), p.Pos(at.Pos()))
	}
	for _, fn := range p.LibFns {
		for _, b := range fn.Blocks {
			for _, ins := range b.Instrs {
				c, ok := ins.(*ssa.Call)
				if !ok || !isSearch(calleeName(&c.Call)) || len(c.Call.Args) == 0 {
					continue
				}
				n++
				key := l.Key(rule, FnName(fn), calleeName(&c.Call), descOf(c.Call.Args[0]))
				if ok, why := check(fn, c.Call.Args[0], c, 0); ok {
					l.Prove(rule, FnName(fn), key, p.Pos(c.Pos()), "the slice searched is the value a dominating sort call sorted")
				} else {
					l.Fail(rule, FnName(fn), key, p.Pos(c.Pos()), "binary search over a slice not known to be sorted: "+why+"; the search may miss an element that is there, and what depends on the answer (a style or region still in use) is dropped")
				}
			}
		}
	}
	if n == 0 {
		l.Prove(rule, "", rule+"|none", "", "no binary search in the library")
	}
}

// ---- E10-A17 the two components of tts:origin and tts:extent reach the WebVTT settings without a blank (C07/r15) ----------
// The WebVTT cue settings line is a blank-separated list of name:value tokens.  propagateTTMLAttributes derives
// line, position, size and width from the blank-separated components of tts:origin and tts:extent: what it stores
// has to be one component (an element of strings.Split(x, " ") or strings.Fields(x)) or a string with its blanks
// replaced; the rest after the first blank (strings.Cut, SplitN, an index expression) may begin with or hold a blank.
func ruleCueSettingsBlankFree(p *Prog, l *Ledger, tier string) {
	const rule = "E10.A17-cue-settings-blank-free"
	const name = "StyleAttributes.propagateTTMLAttributes"
	fn := anchor(p, l, rule, name)
	if fn == nil {
		return
	}
	isSrc := func(v ssa.Value) bool { // *sa.TTMLOrigin / *sa.TTMLExtent
		_, f, _ := loadedField(v)
		if f == "TTMLOrigin" || f == "TTMLExtent" {
			return true
		}
		if u, ok := v.(*ssa.UnOp); ok && u.Op == token.MUL {
			_, f, _ := loadedField(u.X)
			return f == "TTMLOrigin" || f == "TTMLExtent"
		}
		return false
	}
	var tainted func(v ssa.Value, seen map[ssa.Value]bool) bool
	tainted = func(v ssa.Value, seen map[ssa.Value]bool) bool {
		if v == nil || seen[v] {
			return false
		}
		seen[v] = true
		if isSrc(v) {
			return true
		}
		switch x := v.(type) {
		case *ssa.Call:
			for _, a := range x.Call.Args {
				if tainted(a, seen) {
					return true
				}
			}
		case *ssa.Extract:
			return tainted(x.Tuple, seen)
		case *ssa.UnOp:
			return tainted(x.X, seen)
		case *ssa.IndexAddr:
			return tainted(x.X, seen)
		case *ssa.Slice:
			return tainted(x.X, seen)
		case *ssa.BinOp:
			return tainted(x.X, seen) || tainted(x.Y, seen)
		case *ssa.Phi:
			for _, e := range x.Edges {
				if tainted(e, seen) {
					return true
				}
			}
		}
		return false
	}
	blank := func(s string) bool { return strings.ContainsAny(s, " \t") }
	var blankFree func(v ssa.Value, seen map[ssa.Value]bool) bool
	blankFree = func(v ssa.Value, seen map[ssa.Value]bool) bool {
		if seen[v] {
			return true
		}
		seen[v] = true
		switch x := v.(type) {
		case *ssa.Const:
			s, ok := constStr(x)
			return ok && !blank(s)
		case *ssa.Phi:
			for _, e := range x.Edges {
				if !blankFree(e, seen) {
					return false
				}
			}
			return true
		case *ssa.UnOp:
			if x.Op != token.MUL {
				return false
			}
			ia, ok := x.X.(*ssa.IndexAddr)
			if !ok {
				return false
			}
			c, ok := ia.X.(*ssa.Call)
			if !ok {
				return false
			}
			switch calleeName(&c.Call) {
			case "strings.Fields":
				return true
			case "strings.Split":
				s, ok := constStr(c.Call.Args[1])
				return ok && s == " "
			}
			return false
		case *ssa.Call:
			switch calleeName(&x.Call) {
			case "strings.ReplaceAll":
				o, ok1 := constStr(x.Call.Args[1])
				n, ok2 := constStr(x.Call.Args[2])
				return ok1 && ok2 && o == " " && !blank(n)
			case "strings.Replace":
				o, ok1 := constStr(x.Call.Args[1])
				n, ok2 := constStr(x.Call.Args[2])
				k, ok3 := constInt(x.Call.Args[3])
				return ok1 && ok2 && ok3 && o == " " && !blank(n) && k < 0
			case "strconv.Itoa", "strconv.FormatInt":
				return true
			case "strings.TrimSuffix", "strings.TrimPrefix", "strings.ToLower", "strings.ToUpper":
				return blankFree(x.Call.Args[0], seen)
			}
		case *ssa.BinOp:
			if x.Op == token.ADD {
				return blankFree(x.X, seen) && blankFree(x.Y, seen)
			}
		case *ssa.Extract:
			// what strings.Cut(x, " ") found before the first blank
			c, ok := x.Tuple.(*ssa.Call)
			if !ok {
				return false
			}
			if x.Index == 0 && calleeName(&c.Call) == "strings.Cut" {
				s, ok := constStr(c.Call.Args[1])
				return ok && s == " "
			}
			// result k of a helper of the library: blank-free at every return
			if h := c.Call.StaticCallee(); h != nil && fnPkg(h) == p.LibSSA && len(h.Blocks) > 0 {
				for _, hb := range h.Blocks {
					if r, ok := hb.Instrs[len(hb.Instrs)-1].(*ssa.Return); ok {
						if x.Index >= len(r.Results) || !blankFree(r.Results[x.Index], seen) {
							return false
						}
					}
				}
				return true
			}
		}
		return false
	}
	n, bad := 0, 0
	for _, b := range p.helperBlocks(fn) {
		for _, ins := range b.Instrs {
			st, ok := ins.(*ssa.Store)
			if !ok {
				continue
			}
			fa, ok := st.Addr.(*ssa.FieldAddr)
			if !ok {
				continue
			}
			f := fieldName(fa.X.Type(), fa.Field)
			if !strings.HasPrefix(f, "WebVTT") || !isStringT(st.Val.Type()) {
				continue
			}
			if !tainted(st.Val, map[ssa.Value]bool{}) {
				continue
			}
			n++
			key := l.Key(rule, name, f, descOf(st.Val))
			if blankFree(st.Val, map[ssa.Value]bool{}) {
				l.Prove(rule, name, key, p.Pos(st.Pos()), f+" receives one blank-separated component (or a string with its blanks replaced)")
			} else {
				bad++
				l.Fail(rule, name, key, p.Pos(st.Pos()), fmt.Sprintf("%s stores into %s a piece of tts:origin or tts:extent that is not one blank-separated component (not an element of strings.Split(x, \" \") or strings.Fields(x), nor a string with its blanks replaced): with two blanks between the components, a leading blank or a third component the value holds a blank, and the WebVTT settings line, which is split at blanks, gets a token that is not name:value", name, f))
			}
		}
	}
	l.Min(rule, n, 4)
}

// aliasesOf: v and the values that are v under another type (ChangeType, boxing into an interface), transitively.
func aliasesOf(v ssa.Value) []ssa.Value {
	out := []ssa.Value{v}
	for i := 0; i < len(out); i++ {
		refs := out[i].Referrers()
		if refs == nil {
			continue
		}
		for _, r := range *refs {
			switch x := r.(type) {
			case *ssa.ChangeType:
				out = append(out, x)
			case *ssa.MakeInterface:
				out = append(out, x)
			}
		}
	}
	return out
}

// dominatesReturns: the instruction is executed on every path to a return of its function.
func dominatesReturns(ins ssa.Instruction) bool {
	fn := ins.Parent()
	n := 0
	for _, b := range fn.Blocks {
		if r, ok := b.Instrs[len(b.Instrs)-1].(*ssa.Return); ok {
			n++
			if !instrDominates(ins, r) {
				return false
			}
		}
	}
	return n > 0
}
