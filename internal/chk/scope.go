package chk

import (
	"go/token"
	"sort"
	"strings"

	"golang.org/x/tools/go/ssa"
)

// isNowCall reports whether the call goes through the package-level variable Now (the
// documented injectable clock).
func isNowCall(c *ssa.CallCommon) bool {
	if c.IsInvoke() {
		return false
	}
	u, ok := c.Value.(*ssa.UnOp)
	if !ok || u.Op != token.MUL {
		return false
	}
	g, ok := u.X.(*ssa.Global)
	return ok && g.Name() == "Now" && g.Pkg != nil && g.Pkg.Pkg.Path() == LibPath
}

// Closure returns the in-scope functions reachable from the entries through the call graph
// (VTA), including closures created by reached functions. Calls through Now are not followed.
func (p *Prog) Closure(entries []*ssa.Function) []*ssa.Function {
	return p.closureExcluding(entries, nil)
}

// closureExcluding: Closure without following the excluded functions.
func (p *Prog) closureExcluding(entries []*ssa.Function, exclude map[*ssa.Function]bool) []*ssa.Function {
	seen := map[*ssa.Function]bool{}
	var work []*ssa.Function
	push := func(f *ssa.Function) {
		if f != nil && p.inScope(f) && !seen[f] && !exclude[f] {
			seen[f] = true
			work = append(work, f)
		}
	}
	for _, e := range entries {
		push(e)
	}
	for len(work) > 0 {
		fn := work[len(work)-1]
		work = work[:len(work)-1]
		for _, b := range fn.Blocks {
			for _, ins := range b.Instrs {
				switch x := ins.(type) {
				case *ssa.MakeClosure:
					push(x.Fn.(*ssa.Function))
				case ssa.CallInstruction:
					if isNowCall(x.Common()) {
						continue
					}
					in, _ := p.Callees(fn, x)
					for _, c := range in {
						push(c)
					}
				}
				// function values passed around (method values, func literals without captures)
				for _, op := range ins.Operands(nil) {
					if f, ok := (*op).(*ssa.Function); ok {
						if _, isCall := ins.(ssa.CallInstruction); isCall && ins.(ssa.CallInstruction).Common().Value == f {
							continue
						}
						push(f)
					}
				}
			}
		}
	}
	// xml/fmt reflection entry points of types handled by reached code
	out := make([]*ssa.Function, 0, len(seen))
	for f := range seen {
		out = append(out, f)
	}
	sort.Slice(out, func(i, j int) bool { return out[i].String() < out[j].String() })
	return out
}

// reflectionMethods: in-package methods invoked by encoding/xml / fmt through reflection, which
// no call graph sees. They are added to the closure of every reader / writer entry.
var reflectionMethods = []string{"TTMLInItems.UnmarshalXML", "TTMLInDuration.UnmarshalText", "TTMLOutDuration.MarshalText", "ttmlXmlTokenReader.Token"}

func (p *Prog) fnsByName(l *Ledger, rule string, names []string) []*ssa.Function {
	var out []*ssa.Function
	for _, n := range names {
		if f := anchor(p, l, rule, n); f != nil {
			out = append(out, f)
		}
	}
	return out
}

// WriterClosure / ReaderClosure: scope sets of DESIGN.md §2.2.
func (p *Prog) WriterClosure(l *Ledger, rule string) []*ssa.Function {
	names := append(append([]string{}, writerFns...), helperFns...)
	names = append(names, "TTMLOutDuration.MarshalText")
	return p.Closure(p.fnsByName(l, rule, names))
}

func (p *Prog) ReaderClosure(l *Ledger, rule string) []*ssa.Function {
	names := append([]string{}, readerFns...)
	names = append(names, "TTMLInItems.UnmarshalXML", "TTMLInDuration.UnmarshalText", "ttmlXmlTokenReader.Token")
	return p.Closure(p.fnsByName(l, rule, names))
}

// natural loop helpers -------------------------------------------------------------------

// loopOf returns the blocks of the natural loop with header h (nil if h has no back edge).
func loopOf(h *ssa.BasicBlock) map[*ssa.BasicBlock]bool {
	var tails []*ssa.BasicBlock
	for _, p := range h.Preds {
		if h.Dominates(p) {
			tails = append(tails, p)
		}
	}
	if len(tails) == 0 {
		return nil
	}
	loop := map[*ssa.BasicBlock]bool{h: true}
	work := tails
	for len(work) > 0 {
		b := work[len(work)-1]
		work = work[:len(work)-1]
		if loop[b] {
			continue
		}
		loop[b] = true
		work = append(work, b.Preds...)
	}
	return loop
}

// Helpers: fn together with the library functions and closures it (transitively) calls: the scope a
// rule about "what fn does" has to look at, so that extracting part of fn into a helper does not
// hide it.
func (p *Prog) Helpers(fn *ssa.Function) []*ssa.Function {
	// A function literal written in a function fn does not reach can only arrive through a function-valued
	// parameter that another caller fills (the call graph is not context-sensitive): it is that caller's code, not
	// something fn does.  Literals of package-level tables (written in init) stay.
	exclude := map[*ssa.Function]bool{}
	var set []*ssa.Function
	for round := 0; round < 4; round++ {
		set = p.closureExcluding([]*ssa.Function{fn}, exclude)
		in := map[*ssa.Function]bool{}
		for _, f := range set {
			in[f] = true
		}
		grew := false
		for _, f := range set {
			if f.Parent() == nil {
				continue
			}
			top := f
			for top.Parent() != nil {
				top = top.Parent()
			}
			if !in[top] && top.Name() != "init" && !strings.HasPrefix(top.Name(), "init#") {
				exclude[f] = true
				grew = true
			}
		}
		if !grew {
			break
		}
	}
	var out []*ssa.Function
	for _, f := range set {
		if fnPkg(f) == p.LibSSA || fnPkg(f) == p.CLISSA {
			out = append(out, f)
		}
	}
	return out
}

// helperBlocks: all blocks of Helpers(fn).
func (p *Prog) helperBlocks(fn *ssa.Function) []*ssa.BasicBlock {
	var out []*ssa.BasicBlock
	for _, f := range p.Helpers(fn) {
		out = append(out, f.Blocks...)
	}
	return out
}

// rootValue: v as seen from root: a parameter of a helper in Helpers(root) is replaced by the
// argument its call sites pass (when they all pass the same value), transitively.  Values that
// are not helper parameters are returned unchanged.
func (p *Prog) rootValue(root *ssa.Function, v ssa.Value) ssa.Value {
	for depth := 0; depth < 6; depth++ {
		par, ok := v.(*ssa.Parameter)
		if !ok || par.Parent() == root {
			return v
		}
		f := par.Parent()
		idx := -1
		for i, q := range f.Params {
			if q == par {
				idx = i
			}
		}
		if idx < 0 {
			return v
		}
		var arg ssa.Value
		n := 0
		for _, b := range p.helperBlocks(root) {
			for _, ins := range b.Instrs {
				c, ok := ins.(ssa.CallInstruction)
				if !ok || c.Common().StaticCallee() != f {
					continue
				}
				args := c.Common().Args
				if idx >= len(args) {
					return v
				}
				n++
				if arg == nil {
					arg = args[idx]
				} else if arg != args[idx] {
					return v
				}
			}
		}
		if n == 0 || arg == nil {
			return v
		}
		v = arg
	}
	return v
}
