package chk

import (
	"fmt"
	"go/token"
	"golang.org/x/text/unicode/norm"
	"sort"
	"strings"

	"golang.org/x/tools/go/ssa"
)

// ---- E9-T2: STL character tables ----------------------------------------------------------------

type charRow struct {
	code int64
	text string
	pos  token.Pos
}

func charRows(ch []biPair) ([]charRow, bool) {
	var out []charRow
	for _, pr := range ch {
		k, ok1 := constInt(pr.k)
		v, ok2 := evalStr(pr.v)
		if !ok1 || !ok2 {
			return nil, false
		}
		out = append(out, charRow{k, v, pr.pos})
	}
	return out, true
}

func ruleSTLCharTables(p *Prog, l *Ledger, tier string) {
	const rule = "E9.T2-stl-char-tables"
	bm := p.BiMaps()
	var writer []charRow
	for _, name := range []string{"stlUnicodeMapping", "stlUnicodeDiacritic"} {
		rows, ok := charRows(bm.byGlobal[name])
		if !ok || len(rows) == 0 {
			l.Undecide(rule, "", rule+"|"+name, "", "writer table "+name+" could not be evaluated from its initialiser")
			return
		}
		writer = append(writer, rows...)
	}
	chains := bm.byGlobalMap["stlCharacterCodeTables"]
	if len(chains) != 1 {
		l.Undecide(rule, "", rule+"|reader", "", fmt.Sprintf("expected exactly one reader code table in stlCharacterCodeTables, found %d", len(chains)))
		return
	}
	readerRows, ok := charRows(chains[0])
	if !ok {
		l.Undecide(rule, "", rule+"|reader", "", "reader table holds non-constant entries")
		return
	}
	reader := map[int64]string{}
	// (iii) both directions of every table are functions
	// the reader table is only used forwards (Get), the writer tables only backwards (GetInverse)
	dupCheck := func(name string, rows []charRow, inverseUsed bool) {
		ks, vs := map[int64]bool{}, map[string]bool{}
		for _, r := range rows {
			key := fmt.Sprintf("%s|dup|%#x|%q", rule, r.code, r.text)
			if ks[r.code] {
				l.Fail(rule, "", key, p.Pos(r.pos), fmt.Sprintf("%s sets code %#x twice: the later row silently replaces the earlier one", name, r.code))
			}
			if vs[r.text] {
				if inverseUsed {
					l.Fail(rule, "", key, p.Pos(r.pos), fmt.Sprintf("%s maps two codes to %q: the inverse lookup the writer performs keeps only the last one", name, r.text))
				} else {
					l.Add(Ob{Rule: rule, Key: key, Pos: p.Pos(r.pos), Status: Info, Why: fmt.Sprintf("%s decodes two codes to %q (harmless: the table is only used forwards)", name, r.text)})
				}
			}
			ks[r.code], vs[r.text] = true, true
		}
	}
	dupCheck("the reader table", readerRows, false)
	dupCheck("the writer tables", writer, true)
	for _, r := range readerRows {
		reader[r.code] = r.text
	}
	writerVals := map[string]int64{}
	for _, r := range writer {
		writerVals[r.text] = r.code
	}
	n := 0
	// (i) every character the writer encodes specially is decoded back to itself
	for _, r := range writer {
		if r.code < 0xa0 {
			continue // control codes (line break) are not characters
		}
		n++
		key := fmt.Sprintf("%s|writer-row|%#x", rule, r.code)
		got, ok := reader[r.code]
		switch {
		case !ok:
			l.Fail(rule, "", key, p.Pos(r.pos), fmt.Sprintf("the writer encodes %q (U+%04X) as %#x but the reader table has no entry for %#x: the character is lost on re-reading", r.text, []rune(r.text)[0], r.code, r.code))
		case got != r.text:
			l.Fail(rule, "", key, p.Pos(r.pos), fmt.Sprintf("the writer encodes %q (U+%04X) as %#x but the reader decodes %#x as %q (U+%04X)", r.text, []rune(r.text)[0], r.code, r.code, got, []rune(got)[0]))
		default:
			l.Prove(rule, "", key, p.Pos(r.pos), fmt.Sprintf("%#x ↔ %q on both sides", r.code, r.text))
		}
	}
	// (ii) printable ASCII the writer passes through unchanged must be decoded as itself
	for k := int64(0x20); k <= 0x7e; k++ {
		ch := string(rune(k))
		if _, special := writerVals[ch]; special {
			continue
		}
		n++
		key := fmt.Sprintf("%s|ascii|%#x", rule, k)
		if got, ok := reader[k]; ok && got == ch {
			l.Prove(rule, "", key, "", fmt.Sprintf("%q passes through as %#x and is read back as itself", ch, k))
		} else {
			l.Fail(rule, "", key, "", fmt.Sprintf("the writer emits %q as its own code %#x (no table entry), but the reader decodes %#x as %q: the character does not survive a write/read cycle", ch, k, k, got))
		}
	}
	// (iv) the writer normalises the text before looking characters up (encodeTextSTL): a table
	// row whose character is not a fixed point of that normal form can never match, and the
	// character is written as whatever its decomposition maps to. The form is read from the call in
	// /repo and applied with the same x/text version /repo builds with.
	if enc := anchor(p, l, rule, "encodeTextSTL"); enc != nil {
		form, pos, found := int64(-1), "", false
		for _, b := range enc.Blocks {
			for _, ins := range b.Instrs {
				c, ok := ins.(*ssa.Call)
				if !ok {
					continue
				}
				sc := c.Call.StaticCallee()
				if sc == nil || sc.Pkg == nil || sc.Pkg.Pkg.Path() != "golang.org/x/text/unicode/norm" || len(c.Call.Args) == 0 {
					continue
				}
				if f, ok := constInt(c.Call.Args[0]); ok && typeStr(c.Call.Args[0].Type()) == "Form" {
					form, pos, found = f, p.Pos(c.Pos()), true
				}
			}
		}
		key := rule + "|normal-form"
		if !found {
			l.Add(Ob{Rule: rule, Key: key, Status: Info, Why: "encodeTextSTL applies no unicode normal form with a constant receiver: every table row can match as it is"})
		} else {
			names := map[int64]string{0: "NFC", 1: "NFD", 2: "NFKC", 3: "NFKD"}
			var lost []string
			for _, r := range writer {
				if got := norm.Form(form).String(r.text); got != r.text {
					lost = append(lost, fmt.Sprintf("%q (U+%04X, code %#x) becomes %q", r.text, []rune(r.text)[0], r.code, got))
				}
			}
			if len(lost) == 0 {
				l.Prove(rule, "encodeTextSTL", key, pos, fmt.Sprintf("all %d characters of the writer tables are fixed points of %s, the normal form applied before the lookup", len(writer), names[form]))
			} else {
				l.Fail(rule, "encodeTextSTL", key, pos, fmt.Sprintf("encodeTextSTL normalises the text to %s before looking characters up, but %d characters of the writer tables are not fixed points of that form, so their rows can never match and they are written as something else: %s", names[form], len(lost), strings.Join(lost, "; ")))
			}
		}
	}
	l.Min(rule, n, 140)
}

// ---- E9-T4: code maps -----------------------------------------------------------------------------

func ruleSTLCodeMaps(p *Prog, l *Ledger, tier string) {
	const rule = "E9.T4-stl-code-maps"
	parse := anchor(p, l, rule, "parseSTLJustificationCode")
	from := anchor(p, l, rule, "stlJustificationCodeFromStyle")
	if parse == nil || from == nil {
		return
	}
	globalOf := func(v ssa.Value) string {
		if u, ok := v.(*ssa.UnOp); ok {
			if g, ok := u.X.(*ssa.Global); ok {
				return g.Name()
			}
		}
		return ""
	}
	// parse: code → Justification global
	pmap := map[int64]string{}
	for c, tgt := range switchConstArms(parse, func(v ssa.Value) bool { return v == ssa.Value(parse.Params[0]) }) {
		for _, ins := range tgt.Instrs {
			if r, ok := ins.(*ssa.Return); ok {
				var code int64
				fmt.Sscan(c, &code)
				pmap[code] = globalOf(r.Results[0])
			}
		}
	}
	// from: Justification global → code
	fmap := map[string]int64{}
	for _, b := range from.Blocks {
		iff, ok := b.Instrs[len(b.Instrs)-1].(*ssa.If)
		if !ok {
			continue
		}
		bo, ok := iff.Cond.(*ssa.BinOp)
		if !ok || bo.Op != token.EQL {
			continue
		}
		g := globalOf(bo.Y)
		if g == "" {
			g = globalOf(bo.X)
		}
		if g == "" {
			continue
		}
		for _, ins := range b.Succs[0].Instrs {
			if r, ok := ins.(*ssa.Return); ok {
				if c, ok := constInt(r.Results[0]); ok {
					fmap[g] = c
				}
			}
		}
	}
	var codes []int64
	for c := range pmap {
		codes = append(codes, c)
	}
	sort.Slice(codes, func(i, j int) bool { return codes[i] < codes[j] })
	for _, c := range codes {
		key := fmt.Sprintf("%s|justification|%d", rule, c)
		j := pmap[c]
		if back, ok := fmap[j]; ok && back == c {
			l.Prove(rule, "", key, "", fmt.Sprintf("code %d → %s → code %d", c, j, back))
		} else if !ok {
			l.Fail(rule, "", key, p.Pos(from.Pos()), fmt.Sprintf("the reader maps justification code %d to %s, which the writer does not encode", c, j))
		} else {
			l.Fail(rule, "", key, p.Pos(from.Pos()), fmt.Sprintf("justification code %d is read as %s but %s is written as code %d", c, j, j, back))
		}
	}
	l.Min(rule+".justification", len(codes), 4)
	// frame-rate table: 8-byte keys (the width of the disk format code field), non-zero values
	bm := p.BiMaps()
	fr := bm.byGlobal["stlFramerateMapping"]
	for _, pr := range fr {
		k, ok1 := constStr(pr.k)
		v, ok2 := constInt(pr.v)
		key := fmt.Sprintf("%s|framerate|%s", rule, k)
		switch {
		case !ok1 || !ok2:
			l.Fail(rule, "", key, p.Pos(pr.pos), "frame-rate table row is not a (string, int) constant pair")
		case len(k) != 8:
			l.Fail(rule, "", key, p.Pos(pr.pos), fmt.Sprintf("disk format code %q is %d bytes long; the GSI field is 8 bytes wide, so the row can never match", k, len(k)))
		case v <= 0:
			l.Fail(rule, "", key, p.Pos(pr.pos), fmt.Sprintf("frame rate %d for %q is not positive (it is used as a divisor)", v, k))
		default:
			l.Prove(rule, "", key, p.Pos(pr.pos), fmt.Sprintf("%q ↦ %d", k, v))
		}
	}
	l.Min(rule+".framerate", len(fr), 2)
	// language tables of STL and TTML cover the same languages
	langs := func(name string) (strset, bool) {
		out := strset{}
		for _, pr := range bm.byGlobal[name] {
			v, ok := constStr(pr.v)
			if !ok {
				return nil, false
			}
			out.add(v)
		}
		return out, len(out) > 0
	}
	sl, ok1 := langs("stlLanguageMapping")
	tl, ok2 := langs("ttmlLanguageMapping")
	if !ok1 || !ok2 {
		l.Undecide(rule, "", rule+"|languages", "", "language tables could not be evaluated")
	} else if strings.Join(sl.sorted(), ",") == strings.Join(tl.sorted(), ",") {
		l.Prove(rule, "", rule+"|languages", "", "STL and TTML language tables cover {"+strings.Join(sl.sorted(), ", ")+"}")
	} else {
		l.Fail(rule, "", rule+"|languages", "", "STL languages {"+strings.Join(sl.sorted(), ",")+"} differ from TTML languages {"+strings.Join(tl.sorted(), ",")+"}: a language survives one format but not the other")
	}
}

// ---- E10-A5: Metadata wiring ------------------------------------------------------------------------

func ruleSTLMetadataWiring(p *Prog, l *Ledger, tier string) {
	const rule = "E10.A5-stl-metadata-wiring"
	rd := anchor(p, l, rule, "ReadFromSTL")
	wr := anchor(p, l, rule, "newGSIBlock")
	if rd == nil || wr == nil {
		return
	}
	// reader: gsiBlock.x → Metadata.F ; writer: gsiBlock.x ← Metadata.F  (both keyed by the GSI field)
	rByX := map[string]string{}
	for f, vals := range fieldStores(rd.Blocks, "Metadata") {
		for _, v := range vals {
			s := strset{}
			traceField(v, "gsiBlock", map[ssa.Value]bool{}, s)
			if len(s) == 0 {
				if fa, ok := v.(*ssa.FieldAddr); ok { // &g.creationDate
					if t, fn := fieldOfAddr(fa); t == "gsiBlock" {
						s.add(fn)
					}
				}
			}
			if x, ok := oneOf(s); ok {
				rByX[x] = f
			}
		}
	}
	wByX := map[string]strset{}
	for x, vals := range fieldStores(wr.Blocks, "gsiBlock") {
		for _, v := range vals {
			s := strset{}
			traceField(v, "Metadata", map[ssa.Value]bool{}, s)
			if f, ok := oneOf(s); ok {
				if wByX[x] == nil {
					wByX[x] = strset{}
				}
				wByX[x].add(f)
			}
		}
	}
	n := 0
	var xs []string
	for x := range wByX {
		xs = append(xs, x)
	}
	sort.Strings(xs)
	for _, x := range xs {
		rf, ok := rByX[x]
		if !ok {
			continue
		}
		n++
		key := rule + "|" + x
		if wf, one := oneOf(wByX[x]); one && wf == rf {
			l.Prove(rule, "", key, "", fmt.Sprintf("gsiBlock.%s ↔ Metadata.%s in both directions", x, rf))
		} else {
			l.Fail(rule, "", key, "", fmt.Sprintf("gsiBlock.%s is read into Metadata.%s but written from Metadata.%v", x, rf, wByX[x].sorted()))
		}
	}
	l.Min(rule, n, 15)
}
