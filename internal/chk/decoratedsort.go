package chk

import (
	"go/token"
	"go/types"

	"golang.org/x/tools/go/ssa"
)

// ---- E14-M3 (decorated form): sort a fresh slice of {item, start} pairs, then put the items back -----------------
// Order may read the start times once into a slice of pairs, sort that slice, and write the items back:
//
//	keyed := make([]pair, len(s.Items))
//	for k, it := range s.Items { keyed[k] = pair{it, it.StartAt} }
//	sort.SliceStable(keyed, func(i, j int) bool { return keyed[i].start < keyed[j].start })
//	for k := range keyed { s.Items[k] = keyed[k].item }
//
// That is the stable order on StartAt exactly when
//
//	(1) the sorted slice is fresh and has the length of the list;
//	(2) before the sort every pair k is assigned (Items[k], Items[k].StartAt): same index, same element, in a loop
//	    bounded by a length, and nothing else is stored into the pairs;
//	(3) the comparator is pairs[i].start < pairs[j].start;
//	(4) after the sort, on every path to a return, Items[k] is assigned pairs[k].item in a loop bounded by a length,
//	    and that is the only store into the elements of the list.
//
// Returns handled=false when the sorted value is not such a slice; writeBack is the store of (4).
func decoratedStableSort(p *Prog, fn *ssa.Function, c *ssa.Call, isList func(ssa.Value) bool) (handled bool, ok bool, why string, writeBack *ssa.Store) {
	sorted := throughLocalCell(stripIface(c.Call.Args[0]))
	mk, isMk := sorted.(*ssa.MakeSlice)
	if !isMk {
		return false, false, "", nil
	}
	st, isStruct := mk.Type().Underlying().(*types.Slice).Elem().Underlying().(*types.Struct)
	if !isStruct || st.NumFields() != 2 {
		return false, false, "", nil
	}
	itemF, keyF := -1, -1
	for i := 0; i < 2; i++ {
		if isPtrToNamed(st.Field(i).Type(), "Item") {
			itemF = i
		} else if isIntegerT(st.Field(i).Type()) {
			keyF = i
		}
	}
	if itemF < 0 || keyF < 0 {
		return false, false, "", nil
	}
	// (1)
	if lc, isC := mk.Len.(*ssa.Call); !isC || len(lc.Call.Args) != 1 || !isList(throughLocalCell(lc.Call.Args[0])) {
		return true, false, "the slice of pairs does not have the length of the list", nil
	}
	isPairs := func(v ssa.Value) bool { return throughLocalCell(v) == ssa.Value(mk) }
	// the loop runs its index over 0 … len-1 of the list (or of the pairs, which have the same length)
	fullLength := func(cond ssa.Value) bool {
		bo, isBO := cond.(*ssa.BinOp)
		if !isBO {
			return false
		}
		var bound ssa.Value
		switch bo.Op {
		case token.LSS:
			bound = bo.Y
		case token.GTR:
			bound = bo.X
		default:
			return false
		}
		lc, isC := bound.(*ssa.Call)
		if !isC {
			return false
		}
		if bi, isB := lc.Call.Value.(*ssa.Builtin); !isB || bi.Name() != "len" {
			return false
		}
		return isList(throughLocalCell(lc.Call.Args[0])) || isPairs(lc.Call.Args[0])
	}
	inBoundedLoop := func(b *ssa.BasicBlock, idx ssa.Value, before bool) bool {
		for _, li := range loopsOf(fn) {
			if !li.blocks[b] || li.blocks[c.Block()] {
				continue
			}
			iff, isIf := li.header.Instrs[len(li.header.Instrs)-1].(*ssa.If)
			if !isIf || !fullLength(iff.Cond) || inductionDirection(idx, li.header) != 1 {
				continue
			}
			for _, lt := range li.latch {
				if !b.Dominates(lt) {
					return false
				}
			}
			if before {
				return li.header.Dominates(c.Block())
			}
			return c.Block().Dominates(li.header)
		}
		return false
	}
	// the element of the list at index idx
	listElem := func(v ssa.Value, idx ssa.Value) bool {
		u, isU := v.(*ssa.UnOp)
		if !isU || u.Op != token.MUL {
			return false
		}
		ia, isIA := u.X.(*ssa.IndexAddr)
		return isIA && ia.Index == idx && isList(throughLocalCell(ia.X))
	}
	// (2) stores into the pairs
	posMode := false
	filled := 0
	for _, b := range fn.Blocks {
		for _, ins := range b.Instrs {
			s, isSt := ins.(*ssa.Store)
			if !isSt {
				continue
			}
			var ia *ssa.IndexAddr
			field := -1
			switch ad := s.Addr.(type) {
			case *ssa.IndexAddr:
				ia = ad
			case *ssa.FieldAddr:
				if x, isIA := ad.X.(*ssa.IndexAddr); isIA {
					ia, field = x, ad.Field
				}
			}
			if ia == nil || !isPairs(ia.X) {
				continue
			}
			var itemV, keyV ssa.Value
			if field < 0 {
				// a whole pair: a literal built in a local and copied
				ld, isLd := s.Val.(*ssa.UnOp)
				if !isLd || ld.Op != token.MUL {
					return true, false, "a pair is assigned something that is not a literal", nil
				}
				lit, isAl := ld.X.(*ssa.Alloc)
				if !isAl {
					return true, false, "a pair is assigned something that is not a literal", nil
				}
				for _, r := range *lit.Referrers() {
					fa, isFA := r.(*ssa.FieldAddr)
					if !isFA {
						continue
					}
					for _, r2 := range *fa.Referrers() {
						if s2, ok2 := r2.(*ssa.Store); ok2 && s2.Addr == ssa.Value(fa) {
							if fa.Field == itemF {
								itemV = s2.Val
							} else {
								keyV = s2.Val
							}
						}
					}
				}
			} else if field == itemF {
				itemV = s.Val
				// the key is stored by a sibling store at the same index in the same block
				for _, i2 := range b.Instrs {
					if s2, ok2 := i2.(*ssa.Store); ok2 {
						if fa2, ok3 := s2.Addr.(*ssa.FieldAddr); ok3 && fa2.Field == keyF {
							if ia2, ok4 := fa2.X.(*ssa.IndexAddr); ok4 && ia2.Index == ia.Index && isPairs(ia2.X) {
								keyV = s2.Val
							}
						}
					}
				}
			} else {
				continue // judged with the item store of the same pair
			}
			if itemV == nil || keyV == nil {
				return true, false, "a pair is stored without both its cue and its start time", nil
			}
			if !listElem(itemV, ia.Index) {
				return true, false, "pair k does not hold Items[k] (another element, or another index)", nil
			}
			if stripConv(keyV) == stripConv(ia.Index) {
				posMode = true // the pair remembers where the cue was: ties are broken by position
			} else {
				_, f, base := loadedField(keyV)
				if f != "StartAt" || base != itemV {
					if !(f == "StartAt" && listElem(base, ia.Index)) {
						return true, false, "pair k does not hold the StartAt of Items[k]", nil
					}
				}
			}
			if !inBoundedLoop(b, ia.Index, true) {
				return true, false, "the pairs are not filled for every index before the sort", nil
			}
			filled++
		}
	}
	if filled != 1 {
		return true, false, "the pairs are not filled by exactly one store per index", nil
	}
	// (3) comparator
	mc, isMC := c.Call.Args[1].(*ssa.MakeClosure)
	if !isMC {
		return true, false, "comparator is not a function literal", nil
	}
	less := mc.Fn.(*ssa.Function)
	if posMode {
		if why := positionComparator(less, isPairs, itemF, keyF); why != "" {
			return true, false, why, nil
		}
	} else if c.Call.StaticCallee().Name() != "SliceStable" {
		return true, false, "pairs keyed by start time are sorted with " + c.Call.StaticCallee().String() + ", which is not a stable sort", nil
	}
	var ret *ssa.Return
	for _, b := range less.Blocks {
		if posMode {
			break
		}
		if r, isR := b.Instrs[len(b.Instrs)-1].(*ssa.Return); isR {
			if ret != nil {
				return true, false, "comparator has more than one return", nil
			}
			ret = r
		}
	}
	var bo *ssa.BinOp
	if !posMode {
		var isBO bool
		bo, isBO = ret.Results[0].(*ssa.BinOp)
		if !isBO {
			return true, false, "comparator does not return a comparison", nil
		}
	}
	side := func(v ssa.Value) int { // which parameter's pair the key is read from
		u, isU := v.(*ssa.UnOp)
		if !isU || u.Op != token.MUL {
			return -1
		}
		fa, isFA := u.X.(*ssa.FieldAddr)
		if !isFA || fa.Field != keyF {
			return -1
		}
		ia, isIA := fa.X.(*ssa.IndexAddr)
		if !isIA || !isPairs(ia.X) {
			return -1
		}
		for k, par := range less.Params {
			if ia.Index == ssa.Value(par) {
				return k
			}
		}
		return -1
	}
	px, py := 0, 1
	if !posMode {
		px, py = side(bo.X), side(bo.Y)
	}
	switch {
	case posMode:
	case px < 0 || py < 0:
		return true, false, "comparator does not compare the start times of pairs i and j", nil
	case bo.Op == token.LEQ || bo.Op == token.GEQ:
		return true, false, "comparator uses a non-strict comparison: equal starts are reordered", nil
	case !((bo.Op == token.LSS && px == 0 && py == 1) || (bo.Op == token.GTR && px == 1 && py == 0)):
		return true, false, "comparator is not the ascending strict order on the start times of (i, j)", nil
	}
	// (4) write back
	var back []*ssa.Store
	for _, b := range fn.Blocks {
		for _, ins := range b.Instrs {
			s, isSt := ins.(*ssa.Store)
			if !isSt {
				continue
			}
			ia, isIA := s.Addr.(*ssa.IndexAddr)
			if !isIA || !isList(throughLocalCell(ia.X)) {
				continue
			}
			var pairAddr ssa.Value
			if fv, isF := s.Val.(*ssa.Field); isF && fv.Field == itemF {
				// for k, p := range pairs { Items[k] = p.item }: the field of the pair loaded whole
				if ld, isLd := fv.X.(*ssa.UnOp); isLd && ld.Op == token.MUL {
					pairAddr = ld.X
				}
			} else if u, isU := s.Val.(*ssa.UnOp); isU && u.Op == token.MUL {
				if fa, isFA := u.X.(*ssa.FieldAddr); isFA && fa.Field == itemF {
					pairAddr = fa.X
					if cell, isAl := fa.X.(*ssa.Alloc); isAl {
						// the loop variable's cell holding a copy of pair k
						for _, r := range *cell.Referrers() {
							if st2, ok := r.(*ssa.Store); ok && st2.Addr == ssa.Value(cell) {
								if ld, ok := st2.Val.(*ssa.UnOp); ok && ld.Op == token.MUL {
									pairAddr = ld.X
								}
							}
						}
					}
				}
			}
			if pairAddr == nil {
				return true, false, "an element of the list is assigned something that is not the cue of a pair", nil
			}
			pia, isPIA := pairAddr.(*ssa.IndexAddr)
			if !isPIA || !isPairs(pia.X) || pia.Index != ia.Index {
				return true, false, "Items[k] is not assigned the cue of pair k (the indices differ)", nil
			}
			if !inBoundedLoop(b, ia.Index, false) {
				return true, false, "the cues are not put back for every index after the sort", nil
			}
			back = append(back, s)
		}
	}
	if len(back) != 1 {
		return true, false, "the sorted cues are not put back into the list by exactly one store per index", nil
	}
	// every return the sort can reach lies behind the write-back loop
	var hdr *ssa.BasicBlock
	for _, li := range loopsOf(fn) {
		if li.blocks[back[0].Block()] {
			hdr = li.header
		}
	}
	for _, b := range fn.Blocks {
		if _, isR := b.Instrs[len(b.Instrs)-1].(*ssa.Return); isR && c.Block().Dominates(b) && (hdr == nil || !hdr.Dominates(b)) {
			return true, false, "a return is reached after the sort without the cues having been put back", nil
		}
	}
	if posMode {
		return true, true, "a fresh slice of (Items[k], k) pairs is sorted by start time, then by position (a strict total order: one sorted arrangement, the stable one) and every Items[k] is then assigned the cue of pair k", back[0]
	}
	return true, true, "a fresh slice of (Items[k], Items[k].StartAt) pairs is sorted by sort.SliceStable with pairs[i].start < pairs[j].start and every Items[k] is then assigned the cue of pair k: stable, strict, on StartAt", back[0]
}

// positionComparator: less(i, j) is  if S(i) != S(j) { return S(i) < S(j) }; return pos(i) < pos(j)  where S(x) is
// pairs[x].item.StartAt and pos(x) the position field of pairs[x].  Returns "" when it is, the reason otherwise.
func positionComparator(less *ssa.Function, isPairs func(ssa.Value) bool, itemF, posF int) string {
	pairOf := func(v ssa.Value) (int, bool) { // &pairs[param k]
		ia, ok := v.(*ssa.IndexAddr)
		if !ok || !isPairs(ia.X) {
			return -1, false
		}
		for k, par := range less.Params {
			if ia.Index == ssa.Value(par) {
				return k, true
			}
		}
		return -1, false
	}
	startOf := func(v ssa.Value) int { // pairs[k].item.StartAt
		_, f, base := loadedField(v)
		if f != "StartAt" || base == nil {
			return -1
		}
		u, ok := base.(*ssa.UnOp)
		if !ok || u.Op != token.MUL {
			return -1
		}
		fa, ok := u.X.(*ssa.FieldAddr)
		if !ok || fa.Field != itemF {
			return -1
		}
		k, ok := pairOf(fa.X)
		if !ok {
			return -1
		}
		return k
	}
	posOf := func(v ssa.Value) int {
		u, ok := v.(*ssa.UnOp)
		if !ok || u.Op != token.MUL {
			return -1
		}
		fa, ok := u.X.(*ssa.FieldAddr)
		if !ok || fa.Field != posF {
			return -1
		}
		k, ok := pairOf(fa.X)
		if !ok {
			return -1
		}
		return k
	}
	nStart, nPos := 0, 0
	for _, b := range less.Blocks {
		r, ok := b.Instrs[len(b.Instrs)-1].(*ssa.Return)
		if !ok {
			continue
		}
		bo, ok := r.Results[0].(*ssa.BinOp)
		if !ok {
			return "comparator returns something that is not a comparison"
		}
		asc := func(x, y int) bool {
			return (bo.Op == token.LSS && x == 0 && y == 1) || (bo.Op == token.GTR && x == 1 && y == 0)
		}
		if x, y := startOf(bo.X), startOf(bo.Y); x >= 0 && y >= 0 {
			if !asc(x, y) {
				return "comparator does not order the start times of (i, j) ascending and strictly"
			}
			// reached only where the two starts differ
			differ := false
			for _, dc := range dominatingConds(b) {
				if c, ok := dc.cond.(*ssa.BinOp); ok && startOf(c.X) >= 0 && startOf(c.Y) >= 0 && startOf(c.X) != startOf(c.Y) {
					if (c.Op == token.NEQ && dc.taken) || (c.Op == token.EQL && !dc.taken) {
						differ = true
					}
				}
			}
			if !differ {
				return "the comparison of start times is not guarded by a test that they differ"
			}
			nStart++
			continue
		}
		if x, y := posOf(bo.X), posOf(bo.Y); x >= 0 && y >= 0 {
			if !asc(x, y) {
				return "ties are not broken by ascending position of (i, j)"
			}
			nPos++
			continue
		}
		return "comparator compares something else than start times and positions of pairs i and j"
	}
	if nStart != 1 || nPos != 1 {
		return "comparator is not: start times when they differ, positions otherwise"
	}
	return ""
}
