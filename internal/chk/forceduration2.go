package chk

import (
	"fmt"
	"go/token"
	"go/types"

	"golang.org/x/tools/go/ssa"
)

// ---- E14-M5 ForceDuration: cut index and filler decision (added after seeded changes C14/1, C14/2) -----
// (c) the cut `s.Items = s.Items[:k]` uses an index k found by a scan; when the guard of the cut is
//
//	a test on k itself, the value k has when nothing was found must not be a possible index:
//	every constant that can flow into k is negative (with 0 as "not found", a first cue that starts
//	at or after d is never removed).
//
// (d) the decision to append the filler must see the list as it is after the cut: the filler append
//
//	is reachable from the cut, and among the Duration() calls compared with d on the way to it at
//	least one is evaluated after the cut (not all cached from before the trimming).
func reachableFrom(b *ssa.BasicBlock) map[*ssa.BasicBlock]bool {
	seen := map[*ssa.BasicBlock]bool{}
	var walk func(x *ssa.BasicBlock)
	walk = func(x *ssa.BasicBlock) {
		for _, s := range x.Succs {
			if !seen[s] {
				seen[s] = true
				walk(s)
			}
		}
	}
	walk(b)
	return seen
}

func constEdges(v ssa.Value, seen map[ssa.Value]bool, out *[]int64) {
	if seen[v] {
		return
	}
	seen[v] = true
	if c, ok := constInt(v); ok {
		*out = append(*out, c)
		return
	}
	if ph, ok := v.(*ssa.Phi); ok {
		// a loop counter (phi(c, phi+1)) holds real indices, not a "not found" marker
		for _, e := range ph.Edges {
			if bo, ok := e.(*ssa.BinOp); ok && (bo.X == ssa.Value(ph) || bo.Y == ssa.Value(ph)) {
				return
			}
		}
		for _, e := range ph.Edges {
			constEdges(e, seen, out)
		}
	}
}

func mentionsValue(v, target ssa.Value, depth int) bool {
	if depth > 5 {
		return false
	}
	if v == target {
		return true
	}
	switch t := v.(type) {
	case *ssa.BinOp:
		return mentionsValue(t.X, target, depth+1) || mentionsValue(t.Y, target, depth+1)
	case *ssa.UnOp:
		return mentionsValue(t.X, target, depth+1)
	case *ssa.Convert:
		return mentionsValue(t.X, target, depth+1)
	}
	return false
}

func ruleForceDurationScan(p *Prog, l *Ledger, tier string) {
	const rule = "E14.M5-forceduration-cut"
	const name = "Subtitles.ForceDuration"
	fn := anchor(p, l, rule, name)
	if fn == nil {
		return
	}
	// the cut and the filler
	var cut, filler *ssa.Store
	cutIsFilter := false
	for _, b := range p.helperBlocks(fn) {
		for _, ins := range b.Instrs {
			st, ok := ins.(*ssa.Store)
			if !ok {
				continue
			}
			if _, f := fieldOfAddr(st.Addr); f != "Items" {
				continue
			}
			switch v := st.Val.(type) {
			case *ssa.Phi:
				// kept := s.Items[:0]; for … { kept = append(kept, cue) }; s.Items = kept
				if isFilterAccumulation(v) {
					cut, cutIsFilter = st, true
				}
			case *ssa.Slice:
				if v.High != nil {
					cut = st
				}
			case *ssa.Call:
				if bi, ok := v.Call.Value.(*ssa.Builtin); ok && bi.Name() == "append" {
					filler = st
				} else if sc := v.Call.StaticCallee(); sc != nil && fnPkg(sc) == p.LibSSA && returnsPrefixOfParam(sc) {
					// s.Items = cutItems(s.Items, d): the helper returns its list or a prefix of it
					cut = st
				}
			}
		}
	}
	if cut == nil || filler == nil {
		l.Undecide(rule, name, rule+"|shape", "", "the truncation s.Items = s.Items[:k] or the filler append was not found in ForceDuration")
		return
	}
	// where the cut and the filler happen as seen from ForceDuration (the call of the helper that holds them)
	cutSite, fillerSite := p.siteIn(fn, cut), p.siteIn(fn, filler)
	if cutSite == nil || fillerSite == nil {
		l.Undecide(rule, name, rule+"|shape", "", "the helper holding the cut or the filler is called from more than one place in ForceDuration")
		return
	}
	// (c)
	keyC := rule + "|sentinel"
	var k ssa.Value
	if sl, ok := cut.Val.(*ssa.Slice); ok {
		k = sl.High
	}
	guardOnK := false
	for _, dc := range dominatingConds(cut.Block()) {
		if k != nil && mentionsValue(dc.cond, k, 0) {
			guardOnK = true
		}
	}
	var consts []int64
	if k != nil {
		constEdges(k, map[ssa.Value]bool{}, &consts)
	}
	switch {
	case cutIsFilter:
		l.Prove(rule, name, keyC, p.Pos(cut.Pos()), "the list is rebuilt by re-appending the cues that are kept (a filter in place): there is no cut index and no not-found value")
	case !guardOnK && len(dominatingConds(cut.Block())) == 0 && len(consts) > 0:
		l.Fail(rule, name, keyC, p.Pos(cut.Pos()), fmt.Sprintf("%s: the cut is unconditional and its index holds the constant(s) %v when no cue starts at or after d: the list is truncated there although nothing has to be removed", name, consts))
	case !guardOnK:
		l.Prove(rule, name, keyC, p.Pos(cut.Pos()), "the cut is not guarded by a test on the index itself (a separate found flag or an unconditional cut)")
	default:
		bad := false
		for _, c := range consts {
			if c >= 0 {
				bad = true
			}
		}
		if bad {
			l.Fail(rule, name, keyC, p.Pos(cut.Pos()), fmt.Sprintf("%s: the cut index can hold the constant(s) %v when no cue starts at or after d, and the cut is guarded by a test on that index: a non-negative \"not found\" value coincides with a real index, so a list whose first cue already starts at or after d is left untouched", name, consts))
		} else {
			l.Prove(rule, name, keyC, p.Pos(cut.Pos()), fmt.Sprintf("the not-found value(s) %v of the cut index are negative: no real index is mistaken for them", consts))
		}
	}
	// (c2) a test of the index against a constant on the way to the cut must not turn away a real index:
	// every k >= 0 can be the position of the first cue starting at or after d (0 when all of them do)
	for _, dc := range dominatingConds(cut.Block()) {
		bo, ok := dc.cond.(*ssa.BinOp)
		if !ok {
			continue
		}
		op := bo.Op
		c, isC := constInt(bo.Y)
		if k == nil {
			continue
		}
		if !isC || bo.X != k {
			if c2, ok2 := constInt(bo.X); ok2 && bo.Y == k {
				c, op = c2, flipCompare(bo.Op)
			} else {
				continue
			}
		}
		if !dc.taken {
			op = negateCompare(op)
		}
		// the cut is reached only when k op c
		var turnedAway string
		switch op {
		case token.NEQ:
			if c >= 0 {
				turnedAway = fmt.Sprintf("%d", c)
			}
		case token.GTR:
			if c >= 0 {
				turnedAway = fmt.Sprintf("0..%d", c)
			}
		case token.GEQ:
			if c >= 1 {
				turnedAway = fmt.Sprintf("0..%d", c-1)
			}
		case token.EQL, token.LSS, token.LEQ:
			turnedAway = "every index above " + fmt.Sprint(c)
		}
		if turnedAway != "" {
			l.Fail(rule, name, rule+"|index-guard", p.Pos(cut.Pos()), fmt.Sprintf("%s: the cut s.Items = s.Items[:k] is only reached when k %s %d, which turns away the real index value(s) %s: when the first cue starting at or after d sits there (index 0: every cue starts at or after d) nothing is removed and the list still lasts longer than d", name, op, c, turnedAway))
		}
	}
	// (d)
	keyD := rule + "|filler-after-cut"
	after := reachableFrom(cutSite.Block())
	if !after[fillerSite.Block()] && !(cutSite.Block() == fillerSite.Block() && instrIndex(cutSite) < instrIndex(fillerSite)) {
		l.Fail(rule, name, keyD, p.Pos(filler.Pos()), name+": the filler append cannot be reached once cues have been cut: when d falls in a gap (or before every cue) the trimmed list ends before d and no filler is added although one was requested")
	} else {
		// Duration() calls compared with d that gate the filler
		stale, fresh := "", 0
		for _, dc := range dominatingConds(fillerSite.Block()) {
			bo, ok := dc.cond.(*ssa.BinOp)
			if !ok {
				continue
			}
			for _, side := range []ssa.Value{bo.X, bo.Y} {
				// a cached duration refreshed after the cut: a merge of Duration() calls, where every
				// operand arriving from a path through the cut is evaluated after it – by a call of Duration(), or
				// by hand: 0 for an empty list, else the end of the cue before the cut index
				if ph, isPhi := side.(*ssa.Phi); isPhi {
					allDur, okAll := true, true
					var judge func(ph *ssa.Phi, depth int)
					judge = func(ph *ssa.Phi, depth int) {
						for i, e := range ph.Edges {
							pred := ph.Block().Preds[i]
							throughCut := after[pred] || pred == cutSite.Block()
							if inner, isInner := e.(*ssa.Phi); isInner && depth < 4 {
								judge(inner, depth+1)
								continue
							}
							if z, isZ := constInt(e); isZ && z == 0 && throughCut {
								continue // the list is empty after the cut
							}
							if ld, isLd := e.(*ssa.UnOp); isLd && throughCut && k != nil {
								if _, f, base := loadedField(ld); f == "EndAt" && base != nil {
									if el, ok := base.(*ssa.UnOp); ok {
										if ia, ok := el.X.(*ssa.IndexAddr); ok {
											if sub, ok := ia.Index.(*ssa.BinOp); ok && sub.Op == token.SUB && sub.X == k {
												if one, ok := constInt(sub.Y); ok && one == 1 && (after[ld.Block()] || ld.Block() == cutSite.Block()) {
													continue // Items[k-1].EndAt read after the cut at k
												}
											}
										}
									}
								}
							}
							ec, isCall := e.(*ssa.Call)
							if !isCall || ec.Call.StaticCallee() == nil || FnName(ec.Call.StaticCallee()) != "Subtitles.Duration" {
								allDur = false
								return
							}
							evaluatedAfter := after[ec.Block()] || (ec.Block() == cutSite.Block() && instrIndex(cutSite) < instrIndex(ec))
							if throughCut && !evaluatedAfter {
								okAll = false
								stale = p.Pos(ec.Pos())
							}
						}
					}
					judge(ph, 0)
					if allDur && okAll {
						fresh++
					}
					continue
				}
				c, ok := side.(*ssa.Call)
				if !ok {
					continue
				}
				if sc := c.Call.StaticCallee(); sc == nil || FnName(sc) != "Subtitles.Duration" {
					continue
				}
				if !after[c.Block()] && !(c.Block() == cutSite.Block() && instrIndex(cutSite) < instrIndex(c)) {
					stale = p.Pos(c.Pos())
				} else {
					fresh++
				}
			}
		}
		if stale != "" && fresh == 0 {
			l.Fail(rule, name, keyD, p.Pos(filler.Pos()), fmt.Sprintf("%s: the filler is decided with a Duration() evaluated at %s, before the cut: after trimming the list may end before d, but the stale duration says otherwise and no filler is added", name, stale))
		} else {
			l.Prove(rule, name, keyD, p.Pos(filler.Pos()), "the filler append is reachable after the cut and its Duration() test is evaluated after the cut")
		}
	}
	l.Min(rule, 2, 2)
}

func instrIndex(ins ssa.Instruction) int {
	for k, x := range ins.Block().Instrs {
		if x == ins {
			return k
		}
	}
	return -1
}

// siteIn: the instruction of fn at which ins happens: ins itself when it belongs to fn, otherwise the
// single call in fn whose callee (transitively) contains it; nil when there are several.
func (p *Prog) siteIn(fn *ssa.Function, ins ssa.Instruction) ssa.Instruction {
	if ins.Parent() == fn {
		return ins
	}
	var site ssa.Instruction
	for _, b := range fn.Blocks {
		for _, x := range b.Instrs {
			var callee *ssa.Function
			switch c := x.(type) {
			case ssa.CallInstruction:
				callee = c.Common().StaticCallee()
				if callee == nil {
					if mc, ok := c.Common().Value.(*ssa.MakeClosure); ok {
						callee, _ = mc.Fn.(*ssa.Function)
					}
				}
			}
			if callee == nil {
				continue
			}
			for _, h := range p.Helpers(callee) {
				if h == ins.Parent() {
					if site != nil && site != x {
						return nil
					}
					site = x
				}
			}
		}
	}
	return site
}

// flipCompare: the comparison with its operands exchanged (c op k  ⇔  k flip(op) c).
func flipCompare(op token.Token) token.Token {
	return map[token.Token]token.Token{token.LSS: token.GTR, token.LEQ: token.GEQ, token.GTR: token.LSS, token.GEQ: token.LEQ, token.EQL: token.EQL, token.NEQ: token.NEQ}[op]
}

// negateCompare: the comparison that holds exactly when op does not.
func negateCompare(op token.Token) token.Token {
	return map[token.Token]token.Token{token.LSS: token.GEQ, token.LEQ: token.GTR, token.GTR: token.LEQ, token.GEQ: token.LSS, token.EQL: token.NEQ, token.NEQ: token.EQL}[op]
}

// isFilterAccumulation: ph is the loop-carried value of  kept := X[:0]; for … { kept = append(kept, e) }  (possibly
// merged with itself on the ways round the loop that keep nothing).
func isFilterAccumulation(ph *ssa.Phi) bool {
	seen := map[ssa.Value]bool{}
	empty, grown := false, false
	var find func(v ssa.Value) bool
	find = func(v ssa.Value) bool {
		if seen[v] {
			return true
		}
		seen[v] = true
		switch x := v.(type) {
		case *ssa.Phi:
			for _, e := range x.Edges {
				if !find(e) {
					return false
				}
			}
			return true
		case *ssa.Slice:
			// the empty prefix X[:0]
			if x.High != nil && x.Low == nil {
				if h, ok := constInt(x.High); ok && h == 0 {
					empty = true
					return true
				}
			}
			return false
		case *ssa.Call:
			bi, ok := x.Call.Value.(*ssa.Builtin)
			if !ok || bi.Name() != "append" {
				return false
			}
			if _, explicit := x.Call.Args[1].(*ssa.Slice); !explicit {
				return false
			}
			grown = true
			return find(x.Call.Args[0])
		}
		return false
	}
	return find(ph) && empty && grown
}

// returnsPrefixOfParam: every return of the function hands back its first slice parameter or a prefix p[:k] of it.
func returnsPrefixOfParam(f *ssa.Function) bool {
	if len(f.Blocks) == 0 || f.Signature.Results().Len() != 1 {
		return false
	}
	var par *ssa.Parameter
	for _, q := range f.Params {
		if _, ok := q.Type().Underlying().(*types.Slice); ok {
			par = q
			break
		}
	}
	if par == nil {
		return false
	}
	n, prefix := 0, false
	for _, b := range f.Blocks {
		r, ok := b.Instrs[len(b.Instrs)-1].(*ssa.Return)
		if !ok {
			continue
		}
		n++
		switch v := r.Results[0].(type) {
		case *ssa.Parameter:
			if v != par {
				return false
			}
		case *ssa.Slice:
			if v.X != ssa.Value(par) || v.Low != nil || v.High == nil {
				return false
			}
			prefix = true
		default:
			return false
		}
	}
	return n > 0 && prefix
}
