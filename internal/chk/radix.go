package chk

import (
	"fmt"

	"golang.org/x/tools/go/ssa"
)

// ---- E10-A7 integer fields are read in a fixed radix (added after seeded change C04/2) ----------------
// Every integer field of the text formats is decimal (or hexadecimal for colours); a zero-padded
// field such as the SSA margin 0010 must read as ten. strconv.Atoi is decimal by definition;
// strconv.ParseInt / ParseUint must be called with a constant base of 10 or 16 – base 0 selects the
// radix from the prefix of the text ("0010" is octal 8, "0080" is an error). A base passed through a
// parameter is followed to the constants of all its call sites.
func ruleFixedRadix(p *Prog, l *Ledger, tier string) {
	const rule = "E10.A7-fixed-radix"
	x := &exactness{p: p}
	n, atoi := 0, 0
	for _, fn := range p.LibFns {
		name := FnName(fn)
		for _, b := range fn.Blocks {
			for _, ins := range b.Instrs {
				c, ok := ins.(*ssa.Call)
				if !ok {
					continue
				}
				cn := calleeName(&c.Call)
				if cn == "strconv.Atoi" {
					atoi++
					continue
				}
				if cn != "strconv.ParseInt" && cn != "strconv.ParseUint" {
					continue
				}
				n++
				key := l.Key(rule, name, "base", cn)
				base := c.Call.Args[1]
				bases := x.intConstSet(base, 0)
				if bases == nil {
					l.Fail(rule, name, key, p.Pos(c.Pos()), fmt.Sprintf("%s calls %s with a base that is not a constant at every call site: the radix of an integer field depends on run-time data", name, cn))
					continue
				}
				bad := int64(-1)
				for _, k := range bases {
					if k != 10 && k != 16 {
						bad = k
					}
				}
				if bad >= 0 {
					l.Fail(rule, name, key, p.Pos(c.Pos()), fmt.Sprintf("%s calls %s with base %d: with base 0 the radix is taken from the text, so a zero-padded decimal field (\"0010\") is read as octal (8) and \"0080\" fails; integer fields of subtitle formats are decimal (hexadecimal for colours)", name, cn, bad))
				} else {
					l.Prove(rule, name, key, p.Pos(c.Pos()), fmt.Sprintf("base ∈ %v", bases))
				}
			}
		}
	}
	l.Notes = append(l.Notes, fmt.Sprintf("%s: %d strconv.Atoi calls (decimal by definition) and %d ParseInt/ParseUint calls examined", rule, atoi, n))
	l.Min(rule, n+atoi, 10)
}
