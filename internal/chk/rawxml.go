package chk

import (
	"fmt"
	"go/types"
	"reflect"
	"strings"

	"golang.org/x/tools/go/ssa"
)

// ---- E12-G7 raw inner XML only reaches text through the XML decoder (added after seeded change C03/2, round 4) --
// Struct fields tagged `xml:",innerxml"` hold markup as it stands in the document: entity and
// character references are still escaped. Rule (forward taint): a value derived from such a field by
// string operations (split, trim, join, slice, concatenation) may be tested, measured or handed to an
// XML decoder, but is never stored into a struct field: text has to come out of the decoder.
func innerXMLFields(p *Prog) map[string]bool {
	out := map[string]bool{}
	scope := p.Lib.Types.Scope()
	for _, n := range scope.Names() {
		tn, ok := scope.Lookup(n).(*types.TypeName)
		if !ok {
			continue
		}
		st, ok := tn.Type().Underlying().(*types.Struct)
		if !ok {
			continue
		}
		for i := 0; i < st.NumFields(); i++ {
			tag := reflect.StructTag(st.Tag(i)).Get("xml")
			if strings.Contains(tag, ",innerxml") {
				out[tn.Name()+"."+st.Field(i).Name()] = true
			}
		}
	}
	return out
}

func ruleRawXMLDecoded(p *Prog, l *Ledger, tier string) {
	const rule = "E12.G7-raw-xml-decoded"
	raw := innerXMLFields(p)
	n := 0
	for _, fn := range p.LibFns {
		name := FnName(fn)
		tainted := map[ssa.Value]bool{}
		taintedMem := map[ssa.Value]bool{} // slices / allocs holding tainted strings
		var srcs []ssa.Value
		for _, b := range fn.Blocks {
			for _, ins := range b.Instrs {
				if v, ok := ins.(ssa.Value); ok {
					if t, f, _ := loadedField(v); f != "" && raw[t+"."+f] {
						tainted[v] = true
						srcs = append(srcs, v)
					}
				}
			}
		}
		if len(srcs) == 0 {
			continue
		}
		for changed := true; changed; {
			changed = false
			mark := func(v ssa.Value) {
				if !tainted[v] {
					tainted[v] = true
					changed = true
				}
			}
			for _, b := range fn.Blocks {
				for _, ins := range b.Instrs {
					switch x := ins.(type) {
					case *ssa.Call:
						cn := calleeName(&x.Call)
						if !strings.HasPrefix(cn, "strings.") && !strings.HasPrefix(cn, "bytes.") && !strings.HasPrefix(cn, "builtin append") {
							continue
						}
						isStr := false
						switch t := x.Type().Underlying().(type) {
						case *types.Basic:
							isStr = t.Kind() == types.String
						case *types.Slice:
							isStr = true
						}
						if !isStr {
							continue // predicates, lengths, indexes
						}
						for _, a := range x.Call.Args {
							if tainted[a] || taintedMem[a] {
								mark(x)
								if _, isSlice := x.Type().Underlying().(*types.Slice); isSlice && !taintedMem[x] {
									taintedMem[x] = true
									changed = true
								}
							}
						}
					case *ssa.Phi:
						for _, e := range x.Edges {
							if tainted[e] {
								mark(x)
							}
							if taintedMem[e] && !taintedMem[x] {
								taintedMem[x] = true
								changed = true
							}
						}
					case *ssa.Slice:
						if tainted[x.X] {
							mark(x)
						}
						if taintedMem[x.X] && !taintedMem[x] {
							taintedMem[x] = true
							changed = true
						}
					case *ssa.BinOp:
						if tainted[x.X] || tainted[x.Y] {
							if b, ok := x.Type().Underlying().(*types.Basic); ok && b.Kind() == types.String {
								mark(x)
							}
						}
					case *ssa.Convert:
						if tainted[x.X] {
							mark(x)
						}
					case *ssa.UnOp:
						// load of an element of a tainted slice
						if ia, ok := x.X.(*ssa.IndexAddr); ok && taintedMem[ia.X] {
							mark(x)
						}
					case *ssa.Store:
						// store into an element of a slice keeps the slice tainted
						if ia, ok := x.Addr.(*ssa.IndexAddr); ok && tainted[x.Val] && !taintedMem[ia.X] {
							taintedMem[ia.X] = true
							changed = true
						}
					}
				}
			}
		}
		// sinks
		for _, b := range fn.Blocks {
			for _, ins := range b.Instrs {
				st, ok := ins.(*ssa.Store)
				if !ok || !tainted[st.Val] {
					continue
				}
				fa, ok := st.Addr.(*ssa.FieldAddr)
				if !ok {
					continue
				}
				t, f := fieldOfAddr(fa)
				n++
				key := l.Key(rule, name, "store", t+"."+f)
				l.Fail(rule, name, key, p.Pos(st.Pos()), fmt.Sprintf("%s stores text derived from raw inner XML (%s) into %s.%s without passing it through the XML decoder: entity and character references (&amp; &lt; &#233;) stay escaped in the text of such a paragraph", name, descOf(srcs[0]), t, f))
			}
		}
		key := l.Key(rule, name, "raw-source", descOf(srcs[0]))
		if l.CountBadRule(rule) == 0 {
			l.Prove(rule, name, key, p.Pos(srcs[0].Pos()), fmt.Sprintf("%d value(s) derived from raw inner XML in %s: none is stored into a struct field (they are tested, measured or decoded)", len(tainted), name))
		}
	}
	l.Min(rule, len(raw), 1)
}
