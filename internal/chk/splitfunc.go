package chk

import (
	"fmt"
	"go/constant"
	"go/token"
	"go/types"
	"math"
	"strings"

	"golang.org/x/tools/go/ssa"
)

// E8 R8.2: look-ahead discipline of bufio.SplitFunc values installed in the package.

type iv struct{ lo, hi int64 }

var ivAll = iv{math.MinInt64 / 4, math.MaxInt64 / 4}

func (a iv) meet(b iv) iv {
	if b.lo > a.lo {
		a.lo = b.lo
	}
	if b.hi < a.hi {
		a.hi = b.hi
	}
	return a
}
func (a iv) empty() bool { return a.lo > a.hi }
func (a iv) add(c int64) iv {
	if a.lo > ivAll.lo {
		a.lo += c
	}
	if a.hi < ivAll.hi {
		a.hi += c
	}
	return a
}

type splitState struct {
	atEOF     int // -1 unknown, 0 false, 1 true
	lenIv     iv
	val       map[ssa.Value]iv // bounds of integer values
	diff      map[ssa.Value]iv // bounds of len(data) - v
	absent    []string         // look-ahead bytes known missing on this path
	path      []*ssa.BasicBlock
	havoc     map[ssa.Value]bool // loop-header phis standing for "after any number of trips"
	wrote     string             // position of a store to captured state on this path
	wroteTo   map[ssa.Value]bool // the captured variables stored to on this path
	absentBlk []*ssa.BasicBlock  // guard blocks of the absent look-aheads (parallel to absent)
}

func (s *splitState) clone() *splitState {
	n := &splitState{atEOF: s.atEOF, lenIv: s.lenIv, val: map[ssa.Value]iv{}, diff: map[ssa.Value]iv{}, havoc: map[ssa.Value]bool{}, wrote: s.wrote}
	for k := range s.havoc {
		n.havoc[k] = true
	}
	for k, v := range s.val {
		n.val[k] = v
	}
	for k, v := range s.diff {
		n.diff[k] = v
	}
	n.absent = append([]string{}, s.absent...)
	n.absentBlk = append([]*ssa.BasicBlock{}, s.absentBlk...)
	n.wroteTo = map[ssa.Value]bool{}
	for k := range s.wroteTo {
		n.wroteTo[k] = true
	}
	n.path = append([]*ssa.BasicBlock{}, s.path...)
	return n
}

func (s *splitState) getVal(v ssa.Value) iv {
	if c, ok := v.(*ssa.Const); ok && c.Value != nil && c.Value.Kind() == constant.Int {
		if n, ok := constant.Int64Val(c.Value); ok {
			return iv{n, n}
		}
	}
	if x, ok := s.val[v]; ok {
		return x
	}
	return ivAll
}
func (s *splitState) getDiff(v ssa.Value) iv {
	if x, ok := s.diff[v]; ok {
		return x
	}
	return ivAll
}

type splitAnalysis struct {
	refineDepth int
	p           *Prog
	fn          *ssa.Function
	data        *ssa.Parameter
	atEOF       *ssa.Parameter
	sites       []*lookahead // guarded look-ahead index sites
	probs       []string
	undecided   string
	na          *NilAnalysis
	nPaths      int
	nRet        int
}

type lookahead struct {
	idx  *ssa.IndexAddr
	base ssa.Value
	k    int64
}

// linear strips constant additions: v = base + k.
func linear(v ssa.Value) (ssa.Value, int64) {
	var k int64
	for {
		b, ok := v.(*ssa.BinOp)
		if !ok {
			return v, k
		}
		if c, ok := b.Y.(*ssa.Const); ok && c.Value != nil && c.Value.Kind() == constant.Int {
			n, _ := constant.Int64Val(c.Value)
			switch b.Op {
			case token.ADD:
				k += n
				v = b.X
				continue
			case token.SUB:
				k -= n
				v = b.X
				continue
			}
		}
		if c, ok := b.X.(*ssa.Const); ok && b.Op == token.ADD && c.Value != nil && c.Value.Kind() == constant.Int {
			n, _ := constant.Int64Val(c.Value)
			k += n
			v = b.Y
			continue
		}
		return v, k
	}
}

func (a *splitAnalysis) isLenData(v ssa.Value) bool {
	c, ok := v.(*ssa.Call)
	if !ok {
		return false
	}
	b, ok := c.Call.Value.(*ssa.Builtin)
	return ok && b.Name() == "len" && c.Call.Args[0] == ssa.Value(a.data)
}

// isIndexSearch: v is the result of bytes.IndexAny/IndexByte/Index/IndexRune on data (−1 or a valid index).
func (a *splitAnalysis) isIndexSearch(v ssa.Value) bool {
	c, ok := v.(*ssa.Call)
	if !ok {
		return false
	}
	sc := c.Call.StaticCallee()
	if sc == nil || sc.Pkg == nil || sc.Pkg.Pkg.Path() != "bytes" || !strings.HasPrefix(sc.Name(), "Index") {
		return false
	}
	return len(c.Call.Args) > 0 && c.Call.Args[0] == ssa.Value(a.data)
}

// refine applies the branch condition (taken = which edge) to the state; false when infeasible.
func (a *splitAnalysis) refine(s *splitState, cond ssa.Value, taken bool) bool {
	if a.refineDepth > 40 {
		return true // no refinement: the path stays feasible
	}
	a.refineDepth++
	defer func() { a.refineDepth-- }()
	switch c := cond.(type) {
	case *ssa.Const:
		if c.Value != nil && c.Value.Kind() == constant.Bool {
			return constant.BoolVal(c.Value) == taken
		}
		return true
	case *ssa.Phi:
		// a && b / a || b: the operand that arrives is decided by the predecessor taken on this path
		blk := c.Block()
		for i := len(s.path) - 1; i > 0; i-- {
			if s.path[i] == blk {
				for j, pb := range blk.Preds {
					if pb == s.path[i-1] {
						return a.refine(s, c.Edges[j], taken)
					}
				}
			}
		}
		return true
	case *ssa.Parameter:
		if c == a.atEOF {
			want := 0
			if taken {
				want = 1
			}
			if s.atEOF != -1 && s.atEOF != want {
				return false
			}
			s.atEOF = want
		}
		return true
	case *ssa.UnOp:
		if c.Op == token.NOT {
			return a.refine(s, c.X, !taken)
		}
		return true
	case *ssa.BinOp:
		op := c.Op
		if !taken {
			switch op {
			case token.LSS:
				op = token.GEQ
			case token.LEQ:
				op = token.GTR
			case token.GTR:
				op = token.LEQ
			case token.GEQ:
				op = token.LSS
			case token.EQL:
				op = token.NEQ
			case token.NEQ:
				op = token.EQL
			default:
				return true
			}
		}
		lx, lk := linear(c.X)
		ry, rk := linear(c.Y)
		// X + lk  op  Y + rk
		switch {
		case a.isLenData(lx) && !a.isLenData(ry):
			// len + lk op y + rk  ⇒  len - y op rk - lk ; if y is a constant: len op const
			if n, ok := a.constOf(ry); ok {
				s.lenIv = s.lenIv.meet(cmpIv(op, n+rk-lk, s.lenIv))
				return !s.lenIv.empty()
			}
			d := s.getDiff(ry).meet(cmpIv(op, rk-lk, s.getDiff(ry)))
			s.diff[ry] = d
			return !d.empty()
		case a.isLenData(ry) && !a.isLenData(lx):
			return a.refineSwapped(s, op, lx, lk, ry, rk)
		default:
			// v + lk op const
			if yc, ok := ry.(*ssa.Const); ok && yc.Value != nil && yc.Value.Kind() == constant.Int && isInteger(lx.Type()) {
				n, _ := constant.Int64Val(yc.Value)
				nv := s.getVal(lx).meet(cmpIv(op, n+rk-lk, s.getVal(lx)))
				s.val[lx] = nv
				if nv.empty() {
					return false
				}
				if nv.lo >= 0 && a.isIndexSearch(lx) {
					d := s.getDiff(lx).meet(iv{1, ivAll.hi})
					s.diff[lx] = d
					return !d.empty()
				}
			}
		}
	}
	return true
}

func (a *splitAnalysis) refineSwapped(s *splitState, op token.Token, lx ssa.Value, lk int64, ry ssa.Value, rk int64) bool {
	// x + lk op len + rk  ⇒  len - x  op'  lk - rk   with the comparison mirrored
	m := map[token.Token]token.Token{token.LSS: token.GTR, token.LEQ: token.GEQ, token.GTR: token.LSS, token.GEQ: token.LEQ, token.EQL: token.EQL, token.NEQ: token.NEQ}
	op2, ok := m[op]
	if !ok {
		return true
	}
	if n, ok := a.constOf(lx); ok {
		s.lenIv = s.lenIv.meet(cmpIv(op2, n+lk-rk, s.lenIv))
		return !s.lenIv.empty()
	}
	d := s.getDiff(lx).meet(cmpIv(op2, lk-rk, s.getDiff(lx)))
	s.diff[lx] = d
	return !d.empty()
}

// cmpIv: the interval of t satisfying "t op n" (NEQ only trims an endpoint of cur).
func cmpIv(op token.Token, n int64, cur iv) iv {
	switch op {
	case token.LSS:
		return iv{ivAll.lo, n - 1}
	case token.LEQ:
		return iv{ivAll.lo, n}
	case token.GTR:
		return iv{n + 1, ivAll.hi}
	case token.GEQ:
		return iv{n, ivAll.hi}
	case token.EQL:
		return iv{n, n}
	case token.NEQ:
		if cur.lo == n {
			return iv{n + 1, ivAll.hi}
		}
		if cur.hi == n {
			return iv{ivAll.lo, n - 1}
		}
	}
	return ivAll
}

// eval bounds an integer expression on the current path.
func (a *splitAnalysis) eval(s *splitState, v ssa.Value, depth int) iv {
	if depth > 10 {
		return ivAll
	}
	if a.isLenData(v) {
		return s.lenIv.meet(iv{0, ivAll.hi})
	}
	if c, ok := v.(*ssa.Const); ok {
		return s.getVal(c)
	}
	if s.havoc[v] {
		return s.getVal(v)
	}
	if x, ok := s.val[v]; ok && (x.lo > ivAll.lo || x.hi < ivAll.hi) {
		base := x
		if b, ok := v.(*ssa.BinOp); ok {
			_ = b
		}
		return base
	}
	switch x := v.(type) {
	case *ssa.BinOp:
		l, r := a.eval(s, x.X, depth+1), a.eval(s, x.Y, depth+1)
		switch x.Op {
		case token.ADD:
			out := ivAll
			if l.lo > ivAll.lo && r.lo > ivAll.lo {
				out.lo = l.lo + r.lo
			}
			if l.hi < ivAll.hi && r.hi < ivAll.hi {
				out.hi = l.hi + r.hi
			}
			return out
		case token.SUB:
			out := ivAll
			if l.lo > ivAll.lo && r.hi < ivAll.hi {
				out.lo = l.lo - r.hi
			}
			if l.hi < ivAll.hi && r.lo > ivAll.lo {
				out.hi = l.hi - r.lo
			}
			return out
		}
	case *ssa.Phi:
		// resolved by the predecessor actually taken on this path
		blk := x.Block()
		for i := len(s.path) - 1; i > 0; i-- {
			if s.path[i] == blk {
				pred := s.path[i-1]
				for j, pb := range blk.Preds {
					if pb == pred {
						return a.eval(s, x.Edges[j], depth+1)
					}
				}
			}
		}
	}
	return ivAll
}

func (a *splitAnalysis) run(l *Ledger, rule string) {
	p := a.p
	fn := a.fn
	fname := FnName(fn)
	// look-ahead index sites: data[v+k], k ≥ 1, where data[v] (k = 0) is also read
	bases := map[ssa.Value]bool{}
	var idxs []*ssa.IndexAddr
	for _, b := range fn.Blocks {
		for _, ins := range b.Instrs {
			if ia, ok := ins.(*ssa.IndexAddr); ok && ia.X == ssa.Value(a.data) {
				idxs = append(idxs, ia)
				if v, k := linear(ia.Index); k == 0 {
					bases[v] = true
				}
			}
		}
	}
	for _, ia := range idxs {
		if v, k := linear(ia.Index); k >= 1 && (bases[v] || a.isIndexSearch(v)) {
			a.sites = append(a.sites, &lookahead{idx: ia, base: v, k: k})
		}
	}
	key := l.Key(rule, fname, "splitfunc", "lookahead")
	pos := p.Pos(fn.Pos())
	hasLoop := false
	for _, b := range fn.Blocks {
		for _, s := range b.Succs {
			if s.Dominates(b) {
				hasLoop = true
			}
		}
	}
	_ = hasLoop
	st := &splitState{atEOF: -1, lenIv: iv{0, ivAll.hi}, val: map[ssa.Value]iv{}, diff: map[ssa.Value]iv{}, havoc: map[ssa.Value]bool{}}
	a.walk(fn.Blocks[0], st)
	if a.undecided != "" {
		l.Undecide(rule, fname, key, pos, a.undecided)
		return
	}
	if len(a.probs) > 0 {
		l.Fail(rule, fname, key, pos, fname+": "+strings.Join(dedupKeep(a.probs), "; "))
		return
	}
	if len(a.sites) == 0 {
		l.Prove(rule, fname, key, pos, "idiom-absent: the split function has no length-guarded look-ahead read")
		return
	}
	l.Prove(rule, fname, key, pos, fmt.Sprintf("%d look-ahead site(s), %d feasible paths, %d returns checked: whenever a look-ahead byte is missing and atEOF is not known, the function returns (0, nil, nil); every returned token advances", len(a.sites), a.nPaths, a.nRet))
}

// isLoopHeader: some predecessor of b is dominated by b.
func isLoopHeader(b *ssa.BasicBlock) bool {
	for _, p := range b.Preds {
		if b.Dominates(p) {
			return true
		}
	}
	return false
}

// enterLoop replaces the header phis by "their value after any number of trips": a counter that only
// grows keeps the lower bound of its initial value; len(data) - counter ≥ 0 is kept when it holds on
// entry and one trip preserves it (checked by walking the body once under that assumption).
func (a *splitAnalysis) enterLoop(b *ssa.BasicBlock, s *splitState) {
	entry := s.path[len(s.path)-1]
	var phis []*ssa.Phi
	for _, ins := range b.Instrs {
		ph, ok := ins.(*ssa.Phi)
		if !ok {
			break
		}
		phis = append(phis, ph)
	}
	type cand struct {
		ph     *ssa.Phi
		val    iv
		diffOK bool
	}
	var cs []*cand
	for _, ph := range phis {
		if !isInteger(ph.Type()) {
			s.havoc[ph] = true
			continue
		}
		c := &cand{ph: ph, val: ivAll}
		grows := true
		var init iv
		for j, pb := range b.Preds {
			if pb == entry {
				init = a.eval(s, ph.Edges[j], 0)
				continue
			}
			if !b.Dominates(pb) {
				grows = false // another way in: not a simple loop
				continue
			}
			base, k := linear(ph.Edges[j])
			if base != ssa.Value(ph) || k < 0 {
				grows = false
			}
		}
		if grows {
			c.val = iv{init.lo, ivAll.hi}
			// len - init ≥ 0 on entry?
			if init.hi < ivAll.hi && init.hi <= s.lenIv.lo {
				c.diffOK = true
			}
		}
		cs = append(cs, c)
	}
	apply := func(st *splitState) {
		for _, c := range cs {
			st.havoc[c.ph] = true
			st.val[c.ph] = c.val
			if c.diffOK {
				st.diff[c.ph] = iv{0, ivAll.hi}
			} else {
				delete(st.diff, c.ph)
			}
		}
	}
	// inductiveness of len - phi ≥ 0: one trip from the header back to it
	for round := 0; round <= len(cs); round++ {
		trial := s.clone()
		apply(trial)
		trial.path = append(trial.path, b)
		broken := map[*ssa.Phi]bool{}
		var trip func(x *ssa.BasicBlock, st *splitState, depth int)
		trip = func(x *ssa.BasicBlock, st *splitState, depth int) {
			if depth > 60 {
				for _, c := range cs {
					broken[c.ph] = true
				}
				return
			}
			if x == b {
				// arrived at the header through a back edge
				pred := st.path[len(st.path)-1]
				for _, c := range cs {
					if !c.diffOK {
						continue
					}
					for j, pb := range b.Preds {
						if pb != pred {
							continue
						}
						base, k := linear(c.ph.Edges[j])
						if base != ssa.Value(c.ph) || st.getDiff(c.ph).lo-k < 0 {
							broken[c.ph] = true
						}
					}
				}
				return
			}
			for _, pb := range st.path[len(s.path)+1:] {
				if pb == x {
					return // an inner cycle: give up on precision, not on soundness
				}
			}
			st.path = append(st.path, x)
			switch t := x.Instrs[len(x.Instrs)-1].(type) {
			case *ssa.If:
				for i, succ := range x.Succs {
					ns := st.clone()
					if a.refine(ns, t.Cond, i == 0) {
						trip(succ, ns, depth+1)
					}
				}
			case *ssa.Jump:
				trip(x.Succs[0], st.clone(), depth+1)
			}
		}
		switch t := b.Instrs[len(b.Instrs)-1].(type) {
		case *ssa.If:
			for i, succ := range b.Succs {
				ns := trial.clone()
				if a.refine(ns, t.Cond, i == 0) {
					trip(succ, ns, 0)
				}
			}
		case *ssa.Jump:
			trip(b.Succs[0], trial.clone(), 0)
		}
		if len(broken) == 0 {
			break
		}
		for _, c := range cs {
			if broken[c.ph] {
				c.diffOK = false
			}
		}
	}
	apply(s)
}

func (a *splitAnalysis) walk(b *ssa.BasicBlock, s *splitState) {
	for _, pb := range s.path {
		if pb == b {
			return // back at a loop header: covered by the havocked state it was entered with
		}
	}
	if a.nPaths > 20000 {
		a.undecided = "too many paths through the split function"
		return
	}
	if isLoopHeader(b) && len(s.path) > 0 {
		a.enterLoop(b, s)
	} else if isLoopHeader(b) {
		a.undecided = "the entry block of the split function is a loop header"
		return
	}
	s.path = append(s.path, b)
	for _, ins := range b.Instrs {
		if st, ok := ins.(*ssa.Store); ok {
			if _, isFV := st.Addr.(*ssa.FreeVar); isFV {
				if s.wrote == "" {
					s.wrote = a.p.Pos(st.Pos())
				}
				if s.wroteTo == nil {
					s.wroteTo = map[ssa.Value]bool{}
				}
				s.wroteTo[st.Addr] = true
			}
		}
	}
	last := b.Instrs[len(b.Instrs)-1]
	switch t := last.(type) {
	case *ssa.Return:
		a.nPaths++
		a.nRet++
		a.checkReturn(t, s)
	case *ssa.If:
		for i, succ := range b.Succs {
			ns := s.clone()
			if !a.refine(ns, t.Cond, i == 0) {
				continue
			}
			// bytes.HasPrefix(data, K) looks len(K) bytes ahead: when it fails while fewer than len(K)
			// bytes have arrived and more may come, nothing has been learnt yet
			if k, ok := a.prefixGuard(t.Cond); ok {
				if i == 0 {
					ns.lenIv = ns.lenIv.meet(iv{k, ivAll.hi})
					if ns.lenIv.empty() {
						continue
					}
				} else if ns.lenIv.lo < k {
					ns.absent = append(ns.absent, fmt.Sprintf("data[:%d] (prefix test at %s)", k, a.p.Pos(t.Cond.Pos())))
					ns.absentBlk = append(ns.absentBlk, b)
				}
			}
			// is this edge the "absent" edge of a look-ahead guard?
			for _, site := range a.sites {
				other := b.Succs[1-i]
				if other.Dominates(site.idx.Block()) && !succ.Dominates(site.idx.Block()) && len(other.Preds) == 1 {
					// the guard protects the site on the other edge; here the byte may be missing
					// iff the state allows len - base ≤ k
					if ns.getDiff(site.base).lo <= site.k && guardMentions(t.Cond, site.base, a) {
						ns.absent = append(ns.absent, fmt.Sprintf("data[%s+%d] (guard at %s)", site.base.Name(), site.k, a.p.Pos(t.Cond.Pos())))
						ns.absentBlk = append(ns.absentBlk, b)
					}
				}
			}
			a.walk(succ, ns)
		}
	default:
		for _, succ := range b.Succs {
			a.walk(succ, s.clone())
		}
	}
}

// guardMentions: the condition compares len(data) with an expression over base.
func guardMentions(cond ssa.Value, base ssa.Value, a *splitAnalysis) bool {
	b, ok := cond.(*ssa.BinOp)
	if !ok {
		if u, ok := cond.(*ssa.UnOp); ok && u.Op == token.NOT {
			return guardMentions(u.X, base, a)
		}
		return false
	}
	lx, _ := linear(b.X)
	ry, _ := linear(b.Y)
	return (a.isLenData(lx) && ry == base) || (a.isLenData(ry) && lx == base)
}

func (a *splitAnalysis) checkReturn(r *ssa.Return, s *splitState) {
	if len(r.Results) != 3 {
		return
	}
	adv, tok, errv := r.Results[0], r.Results[1], r.Results[2]
	tokNil := isNilConst(tok)
	advIv := a.eval(s, adv, 0)
	pos := a.p.Pos(r.Pos())
	if len(s.absent) > 0 && s.atEOF != 1 {
		if !(tokNil && advIv.lo == 0 && advIv.hi == 0 && isNilConst(errv)) {
			a.probs = append(a.probs, fmt.Sprintf("on a path where the look-ahead byte %s has not arrived and atEOF is not known to be true, the return at %s delivers a token/advance instead of requesting more data (0, nil, nil): the result depends on how the stream is chunked", strings.Join(s.absent, ", "), pos))
		}
	}
	// a look-ahead that is only attempted while the captured state has a certain value, found absent
	// on this path, after which the state was changed: the next call will not attempt it again
	stateGuarded := false
	for _, gb := range s.absentBlk {
		for _, dc := range dominatingConds(gb) {
			for fv := range s.wroteTo {
				if derivesFromLoadOf(dc.cond, fv, 0) {
					stateGuarded = true
				}
			}
		}
	}
	if s.wrote != "" && stateGuarded && s.atEOF != 1 && tokNil && advIv.lo == 0 && advIv.hi == 0 && isNilConst(errv) {
		a.probs = append(a.probs, fmt.Sprintf("the return at %s asks for more data because %s has not arrived, but the captured state was already changed at %s: the next call sees the same bytes and more, yet takes another path, so the result depends on how the stream is chunked", pos, strings.Join(s.absent, ", "), s.wrote))
	}
	if !tokNil && isNilConst(errv) && advIv.lo < 1 {
		a.probs = append(a.probs, fmt.Sprintf("return at %s delivers a token but advance ≥ 1 cannot be established on this path (bufio panics after 100 empty tokens without progress)", pos))
	}
}

// ruleSplitFunc: R8.2 over every function value installed with (*bufio.Scanner).Split.
func ruleSplitFunc(p *Prog, l *Ledger, tier string) {
	const rule = "E8.R8.2-split-lookahead"
	n := 0
	for _, fn := range p.LibFns {
		for _, b := range fn.Blocks {
			for _, ins := range b.Instrs {
				c, ok := ins.(*ssa.Call)
				if !ok {
					continue
				}
				sc := c.Call.StaticCallee()
				if sc == nil || sc.String() != "(*bufio.Scanner).Split" {
					continue
				}
				n++
				var sf *ssa.Function
				arg := c.Call.Args[1]
				for {
					if ct, ok := arg.(*ssa.ChangeType); ok {
						arg = ct.X
						continue
					}
					break
				}
				switch f := arg.(type) {
				case *ssa.MakeClosure:
					sf = f.Fn.(*ssa.Function)
				case *ssa.Function:
					sf = f
				}
				if sf == nil || sf.Blocks == nil {
					if sf != nil && sf.Pkg != nil && sf.Pkg.Pkg.Path() == "bufio" {
						l.Prove(rule, FnName(fn), l.Key(rule, FnName(fn), "splitfunc", sf.Name()), p.Pos(c.Pos()), "standard library split function "+sf.String())
						continue
					}
					l.Undecide(rule, FnName(fn), l.Key(rule, FnName(fn), "splitfunc", "dynamic"), p.Pos(c.Pos()), "split function value cannot be resolved statically")
					continue
				}
				// a method value (&splitter{}).split: the wrapper go/ssa builds calls the method with the bound receiver
				off := 0
				if sf.Synthetic != "" {
					var target *ssa.Function
					for _, wb := range sf.Blocks {
						for _, wi := range wb.Instrs {
							if wc, ok := wi.(*ssa.Call); ok && wc.Call.StaticCallee() != nil {
								target = wc.Call.StaticCallee()
							}
						}
					}
					if target == nil || target.Blocks == nil || len(target.Params) != 3 {
						l.Undecide(rule, FnName(fn), l.Key(rule, FnName(fn), "splitfunc", "bound"), p.Pos(c.Pos()), "split function is a bound method that could not be resolved")
						continue
					}
					sf, off = target, 1
				}
				if len(sf.Params) != 2+off {
					continue
				}
				if _, ok := sf.Params[1+off].Type().Underlying().(*types.Basic); !ok {
					continue
				}
				// the path analysis looks at one call in isolation: a split function that remembers something from one
				// call to the next (a captured variable, a field of its receiver) is outside what it decides
				if where := splitKeepsState(sf); where != nil {
					l.Undecide(rule, FnName(sf), l.Key(rule, FnName(sf), "splitfunc", "stateful"), p.Pos(where.Pos()), FnName(sf)+" keeps state between calls (store at "+p.Pos(where.Pos())+"): whether every token it delivers and every request for more data is right then depends on the sequence of calls bufio.Scanner makes, which the rule does not model")
					continue
				}
				// the pending data handed to another function (a standard split function the closure delegates to, a
				// prefix test on what follows an index): what that function decides is not part of the path analysis
				if c2 := splitHandsDataOn(sf, sf.Params[off]); c2 != nil {
					l.Undecide(rule, FnName(sf), l.Key(rule, FnName(sf), "splitfunc", "delegates"), p.Pos(c2.Pos()), FnName(sf)+" hands the pending data to "+calleeShort(&c2.Call)+" ("+p.Pos(c2.Pos())+"): whether a line break cut between two reads is still one line break then depends on what that function does with a carriage return that is the last byte so far, which the rule does not model")
					continue
				}
				a := &splitAnalysis{p: p, fn: sf, data: sf.Params[off], atEOF: sf.Params[1+off]}
				a.run(l, rule)
			}
		}
	}
	l.Min(rule, n, 1)
}

// prefixGuard: cond is bytes.HasPrefix(data, K) with K of known constant length.
func (a *splitAnalysis) prefixGuard(cond ssa.Value) (int64, bool) {
	c, ok := cond.(*ssa.Call)
	if !ok {
		return 0, false
	}
	sc := c.Call.StaticCallee()
	if sc == nil || sc.String() != "bytes.HasPrefix" || c.Call.Args[0] != ssa.Value(a.data) {
		return 0, false
	}
	switch k := c.Call.Args[1].(type) {
	case *ssa.UnOp:
		if g, ok := k.X.(*ssa.Global); ok {
			if a.na == nil {
				a.na = NewNilAnalysis(a.p)
			}
			if n, ok := a.na.globalLen(g); ok {
				return n, true
			}
		}
	case *ssa.Convert:
		if s, ok := constStr(k.X); ok {
			return int64(len(s)), true
		}
	}
	return 0, false
}

// constOf: an integer constant, or the length of a package-level slice of constant length.
func (a *splitAnalysis) constOf(v ssa.Value) (int64, bool) {
	if c, ok := constInt(v); ok {
		return c, true
	}
	if c, ok := v.(*ssa.Call); ok {
		if bi, ok := c.Call.Value.(*ssa.Builtin); ok && bi.Name() == "len" {
			if u, ok := c.Call.Args[0].(*ssa.UnOp); ok {
				if g, ok := u.X.(*ssa.Global); ok {
					if a.na == nil {
						a.na = NewNilAnalysis(a.p)
					}
					return a.na.globalLen(g)
				}
			}
		}
	}
	return 0, false
}

// derivesFromLoadOf: v is computed from a load of address addr (through negation / comparison with a constant).
func derivesFromLoadOf(v ssa.Value, addr ssa.Value, depth int) bool {
	if depth > 4 {
		return false
	}
	switch x := v.(type) {
	case *ssa.UnOp:
		if x.Op == token.MUL {
			return x.X == addr
		}
		return derivesFromLoadOf(x.X, addr, depth+1)
	case *ssa.BinOp:
		return derivesFromLoadOf(x.X, addr, depth+1) || derivesFromLoadOf(x.Y, addr, depth+1)
	case *ssa.Phi:
		for _, e := range x.Edges {
			if derivesFromLoadOf(e, addr, depth+1) {
				return true
			}
		}
	}
	return false
}

// splitKeepsState: a store of an integer (an offset into the data) into a captured variable or into memory reached from
// the receiver.
func splitKeepsState(sf *ssa.Function) ssa.Instruction {
	for _, b := range sf.Blocks {
		for _, ins := range b.Instrs {
			st, ok := ins.(*ssa.Store)
			if !ok {
				continue
			}
			if !isIntegerT(st.Val.Type()) {
				continue // a flag (the BOM has been looked for) is handled by the path analysis; an offset into the data is not
			}
			switch ad := st.Addr.(type) {
			case *ssa.FreeVar:
				return st
			case *ssa.FieldAddr:
				if _, isPar := ad.X.(*ssa.Parameter); isPar {
					return st
				}
				if u, ok := ad.X.(*ssa.UnOp); ok {
					if _, isFV := u.X.(*ssa.FreeVar); isFV {
						return st
					}
				}
			}
		}
	}
	return nil
}

// splitHandsDataOn: a call, other than an index search over the whole pending data, that receives the pending data or a
// part of it.
func splitHandsDataOn(sf *ssa.Function, data *ssa.Parameter) *ssa.Call {
	for _, b := range sf.Blocks {
		for _, ins := range b.Instrs {
			c, ok := ins.(*ssa.Call)
			if !ok {
				continue
			}
			if _, isB := c.Call.Value.(*ssa.Builtin); isB {
				continue
			}
			cn := calleeName(&c.Call)
			for _, a := range c.Call.Args {
				whole := a == ssa.Value(data)
				part := false
				if sl, ok := a.(*ssa.Slice); ok && sl.X == ssa.Value(data) {
					part = true
				}
				if !whole && !part {
					continue
				}
				if whole && (strings.HasPrefix(cn, "bytes.Index") || strings.HasPrefix(cn, "bytes.LastIndex") || cn == "bytes.HasPrefix") {
					continue // modelled: a search over the whole pending data, a prefix test of it
				}
				return c
			}
		}
	}
	return nil
}
