package chk

import (
	"fmt"
	"go/constant"
	"go/token"
	"regexp/syntax"
	"sort"
	"strconv"
	"strings"

	"golang.org/x/tools/go/ssa"
)

// Contract of (*Regexp).FindAll[String][Submatch]Index.
//
// The result R is a list of rows, one per match, in the order of the matches; matches do not
// overlap.  With lo = row[0], hi = row[1]:
//   (1) 0 ≤ lo, lo + m ≤ hi, hi ≤ len(input), m being the least number of characters a match has;
//   (2) hi of an earlier row ≤ lo of a later row;
//   (3) for a capture group that participates in every match (it is not under ?, *, {0,…} or an
//       alternation), lo ≤ row[2g] ≤ row[2g+1] ≤ hi.
// A row is named by the list and the term of its index (R@t+c), so R[k+1] in one iteration and
// R[k] in the same iteration are different rows with a known order.  Everything is conditional on
// the loads not panicking (E2 proves the row index in range separately).  The rows and the list
// must only be read.

func findAllKind(c *ssa.Call) (submatch bool, ok bool) {
	sc := c.Call.StaticCallee()
	if sc == nil {
		return false, false
	}
	switch sc.String() {
	case "(*regexp.Regexp).FindAllStringIndex", "(*regexp.Regexp).FindAllIndex":
		return false, true
	case "(*regexp.Regexp).FindAllStringSubmatchIndex", "(*regexp.Regexp).FindAllSubmatchIndex":
		return true, true
	}
	return false, false
}

// rowOf: v is a row of a FindAll result: *(&R[idx]) – the list, the index value.
func rowOf(v ssa.Value) (*ssa.Call, ssa.Value, bool) {
	u, ok := v.(*ssa.UnOp)
	if !ok || u.Op != token.MUL {
		return nil, nil, false
	}
	ia, ok := u.X.(*ssa.IndexAddr)
	if !ok {
		return nil, nil, false
	}
	c, ok := ia.X.(*ssa.Call)
	if !ok {
		return nil, nil, false
	}
	if _, ok := findAllKind(c); !ok {
		return nil, nil, false
	}
	return c, ia.Index, true
}

// readOnlyResult: the list and its rows are only indexed for loads, measured, ranged or compared with nil.
func readOnlyResult(c *ssa.Call) bool {
	for _, r := range *c.Referrers() {
		switch y := r.(type) {
		case *ssa.IndexAddr:
			for _, r2 := range *y.Referrers() {
				u, ok := r2.(*ssa.UnOp)
				if !ok || u.Op != token.MUL {
					if _, dbg := r2.(*ssa.DebugRef); dbg {
						continue
					}
					return false
				}
				// the row: same discipline
				if !readOnlyRow(u, map[ssa.Value]bool{}) {
					return false
				}
			}
		case *ssa.BinOp, *ssa.DebugRef:
		case *ssa.Call:
			if bi, ok := y.Call.Value.(*ssa.Builtin); !ok || bi.Name() != "len" {
				return false
			}
		default:
			return false
		}
	}
	return true
}

func (g *cgraph) rowKey(c *ssa.Call, idx ssa.Value) (string, string, int64, bool) {
	t, k, ok := g.a.intTerm(idx)
	if !ok {
		return "", "", 0, false
	}
	return g.a.regKey(c) + "@" + orZero(t) + "+" + strconv.FormatInt(k, 10), orZero(t), k, true
}

// defineFindAllElem: x loads column col of a row of a FindAll result.
func (g *cgraph) defineFindAllElem(x *ssa.UnOp, key string) {
	ia, ok := x.X.(*ssa.IndexAddr)
	if !ok {
		return
	}
	col, ok := constInt(ia.Index)
	if !ok || col < 0 {
		return
	}
	var c *ssa.Call
	var rk string
	if ph, isPhi := ia.X.(*ssa.Phi); isPhi {
		// some row of the list (which one depends on the path): the facts about a single row hold
		c = phiOfRows(ph, map[ssa.Value]bool{})
		if c == nil || !readOnlyResult(c) {
			return
		}
		rk = g.a.regKey(c) + "@phi:" + ph.Name() + "+0"
		g.defineFindAllRowAt(c, "phi:"+ph.Name(), 0)
	} else {
		var idx ssa.Value
		c, idx, ok = rowOf(ia.X)
		if !ok || !readOnlyResult(c) {
			return
		}
		g.define(idx, 4)
		g.defineFindAllRow(c, idx)
		rk, _, _, ok = g.rowKey(c, idx)
		if !ok {
			return
		}
	}
	sub, _ := findAllKind(c)
	own := fmt.Sprintf("fa%d(%s)", col, rk)
	switch {
	case col <= 1:
	case sub && g.a.groupAlwaysParticipates(c.Call.Args[0], int(col/2)):
		lo, hi := "fa0("+rk+")", "fa1("+rk+")"
		g2lo, g2hi := fmt.Sprintf("fa%d(%s)", 2*(col/2), rk), fmt.Sprintf("fa%d(%s)", 2*(col/2)+1, rk)
		g.le(lo, g2lo, 0)
		g.le(g2lo, g2hi, 0)
		g.le(g2hi, hi, 0)
	default:
		return
	}
	g.le(key, own, 0)
	g.le(own, key, 0)
}

// defineFindAllRow adds (1) for the row R@idx and (2) against the rows of R already named in this graph.
func (g *cgraph) defineFindAllRow(c *ssa.Call, idx ssa.Value) {
	_, base, off, ok := g.rowKey(c, idx)
	if !ok {
		return
	}
	g.defineFindAllRowAt(c, base, off)
}

func (g *cgraph) defineFindAllRowAt(c *ssa.Call, base string, off int64) {
	a := g.a
	rk := a.regKey(c) + "@" + base + "+" + strconv.FormatInt(off, 10)
	if g.seen["row:"+rk] {
		return
	}
	g.seen["row:"+rk] = true
	lo, hi := "fa0("+rk+")", "fa1("+rk+")"
	g.le(zeroTerm, lo, 0)
	m := int64(0)
	if n, ok := a.regexpMinLen(c.Call.Args[0]); ok {
		m = n
	}
	g.le(lo, hi, -m)
	g.defineLen(c.Call.Args[1], 1)
	g.le(hi, "len("+a.regKey(c.Call.Args[1])+")", 0)
	// ordering against rows of the same list whose index has the same base term
	listKey := a.regKey(c) + "@" + base
	if g.rows == nil {
		g.rows = map[string][]int64{}
	}
	for _, o2 := range g.rows[listKey] {
		rk2 := a.regKey(c) + "@" + base + "+" + strconv.FormatInt(o2, 10)
		switch {
		case o2 < off:
			g.le("fa1("+rk2+")", lo, 0)
		case o2 > off:
			g.le(hi, "fa0("+rk2+")", 0)
		}
	}
	g.rows[listKey] = append(g.rows[listKey], off)
	// rows indexed by a constant and rows indexed by a non-negative term: constant c ≤ term + k when provable
	if base != zeroTerm {
		for _, o2 := range g.rows[a.regKey(c)+"@"+zeroTerm] {
			if g.proveLE(zeroTerm, o2+1, base, off) { // o2 < base+off
				g.le("fa1("+a.regKey(c)+"@"+zeroTerm+"+"+strconv.FormatInt(o2, 10)+")", lo, 0)
			}
		}
	}
}

// groupAlwaysParticipates: capture group n of the package-level regexp takes part in every match.
func (a *NilAnalysis) groupAlwaysParticipates(recv ssa.Value, n int) bool {
	u, ok := recv.(*ssa.UnOp)
	if !ok || u.Op != token.MUL {
		return false
	}
	gl, ok := u.X.(*ssa.Global)
	if !ok || gl.Pkg == nil {
		return false
	}
	if _, ok := a.regexpMinLen(recv); !ok { // also checks single constant initialisation
		return false
	}
	init := gl.Pkg.Func("init")
	for _, b := range init.Blocks {
		for _, ins := range b.Instrs {
			st, ok := ins.(*ssa.Store)
			if !ok || st.Addr != ssa.Value(gl) {
				continue
			}
			c, ok := st.Val.(*ssa.Call)
			if !ok {
				return false
			}
			pat, ok := c.Call.Args[0].(*ssa.Const)
			if !ok || pat.Value == nil {
				return false
			}
			re, err := syntax.Parse(constant.StringVal(pat.Value), syntax.Perl)
			if err != nil {
				return false
			}
			return mandatoryGroup(re, n, true)
		}
	}
	return false
}

// mandatoryGroup: capture n occurs in re at a place every match goes through (must = the path so far is mandatory).
func mandatoryGroup(re *syntax.Regexp, n int, must bool) bool {
	switch re.Op {
	case syntax.OpCapture:
		if re.Cap == n {
			return must
		}
		return mandatoryGroup(re.Sub[0], n, must)
	case syntax.OpConcat:
		for _, s := range re.Sub {
			if mandatoryGroup(s, n, must) {
				return true
			}
		}
	case syntax.OpPlus:
		return mandatoryGroup(re.Sub[0], n, must)
	case syntax.OpRepeat:
		return mandatoryGroup(re.Sub[0], n, must && re.Min >= 1)
	case syntax.OpStar, syntax.OpQuest, syntax.OpAlternate:
		for _, s := range re.Sub {
			if mandatoryGroup(s, n, false) {
				return false
			}
		}
	}
	return false
}

// carriedMatchEnd: ph is carried round a loop whose counter K goes up by one per trip, starts at a
// value ≤ every offset (a constant ≤ 0), and on every back edge is either unchanged or a column of a
// row R[K+c], c ≤ 0, of one FindAll result R.  Then at the header, and in the body for the current K,
//
//	0 ≤ ph ≤ lo(R@K)   and   ph ≤ len(input):
//
// it is 0 or the offset of a row before the current one, and rows are ordered (2).  The fact about
// R@K is only used where R[K] is loaded, which E2 proves in range on its own.
func (g *cgraph) carriedMatchEnd(ph *ssa.Phi, key string) {
	a := g.a
	hdr := ph.Block()
	// the counter of the loop
	var counter *ssa.Phi
	for _, ins := range hdr.Instrs {
		p2, ok := ins.(*ssa.Phi)
		if !ok {
			break
		}
		if p2 == ph || !isIntegerT(p2.Type()) {
			continue
		}
		okc := true
		for i, e := range p2.Edges {
			if hdr.Dominates(hdr.Preds[i]) {
				if b, k := linear(e); b != ssa.Value(p2) || k != 1 {
					okc = false
				}
			} else if _, isC := constInt(e); !isC {
				okc = false
			}
		}
		if okc {
			counter = p2
		}
	}
	if counter == nil {
		return
	}
	var list *ssa.Call
	good := true
	kmax := int64(-1 << 20) // largest row offset (relative to the counter at the header) the value is taken from
	var check func(v ssa.Value, seen map[ssa.Value]bool)
	check = func(v ssa.Value, seen map[ssa.Value]bool) {
		if v == ssa.Value(ph) || seen[v] {
			return
		}
		seen[v] = true
		switch x := v.(type) {
		case *ssa.Phi:
			for _, e := range x.Edges {
				check(e, seen)
			}
			return
		case *ssa.UnOp:
			if ia, ok := x.X.(*ssa.IndexAddr); ok && x.Op == token.MUL {
				col, isC := constInt(ia.Index)
				c, idx, isRow := rowOf(ia.X)
				if isC && isRow && col >= 0 && col <= 1 && readOnlyResult(c) && (list == nil || list == c) {
					base, k := linear(idx)
					if base == ssa.Value(counter) && k <= 8 {
						list = c
						if k > kmax {
							kmax = k
						}
						return
					}
				}
			}
		}
		good = false
	}
	for i, e := range ph.Edges {
		if hdr.Dominates(hdr.Preds[i]) {
			check(e, map[ssa.Value]bool{})
			continue
		}
		if c, ok := constInt(e); !ok || c > 0 {
			return
		}
	}
	if !good || list == nil {
		return
	}
	// taken from rows up to K+kmax in one trip, the value is compared in the next trip (counter K+1)
	// with rows from K+1+(kmax-1)+1 = (new K)+kmax on: ph ≤ lo(R@K+kmax) at the header and in the body
	// The row R[K+kmax] must exist for that: the fact is only used at a site dominated by a load of
	// that very row (which would have panicked otherwise); after the loop, where the counter has run
	// past the last row, nothing of the kind is assumed.
	g.define(counter, 4)
	ct := a.regKey(counter)
	rowLoaded := false
	if a.cur != nil {
		for _, r := range *list.Referrers() {
			ia, ok := r.(*ssa.IndexAddr)
			if !ok {
				continue
			}
			if b, k := linear(ia.Index); b != ssa.Value(counter) || k != kmax {
				continue
			}
			for _, r2 := range *ia.Referrers() {
				ld, ok := r2.(*ssa.UnOp)
				if !ok || ld.Op != token.MUL {
					continue
				}
				if (ld.Block() != a.cur.Block() && ld.Block().Dominates(a.cur.Block())) || (ld.Block() == a.cur.Block() && instrIndex(ld) < instrIndex(a.cur)) {
					rowLoaded = true
				}
				// proving by cases: on the path through the case's predecessor the row was loaded
				for _, cc := range append([]*phiCase{a.curCase}, a.curCases...) {
					if cc != nil && (ld.Block() == cc.pred || ld.Block().Dominates(cc.pred)) {
						rowLoaded = true
					}
				}
			}
		}
	}
	if rowLoaded {
		g.defineFindAllRowAt(list, ct, kmax)
		rk := a.regKey(list) + "@" + ct + "+" + strconv.FormatInt(kmax, 10)
		g.le(key, "fa0("+rk+")", 0)
	}
	g.defineLen(list.Call.Args[1], 1)
	g.le(key, "len("+a.regKey(list.Call.Args[1])+")", 0)
	// lower bound: the smallest initial constant or 0
	lo := int64(0)
	for i, e := range ph.Edges {
		if !hdr.Dominates(hdr.Preds[i]) {
			if c, ok := constInt(e); ok && c < lo {
				lo = c
			}
		}
	}
	g.le(zeroTerm, key, -lo)
}

var _ = sort.Strings
var _ = strings.TrimSpace

// readOnlyRow: the row value (or a phi it flows into) is only indexed for loads, measured or compared.
func readOnlyRow(v ssa.Value, seen map[ssa.Value]bool) bool {
	if seen[v] {
		return true
	}
	seen[v] = true
	for _, r3 := range *v.Referrers() {
		switch z := r3.(type) {
		case *ssa.IndexAddr:
			for _, r4 := range *z.Referrers() {
				if u2, ok := r4.(*ssa.UnOp); !ok || u2.Op != token.MUL {
					if _, dbg := r4.(*ssa.DebugRef); !dbg {
						return false
					}
				}
			}
		case *ssa.BinOp, *ssa.DebugRef:
		case *ssa.Phi:
			if !readOnlyRow(z, seen) {
				return false
			}
		case *ssa.Call:
			if bi, ok := z.Call.Value.(*ssa.Builtin); !ok || bi.Name() != "len" {
				return false
			}
		default:
			return false
		}
	}
	return true
}

// phiOfRows: ph merges nil and rows of one FindAll result (possibly through itself): that result.
func phiOfRows(ph *ssa.Phi, seen map[ssa.Value]bool) *ssa.Call {
	if seen[ph] {
		return nil
	}
	seen[ph] = true
	var list *ssa.Call
	for _, e := range ph.Edges {
		if e == ssa.Value(ph) {
			continue
		}
		if c, ok := e.(*ssa.Const); ok && c.IsNil() {
			continue
		}
		var c *ssa.Call
		if p2, ok := e.(*ssa.Phi); ok {
			c = phiOfRows(p2, seen)
			if c == nil && !seen[p2] {
				return nil
			}
			if c == nil {
				continue
			}
		} else if rc, _, ok := rowOf(e); ok {
			c = rc
		} else {
			return nil
		}
		if list != nil && list != c {
			return nil
		}
		list = c
	}
	return list
}
