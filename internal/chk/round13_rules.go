package chk

import (
	"fmt"
	"go/types"
	"sort"
	"strings"

	"golang.org/x/tools/go/ssa"
)

// Rules added after the thirteenth round of seeded changes.

// ---- E13-I16 running state handed to a helper is reset together (C01/r13) ---------------------------------------------
// A reader keeps the state that runs across the lines of one cue (the emphasis that is open, the colours of the open
// <font> tags) in variables declared before its main loop, hands them to a helper that updates them, and starts them
// afresh where a new cue starts.  A second piece of such state that is handed to the same helper but is not started
// afresh there carries what one cue left into the next.  Rule: among the arguments of one call inside the main loop
// through which the callee writes and that live across iterations, either none is ever re-initialised inside the loop,
// or all of them are, in the same blocks.
func ruleRunningStateResetTogether(names ...string) func(p *Prog, l *Ledger, tier string) {
	return func(p *Prog, l *Ledger, tier string) {
		const rule = "E13.I16-running-state-reset-together"
		eff := ComputeEffects(p)
		n := 0
		for _, name := range names {
			fn := anchor(p, l, rule, name)
			if fn == nil {
				continue
			}
			for _, li := range loopsOf(fn) {
				for b := range li.blocks {
					for _, ins := range b.Instrs {
						call, ok := ins.(*ssa.Call)
						if !ok {
							continue
						}
						callee := call.Call.StaticCallee()
						if callee == nil || fnPkg(callee) != p.LibSSA || len(callee.Blocks) == 0 {
							continue
						}
						sum := eff.Sum[callee]
						if sum == nil {
							continue
						}
						written := map[int]bool{}
						for _, ef := range sum.Effects {
							base := rootBase(ef.Root)
							if strings.HasPrefix(base, "P") {
								k := 0
								if _, err := fmt.Sscanf(base, "P%d", &k); err == nil {
									written[k] = true
								}
							}
						}
						type st struct {
							arg    ssa.Value
							resets []*ssa.BasicBlock
						}
						var states []st
						for k, arg := range call.Call.Args {
							if !written[k] {
								continue
							}
							if _, isPtr := arg.Type().Underlying().(*types.Pointer); !isPtr {
								continue
							}
							resets, carried := stateResets(arg, li)
							if carried {
								states = append(states, st{arg, resets})
							}
						}
						if len(states) < 2 {
							continue
						}
						n++
						key := l.Key(rule, name, "call", FnName(callee))
						// the reference: the state with the most reset blocks
						sort.SliceStable(states, func(i, j int) bool { return len(states[i].resets) > len(states[j].resets) })
						ref := states[0]
						bad := ""
						for _, s := range states[1:] {
							for _, rb := range ref.resets {
								found := false
								for _, sb := range s.resets {
									if sb == rb {
										found = true
									}
								}
								if !found {
									bad = fmt.Sprintf("%s hands %s and %s to %s, which updates both from one line to the next; %s is started afresh at %s and %s is not: what it holds at the end of one cue is still there for the next", name, descOf(ref.arg), descOf(s.arg), FnName(callee), descOf(ref.arg), blockPos(p, rb), descOf(s.arg))
								}
							}
						}
						if bad != "" {
							l.Fail(rule, name, key, p.Pos(call.Pos()), bad)
						} else {
							l.Prove(rule, name, key, p.Pos(call.Pos()), fmt.Sprintf("%d pieces of running state handed to %s, re-initialised in the same blocks", len(states), FnName(callee)))
						}
					}
				}
			}
		}
		if n == 0 {
			l.Prove(rule, strings.Join(names, ","), rule+"|none", "", "no call inside a loop of "+strings.Join(names, ", ")+" receives two or more pieces of state that live across iterations and that the callee writes through")
		}
	}
}

// stateResets: arg is state that lives across the iterations of loop li – the address of a variable declared outside
// the loop, or a pointer carried round the loop by a phi of its header.  Returns the blocks of the loop where it is
// started afresh (a store into the variable; a fresh object entering the phi).
func stateResets(arg ssa.Value, li *loopInfo) ([]*ssa.BasicBlock, bool) {
	switch x := arg.(type) {
	case *ssa.Alloc:
		if li.blocks[x.Block()] {
			return nil, false // made anew on every trip
		}
		var out []*ssa.BasicBlock
		for _, r := range *x.Referrers() {
			if s, ok := r.(*ssa.Store); ok && s.Addr == ssa.Value(x) && li.blocks[s.Block()] {
				out = append(out, s.Block())
			}
		}
		return out, true
	case *ssa.Phi:
		// find the header phi it comes from
		seen := map[ssa.Value]bool{}
		var out []*ssa.BasicBlock
		carried := false
		var walk func(v ssa.Value)
		walk = func(v ssa.Value) {
			if seen[v] {
				return
			}
			seen[v] = true
			switch y := v.(type) {
			case *ssa.Phi:
				if y.Block() == li.header {
					carried = true
				}
				if !li.blocks[y.Block()] {
					return
				}
				for _, e := range y.Edges {
					walk(e)
				}
			case *ssa.Alloc:
				if li.blocks[y.Block()] {
					out = append(out, y.Block())
				}
			}
		}
		walk(x)
		return out, carried
	case *ssa.UnOp:
		// a pointer held in a local cell declared outside the loop (var sa = &T{} captured or address-taken)
		if al, ok := x.X.(*ssa.Alloc); ok && !li.blocks[al.Block()] {
			return stateResets(al, li)
		}
	}
	return nil, false
}

// ---- E13-I17 a value remembered across the trips of a loop is forgotten when what it was built from changes (C02/r13) --
// A parser may keep, from one token to the next, something it derived from its running state (a snapshot of the open
// tags shared by consecutive text runs) and rebuild it only when it is missing.  Every change of the state it was
// derived from has to make it missing again; a change that does not (the pop of a closing tag, when only the push of an
// opening tag resets the snapshot) leaves text that follows reported under the stale snapshot.
//
// Rule, for every pointer-typed variable carried round a loop by a phi of its header that is rebuilt under a test of
// its own nil-ness: D = the struct fields loaded in the region that rebuilds it.  For every block of the loop that stores
// into a field of D (itself, or through a library callee whose effects name the field), no path from that block back
// to the header may carry the old value of the variable.
func ruleDerivedCacheInvalidated(scope func(p *Prog, l *Ledger, rule string) []*ssa.Function) func(p *Prog, l *Ledger, tier string) {
	return func(p *Prog, l *Ledger, tier string) {
		const rule = "E13.I17-derived-cache-invalidated"
		eff := ComputeEffects(p)
		caches := 0
		for _, fn := range scope(p, l, rule) {
			if fnPkg(fn) != p.LibSSA {
				continue
			}
			name := FnName(fn)
			for _, li := range loopsOf(fn) {
				for _, ins := range li.header.Instrs {
					c, ok := ins.(*ssa.Phi)
					if !ok {
						break
					}
					if _, isPtr := c.Type().Underlying().(*types.Pointer); !isPtr {
						continue
					}
					// the web of phis that carry the variable inside the loop
					web := map[ssa.Value]bool{c: true}
					for changed := true; changed; {
						changed = false
						for b := range li.blocks {
							for _, i2 := range b.Instrs {
								ph, ok := i2.(*ssa.Phi)
								if !ok {
									break
								}
								if web[ph] {
									continue
								}
								for _, e := range ph.Edges {
									if web[e] {
										web[ph] = true
										changed = true
									}
								}
							}
						}
					}
					// rebuilt under c == nil (or a web value == nil): the region dominated by the nil edge
					var region []*ssa.BasicBlock
					for b := range li.blocks {
						iff, ok := b.Instrs[len(b.Instrs)-1].(*ssa.If)
						if !ok {
							continue
						}
						bo, ok := iff.Cond.(*ssa.BinOp)
						if !ok {
							continue
						}
						var tested ssa.Value
						if isNilConst(bo.Y) {
							tested = bo.X
						} else if isNilConst(bo.X) {
							tested = bo.Y
						}
						if tested == nil || !web[tested] {
							continue
						}
						ns := nilSide(b)
						if ns < 0 {
							continue
						}
						head := b.Succs[ns]
						if len(head.Preds) != 1 {
							continue
						}
						for x := range li.blocks {
							if head.Dominates(x) {
								region = append(region, x)
							}
						}
					}
					if len(region) == 0 {
						continue
					}
					// something fresh must be built there and flow into the web
					fresh := false
					for _, rb := range region {
						for _, i2 := range rb.Instrs {
							if al, ok := i2.(*ssa.Alloc); ok && al.Heap {
								for b := range li.blocks {
									for _, i3 := range b.Instrs {
										if ph, ok := i3.(*ssa.Phi); ok && web[ph] {
											for _, e := range ph.Edges {
												if e == ssa.Value(al) {
													fresh = true
												}
											}
										}
									}
								}
							}
						}
					}
					if !fresh {
						continue
					}
					deps := strset{}
					for _, rb := range region {
						for _, i2 := range rb.Instrs {
							if v, ok := i2.(ssa.Value); ok {
								if t, f, base := loadedField(v); base != nil && f != "" {
									if _, isPar := p.rootValue(fn, base).(*ssa.Parameter); isPar {
										deps.add(t + "." + f)
									}
								}
							}
						}
					}
					if len(deps) == 0 {
						continue
					}
					caches++
					// blocks of the loop that change a field of D
					type chg struct {
						b     *ssa.BasicBlock
						pos   string
						field string
					}
					var changes []chg
					for b := range li.blocks {
						inRegion := false
						for _, rb := range region {
							if rb == b {
								inRegion = true
							}
						}
						if inRegion {
							continue
						}
						for _, i2 := range b.Instrs {
							switch y := i2.(type) {
							case *ssa.Store:
								if t, f := fieldOfAddr(y.Addr); f != "" && deps[t+"."+f] {
									changes = append(changes, chg{b, p.Pos(y.Pos()), t + "." + f})
								}
							case *ssa.Call:
								if sc := y.Call.StaticCallee(); sc != nil && fnPkg(sc) == p.LibSSA {
									if sum := eff.Sum[sc]; sum != nil {
										for _, ef := range sum.Effects {
											if deps[ef.Loc] && strings.HasPrefix(rootBase(ef.Root), "P") {
												changes = append(changes, chg{b, p.Pos(y.Pos()), ef.Loc})
											}
										}
									}
								}
							}
						}
					}
					sort.Slice(changes, func(i, j int) bool { return changes[i].pos < changes[j].pos })
					key := l.Key(rule, name, "cache", c.Comment)
					stale := ""
					for _, ch := range changes {
						// walk forward from the changing block: does the old value reach the header?
						seen := map[*ssa.BasicBlock]bool{}
						var walk func(b *ssa.BasicBlock) bool
						walk = func(b *ssa.BasicBlock) bool {
							for _, s := range b.Succs {
								if !li.blocks[s] {
									continue
								}
								// the value the variable takes on this edge, if s merges it
								reassigned := false
								for _, i2 := range s.Instrs {
									ph, ok := i2.(*ssa.Phi)
									if !ok {
										break
									}
									if !web[ph] {
										continue
									}
									for k, pb := range s.Preds {
										if pb == b && !web[ph.Edges[k]] {
											reassigned = true
										}
									}
								}
								if reassigned {
									continue
								}
								if s == li.header {
									return true
								}
								if seen[s] {
									continue
								}
								seen[s] = true
								if walk(s) {
									return true
								}
							}
							return false
						}
						if walk(ch.b) {
							stale = fmt.Sprintf("%s keeps %s from one trip of the loop to the next and rebuilds it from %s only when it is nil; %s changes at %s and the remembered value survives on a path back to the head of the loop: what is built afterwards still reflects the old %s", name, c.Comment, strings.Join(deps.sorted(), ", "), ch.field, ch.pos, ch.field)
							break
						}
					}
					if stale != "" {
						l.Fail(rule, name, key, p.Pos(c.Pos()), stale)
					} else {
						l.Prove(rule, name, key, p.Pos(c.Pos()), fmt.Sprintf("%s is rebuilt from %s when nil, and each of the %d changes of those fields in the loop resets it on every path", c.Comment, strings.Join(deps.sorted(), ", "), len(changes)))
					}
				}
			}
		}
		if caches == 0 {
			l.Prove(rule, "", rule+"|none", "", "no loop of the functions in scope keeps a value derived from its state from one trip to the next under a nil test")
		}
	}
}

// ---- E3g a digit computed as '0' + v/10^k needs v < 10^(k+1) (C03/r13) -----------------------------------------------
// A timestamp formatter that writes a field digit by digit ('0'+v/10, '0'+v%10) writes a byte that is not a digit as
// soon as v has more digits than the code provides for.  Minutes and seconds are remainders and fit; hours are a plain
// quotient of the instant and do not (a cue at 100 h is written ":0:00:00").  Rule: in the closure of the writers, for
// every byte computed as '0' + v/10^k where v/10^k is not itself reduced modulo 10, v is bounded below 10^(k+1) by the
// way it is computed (a remainder by M divided by U with M/U ≤ 10^(k+1)), at every call site when v is a parameter.
func ruleLeadingDigitBounded(p *Prog, l *Ledger, tier string) {
	const rule = "E3g.leading-digit-bounded"
	scope := p.WriterClosure(l, rule)
	inScope := map[*ssa.Function]bool{}
	for _, f := range scope {
		inScope[f] = true
	}
	var bound func(v ssa.Value, depth int) (int64, bool)
	bound = func(v ssa.Value, depth int) (int64, bool) { // exclusive upper bound for non-negative instants
		if depth > 6 {
			return 0, false
		}
		switch x := v.(type) {
		case *ssa.Convert:
			return bound(x.X, depth+1)
		case *ssa.ChangeType:
			return bound(x.X, depth+1)
		case *ssa.Const:
			if c, ok := constInt(x); ok && c >= 0 {
				return c + 1, true
			}
		case *ssa.BinOp:
			switch x.Op.String() {
			case "%":
				if m, ok := constInt(x.Y); ok && m > 0 {
					return m, true
				}
			case "/":
				if u, ok := constInt(x.Y); ok && u > 0 {
					if b, ok := bound(x.X, depth+1); ok {
						return (b + u - 1) / u, true
					}
				}
			}
		case *ssa.Parameter:
			fn := x.Parent()
			k := -1
			for i, q := range fn.Params {
				if q == x {
					k = i
				}
			}
			worst := int64(0)
			sites := 0
			for _, caller := range scope {
				for _, b := range caller.Blocks {
					for _, ins := range b.Instrs {
						c, ok := ins.(ssa.CallInstruction)
						if !ok || c.Common().StaticCallee() != fn || k < 0 || k >= len(c.Common().Args) {
							continue
						}
						sites++
						bb, ok := bound(c.Common().Args[k], depth+1)
						if !ok {
							return 0, false
						}
						if bb > worst {
							worst = bb
						}
					}
				}
			}
			if sites > 0 {
				return worst, true
			}
		}
		return 0, false
	}
	n := 0
	for _, fn := range scope {
		if fnPkg(fn) != p.LibSSA {
			continue
		}
		name := FnName(fn)
		for _, b := range fn.Blocks {
			for _, ins := range b.Instrs {
				add, ok := ins.(*ssa.BinOp)
				if !ok || add.Op.String() != "+" {
					continue
				}
				var q ssa.Value
				if c, ok := constInt(add.X); ok && c == '0' {
					q = add.Y
				} else if c, ok := constInt(add.Y); ok && c == '0' {
					q = add.X
				}
				if q == nil {
					continue
				}
				for {
					if cv, ok := q.(*ssa.Convert); ok {
						q = cv.X
						continue
					}
					break
				}
				div, ok := q.(*ssa.BinOp)
				if !ok || div.Op.String() != "/" {
					continue // '0' + v%10 and '0' + v are digits when v is: judged through the quotient that goes with them
				}
				pow, ok := constInt(div.Y)
				if !ok || pow < 10 {
					continue
				}
				n++
				key := l.Key(rule, name, "digit", descOf(div.X))
				limit := pow * 10
				if bb, ok := bound(div.X, 0); ok && bb <= limit {
					l.Prove(rule, name, key, p.Pos(add.Pos()), fmt.Sprintf("%s < %d at every call site: %s/%d is one digit", descOf(div.X), bb, descOf(div.X), pow))
				} else {
					l.Fail(rule, name, key, p.Pos(add.Pos()), fmt.Sprintf("%s writes the byte '0' + %s/%d, and %s is not bounded below %d by the way it is computed (a plain quotient of the instant, such as the hours, grows without limit): from %d on the byte written is not a digit and the timestamp denotes another instant, or none", name, descOf(div.X), pow, descOf(div.X), limit, limit))
				}
			}
		}
	}
	if n == 0 {
		l.Prove(rule, "", rule+"|none", "", "no digit of a written timestamp is computed as '0' + v/10^k in the closure of the writers")
	}
}

// ---- E13-I18 a field derived from another field of the object under construction is computed last (C05/r13) ----------
// A constructor that stores into field A something computed from field B of the same new object, and assigns B again
// further down (the defaults first, then what the caller's metadata says), leaves A describing a B that is gone: the STL
// writer then clamps the vertical positions of open subtitles as if they were teletext rows.  Rule: in a function that
// allocates an object, no store into a field B of that object is reachable from a store into another field A whose
// value was computed from a load of B.
func ruleDerivedFieldComputedLast(scope func(p *Prog, l *Ledger, rule string) []*ssa.Function) func(p *Prog, l *Ledger, tier string) {
	return func(p *Prog, l *Ledger, tier string) {
		const rule = "E13.I18-derived-field-computed-last"
		n := 0
		for _, fn := range scope(p, l, rule) {
			if fnPkg(fn) != p.LibSSA {
				continue
			}
			name := FnName(fn)
			// stores into fields of objects allocated here
			type fs struct {
				st    *ssa.Store
				obj   *ssa.Alloc
				field int
			}
			var stores []fs
			for _, b := range fn.Blocks {
				for _, ins := range b.Instrs {
					st, ok := ins.(*ssa.Store)
					if !ok {
						continue
					}
					fa, ok := st.Addr.(*ssa.FieldAddr)
					if !ok {
						continue
					}
					al, ok := fa.X.(*ssa.Alloc)
					if !ok || !al.Heap {
						continue
					}
					stores = append(stores, fs{st, al, fa.Field})
				}
			}
			for _, a := range stores {
				// fields of the same object the stored value is computed from
				from := map[int]*ssa.UnOp{}
				seen := map[ssa.Value]bool{}
				var walk func(v ssa.Value, depth int)
				walk = func(v ssa.Value, depth int) {
					if v == nil || seen[v] || depth > 8 {
						return
					}
					seen[v] = true
					if u, ok := v.(*ssa.UnOp); ok {
						if fa, ok := u.X.(*ssa.FieldAddr); ok && fa.X == ssa.Value(a.obj) && fa.Field != a.field {
							from[fa.Field] = u
						}
						return
					}
					switch v.(type) {
					case *ssa.Phi, *ssa.BinOp, *ssa.Convert, *ssa.ChangeType, *ssa.Call, *ssa.Extract, *ssa.MakeInterface:
						for _, op := range v.(ssa.Instruction).Operands(nil) {
							if *op != nil {
								walk(*op, depth+1)
							}
						}
					}
				}
				walk(a.st.Val, 0)
				for bf, ld := range from {
					n++
					key := l.Key(rule, name, "derived", fieldName(a.obj.Type(), a.field)+"<-"+fieldName(a.obj.Type(), bf))
					var late *ssa.Store
					for _, b := range stores {
						if b.obj == a.obj && b.field == bf && instrReaches(a.st, b.st) && b.st != a.st {
							late = b.st
						}
					}
					if late != nil {
						l.Fail(rule, name, key, p.Pos(a.st.Pos()), fmt.Sprintf("%s computes %s of the object it builds from its %s (read at %s) and assigns %s again afterwards at %s: %s then describes a value that is gone", name, fieldName(a.obj.Type(), a.field), fieldName(a.obj.Type(), bf), p.Pos(ld.Pos()), fieldName(a.obj.Type(), bf), p.Pos(late.Pos()), fieldName(a.obj.Type(), a.field)))
					} else {
						l.Prove(rule, name, key, p.Pos(a.st.Pos()), "no later store into the field it is derived from")
					}
				}
			}
		}
		if n == 0 {
			l.Prove(rule, "", rule+"|none", "", "no field of an object under construction is computed from another field of that object")
		}
	}
}

func scopeAllLib(p *Prog, l *Ledger, rule string) []*ssa.Function { return p.LibFns }
