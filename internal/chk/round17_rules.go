package chk

import (
	"fmt"

	"golang.org/x/tools/go/ssa"
)

// Rules added after the seventeenth round of seeded changes.

// ---- E13-I20 a pending value is forgotten once a cue has taken it (C02/r17) -------------------------------------------
// ReadFromWebVTT remembers the numeric identifier line in a variable carried round the scanner loop and hands it to
// the next cue.  Identifier lines are optional: on the path that has stored the variable into a new Item it has to be
// given a fresh value (zero) before the loop goes round, or the next cue without an identifier inherits the number
// of an earlier one.  Rule: no value that goes back to the loop header from a block the consuming store dominates
// is the carried variable itself.
func rulePendingValueForgotten(p *Prog, l *Ledger, tier string) {
	const rule = "E13.I20-pending-value-forgotten"
	const name = "ReadFromWebVTT"
	fn := anchor(p, l, rule, name)
	if fn == nil {
		return
	}
	loops := loopsOf(fn)
	n := 0
	for _, b := range fn.Blocks {
		for _, ins := range b.Instrs {
			st, ok := ins.(*ssa.Store)
			if !ok {
				continue
			}
			fa, ok := st.Addr.(*ssa.FieldAddr)
			if !ok || fieldName(fa.X.Type(), fa.Field) != "Index" || !isPtrToNamed(fa.X.Type(), "Item") {
				continue
			}
			ph, ok := stripConv(st.Val).(*ssa.Phi)
			if !ok {
				continue
			}
			var li *loopInfo
			for _, lp := range loops {
				if lp.header == ph.Block() {
					li = lp
				}
			}
			if li == nil {
				continue
			}
			n++
			key := l.Key(rule, name, "Item.Index", phiName(ph))
			// may v, flowing along an edge out of pred, be the carried variable unchanged?
			var stale func(v ssa.Value, pred *ssa.BasicBlock, seen map[ssa.Value]bool) bool
			stale = func(v ssa.Value, pred *ssa.BasicBlock, seen map[ssa.Value]bool) bool {
				if v == ssa.Value(ph) {
					return b == pred || b.Dominates(pred)
				}
				q, ok := v.(*ssa.Phi)
				if !ok || seen[q] || !li.blocks[q.Block()] {
					return false
				}
				seen[q] = true
				for k, e := range q.Edges {
					if stale(e, q.Block().Preds[k], seen) {
						return true
					}
				}
				return false
			}
			// what the variable may be given inside the loop: itself, zero, or the number parsed from a line
			var foreign func(v ssa.Value, seen map[ssa.Value]bool) ssa.Value
			foreign = func(v ssa.Value, seen map[ssa.Value]bool) ssa.Value {
				if v == ssa.Value(ph) || seen[v] {
					return nil
				}
				seen[v] = true
				switch x := v.(type) {
				case *ssa.Const:
					if z, ok := constInt(x); ok && z == 0 {
						return nil
					}
					return v
				case *ssa.Phi:
					for _, e := range x.Edges {
						if w := foreign(e, seen); w != nil {
							return w
						}
					}
					return nil
				case *ssa.Extract:
					if c, ok := x.Tuple.(*ssa.Call); ok && x.Index == 0 {
						switch calleeName(&c.Call) {
						case "strconv.Atoi", "strconv.ParseInt", "strconv.ParseUint":
							return nil
						}
					}
					return v
				case *ssa.Convert:
					return foreign(x.X, seen)
				}
				return v
			}
			bad := false
			var other ssa.Value
			for k, e := range ph.Edges {
				pred := ph.Block().Preds[k]
				if !li.blocks[pred] {
					continue
				}
				if stale(e, pred, map[ssa.Value]bool{}) {
					bad = true
				}
				if w := foreign(e, map[ssa.Value]bool{}); w != nil && other == nil {
					other = w
				}
			}
			if other != nil {
				l.Fail(rule, name, key+"|foreign", p.Pos(st.Pos()), fmt.Sprintf("%s: the pending identifier %s, which the next cue takes as its number, is also given a value that is neither zero nor the number parsed from an identifier line (%s, at %s): a loop counter or a length written into it (an inner loop that lost its own variable) becomes the identifier of the next cue that has none", name, phiName(ph), descOf(other), p.Pos(other.Pos())))
				continue
			}
			if bad {
				l.Fail(rule, name, key, p.Pos(st.Pos()), fmt.Sprintf("%s stores the pending identifier %s into the new cue and lets it go round the loop unchanged: a later cue that has no identifier line of its own is given the number of this one", name, phiName(ph)))
			} else {
				l.Prove(rule, name, key, p.Pos(st.Pos()), "after the pending identifier has been stored into a cue, every way back to the head of the loop carries a fresh value")
			}
		}
	}
	if n == 0 {
		l.Prove(rule, name, rule+"|none", p.Pos(fn.Pos()), "no identifier carried round the scanner loop is stored into Item.Index")
	}
}

// ---- E12-G18 the STL styler hands on only what it has seen (C05/r17) --------------------------------------------------
// A styler carries the attributes set by the control codes met so far (one code per styler in the row parsers); nil
// means "not seen".  update copies boxing, italics and underline into the run's attributes: a store of a nil pointer
// wipes an attribute that an earlier code of the same row switched on.  Rule: every pointer stored by
// stlStyler.update into an STL… field of the attributes is non-nil where it is stored.
func ruleSTLStylerUpdatesSeenOnly(p *Prog, l *Ledger, tier string) {
	const rule = "E12.G18-stl-styler-updates-seen-only"
	const name = "stlStyler.update"
	fn := anchor(p, l, rule, name)
	if fn == nil {
		return
	}
	a := NewNilAnalysis(p)
	n := 0
	for _, b := range fn.Blocks {
		for _, ins := range b.Instrs {
			st, ok := ins.(*ssa.Store)
			if !ok {
				continue
			}
			fa, ok := st.Addr.(*ssa.FieldAddr)
			if !ok || !isPtrToNamed(fa.X.Type(), "StyleAttributes") {
				continue
			}
			f := fieldName(fa.X.Type(), fa.Field)
			if len(f) < 3 || f[:3] != "STL" {
				continue
			}
			n++
			key := l.Key(rule, name, f, "")
			if a.nonNil(fn, st.Val, a.at[ins]) {
				l.Prove(rule, name, key, p.Pos(st.Pos()), f+" receives a value the styler has seen (non-nil where it is stored)")
			} else {
				l.Fail(rule, name, key, p.Pos(st.Pos()), fmt.Sprintf("%s stores a possibly-nil pointer into %s: a styler that has not met a code for this attribute (one styler per control code in the row parsers) wipes what an earlier code of the row switched on, and a run that is both boxed and italic comes back with one of the two", name, f))
			}
		}
	}
	l.Min(rule, n, 3)
}
