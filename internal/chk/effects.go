package chk

import (
	"fmt"
	"go/token"
	"go/types"
	"sort"
	"strings"
	"sync"

	"golang.org/x/tools/go/ssa"
)

// E5 effects: interprocedural mod-sets with root classification (DESIGN.md §3 E5).
//
// roots(v)  = set of non-fresh memory regions v may point into: "P<k>" (reachable from the k-th
//             parameter on entry), "FV<k>" (free variable), "G:<pkg.name>" (package-level
//             variable), "U" (unknown).
// cells(v)  = set of allocation sites of this activation v may point into (fresh memory).
// content   = per fresh cell, the roots / cells of everything ever stored into it.

// cell is a fresh allocation site plus a field path inside it (field-sensitive up to maxPath).
type cell struct {
	v    ssa.Value
	path string
}

const maxPathDepth = 4

func (c cell) sub(comp string) cell {
	if strings.HasSuffix(c.path, "*") {
		return c
	}
	if strings.Count(c.path, ".") >= maxPathDepth {
		return cell{c.v, c.path + ".*"}
	}
	return cell{c.v, c.path + "." + comp}
}

// related: one designates a sub-object (or enclosing object) of the other.
func related(a, b cell) bool {
	if a.v != b.v {
		return false
	}
	pa, pb := strings.TrimSuffix(a.path, ".*"), strings.TrimSuffix(b.path, ".*")
	if pa == pb {
		return true
	}
	if len(pa) < len(pb) {
		return strings.HasPrefix(pb, pa+".") || pa == ""
	}
	return strings.HasPrefix(pa, pb+".") || pb == ""
}

type cellset map[cell]bool

func (s cellset) addAll(o cellset) bool {
	ch := false
	for k := range o {
		if !s[k] {
			s[k] = true
			ch = true
		}
	}
	return ch
}

// Effect is a possible write to non-fresh memory.
type Effect struct {
	Root string // P<k>, FV<k>, G:..., U, CBP<k>
	Loc  string // field "T.f", "elem(T)", "deref(T)", "map(owner)", "mapdelete(owner)", "permute(T)", "io(callee)", ...
	CT   string // type of the memory object written ("" = untyped effect); used to discard type-impossible roots
	Pos  token.Pos
	Fn   string // function containing the writing instruction
	Via  string // call chain suffix (callee names) from the summarised function to Fn
	Val  strset // roots of the stored value (for stores into parameters' memory)
	ValT strset // static types of the stored values ("" = unknown)
}

func (e *Effect) key() string { return e.Root + "|" + e.Loc }

type Summary struct {
	Effects     map[string]*Effect
	RetDirect   strset  // roots the returned reference itself may point into
	RetFresh    bool    // may return freshly allocated memory
	RetContent  strset  // roots storable inside returned fresh memory (informational)
	RetCells    cellset // allocation sites (of this function or its callees) that may be returned
	GlobalsRead strset
	Unknown     strset // unknown external callees met (notes)
}

func newSummary() *Summary {
	return &Summary{Effects: map[string]*Effect{}, RetDirect: strset{}, RetContent: strset{}, RetCells: cellset{}, GlobalsRead: strset{}, Unknown: strset{}}
}

type Effects struct {
	p           *Prog
	Sum         map[*ssa.Function]*Summary
	st          map[*ssa.Function]*fnState
	trCache     map[string]*trEntry
	mtCache     map[string]*trEntry
	boxedOnce   sync.Once
	boxedSet    strset
	boxedOpen   bool
	vtypes      map[string]types.Type
	globalTypes map[string]types.Type
}

type fnState struct {
	fn          *ssa.Function
	roots       map[ssa.Value]strset
	cells       map[ssa.Value]cellset
	content     map[cell]strset
	cellContent map[cell]cellset
	pc          map[string]strset  // non-fresh region content: "<base>|<loc>" → roots stored there by this activation
	pcCells     map[string]cellset // ... and fresh cells stored there
	vtypes      map[string]types.Type
	ctype       map[cell]map[string]strset // per cell and stored root: static types of the stored values ("" = unknown)
	byBase      map[ssa.Value][]cell       // all cells ever written, per allocation site
	changed     bool
}

func isRefType(t types.Type) bool {
	return isRefTypeD(t, 0)
}

func isRefTypeD(t types.Type, d int) bool {
	if d > 6 {
		return true
	}
	switch u := t.Underlying().(type) {
	case *types.Pointer, *types.Slice, *types.Map, *types.Chan, *types.Signature, *types.Interface:
		return true
	case *types.Struct:
		for i := 0; i < u.NumFields(); i++ {
			if isRefTypeD(u.Field(i).Type(), d+1) {
				return true
			}
		}
	case *types.Array:
		return isRefTypeD(u.Elem(), d+1)
	case *types.Tuple:
		for i := 0; i < u.Len(); i++ {
			if isRefTypeD(u.At(i).Type(), d+1) {
				return true
			}
		}
	}
	return false
}

// ComputeEffects runs the analysis over all in-scope functions to a fixpoint.
func ComputeEffects(p *Prog) *Effects {
	if p.eff != nil {
		return p.eff
	}
	e := &Effects{p: p, Sum: map[*ssa.Function]*Summary{}, st: map[*ssa.Function]*fnState{}, trCache: map[string]*trEntry{}, mtCache: map[string]*trEntry{}, vtypes: map[string]types.Type{}, globalTypes: map[string]types.Type{}}
	for _, pk := range p.SSA.AllPackages() {
		for _, m := range pk.Members {
			if g, ok := m.(*ssa.Global); ok {
				if pt, ok := g.Type().Underlying().(*types.Pointer); ok {
					e.globalTypes[globalName(g)] = pt.Elem()
				}
			}
		}
	}
	fns := append(append(append([]*ssa.Function{}, p.LibFns...), p.CLIFns...), p.Wrappers...)
	for _, fn := range fns {
		e.Sum[fn] = newSummary()
		e.st[fn] = &fnState{fn: fn, roots: map[ssa.Value]strset{}, cells: map[ssa.Value]cellset{}, content: map[cell]strset{}, cellContent: map[cell]cellset{}, byBase: map[ssa.Value][]cell{}, ctype: map[cell]map[string]strset{}, vtypes: e.vtypes, pc: map[string]strset{}, pcCells: map[string]cellset{}}
	}
	for iter := 0; iter < 50; iter++ {
		changed := false
		for _, fn := range fns {
			if e.analyze(fn) {
				changed = true
			}
		}
		if !changed {
			break
		}
	}
	p.eff = e
	return e
}

func (s *fnState) R(v ssa.Value) strset {
	r := s.roots[v]
	if r == nil {
		r = strset{}
		s.roots[v] = r
	}
	return r
}
func (s *fnState) C(v ssa.Value) cellset {
	c := s.cells[v]
	if c == nil {
		c = cellset{}
		s.cells[v] = c
	}
	return c
}
func (s *fnState) addRoots(v ssa.Value, r strset) {
	if len(r) == 0 {
		return
	}
	if s.R(v).addAll(r) {
		s.changed = true
	}
}
func (s *fnState) addRoot(v ssa.Value, r string) {
	if s.R(v).add(r) {
		s.changed = true
	}
}
func (s *fnState) addCells(v ssa.Value, c cellset) {
	if len(c) == 0 {
		return
	}
	if s.C(v).addAll(c) {
		s.changed = true
	}
}
func (s *fnState) addCell(v ssa.Value, cv ssa.Value) {
	c := cell{cv, ""}
	cs := s.C(v)
	if !cs[c] {
		cs[c] = true
		s.changed = true
	}
}
func (s *fnState) inherit(dst, src ssa.Value) {
	s.addRoots(dst, s.roots[src])
	s.addCells(dst, s.cells[src])
}

// rootsIn returns the roots stored in cell rc that can designate an object of type ct ("" = all).
func (s *fnState) rootsIn(rc cell, ct string, e *Effects) strset {
	if ct == "" || e == nil {
		return s.content[rc]
	}
	out := strset{}
	for r := range s.content[rc] {
		ok := false
		for vt := range s.ctype[rc][r] {
			if vt == "" {
				ok = true
				break
			}
			if e.mayHold(s.vtypes[vt], ct) {
				ok = true
				break
			}
		}
		if ok {
			out.add(r)
		}
	}
	return out
}

// reachCells: roots stored in, and cells reachable from, the given cells (transitively).
func (s *fnState) reachCells(start cellset) (strset, cellset) {
	return s.reachCellsF(start, "", nil)
}

func (s *fnState) reachCellsF(start cellset, ct string, e *Effects) (strset, cellset) {
	r := strset{}
	cs := cellset{}
	var work []cell
	for c := range start {
		cs[c] = true
		work = append(work, c)
	}
	for len(work) > 0 {
		c := work[len(work)-1]
		work = work[:len(work)-1]
		for _, rc := range s.byBase[c.v] {
			if !related(rc, c) {
				continue
			}
			r.addAll(s.rootsIn(rc, ct, e))
			for c2 := range s.cellContent[rc] {
				if !cs[c2] {
					cs[c2] = true
					work = append(work, c2)
				}
			}
		}
	}
	return r, cs
}

// contentOf gathers what may be stored in the given cells (incl. enclosing / nested sub-objects).
func (s *fnState) contentOf(cs cellset) (strset, cellset) {
	return s.contentOfF(cs, "", nil)
}

func (s *fnState) contentOfF(cs cellset, ct string, e *Effects) (strset, cellset) {
	r, out := strset{}, cellset{}
	for c := range cs {
		for _, rc := range s.byBase[c.v] {
			if related(rc, c) {
				r.addAll(s.rootsIn(rc, ct, e))
				out.addAll(s.cellContent[rc])
			}
		}
	}
	return r, out
}

// load models reading a value of reference kind out of memory addressed by addr into dst.
func (s *fnState) load(dst ssa.Value, addr ssa.Value) {
	if !isRefType(dst.Type()) {
		return
	}
	isVal := false
	switch dst.Type().Underlying().(type) {
	case *types.Struct, *types.Array:
		isVal = true
	}
	for r := range s.roots[addr] {
		ri := parseRoot(r)
		if isVal && !ri.deep && !ri.value && ri.field == "" && paramLike(ri.base) {
			s.addRoot(dst, ri.base+"@")
		} else if !isVal && !ri.deep && !ri.value && ri.field == "" && strings.HasPrefix(ri.base, "FV") {
			// the value of a captured variable: exactly one step from its cell, named W<k> so that a
			// write through it is not smeared over everything reachable from the variable
			s.addRoot(dst, "W"+ri.base[2:])
		} else {
			s.addRoot(dst, deepen(r))
		}
	}
	r, c := s.contentOf(s.cells[addr])
	s.addRoots(dst, r)
	s.addCells(dst, c)
	// what this activation itself stored into the non-fresh region being read
	if len(s.roots[addr]) > 0 {
		loc, _ := locOf(addr)
		if _, isMap := addr.Type().Underlying().(*types.Map); isMap {
			loc = "map(" + ownerOf(addr) + ")"
		}
		for r := range s.roots[addr] {
			k := rootBase(r) + "|" + loc
			s.addRoots(dst, s.pc[k])
			s.addCells(dst, s.pcCells[k])
		}
	}
}

// storeRegion remembers that val was stored into non-fresh memory at (base of r, loc).
func (s *fnState) storeRegion(addrRoots strset, loc string, valRoots strset, valCells cellset) {
	if len(valRoots) == 0 && len(valCells) == 0 {
		return
	}
	for r := range addrRoots {
		k := rootBase(r) + "|" + loc
		if s.pc[k] == nil {
			s.pc[k] = strset{}
			s.pcCells[k] = cellset{}
		}
		for v := range valRoots {
			if s.pc[k].add(storedForm(v)) {
				s.changed = true
			}
		}
		if s.pcCells[k].addAll(valCells) {
			s.changed = true
		}
	}
}

func (s *fnState) touch(c cell) {
	if s.content[c] == nil {
		s.content[c] = strset{}
		s.cellContent[c] = cellset{}
		s.ctype[c] = map[string]strset{}
		s.byBase[c.v] = append(s.byBase[c.v], c)
	}
}

// taint marks fresh cells as possibly holding pointers into the given regions.
func (s *fnState) taint(cs cellset, roots strset) {
	for c := range cs {
		s.touch(c)
		for r := range roots {
			s.putContent(c, r, "")
		}
	}
}

// putContent records that a pointer into region r, held in a value of static type vt, may be stored in c.
func (s *fnState) putContent(c cell, r, vt string) {
	if s.content[c].add(r) {
		s.changed = true
	}
	m := s.ctype[c]
	if m[r] == nil {
		m[r] = strset{}
	}
	if m[r].add(vt) {
		s.changed = true
	}
}

// storedForm: the region a stored pointer designates ("B@" values are flattened to "B+",
// transient field addresses "B#f" to the object "B").
func storedForm(r string) string {
	ri := parseRoot(r)
	if ri.value {
		return rootInfo{base: ri.base, deep: true}.String()
	}
	return r
}

// storeCells models writing a value into the fresh cells addressed by addr.
func (s *fnState) storeCells(addr ssa.Value, valRoots strset, valCells cellset, vt types.Type) {
	ts := ""
	if vt != nil {
		ts = typeStr(vt)
		s.vtypes[ts] = vt
	}
	for c := range s.cells[addr] {
		s.touch(c)
		for r := range valRoots {
			s.putContent(c, storedForm(r), ts)
		}
		if s.cellContent[c].addAll(valCells) {
			s.changed = true
		}
	}
}

// subst maps a callee-relative root (about parameter / free variable bound to actual) to the
// caller's roots and fresh cells.
func (s *fnState) subst(ri rootInfo, actual ssa.Value) (strset, cellset) {
	return s.substF(ri, actual, "", nil)
}

// substF is subst restricted to regions that can hold an object of type ct.
func (s *fnState) substF(ri rootInfo, actual ssa.Value, ct string, e *Effects) (strset, cellset) {
	return s.substFS(ri, s.roots[actual], s.cells[actual], ct, e)
}

// cellValue: what a load from the (captured variable) cell designated by binding yields.
func (s *fnState) cellValue(binding ssa.Value) (strset, cellset) {
	A := deepenSet(s.roots[binding])
	r, c := s.contentOf(s.cells[binding])
	A.addAll(r)
	for root := range s.roots[binding] {
		t := binding.Type()
		if pt, ok := t.Underlying().(*types.Pointer); ok {
			t = pt.Elem()
		}
		k := rootBase(root) + "|deref(" + typeStr(t) + ")"
		A.addAll(s.pc[k])
		c.addAll(s.pcCells[k])
	}
	return A, c
}

func (s *fnState) substFS(ri rootInfo, A strset, C cellset, ct string, e *Effects) (strset, cellset) {
	outR, outC := strset{}, cellset{}
	if ri.value || (!ri.deep && ri.field == "") {
		outR.addAll(A)
		outC.addAll(C)
		return outR, outC
	}
	if !ri.deep { // address of a field of the direct object
		for a := range A {
			outR.add(withField(a, ri.field))
		}
		for c := range C {
			outC[c.sub(ri.field)] = true
		}
		return outR, outC
	}
	for a := range A {
		pa := parseRoot(a)
		switch {
		case pa.deep:
			outR.add(a)
		case pa.value:
			outR.add(rootInfo{base: pa.base, field: ri.field, deep: true}.String())
		case pa.field != "":
			outR.add(rootInfo{base: pa.base, field: pa.field, deep: true}.String())
		case ri.field != "" && paramLike(pa.base):
			outR.add(rootInfo{base: pa.base, field: ri.field, deep: true}.String())
		default:
			outR.add(rootInfo{base: pa.base, deep: true}.String())
		}
	}
	start := cellset{}
	for c := range C {
		if ri.field != "" {
			start[c.sub(ri.field)] = true
		} else {
			start[c] = true
		}
	}
	r0, c0 := s.contentOfF(start, ct, e)
	r1, c1 := s.reachCellsF(c0, ct, e)
	r0.addAll(r1)
	for r := range r0 {
		outR.add(effectRoot(r))
		outR.add(deepen(r))
	}
	outC.addAll(c0)
	outC.addAll(c1)
	return outR, outC
}

func typeStr(t types.Type) string {
	return types.TypeString(t, func(p *types.Package) string { return "" })
}

// locOf names the location written through address value a, and the type of the enclosing object.
func locOf(a ssa.Value) (string, string) {
	switch x := a.(type) {
	case *ssa.FieldAddr:
		st := x.X.Type().Underlying().(*types.Pointer).Elem()
		f := st.Underlying().(*types.Struct).Field(x.Field)
		return typeStr(st) + "." + f.Name(), typeStr(st)
	case *ssa.IndexAddr:
		t := x.X.Type()
		if pt, ok := t.Underlying().(*types.Pointer); ok {
			t = pt.Elem()
		}
		return "elem(" + typeStr(t) + ")", typeStr(t)
	case *ssa.Global:
		return "var(" + x.Name() + ")", ""
	}
	t := a.Type()
	if pt, ok := t.Underlying().(*types.Pointer); ok {
		t = pt.Elem()
	}
	return "deref(" + typeStr(t) + ")", typeStr(t)
}

// locsOf: the locations a pointer value can designate. A pointer taken from a local table of
// field addresses ([...]*time.Duration{&i.StartAt, &i.EndAt}) designates those fields, not an
// anonymous deref(T).
func locsOf(a ssa.Value, depth int) [][2]string {
	one := func() [][2]string { l, c := locOf(a); return [][2]string{{l, c}} }
	if depth > 4 {
		return one()
	}
	switch x := a.(type) {
	case *ssa.FieldAddr, *ssa.IndexAddr, *ssa.Global:
		return one()
	case *ssa.Phi:
		var out [][2]string
		seen := map[[2]string]bool{}
		for _, e := range x.Edges {
			for _, l := range locsOf(e, depth+1) {
				if !seen[l] {
					seen[l] = true
					out = append(out, l)
				}
			}
		}
		if len(out) > 0 {
			return out
		}
	case *ssa.UnOp, *ssa.Index:
		var base ssa.Value
		switch y := x.(type) {
		case *ssa.UnOp:
			if y.Op != token.MUL {
				return one()
			}
			ia, ok := y.X.(*ssa.IndexAddr)
			if !ok {
				return one()
			}
			base = ia.X
		case *ssa.Index:
			// element of an array value loaded from a local: t = *alloc; t[i]
			u, ok := y.X.(*ssa.UnOp)
			if !ok || u.Op != token.MUL {
				return one()
			}
			base = u.X
		}
		if sl, ok := base.(*ssa.Slice); ok {
			base = sl.X
		}
		al, ok := base.(*ssa.Alloc)
		if !ok {
			break
		}
		var out [][2]string
		seen := map[[2]string]bool{}
		okAll := true
		for _, ref := range *al.Referrers() {
			ia2, ok := ref.(*ssa.IndexAddr)
			if !ok {
				continue
			}
			for _, r2 := range *ia2.Referrers() {
				st, ok := r2.(*ssa.Store)
				if !ok || st.Addr != ssa.Value(ia2) {
					continue
				}
				switch st.Val.(type) {
				case *ssa.FieldAddr, *ssa.IndexAddr:
					for _, l := range locsOf(st.Val, depth+1) {
						if !seen[l] {
							seen[l] = true
							out = append(out, l)
						}
					}
				default:
					okAll = false
				}
			}
		}
		if okAll && len(out) > 0 {
			return out
		}
	}
	return one()
}

// typeReach is the set of type strings of memory objects reachable from a value of type t;
// open is true when an interface or func makes the set unbounded.
func (e *Effects) typeReach(t types.Type) (strset, bool) {
	key := typeStr(t)
	if r, ok := e.trCache[key]; ok {
		return r.set, r.open
	}
	r := &trEntry{set: strset{}}
	e.trCache[key] = r
	var walk func(t types.Type, d int)
	walk = func(t types.Type, d int) {
		if d > 12 {
			r.open = true
			return
		}
		ts := typeStr(t)
		if r.set[ts] && d > 0 {
			return
		}
		r.set[ts] = true
		switch u := t.Underlying().(type) {
		case *types.Pointer:
			walk(u.Elem(), d+1)
		case *types.Slice:
			walk(u.Elem(), d+1)
		case *types.Array:
			walk(u.Elem(), d+1)
		case *types.Map:
			walk(u.Key(), d+1)
			walk(u.Elem(), d+1)
		case *types.Chan:
			walk(u.Elem(), d+1)
		case *types.Struct:
			for i := 0; i < u.NumFields(); i++ {
				walk(u.Field(i).Type(), d+1)
			}
		case *types.Interface, *types.Signature:
			r.open = true
		}
	}
	walk(t, 0)
	return r.set, r.open
}

// memTypes: type strings of the memory objects a value of type t may point to (transitively),
// i.e. the candidate enclosing-object types (CT) of writes made through such a value.
func (e *Effects) memTypes(t types.Type) (strset, bool) {
	if t == nil {
		return nil, true
	}
	key := typeStr(t)
	if r, ok := e.mtCache[key]; ok {
		return r.set, r.open
	}
	r := &trEntry{set: strset{}}
	e.mtCache[key] = r
	seen := map[string]bool{}
	var val func(t types.Type, d int) // t held as a value
	var obj func(t types.Type, d int) // an object of type t lives in memory
	obj = func(t types.Type, d int) {
		r.set[typeStr(t)] = true
		switch u := t.Underlying().(type) {
		case *types.Struct:
			for i := 0; i < u.NumFields(); i++ {
				switch u.Field(i).Type().Underlying().(type) {
				case *types.Struct, *types.Array:
					obj(u.Field(i).Type(), d+1)
				}
			}
		case *types.Array:
			switch u.Elem().Underlying().(type) {
			case *types.Struct, *types.Array:
				obj(u.Elem(), d+1)
			}
		}
		val(t, d+1)
	}
	val = func(t types.Type, d int) {
		if d > 14 {
			r.open = true
			return
		}
		k := typeStr(t)
		if seen[k] {
			return
		}
		seen[k] = true
		switch u := t.Underlying().(type) {
		case *types.Pointer:
			obj(u.Elem(), d+1)
		case *types.Slice:
			r.set[k] = true
			switch u.Elem().Underlying().(type) {
			case *types.Struct, *types.Array:
				obj(u.Elem(), d+1)
			default:
				r.set[typeStr(u.Elem())] = true
				val(u.Elem(), d+1)
			}
		case *types.Map:
			r.set[k] = true
			val(u.Key(), d+1)
			val(u.Elem(), d+1)
			if _, ok := u.Elem().Underlying().(*types.Struct); ok {
				obj(u.Elem(), d+1)
			}
		case *types.Chan:
			r.set[k] = true
			val(u.Elem(), d+1)
		case *types.Struct:
			for i := 0; i < u.NumFields(); i++ {
				val(u.Field(i).Type(), d+1)
			}
		case *types.Array:
			val(u.Elem(), d+1)
		case *types.Signature:
			r.open = true
		case *types.Interface:
			r.iface = true
		}
	}
	val(t, 0)
	return r.set, r.open || r.iface
}

type trEntry struct {
	set   strset
	open  bool // holds a closure: anything may be behind it
	iface bool // holds an interface: whatever the program boxes may be behind it
}

// mayHold: memory reachable from a value of type vt may contain an object of type ct.
// Behind an interface there can only be what some MakeInterface of the analysed program boxed
// (and what those values reach): the dependencies cannot name a type of this module (they do not
// import it), so an object of a library-defined type is behind an interface only when library or
// CLI code put it there.  For other types ct, an interface stays open.
func (e *Effects) mayHold(vt types.Type, ct string) bool {
	set, open := e.memTypes(vt)
	if set[ct] {
		return true
	}
	if !open {
		return false
	}
	r := e.mtCache[typeStr(vt)]
	if r == nil || r.open || !e.libDefined(ct) {
		return true
	}
	// only interfaces make it open
	e.boxedOnce.Do(func() {
		e.boxedSet = strset{}
		fns := append(append(append([]*ssa.Function{}, e.p.LibFns...), e.p.CLIFns...), e.p.Wrappers...)
		for _, fn := range fns {
			for _, b := range fn.Blocks {
				for _, ins := range b.Instrs {
					if mi, ok := ins.(*ssa.MakeInterface); ok {
						bs, _ := e.memTypes(mi.X.Type())
						e.boxedSet.addAll(bs)
						if br := e.mtCache[typeStr(mi.X.Type())]; br != nil && br.open {
							e.boxedOpen = true
						}
					}
				}
			}
		}
	})
	return e.boxedOpen || e.boxedSet[ct]
}

// libDefined: ct names a struct type declared in the library or the CLI package.
func (e *Effects) libDefined(ct string) bool {
	for _, pkg := range []*types.Package{e.p.Lib.Types, e.p.CLI.Types} {
		if pkg == nil {
			continue
		}
		if obj := pkg.Scope().Lookup(ct); obj != nil {
			if _, ok := obj.(*types.TypeName); ok {
				return true
			}
		}
	}
	return false
}

// rootType gives the declared type of a root in the context of fn (nil when unknown).
func (e *Effects) rootType(fn *ssa.Function, root string) types.Type {
	root = parseRoot(root).base
	switch {
	case strings.HasPrefix(root, "G:"):
		return e.globalTypes[root[2:]]
	case strings.HasPrefix(root, "FV"):
		if k := atoi(root[2:]); k >= 0 && k < len(fn.FreeVars) {
			return fn.FreeVars[k].Type()
		}
	case strings.HasPrefix(root, "W"):
		if k := atoi(root[1:]); k >= 0 && k < len(fn.FreeVars) {
			if pt, ok := fn.FreeVars[k].Type().Underlying().(*types.Pointer); ok {
				return pt.Elem()
			}
		}
	case strings.HasPrefix(root, "P"):
		if k := atoi(root[1:]); k >= 0 && k < len(fn.Params) {
			return fn.Params[k].Type()
		}
	}
	return nil
}

func (e *Effects) compatible(fn *ssa.Function, root, ct string) bool {
	if ct == "" {
		return true
	}
	t := e.rootType(fn, root)
	if t == nil {
		return true
	}
	set, open := e.typeReach(t)
	if !(open || set[ct]) {
		return false
	}
	return true
}

// ownerOf names the struct field or variable a map/slice value was loaded from.
func ownerOf(v ssa.Value) string { return ownerOfSeen(v, map[ssa.Value]bool{}) }

func ownerOfSeen(v ssa.Value, seen map[ssa.Value]bool) string {
	switch x := v.(type) {
	case *ssa.UnOp:
		if x.Op == token.MUL {
			switch a := x.X.(type) {
			case *ssa.FieldAddr, *ssa.Global:
				l, _ := locOf(a)
				return l
			}
		}
	case *ssa.Field:
		st := x.X.Type().Underlying().(*types.Struct)
		return typeStr(x.X.Type()) + "." + st.Field(x.Field).Name()
	case *ssa.Phi:
		if seen[x] {
			return "" // a value carried round a loop: named by its other edges
		}
		seen[x] = true
		names := strset{}
		for _, e := range x.Edges {
			if n := ownerOfSeen(e, seen); n != "" {
				names.add(n)
			}
		}
		return strings.Join(names.sorted(), "/")
	}
	return typeStr(v.Type())
}

func (e *Effects) emit(fn *ssa.Function, s *fnState, roots strset, loc, ct string, pos token.Pos, where, via string, val strset, valT ...string) {
	if len(valT) == 0 {
		valT = []string{""}
	}
	sum := e.Sum[fn]
	for r := range roots {
		r = effectRoot(r)
		if !e.compatible(fn, r, ct) {
			continue
		}
		ef := &Effect{Root: r, Loc: loc, CT: ct, Pos: pos, Fn: where, Via: via, Val: strset{}, ValT: strset{}}
		if old, ok := sum.Effects[ef.key()]; ok {
			if old.Val.addAll(val) {
				s.changed = true
			}
			if len(val) > 0 {
				for _, vt := range valT {
					if old.ValT.add(vt) {
						s.changed = true
					}
				}
			}
			continue
		}
		ef.Val.addAll(val)
		if len(val) > 0 {
			for _, vt := range valT {
				ef.ValT.add(vt)
			}
		}
		sum.Effects[ef.key()] = ef
		s.changed = true
	}
}

func paramRoot(k int) string { return fmt.Sprintf("P%d", k) }

func sortedEffects(m map[string]*Effect) []*Effect {
	keys := make([]string, 0, len(m))
	for k := range m {
		keys = append(keys, k)
	}
	sort.Strings(keys)
	out := make([]*Effect, 0, len(keys))
	for _, k := range keys {
		out = append(out, m[k])
	}
	return out
}
