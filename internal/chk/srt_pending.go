package chk

import (
	"fmt"
	"go/types"

	"golang.org/x/tools/go/ssa"
)

// ---- E13-I9 trailing blank lines of the pending SRT cue (added after seeded change C01/2) ---------------
// ReadFromSRT stores every blank line as a Line of the cue under construction; the number of blank
// lines between two cues (and before end of file) is unbounded, so whatever removes them has to
// iterate, and it has to run at both places where a cue is complete: when the next timing line is
// met, and when the source is exhausted. Rule: (a) inside the scanner loop some store that shortens
// Item.Lines sits in a nested loop; (b) after the scanner loop some store that shortens Item.Lines
// sits in a loop too. The rule does not decide which lines the loops remove.
func ruleSRTPendingCue(p *Prog, l *Ledger, tier string) {
	const rule = "E13.I9-srt-trailing-blank-lines"
	const name = "ReadFromSRT"
	fn := anchor(p, l, rule, name)
	if fn == nil {
		return
	}
	// the scanner loop
	var main *loopInfo
	loops := loopsOf(fn)
	for _, li := range loops {
		for b := range li.blocks {
			for _, ins := range b.Instrs {
				if c, ok := ins.(*ssa.Call); ok && calleeName(&c.Call) == "(*bufio.Scanner).Scan" && innermostLoop(fn, b) == li.header {
					main = li
				}
			}
		}
	}
	if main == nil {
		l.Undecide(rule, name, rule+"|scanner-loop", "", "the scanner loop of ReadFromSRT was not found")
		return
	}
	depth := func(b *ssa.BasicBlock) int {
		d := 0
		for _, li := range loops {
			if li.blocks[b] {
				d++
			}
		}
		return d
	}
	after := map[*ssa.BasicBlock]bool{}
	for b := range main.blocks {
		for _, s := range b.Succs {
			if !main.blocks[s] {
				after[s] = true
				for x := range reachableFrom(s) {
					if !main.blocks[x] {
						after[x] = true
					}
				}
			}
		}
	}
	inIter, afterIter, inAny := 0, 0, 0
	var posIn, posAfter string
	// a helper called for the pending cue that cuts its Lines in a loop of its own (the call is a
	// statement: the helper works through the *Item it receives)
	for _, h := range p.Helpers(fn) {
		if h == fn || fnPkg(h) != p.LibSSA {
			continue
		}
		hl := loopsOf(h)
		for _, hb := range h.Blocks {
			for _, ins := range hb.Instrs {
				st, ok := ins.(*ssa.Store)
				if !ok {
					continue
				}
				if t, f := fieldOfAddr(st.Addr); t != "Item" || f != "Lines" {
					continue
				}
				if sl, ok := st.Val.(*ssa.Slice); !ok || sl.High == nil {
					continue
				}
				inLoop := false
				for _, li := range hl {
					if li.blocks[hb] {
						inLoop = true
					}
				}
				site := p.siteIn(fn, st)
				if site == nil || !inLoop {
					continue
				}
				switch {
				case main.blocks[site.Block()]:
					inAny++
					inIter++
					posIn = p.Pos(st.Pos())
				case after[site.Block()]:
					afterIter++
					posAfter = p.Pos(st.Pos())
				}
			}
		}
	}
	for _, b := range fn.Blocks {
		for _, ins := range b.Instrs {
			st, ok := ins.(*ssa.Store)
			if !ok {
				continue
			}
			if t, f := fieldOfAddr(st.Addr); t != "Item" || f != "Lines" {
				continue
			}
			// the shortening may live in a helper that takes the lines and returns what is left of them
			viaHelper := false
			if c, ok := st.Val.(*ssa.Call); ok {
				if sc := c.Call.StaticCallee(); sc != nil && fnPkg(sc) == p.LibSSA && shortensLinesInLoop(sc) {
					viaHelper = true
				}
			}
			sl, ok := st.Val.(*ssa.Slice)
			if !viaHelper && (!ok || sl.High == nil) {
				continue
			}
			extra := 0
			if viaHelper {
				extra = 1 // the helper's own loop
			}
			switch {
			case main.blocks[b]:
				inAny++
				if depth(b)+extra >= 2 {
					inIter++
					posIn = p.Pos(st.Pos())
				}
			case after[b] && depth(b)+extra >= 1:
				afterIter++
				posAfter = p.Pos(st.Pos())
			}
		}
	}
	keyA, keyB := rule+"|at-next-cue", rule+"|at-end-of-source"
	if inIter > 0 {
		l.Prove(rule, name, keyA, posIn, "a store shortening Item.Lines sits in a loop nested in the scanner loop: any number of blank lines before the next cue can be removed")
	} else {
		l.Fail(rule, name, keyA, blockPos(p, main.header), fmt.Sprintf("%s: inside the scanner loop Item.Lines is shortened %d time(s) but never in a nested loop: with two or more blank lines between cues the previous cue keeps empty lines, which are then written inside it", name, inAny))
	}
	if afterIter > 0 {
		l.Prove(rule, name, keyB, posAfter, "after the scanner loop a loop shortens Item.Lines of the last cue")
	} else {
		l.Fail(rule, name, keyB, blockPos(p, main.header), name+": nothing after the scanner loop shortens Item.Lines: blank lines at the end of the file stay as empty lines of the last cue")
	}
	l.Min(rule, 2, 2)
}

// shortensLinesInLoop: h has a loop in which a []Line value is cut (x[:k]) and the result of h is a []Line.
func shortensLinesInLoop(h *ssa.Function) bool {
	isLines := func(t types.Type) bool {
		sl, ok := t.Underlying().(*types.Slice)
		if !ok {
			return false
		}
		nt, ok := sl.Elem().(*types.Named)
		return ok && nt.Obj().Name() == "Line"
	}
	if h.Signature.Results().Len() != 1 || !isLines(h.Signature.Results().At(0).Type()) {
		return false
	}
	for _, li := range loopsOf(h) {
		for b := range li.blocks {
			for _, ins := range b.Instrs {
				if sl, ok := ins.(*ssa.Slice); ok && sl.High != nil && isLines(sl.Type()) {
					return true
				}
			}
		}
	}
	return false
}
