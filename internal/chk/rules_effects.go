package chk

import (
	"fmt"
	"go/types"
	"sort"
	"strings"

	"golang.org/x/tools/go/ssa"
)

var writerFns = []string{"Subtitles.WriteToSRT", "Subtitles.WriteToSSA", "Subtitles.WriteToSTL", "Subtitles.WriteToTTML", "Subtitles.WriteToWebVTT", "Subtitles.Write"}
var readerFns = []string{"ReadFromSRT", "ReadFromSSA", "ReadFromSSAWithOptions", "ReadFromSTL", "ReadFromTTML", "ReadFromWebVTT", "ReadFromTeletext", "Open", "OpenFile"}
var transformFns = []string{"Subtitles.Add", "Subtitles.Duration", "Subtitles.ForceDuration", "Subtitles.Fragment", "Subtitles.IsEmpty", "Subtitles.Merge", "Subtitles.Optimize", "Subtitles.Order", "Subtitles.RemoveStyling", "Subtitles.Unfragment", "Subtitles.ApplyLinearCorrection"}

// exported formatting helpers users can call directly and writers reach
var helperFns = []string{"Color.SSAString", "Color.TTMLString", "LineItem.STLString", "WebVTTTimestampMap.String", "WebVTTTimestampMap.Offset", "Item.String", "Line.String"}

// anchor resolves a function by name or records an undecided obligation (anchor unresolved).
func anchor(p *Prog, l *Ledger, rule, name string) *ssa.Function {
	fn := p.Fn(name)
	if fn == nil {
		l.Undecide(rule, name, rule+"|"+name+"|anchor", "", "anchor unresolved: function "+name+" not found in the package")
		return nil
	}
	for depth := 0; depth < 3; depth++ {
		g := thinDelegate(p, fn)
		if g == nil {
			break
		}
		fn = g
	}
	return fn
}

// thinDelegate: fn does nothing but call one function g of the library with its own parameters first, in order
// (further arguments are constants or a literal it builds), and returns g's results as they are: X(a, b) defined
// as XWithOptions(a, b, Options{}).  What a rule says about "what X does" is then said about g.
func thinDelegate(p *Prog, fn *ssa.Function) *ssa.Function {
	if len(fn.Blocks) != 1 {
		return nil
	}
	var call *ssa.Call
	var ret *ssa.Return
	for _, ins := range fn.Blocks[0].Instrs {
		switch x := ins.(type) {
		case *ssa.Call:
			if call != nil {
				return nil
			}
			call = x
		case *ssa.Return:
			ret = x
		case *ssa.Alloc, *ssa.Store, *ssa.FieldAddr, *ssa.UnOp, *ssa.Extract, *ssa.MakeInterface, *ssa.Convert, *ssa.ChangeType, *ssa.DebugRef:
		default:
			return nil
		}
	}
	if call == nil || ret == nil {
		return nil
	}
	g := call.Call.StaticCallee()
	if g == nil || g == fn || fnPkg(g) != fnPkg(fn) || len(g.Blocks) == 0 || call.Call.IsInvoke() {
		return nil
	}
	if len(call.Call.Args) < len(fn.Params) || len(g.Params) != len(call.Call.Args) {
		return nil
	}
	for k, par := range fn.Params {
		if call.Call.Args[k] != ssa.Value(par) {
			return nil
		}
	}
	for _, a := range call.Call.Args[len(fn.Params):] {
		switch x := a.(type) {
		case *ssa.Const:
			// defaults only (nil, 0, false, ""): a wrapper that fixes a separator or a width is a function of its own
			if x.Value != nil && x.Value.String() != "0" && x.Value.String() != "false" && x.Value.String() != `""` {
				return nil
			}
		case *ssa.UnOp: // a literal built in fn and passed by value
			if _, ok := x.X.(*ssa.Alloc); !ok {
				return nil
			}
		case *ssa.Alloc:
		default:
			return nil
		}
	}
	// results handed on unchanged
	switch len(ret.Results) {
	case 0:
		if g.Signature.Results().Len() != 0 {
			return nil
		}
	case 1:
		if ret.Results[0] != ssa.Value(call) {
			return nil
		}
	default:
		for k, r := range ret.Results {
			ex, ok := r.(*ssa.Extract)
			if !ok || ex.Tuple != ssa.Value(call) || ex.Index != k {
				return nil
			}
		}
	}
	return g
}

func isIOWriterParam(fn *ssa.Function, base string) bool {
	if !strings.HasPrefix(base, "P") {
		return false
	}
	k := atoi(base[1:])
	if k < 0 || k >= len(fn.Params) {
		return false
	}
	nt, ok := fn.Params[k].Type().(*types.Named)
	if !ok || nt.Obj().Pkg() == nil || nt.Obj().Pkg().Path() != "io" {
		return false
	}
	return nt.Obj().Name() == "Writer" || nt.Obj().Name() == "Reader"
}

func effDesc(p *Prog, ef *Effect) string {
	via := ""
	if ef.Via != "" {
		via = " via " + ef.Via
	}
	return fmt.Sprintf("write to %s of memory rooted at %s by %s (%s)%s", ef.Loc, ef.Root, ef.Fn, p.Pos(ef.Pos), via)
}

// ruleWriterPurity: R5.1 — a writer (or formatting helper) has no effect on anything but its
// io.Writer destination (and there only through Write/Encode).
func ruleWriterPurity(p *Prog, l *Ledger, tier string) {
	const rule = "E5.R5.1-writer-purity"
	e := ComputeEffects(p)
	names := append(append([]string{}, writerFns...), helperFns...)
	for _, name := range names {
		fn := anchor(p, l, rule, name)
		if fn == nil {
			continue
		}
		sum := e.Sum[fn]
		bad := 0
		for _, ef := range sortedEffects(sum.Effects) {
			base := rootBase(ef.Root)
			if isIOWriterParam(fn, base) && strings.HasPrefix(ef.Loc, "io(") {
				continue
			}
			if strings.HasPrefix(base, "CBP") && strings.HasPrefix(ef.Loc, "io(") {
				continue // I/O on the destination a locally created function value is handed: output, not mutation
			}
			bad++
			l.Fail(rule, name, rule+"|"+name+"|"+base+"|"+ef.Loc, p.Pos(ef.Pos), name+" is not pure: "+effDesc(p, ef))
		}
		if bad == 0 {
			l.Prove(rule, name, rule+"|"+name+"|pure", p.Pos(fn.Pos()), fmt.Sprintf("transitive mod-set has %d effects, all I/O on the destination parameter", len(sum.Effects)))
		}
	}
	l.Min(rule, len(names), 13)
}

// frames: allowed receiver-rooted locations per transformation (DESIGN.md R5.3).
var frames = map[string][]string{
	"Subtitles.Add":                   {"Item.StartAt", "Item.EndAt", "Subtitles.Items", "elem([]*Item)"},
	"Subtitles.ApplyLinearCorrection": {"Item.StartAt", "Item.EndAt"},
	"Subtitles.ForceDuration":         {"Item.EndAt", "Subtitles.Items", "elem([]*Item)"},
	"Subtitles.Fragment":              {"Item.StartAt", "Item.EndAt", "Subtitles.Items", "elem([]*Item)", "permute([]*Item)"},
	"Subtitles.Unfragment":            {"Item.EndAt", "Subtitles.Items", "elem([]*Item)", "permute([]*Item)"},
	"Subtitles.Order":                 {"permute([]*Item)"},
	"Subtitles.Merge":                 {"Subtitles.Items", "elem([]*Item)", "permute([]*Item)", "map(Subtitles.Regions)", "map(Subtitles.Styles)", "Subtitles.Regions", "Subtitles.Styles"},
	"Subtitles.Optimize":              {"mapdelete(Subtitles.Regions)", "mapdelete(Subtitles.Styles)"},
	"Subtitles.RemoveStyling":         {"Subtitles.Regions", "Subtitles.Styles", "Item.Region", "Item.Style", "Item.InlineStyle", "LineItem.InlineStyle", "LineItem.Style"},
	"Subtitles.Duration":              {},
	"Subtitles.IsEmpty":               {},
}

// ruleFrame checks the frame condition of one transformation.
func ruleFrame(name string) func(p *Prog, l *Ledger, tier string) {
	return func(p *Prog, l *Ledger, tier string) {
		const rule = "E5.R5.3-frame"
		e := ComputeEffects(p)
		fn := anchor(p, l, rule, name)
		if fn == nil {
			return
		}
		allowed := map[string]bool{}
		for _, a := range frames[name] {
			allowed[a] = true
		}
		sum := e.Sum[fn]
		bad := 0
		var seen []string
		for _, ef := range sortedEffects(sum.Effects) {
			base := rootBase(ef.Root)
			if base == "P0" && allowed[ef.Loc] {
				seen = append(seen, ef.Loc)
				continue
			}
			if base == "P0" && name == "Subtitles.Order" && ef.Loc == "elem([]*Item)" {
				// the write-back of a decorated sort (E14-M3, decorated form) puts the cues of the list back into the list
				if wb := orderWriteBack(p, fn); wb != nil && wb.Pos() == ef.Pos {
					seen = append(seen, ef.Loc)
					continue
				}
			}
			bad++
			what := "outside its frame"
			if base != "P0" {
				what = "on memory that is not its receiver's"
			}
			l.Fail(rule, name, rule+"|"+name+"|"+base+"|"+ef.Loc, p.Pos(ef.Pos), name+" has an effect "+what+": "+effDesc(p, ef))
		}
		if bad == 0 {
			sort.Strings(seen)
			l.Prove(rule, name, rule+"|"+name+"|frame", p.Pos(fn.Pos()), "transitive mod-set {"+strings.Join(dedup(seen), ", ")+"} ⊆ frame {"+strings.Join(frames[name], ", ")+"}")
		}
	}
}

func dedup(s []string) []string {
	var out []string
	for i, x := range s {
		if i == 0 || x != s[i-1] {
			out = append(out, x)
		}
	}
	return out
}

// ruleNoSharedState: R5.2 — outside init nothing writes package-level state.
func ruleNoSharedState(p *Prog, l *Ledger, tier string) {
	const rule = "E5.R5.2-no-global-write"
	e := ComputeEffects(p)
	n := 0
	globalsRead := strset{}
	for _, fn := range p.LibFns {
		name := FnName(fn)
		if name == "init" { // package initialiser: runs once, before any call
			continue
		}
		n++
		sum := e.Sum[fn]
		globalsRead.addAll(sum.GlobalsRead)
		bad := 0
		// effects already present in a callee are reported there (the lowest function in which the
		// written memory turns out to be package-level state)
		inCallee := map[string]bool{}
		for _, b := range fn.Blocks {
			for _, ins := range b.Instrs {
				switch x := ins.(type) {
				case ssa.CallInstruction:
					callees, _ := p.Callees(fn, x)
					for _, c := range callees {
						if c == fn {
							continue
						}
						if cs := e.Sum[c]; cs != nil {
							for k := range cs.Effects {
								inCallee[k] = true
							}
						}
					}
				case *ssa.MakeClosure:
					if cs := e.Sum[x.Fn.(*ssa.Function)]; cs != nil {
						for k := range cs.Effects {
							inCallee[k] = true
						}
					}
				}
			}
		}
		for _, ef := range sortedEffects(sum.Effects) {
			base := rootBase(ef.Root)
			if strings.HasPrefix(base, "G:") || base == "U" {
				bad++
				if inCallee[ef.key()] {
					continue
				}
				l.Fail(rule, name, rule+"|"+name+"|"+base+"|"+ef.Loc, p.Pos(ef.Pos), "shared state written outside init: "+effDesc(p, ef))
			}
		}
		if bad == 0 {
			l.Prove(rule, name, rule+"|"+name, p.Pos(fn.Pos()), "no effect rooted at a package-level variable or unknown memory")
		}
		for u := range sum.Unknown {
			l.Note("unknown external callee treated conservatively: %s (in closure of %s)", u, name)
		}
	}
	l.Min(rule, n, 140)
	// classify the globals read outside init
	for _, g := range globalsRead.sorted() {
		cls := "immutable by rule (no store reaches it outside init)"
		if strings.HasSuffix(g, ".Now") {
			cls = "documented injectable clock (only loaded and called)"
		}
		l.Add(Ob{Rule: rule + ".globals-read", Key: rule + "|read|" + g, Status: Info, Why: g + ": " + cls})
	}
}

// ruleZeroConcurrency: no goroutines, no unsafe, no select in the library (zero-rules).
func ruleZeroConcurrency(p *Prog, l *Ledger, tier string) {
	const rule = "E5.zero-go-unsafe"
	bad := 0
	for _, fn := range p.LibFns {
		for _, b := range fn.Blocks {
			for _, ins := range b.Instrs {
				switch x := ins.(type) {
				case *ssa.Go:
					bad++
					l.Fail(rule, FnName(fn), rule+"|"+FnName(fn)+"|go", p.Pos(x.Pos()), "go statement in the library: calls are no longer confined to the caller's goroutine")
				case *ssa.Select:
					bad++
					l.Fail(rule, FnName(fn), rule+"|"+FnName(fn)+"|select", p.Pos(x.Pos()), "select statement in the library (scheduling-dependent choice)")
				}
			}
		}
	}
	for _, imp := range p.Lib.Types.Imports() {
		if imp.Path() == "unsafe" {
			bad++
			l.Fail(rule, "", rule+"|import|unsafe", "", "package imports unsafe")
		}
	}
	if bad == 0 {
		l.Prove(rule, "", rule, "", fmt.Sprintf("no go/select statement in %d functions, unsafe not imported", len(p.LibFns)))
	}
}

// ruleNoSharedStateIn: R5.2 restricted to the functions of a scope (the writers of a format): what a writer emits
// must be a function of the cue list it is given; a writer that stores into package-level memory makes a later
// write (of another list, or of the same one) come out differently.
func ruleNoSharedStateIn(scope func(*Prog, *Ledger, string) []*ssa.Function, min int, role ...string) func(p *Prog, l *Ledger, tier string) {
	return func(p *Prog, l *Ledger, tier string) {
		rule, who, next := "E5.R5.2w-writer-no-shared-state", "a writer", "the next document written in this process depends on this one"
		if len(role) > 0 && role[0] == "reader" {
			rule, who, next = "E5.R5.2r-reader-no-shared-state", "a reader", "what the next document read in this process denotes depends on this one"
		}
		e := ComputeEffects(p)
		n := 0
		for _, fn := range scope(p, l, rule) {
			if fnPkg(fn) != p.LibSSA {
				continue
			}
			name := FnName(fn)
			sum := e.Sum[fn]
			if sum == nil {
				continue
			}
			n++
			bad := 0
			// effects already present in a callee are reported there
			inCallee := map[string]bool{}
			for _, b := range fn.Blocks {
				for _, ins := range b.Instrs {
					switch x := ins.(type) {
					case ssa.CallInstruction:
						callees, _ := p.Callees(fn, x)
						for _, c := range callees {
							if cs := e.Sum[c]; cs != nil && c != fn {
								for k := range cs.Effects {
									inCallee[k] = true
								}
							}
						}
					case *ssa.MakeClosure:
						if cs := e.Sum[x.Fn.(*ssa.Function)]; cs != nil {
							for k := range cs.Effects {
								inCallee[k] = true
							}
						}
					}
				}
			}
			for _, ef := range sortedEffects(sum.Effects) {
				base := rootBase(ef.Root)
				if strings.HasPrefix(base, "G:") {
					bad++
					if inCallee[ef.key()] {
						continue
					}
					l.Fail(rule, name, rule+"|"+name+"|"+base+"|"+ef.Loc, p.Pos(ef.Pos), name+" (reached from "+who+") stores into package-level memory: "+effDesc(p, ef)+": "+next)
				}
			}
			if bad == 0 {
				l.Prove(rule, name, rule+"|"+name, p.Pos(fn.Pos()), "no store into package-level memory")
			}
		}
		l.Min(rule, n, min)
	}
}

// orderWriteBack: the store that puts the sorted cues back into the list when Order sorts a slice of (cue, start) pairs
// (nil when Order is not of that form, or the form is not verified).
func orderWriteBack(p *Prog, fn *ssa.Function) *ssa.Store {
	isList := func(v ssa.Value) bool {
		_, f, _ := loadedField(v)
		return f == "Items"
	}
	for _, b := range fn.Blocks {
		for _, ins := range b.Instrs {
			c, ok := ins.(*ssa.Call)
			if !ok {
				continue
			}
			if sc := c.Call.StaticCallee(); sc != nil && (sc.String() == "sort.SliceStable" || sc.String() == "sort.Slice") {
				if handled, ok, _, wb := decoratedStableSort(p, fn, c, isList); handled && ok {
					return wb
				}
			}
		}
	}
	return nil
}
