package chk

import (
	"go/constant"
	"go/token"
	"go/types"
	"regexp/syntax"
	"strings"
	"sync"

	"golang.org/x/tools/go/ssa"
)

type lenSummary struct {
	eqParam int   // len(result) == parameter #eqParam (an int parameter), -1 if none
	lo      int64 // lower bound of len(result)
}

func (g *cgraph) defineCall(c *ssa.Call, key string, depth int) {
	g.defineCallResult(c, 0, key, c)
}

// defineCallResult: integer results with contracts.
func (g *cgraph) defineCallResult(c *ssa.Call, idx int, key string, val ssa.Value) {
	if b, ok := c.Call.Value.(*ssa.Builtin); ok {
		if b.Name() == "len" || b.Name() == "cap" {
			g.defineLen(c.Call.Args[0], 1)
		}
		if b.Name() == "copy" {
			g.le(zeroTerm, key, 0)
		}
		return
	}
	sc := c.Call.StaticCallee()
	if sc == nil {
		return
	}
	a := g.a
	// a helper of the library that returns -1 or a position inside its first (string / slice) argument
	if idx == 0 && a.p.inScope(sc) && len(sc.Params) >= 1 && len(c.Call.Args) >= 1 && isIntegerT(c.Type()) {
		if a.returnsIndexInto(sc) {
			g.le(zeroTerm, key, 1) // ≥ -1
			g.defineLen(c.Call.Args[0], 1)
			g.le(key, "len("+a.regKey(c.Call.Args[0])+")", -1)
		}
	}
	switch sc.String() {
	case "bytes.IndexAny", "bytes.IndexByte", "bytes.Index", "bytes.IndexRune", "bytes.IndexFunc",
		"strings.Index", "strings.IndexAny", "strings.IndexByte", "strings.IndexRune", "strings.IndexFunc",
		"bytes.LastIndex", "strings.LastIndex", "strings.LastIndexByte", "bytes.LastIndexByte":
		if idx == 0 {
			g.le(zeroTerm, key, 1) // ≥ -1
			g.defineLen(c.Call.Args[0], 1)
			ls := "len(" + a.regKey(c.Call.Args[0]) + ")"
			if !isSubstrIndex(sc.String()) {
				g.le(key, ls, -1) // the byte/rune found is inside s (also when -1)
			} else {
				// r ≥ 0 ⇒ r + len(sep) ≤ len(s); an empty sep is found at len(s) (LastIndex) or 0
				n := int64(0)
				if cs, ok := c.Call.Args[1].(*ssa.Const); ok && cs.Value != nil && cs.Value.Kind() == constant.String {
					n = int64(len(constant.StringVal(cs.Value)))
				}
				if n >= 1 {
					g.le(key, ls, -1)
					if g.proveLE(zeroTerm, 0, key, 0) {
						g.le(key, ls, -n)
					}
				} else {
					g.le(key, ls, 0)
				}
			}
		}
	case "strconv.Itoa":
	case "(*regexp.Regexp).NumSubexp":
		if n, ok := a.regexpSubexp(c.Call.Args[0]); ok {
			g.le(key, zeroTerm, int64(n))
			g.le(zeroTerm, key, -int64(n))
		}
	}
}

// definePhi: induction variables. Non-decreasing: every edge is a constant, a term, or the phi
// plus a non-negative constant ⇒ phi ≥ min(initial values). Non-increasing likewise.
func (g *cgraph) definePhi(ph *ssa.Phi, key string, depth int) {
	if !isIntegerT(ph.Type()) {
		return
	}
	g.carriedMatchEnd(ph, key)
	a := g.a
	type edge struct {
		t string
		k int64
	}
	var inits []edge
	up, down := true, true
	var selfOnly func(v ssa.Value, seen map[ssa.Value]bool) (int64, int64, bool)
	// selfOnly: v = phi + [lo,hi] through additions of constants and inner phis
	selfOnly = func(v ssa.Value, seen map[ssa.Value]bool) (int64, int64, bool) {
		if v == ssa.Value(ph) {
			return 0, 0, true
		}
		if seen[v] {
			return 0, 0, false
		}
		seen[v] = true
		base, k := linear(v)
		if base != v {
			lo, hi, ok := selfOnly(base, seen)
			return lo + k, hi + k, ok
		}
		if bo, ok := v.(*ssa.BinOp); ok && bo.Op == token.ADD {
			// self + (value that is non-negative by its type)
			for _, pr := range [][2]ssa.Value{{bo.X, bo.Y}, {bo.Y, bo.X}} {
				if nonNegByType(pr[1]) || isReadCount(pr[1]) != nil {
					if lo, _, ok := selfOnly(pr[0], seen); ok {
						return lo, infW, true
					}
				}
			}
		}
		if p2, ok := v.(*ssa.Phi); ok {
			lo, hi := infW, -infW
			for _, e := range p2.Edges {
				l, h, ok := selfOnly(e, seen)
				if !ok {
					return 0, 0, false
				}
				if l < lo {
					lo = l
				}
				if h > hi {
					hi = h
				}
			}
			return lo, hi, true
		}
		return 0, 0, false
	}
	for _, e := range ph.Edges {
		if lo, hi, ok := selfOnly(e, map[ssa.Value]bool{}); ok {
			if lo < 0 {
				up = false
			}
			if hi > 0 {
				down = false
			}
			continue
		}
		t, k, ok := a.intTerm(e)
		if !ok {
			return
		}
		// an initial value must be computed before the loop (its definition dominates the phi)
		if ei, isIns := e.(ssa.Instruction); isIns && !(ei.Block() != ph.Block() && ei.Block().Dominates(ph.Block())) {
			return
		}
		g.define(e, depth+1)
		inits = append(inits, edge{t, k})
	}
	if len(inits) == 0 {
		return
	}
	if up {
		// phi ≥ each init is not implied; phi ≥ min(inits): expressible when all inits are constants,
		// or when there is a single init term
		if len(inits) == 1 {
			g.le(orZero(inits[0].t), key, -inits[0].k) // init - phi ≤ 0 → t - key ≤ -k
		} else {
			min := infW
			allConst := true
			for _, in := range inits {
				if in.t != "" {
					allConst = false
				} else if in.k < min {
					min = in.k
				}
			}
			if allConst {
				g.le(zeroTerm, key, -min)
			}
		}
	}
	if down && len(inits) == 1 {
		g.le(key, orZero(inits[0].t), inits[0].k)
	}
	if up {
		g.guardedUpperBound(ph, key, func() bool {
			return true
		})
	}
	if up {
		g.fillBound(ph, key)
	}
	if down {
		g.reverseScanBound(ph, key)
		g.guardedLowerBound(ph, key)
	}
}

// guardedLowerBound: a counter that goes down by exactly one per trip, whose every back edge comes
// from a block dominated by the true edge of `counter > c` (c a constant), stays ≥ c at the header
// and after the loop, provided its initial values are ≥ c.
func (g *cgraph) guardedLowerBound(ph *ssa.Phi, key string) {
	a := g.a
	hdr := ph.Block()
	var bound int64
	first := true
	var inits []ssa.Value
	for i, e := range ph.Edges {
		pred := hdr.Preds[i]
		base, k := linear(e)
		if base != ssa.Value(ph) {
			inits = append(inits, e)
			continue
		}
		if k != -1 || !hdr.Dominates(pred) {
			return
		}
		found := false
		for x := pred; x != nil && x != hdr.Idom(); x = x.Idom() {
			d := x.Idom()
			if d == nil || len(x.Preds) != 1 || x.Preds[0] != d || !hdr.Dominates(d) {
				continue
			}
			iff, ok := d.Instrs[len(d.Instrs)-1].(*ssa.If)
			if !ok || d.Succs[0] != x {
				continue
			}
			bo, ok := iff.Cond.(*ssa.BinOp)
			if !ok || bo.X != ssa.Value(ph) {
				continue
			}
			c, ok := constInt(bo.Y)
			if !ok {
				continue
			}
			switch bo.Op {
			case token.GTR:
			case token.GEQ:
				c--
			case token.NEQ:
				// counter != c with a counter that starts ≥ c and goes down by one: it cannot jump over c
			default:
				continue
			}
			if first {
				bound, first = c, false
				found = true
			} else if bound == c {
				found = true
			}
			if found {
				break
			}
		}
		if !found {
			return
		}
	}
	if first || len(inits) == 0 {
		return
	}
	for _, in := range inits {
		t, k, ok := a.intTerm(in)
		if !ok {
			return
		}
		g.define(in, 3)
		if !g.proveLE(zeroTerm, bound, t, k) {
			return
		}
	}
	g.le(zeroTerm, key, -bound)
}

// reverseScanBound: the reverse scan that cuts what it scans.
//
//	for i := len(S) - 1; …; i-- { … S[i] … ; S = S[:i] (on some paths) }
//
// i is a header phi with initial value len(S0) − 1 and back-edge value i − 1 on every back edge; S is
// a slice phi of the same header with initial value S0 whose back-edge values are S itself or S[:i]
// (possibly merged by phis inside the body).  Then i ≤ len(S) − 1 at the header and in the body:
// it holds on entry; a trip that keeps S lowers i; a trip that cuts S to S[:i] leaves len = i and
// the next i is i − 1.
func (g *cgraph) reverseScanBound(ph *ssa.Phi, key string) {
	a := g.a
	hdr := ph.Block()
	var init ssa.Value
	for i, e := range ph.Edges {
		if hdr.Dominates(hdr.Preds[i]) {
			if base, k := linear(e); base != ssa.Value(ph) || k != -1 {
				return
			}
			continue
		}
		if init != nil {
			return
		}
		init = e
	}
	if init == nil {
		return
	}
	base, k := linear(init)
	lc, ok := base.(*ssa.Call)
	if !ok || k != -1 {
		return
	}
	if bi, ok := lc.Call.Value.(*ssa.Builtin); !ok || bi.Name() != "len" {
		return
	}
	s0 := lc.Call.Args[0]
	for _, ins := range hdr.Instrs {
		sp, ok := ins.(*ssa.Phi)
		if !ok {
			break
		}
		if _, isSlice := sp.Type().Underlying().(*types.Slice); !isSlice {
			continue
		}
		good := true
		for i, e := range sp.Edges {
			if !hdr.Dominates(hdr.Preds[i]) {
				if e != s0 {
					good = false
				}
				continue
			}
			if !keptOrCutAt(e, sp, ph, map[ssa.Value]bool{}) {
				good = false
			}
		}
		if good {
			g.le(key, "len("+a.regKey(sp)+")", -1)
		}
	}
}

// keptOrCutAt: v is S, or S[:i], or a phi of such values.
func keptOrCutAt(v ssa.Value, s, i *ssa.Phi, seen map[ssa.Value]bool) bool {
	if v == ssa.Value(s) {
		return true
	}
	if seen[v] {
		return true
	}
	seen[v] = true
	switch x := v.(type) {
	case *ssa.Slice:
		return x.X == ssa.Value(s) && x.Low == nil && x.High == ssa.Value(i) && x.Max == nil
	case *ssa.Phi:
		for _, e := range x.Edges {
			if !keptOrCutAt(e, s, i, seen) {
				return false
			}
		}
		return true
	}
	return false
}

// guardedUpperBound: a counter that goes up by exactly one per trip, and whose every back edge comes
// from a block dominated by the true edge of `counter < T` (T invariant in the loop: the length of a
// parameter, or a register computed before the loop), satisfies counter ≤ T at the header and
// everywhere after, provided its initial values do (init ≤ T is asked of the graph).
func (g *cgraph) guardedUpperBound(ph *ssa.Phi, key string, _ func() bool) {
	a := g.a
	hdr := ph.Block()
	var boundT string
	var boundK int64
	first := true
	var inits []ssa.Value
	for i, e := range ph.Edges {
		pred := hdr.Preds[i]
		base, k := linear(e)
		if base != ssa.Value(ph) {
			inits = append(inits, e)
			continue
		}
		if k != 1 || !hdr.Dominates(pred) {
			return
		}
		// the guard on this back edge
		found := false
		for x := pred; x != nil && x != hdr.Idom(); x = x.Idom() {
			d := x.Idom()
			if d == nil || len(x.Preds) != 1 || x.Preds[0] != d || !hdr.Dominates(d) {
				continue
			}
			iff, ok := d.Instrs[len(d.Instrs)-1].(*ssa.If)
			if !ok || d.Succs[0] != x {
				continue
			}
			bo, ok := iff.Cond.(*ssa.BinOp)
			if !ok || bo.Op != token.LSS || bo.X != ssa.Value(ph) {
				continue
			}
			t, tk, ok := a.intTerm(bo.Y)
			if !ok || t == "" {
				continue
			}
			// T invariant: len of a parameter, or a register defined outside the loop
			inv := false
			if c, ok := bo.Y.(*ssa.Call); ok {
				if bi, ok := c.Call.Value.(*ssa.Builtin); ok && bi.Name() == "len" {
					if _, isPar := c.Call.Args[0].(*ssa.Parameter); isPar {
						inv = true
					}
				}
			}
			if yi, ok := bo.Y.(ssa.Instruction); ok && !inv {
				if yi.Block() != hdr && yi.Block().Dominates(hdr) {
					inv = true
				}
			}
			if _, isPar := bo.Y.(*ssa.Parameter); isPar {
				inv = true
			}
			if !inv {
				continue
			}
			if first {
				boundT, boundK, first = t, tk, false
				found = true
			} else if boundT == t && boundK == tk {
				found = true
			}
			if found {
				g.define(bo.Y, 3)
				break
			}
		}
		if !found {
			return
		}
	}
	if first || len(inits) == 0 {
		return
	}
	for _, in := range inits {
		t, k, ok := a.intTerm(in)
		if !ok || !g.proveLE(t, k, boundT, boundK) {
			return
		}
	}
	g.le(key, boundT, boundK)
}

// defineLoad: loads from constant package-level integer arrays are bounded by the literal.
func (g *cgraph) defineLoad(x *ssa.UnOp, key string) {
	if g.a.loadOfCtorFieldGE1(x) {
		g.le(zeroTerm, key, -1)
	}
	g.defineMatchIndex(x, key)
	g.defineFindAllElem(x, key)
	if lo, hi, ok := localTableField(x); ok {
		g.le(key, zeroTerm, hi)
		g.le(zeroTerm, key, -lo)
	}
	ia, ok := x.X.(*ssa.IndexAddr)
	if !ok {
		return
	}
	gl, ok := ia.X.(*ssa.Global)
	if !ok {
		return
	}
	if lo, hi, ok := g.a.globalIntArray(gl); ok {
		g.le(key, zeroTerm, hi)
		g.le(zeroTerm, key, -lo)
	}
}

// globalIntArray evaluates a package-level array of integers that is only written by constant
// stores in init: returns the minimum and maximum element.
func (a *NilAnalysis) globalIntArray(gl *ssa.Global) (int64, int64, bool) {
	at, ok := gl.Type().(*types.Pointer).Elem().Underlying().(*types.Array)
	if !ok || !isIntegerT(at.Elem()) || gl.Pkg == nil {
		return 0, 0, false
	}
	if r, ok := a.gArr[gl.Name()]; ok {
		return r[0], r[1], r[2] == 1
	}
	res := [3]int64{0, 0, 0}
	a.gArr[gl.Name()] = res
	// any effect on the global outside init disqualifies it (R5.2 guarantees there is none; checked here)
	for _, fn := range a.p.LibFns {
		if FnName(fn) == "init" {
			continue
		}
		for _, ef := range a.eff.Sum[fn].Effects {
			if rootBase(ef.Root) == "G:"+globalName(gl) {
				return 0, 0, false
			}
		}
	}
	init := gl.Pkg.Func("init")
	if init == nil {
		return 0, 0, false
	}
	n := 0
	lo, hi := int64(0), int64(0)
	first := true
	for _, b := range init.Blocks {
		for _, ins := range b.Instrs {
			st, ok := ins.(*ssa.Store)
			if !ok {
				continue
			}
			ia, ok := st.Addr.(*ssa.IndexAddr)
			if !ok || ia.X != ssa.Value(gl) {
				continue
			}
			v, ok := constInt(st.Val)
			if !ok {
				return 0, 0, false
			}
			n++
			if first || v < lo {
				lo = v
			}
			if first || v > hi {
				hi = v
			}
			first = false
		}
	}
	if int64(n) < at.Len() { // unset elements are zero
		if first || 0 < lo {
			lo = 0
		}
		if first || 0 > hi {
			hi = 0
		}
	}
	res = [3]int64{lo, hi, 1}
	a.gArr[gl.Name()] = res
	return lo, hi, true
}

// defineParam: interprocedural lower bounds of integer parameters of unexported functions.
func (g *cgraph) defineParam(p *ssa.Parameter, key string) {
	fn := p.Parent()
	s := g.a.sum[fn]
	if s == nil || isExportedEntry(fn) || fn.Parent() != nil || !isIntegerT(p.Type()) {
		return
	}
	for k, q := range fn.Params {
		if q == p && k < len(s.paramIntLo) && s.paramIntLo[k] > -infW {
			g.le(zeroTerm, key, -s.paramIntLo[k])
		}
	}
}

// defineParamLen: interprocedural length facts of slice/string parameters of unexported functions.
func (g *cgraph) defineParamLen(p *ssa.Parameter, lt string) {
	fn := p.Parent()
	s := g.a.sum[fn]
	if s == nil || isExportedEntry(fn) || fn.Parent() != nil {
		return
	}
	for k, q := range fn.Params {
		if q == p && k < len(s.paramLenLo) && s.paramLenLo[k] > 0 && s.paramLenLo[k] < infW {
			g.le(zeroTerm, lt, -s.paramLenLo[k])
		}
	}
}

// computeLenSummaries: len(result) facts of in-package functions (e.g. readNBytes returns a slice
// whose length is its int parameter on every path).
func (a *NilAnalysis) computeLenSummaries() {
	for _, fn := range a.p.LibFns {
		res := fn.Signature.Results()
		ls := make([]*lenSummary, res.Len())
		for i := 0; i < res.Len(); i++ {
			switch res.At(i).Type().Underlying().(type) {
			case *types.Slice:
			default:
				continue
			}
			eq := -2
			lo := infW
			for _, b := range fn.Blocks {
				r, ok := b.Instrs[len(b.Instrs)-1].(*ssa.Return)
				if !ok {
					continue
				}
				v := r.Results[i]
				// resolve named result cells: the single store
				if u, ok := v.(*ssa.UnOp); ok && u.Op == token.MUL {
					if al, ok := u.X.(*ssa.Alloc); ok {
						var stored []ssa.Value
						for _, ref := range *al.Referrers() {
							if st, ok := ref.(*ssa.Store); ok && st.Addr == ssa.Value(al) {
								stored = append(stored, st.Val)
							}
						}
						if len(stored) == 1 {
							v = stored[0]
						}
					}
				}
				thisEq := -1
				thisLo := int64(0)
				switch x := v.(type) {
				case *ssa.MakeSlice:
					for k, p := range fn.Params {
						if x.Len == ssa.Value(p) {
							thisEq = k
						}
					}
					if n, ok := constInt(x.Len); ok {
						thisLo = n
					}
				case *ssa.Const:
					// nil slice
				}
				if eq == -2 {
					eq = thisEq
				} else if eq != thisEq {
					eq = -1
				}
				if thisLo < lo {
					lo = thisLo
				}
			}
			if eq == -2 {
				eq = -1
			}
			if lo == infW {
				lo = 0
			}
			if eq >= 0 || lo > 0 {
				ls[i] = &lenSummary{eqParam: eq, lo: lo}
			}
		}
		a.lenSum[fn] = ls
	}
}

// updateParamLens joins len(arg) lower bounds over all in-package call sites.
func (a *NilAnalysis) updateParamLens(fns []*ssa.Function) bool {
	acc := map[*ssa.Function][]int64{}
	accI := map[*ssa.Function][]int64{}
	for _, fn := range fns {
		for _, b := range fn.Blocks {
			for _, ins := range b.Instrs {
				site, ok := ins.(ssa.CallInstruction)
				if !ok {
					continue
				}
				c := site.Common()
				in, _ := a.p.Callees(fn, site)
				if len(in) == 0 {
					continue
				}
				var actuals []ssa.Value
				if c.IsInvoke() {
					actuals = append([]ssa.Value{c.Value}, c.Args...)
				} else {
					actuals = c.Args
				}
				for _, callee := range in {
					if isExportedEntry(callee) || callee.Parent() != nil {
						continue
					}
					if acc[callee] == nil {
						acc[callee] = make([]int64, len(callee.Params))
						for i := range acc[callee] {
							acc[callee][i] = infW
						}
					}
					var g *cgraph
					for k := range callee.Params {
						if k >= len(actuals) {
							continue
						}
						if isIntegerT(callee.Params[k].Type()) {
							if g == nil {
								a.cur, a.curFn = ins, fn
								g = a.newGraph(fn, ins)
							}
							if accI[callee] == nil {
								accI[callee] = make([]int64, len(callee.Params))
								for i := range accI[callee] {
									accI[callee][i] = infW
								}
							}
							lo := -infW
							if t, kk, ok := a.intTerm(actuals[k]); ok {
								g.define(actuals[k], 0)
								if t == "" {
									lo = kk
								} else if l, _, ok := g.boundsLo(t); ok {
									lo = l + kk
								}
							}
							if lo < accI[callee][k] {
								accI[callee][k] = lo
							}
							continue
						}
						switch callee.Params[k].Type().Underlying().(type) {
						case *types.Slice:
						default:
							if bt, ok := callee.Params[k].Type().Underlying().(*types.Basic); !ok || bt.Info()&types.IsString == 0 {
								continue
							}
						}
						if g == nil {
							a.cur, a.curFn = ins, fn
							g = a.newGraph(fn, ins)
						}
						g.defineLen(actuals[k], 0)
						lo, _, ok := g.boundsLo("len(" + a.regKey(actuals[k]) + ")")
						if !ok || lo < 0 {
							lo = 0
						}
						if lo < acc[callee][k] {
							acc[callee][k] = lo
						}
					}
				}
			}
		}
	}
	a.cur, a.curFn = nil, nil
	changed := false
	for _, fn := range fns {
		s := a.sum[fn]
		if s.paramLenLo == nil {
			s.paramLenLo = make([]int64, len(fn.Params))
		}
		if s.paramIntLo == nil {
			s.paramIntLo = make([]int64, len(fn.Params))
			for k := range s.paramIntLo {
				s.paramIntLo[k] = -infW
			}
		}
		for k := range fn.Params {
			v := int64(0)
			if acc[fn] != nil && acc[fn][k] < infW {
				v = acc[fn][k]
			}
			if s.paramLenLo[k] != v {
				s.paramLenLo[k] = v
				changed = true
			}
			vi := -infW
			if accI[fn] != nil && accI[fn][k] < infW {
				vi = accI[fn][k]
			}
			if s.paramIntLo[k] != vi {
				s.paramIntLo[k] = vi
				changed = true
			}
		}
	}
	return changed
}

// nonNegByType: the value is an unsigned integer, or a widening conversion of one.
func nonNegByType(v ssa.Value) bool {
	if b, ok := v.Type().Underlying().(*types.Basic); ok && b.Info()&types.IsUnsigned != 0 {
		return true
	}
	if c, ok := v.(*ssa.Convert); ok && widening(c.X.Type(), c.Type()) {
		return nonNegByType(c.X)
	}
	return false
}

func isSubstrIndex(name string) bool {
	switch name {
	case "bytes.Index", "strings.Index", "bytes.LastIndex", "strings.LastIndex":
		return true
	}
	return false
}

// substrIndexEnd: v = r + len(sep) where r is the result of Index/LastIndex(s, sep) and r ≥ 0 is
// known: the match lies inside s, so v ≤ len(s).
func (g *cgraph) substrIndexEnd(x *ssa.BinOp, key string) {
	a := g.a
	for _, pr := range [][2]ssa.Value{{x.X, x.Y}, {x.Y, x.X}} {
		call, ok := pr[0].(*ssa.Call)
		if !ok {
			continue
		}
		sc := call.Call.StaticCallee()
		if sc == nil || !isSubstrIndex(sc.String()) {
			continue
		}
		lc, ok := pr[1].(*ssa.Call)
		if !ok {
			continue
		}
		if bi, ok := lc.Call.Value.(*ssa.Builtin); !ok || bi.Name() != "len" || a.regKey(lc.Call.Args[0]) != a.regKey(call.Call.Args[1]) {
			continue
		}
		rk := a.regKey(call)
		if g.proveLE(zeroTerm, 0, rk, 0) {
			g.defineLen(call.Call.Args[0], 1)
			g.le(key, "len("+a.regKey(call.Call.Args[0])+")", 0)
		}
	}
}

// defineMatchIndex: x loads element 0 or 1 of the result of (*Regexp).FindStringIndex / FindIndex.
// A non-nil result is [lo, hi] with 0 ≤ lo, lo + m ≤ hi, hi ≤ len(input), m being the least number
// of characters any match of the (package-level, constant) pattern has.  The load itself panics on
// a nil result, so the facts hold whenever the loaded value exists.  The result slice must not be
// written by the function (it is only indexed for loads, measured, or compared with nil).
func (g *cgraph) defineMatchIndex(x *ssa.UnOp, key string) {
	ia, ok := x.X.(*ssa.IndexAddr)
	if !ok {
		return
	}
	call, ok := ia.X.(*ssa.Call)
	if !ok {
		return
	}
	sc := call.Call.StaticCallee()
	if sc == nil || (sc.String() != "(*regexp.Regexp).FindStringIndex" && sc.String() != "(*regexp.Regexp).FindIndex") {
		return
	}
	k, ok := constInt(ia.Index)
	if !ok || (k != 0 && k != 1) {
		return
	}
	for _, r := range *call.Referrers() {
		switch y := r.(type) {
		case *ssa.IndexAddr:
			for _, r2 := range *y.Referrers() {
				if u, ok := r2.(*ssa.UnOp); !ok || u.Op != token.MUL {
					if _, dbg := r2.(*ssa.DebugRef); !dbg {
						return
					}
				}
			}
		case *ssa.BinOp, *ssa.DebugRef:
		case *ssa.Call:
			if bi, ok := y.Call.Value.(*ssa.Builtin); !ok || bi.Name() != "len" {
				return
			}
		default:
			return
		}
	}
	a := g.a
	t0, t1 := "fi0("+a.regKey(call)+")", "fi1("+a.regKey(call)+")"
	own := t0
	if k == 1 {
		own = t1
	}
	g.le(key, own, 0)
	g.le(own, key, 0)
	g.le(zeroTerm, t0, 0)
	m := int64(0)
	if n, ok := a.regexpMinLen(call.Call.Args[0]); ok {
		m = n
	}
	g.le(t0, t1, -m)
	g.defineLen(call.Call.Args[1], 1)
	g.le(t1, "len("+a.regKey(call.Call.Args[1])+")", 0)
}

// regexpMinLen: least number of characters of a match of the package-level regexp the value is
// loaded from (each character is at least one byte).
func (a *NilAnalysis) regexpMinLen(recv ssa.Value) (int64, bool) {
	u, ok := recv.(*ssa.UnOp)
	if !ok || u.Op != token.MUL {
		return 0, false
	}
	gl, ok := u.X.(*ssa.Global)
	if !ok || gl.Pkg == nil {
		return 0, false
	}
	init := gl.Pkg.Func("init")
	if init == nil {
		return 0, false
	}
	n, found := int64(0), 0
	for _, b := range init.Blocks {
		for _, ins := range b.Instrs {
			st, ok := ins.(*ssa.Store)
			if !ok || st.Addr != ssa.Value(gl) {
				continue
			}
			found++
			c, ok := st.Val.(*ssa.Call)
			if !ok {
				return 0, false
			}
			if sc := c.Call.StaticCallee(); sc == nil || sc.String() != "regexp.MustCompile" {
				return 0, false
			}
			pat, ok := c.Call.Args[0].(*ssa.Const)
			if !ok || pat.Value == nil {
				return 0, false
			}
			re, err := syntax.Parse(constant.StringVal(pat.Value), syntax.Perl)
			if err != nil {
				return 0, false
			}
			n = reMinLen(re)
		}
	}
	// the variable is assigned once, in init (R5.2 checks that nothing else writes package state)
	for _, fn := range a.p.LibFns {
		if FnName(fn) == "init" {
			continue
		}
		for _, ef := range a.eff.Sum[fn].Effects {
			if rootBase(ef.Root) == "G:"+globalName(gl) {
				return 0, false
			}
		}
	}
	return n, found == 1
}

func reMinLen(re *syntax.Regexp) int64 {
	switch re.Op {
	case syntax.OpLiteral:
		return int64(len(re.Rune))
	case syntax.OpCharClass, syntax.OpAnyChar, syntax.OpAnyCharNotNL:
		return 1
	case syntax.OpConcat:
		n := int64(0)
		for _, s := range re.Sub {
			n += reMinLen(s)
		}
		return n
	case syntax.OpAlternate:
		n := int64(-1)
		for _, s := range re.Sub {
			if m := reMinLen(s); n < 0 || m < n {
				n = m
			}
		}
		if n < 0 {
			n = 0
		}
		return n
	case syntax.OpPlus, syntax.OpCapture:
		return reMinLen(re.Sub[0])
	case syntax.OpRepeat:
		return int64(re.Min) * reMinLen(re.Sub[0])
	}
	return 0
}

// isReadCount: v is the count result of a Read-like call (0 ≤ count ≤ len(buffer) by the io.Reader
// contract): the call, nil otherwise.
func isReadCount(v ssa.Value) *ssa.Call {
	ex, ok := v.(*ssa.Extract)
	if !ok || ex.Index != 0 {
		return nil
	}
	c, ok := ex.Tuple.(*ssa.Call)
	if !ok {
		return nil
	}
	if isRawReadCall(&c.Call) {
		return c
	}
	switch calleeName(&c.Call) {
	case "(*os.File).Read", "(*bufio.Reader).Read", "(*bytes.Reader).Read", "(*strings.Reader).Read", "(*bytes.Buffer).Read":
		return c
	}
	return nil
}

// fillBound: ph = phi(init, ph + m) where m is the count of a Read into buf[ph:]: the count is at
// most len(buf) − ph, so ph ≤ len(buf) is preserved; with init ≤ len(buf) it holds at the header.
func (g *cgraph) fillBound(ph *ssa.Phi, key string) {
	a := g.a
	hdr := ph.Block()
	var buf ssa.Value
	var inits []ssa.Value
	for i, e := range ph.Edges {
		if !hdr.Dominates(hdr.Preds[i]) {
			inits = append(inits, e)
			continue
		}
		bo, ok := e.(*ssa.BinOp)
		if !ok || bo.Op != token.ADD {
			return
		}
		var cnt ssa.Value
		switch {
		case bo.X == ssa.Value(ph):
			cnt = bo.Y
		case bo.Y == ssa.Value(ph):
			cnt = bo.X
		default:
			return
		}
		call := isReadCount(cnt)
		if call == nil {
			return
		}
		args := call.Call.Args
		bufArg := args[len(args)-1]
		sl, ok := bufArg.(*ssa.Slice)
		if !ok || sl.Low != ssa.Value(ph) || sl.High != nil {
			return
		}
		if buf != nil && buf != sl.X {
			return
		}
		buf = sl.X
	}
	if buf == nil || len(inits) == 0 {
		return
	}
	g.defineLen(buf, 2)
	lt := "len(" + a.regKey(buf) + ")"
	for _, in := range inits {
		t, k, ok := a.intTerm(in)
		if !ok {
			return
		}
		g.define(in, 3)
		if !g.proveLE(t, k, lt, 0) {
			return
		}
	}
	g.le(key, lt, 0)
}

// memReverseScan: the reverse scan that cuts a slice held in memory.
//
//	for i := len(L) - 1; i >= 0; i-- { … L[i] … ; L = L[:i] (on some paths) }
//
// L is a location named by an access path (a field of a parameter, an element's field, …) whose
// loads inside the loop all denote the same path.  i is a header phi with initial value
// len(load of L in the loop's entry predecessor) − 1 and back-edge value i − 1.  Inside the loop the
// only stores to L are L = (load of L)[:i], nothing stored in the loop is a prefix of L's path, and
// no call in the loop may write L.  Then at a load of L in the loop: i ≤ len − 1 when no store to L
// can have happened earlier in the same trip, i ≤ len otherwise (after L = L[:i] the length is i).
func (g *cgraph) memReverseScan(ld *ssa.UnOp, lt string) {
	a := g.a
	loc := a.pathOf(ld.X, 0)
	fn := ld.Parent()
	if loc == "" || fn == nil || strings.HasPrefix(loc, "a:") {
		return
	}
	for _, li := range loopsOf(fn) {
		if !li.blocks[ld.Block()] {
			continue
		}
		for _, ins := range li.header.Instrs {
			ph, ok := ins.(*ssa.Phi)
			if !ok {
				break
			}
			if !isIntegerT(ph.Type()) {
				continue
			}
			okPhi := true
			var init ssa.Value
			var entry *ssa.BasicBlock
			for i, e := range ph.Edges {
				if li.blocks[li.header.Preds[i]] {
					if b, k := linear(e); b != ssa.Value(ph) || k != -1 {
						okPhi = false
					}
					continue
				}
				if init != nil {
					okPhi = false
				}
				init, entry = e, li.header.Preds[i]
			}
			if !okPhi || init == nil {
				continue
			}
			base, k := linear(init)
			lc, ok := base.(*ssa.Call)
			if !ok || k != -1 {
				continue
			}
			if bi, ok := lc.Call.Value.(*ssa.Builtin); !ok || bi.Name() != "len" {
				continue
			}
			l0, ok := lc.Call.Args[0].(*ssa.UnOp)
			if !ok || l0.Op != token.MUL || a.pathOf(l0.X, 0) != loc || l0.Block() != entry {
				continue
			}
			// stores in the loop
			good := true
			var cuts []*ssa.Store
			for b := range li.blocks {
				for _, x := range b.Instrs {
					st, ok := x.(*ssa.Store)
					if !ok {
						continue
					}
					sl := a.pathOf(st.Addr, 0)
					if sl == "" {
						continue
					}
					if sl == loc {
						sv, ok := st.Val.(*ssa.Slice)
						if !ok || sv.Low != nil || sv.High != ssa.Value(ph) || sv.Max != nil {
							good = false
							continue
						}
						sx, ok := sv.X.(*ssa.UnOp)
						if !ok || sx.Op != token.MUL || a.pathOf(sx.X, 0) != loc {
							good = false
							continue
						}
						cuts = append(cuts, st)
					} else if strings.HasPrefix(loc, sl) && (len(loc) == len(sl) || loc[len(sl)] == '.' || loc[len(sl)] == '[') {
						good = false // something L's path goes through is reassigned
					}
				}
			}
			if !good || loopCallsWrite(ld.X, li, fn, a.p) {
				continue
			}
			// can a cut precede this load in the same trip?
			after := false
			for _, st := range cuts {
				if st.Block() == ld.Block() {
					if instrIndex(st) < instrIndex(ld) {
						after = true
					}
					continue
				}
				seen := map[*ssa.BasicBlock]bool{}
				work := []*ssa.BasicBlock{st.Block()}
				for len(work) > 0 {
					x := work[len(work)-1]
					work = work[:len(work)-1]
					for _, s := range x.Succs {
						if s == li.header || !li.blocks[s] || seen[s] {
							continue
						}
						seen[s] = true
						work = append(work, s)
					}
				}
				if seen[ld.Block()] {
					after = true
				}
			}
			g.define(ph, 4)
			if after {
				g.le(a.regKey(ph), lt, 0)
			} else {
				g.le(a.regKey(ph), lt, -1)
			}
		}
	}
}

// pathOf: the access path an address value denotes, followed through element and field addresses
// and the loads between them (p:s.Lines[v:t7].Items); "" when it does not start at a named value.
func (a *NilAnalysis) pathOf(addr ssa.Value, depth int) string {
	if depth > 8 {
		return ""
	}
	val := func(v ssa.Value) string { // a value used as base: a load of a path, or a register
		if u, ok := v.(*ssa.UnOp); ok && u.Op == token.MUL {
			if p := a.pathOf(u.X, depth+1); p != "" {
				return p
			}
		}
		switch x := v.(type) {
		case *ssa.IndexAddr, *ssa.FieldAddr:
			return a.pathOf(x, depth+1)
		}
		return a.key(v)
	}
	switch x := addr.(type) {
	case *ssa.FieldAddr:
		return val(x.X) + "." + fieldName(x.X.Type(), x.Field)
	case *ssa.IndexAddr:
		return val(x.X) + "[" + idxKey(x.Index) + "]"
	case *ssa.Alloc:
		return "a:" + x.Name()
	case *ssa.Global:
		return "g:" + x.Name()
	case *ssa.FreeVar:
		return "fv:" + x.Name()
	}
	return ""
}

// localTableField: x loads integer field F of a row of a literal table built in the function itself
// ([]struct{…}{{…}, {…}} ranged over, directly or through the loop variable's cell): the value lies between the
// least and the greatest constant the literal gives F. The table must only be initialised with constants and
// read (indexed, sliced whole, measured).
func localTableField(x *ssa.UnOp) (int64, int64, bool) {
	if x.Op != token.MUL || !isIntegerT(x.Type()) {
		return 0, 0, false
	}
	fa, ok := x.X.(*ssa.FieldAddr)
	if !ok {
		return 0, 0, false
	}
	rowAddr := func(v ssa.Value) (*ssa.Alloc, bool) {
		ia, ok := v.(*ssa.IndexAddr)
		if !ok {
			return nil, false
		}
		base := ia.X
		if sl, ok := base.(*ssa.Slice); ok && sl.Low == nil && sl.High == nil {
			base = sl.X
		}
		al, ok := base.(*ssa.Alloc)
		if !ok {
			return nil, false
		}
		if _, isArr := al.Type().Underlying().(*types.Pointer).Elem().Underlying().(*types.Array); !isArr {
			return nil, false
		}
		return al, true
	}
	table, ok := rowAddr(fa.X)
	if !ok {
		cell, isCell := fa.X.(*ssa.Alloc)
		if !isCell {
			return 0, 0, false
		}
		// the loop variable's cell: only whole-row copies out of one table are stored into it
		for _, r := range *cell.Referrers() {
			switch y := r.(type) {
			case *ssa.Store:
				if y.Addr != ssa.Value(cell) {
					return 0, 0, false
				}
				u, ok := y.Val.(*ssa.UnOp)
				if !ok || u.Op != token.MUL {
					return 0, 0, false
				}
				t, ok := rowAddr(u.X)
				if !ok || (table != nil && t != table) {
					return 0, 0, false
				}
				table = t
			case *ssa.FieldAddr:
				for _, r2 := range *y.Referrers() {
					if st, ok := r2.(*ssa.Store); ok && st.Addr == ssa.Value(y) {
						return 0, 0, false
					}
				}
			case *ssa.DebugRef:
			default:
				return 0, 0, false
			}
		}
		if table == nil {
			return 0, 0, false
		}
	}
	var lo, hi int64
	n := 0
	readOnly := func(refs []ssa.Instruction) bool {
		for _, r := range refs {
			switch y := r.(type) {
			case *ssa.IndexAddr:
				for _, r2 := range *y.Referrers() {
					switch z := r2.(type) {
					case *ssa.Store:
						if z.Addr == ssa.Value(y) {
							return false // whole-row store: not read here
						}
					case *ssa.FieldAddr:
						for _, r3 := range *z.Referrers() {
							st, ok := r3.(*ssa.Store)
							if !ok || st.Addr != ssa.Value(z) {
								continue
							}
							if _, isC := y.Index.(*ssa.Const); !isC {
								return false
							}
							if z.Field != fa.Field {
								continue
							}
							c, ok := constInt(stripConv(st.Val))
							if !ok {
								return false
							}
							if n == 0 || c < lo {
								lo = c
							}
							if n == 0 || c > hi {
								hi = c
							}
							n++
						}
					case *ssa.UnOp, *ssa.DebugRef:
					default:
						return false
					}
				}
			case *ssa.DebugRef:
			case *ssa.Call:
				if bi, ok := y.Call.Value.(*ssa.Builtin); !ok || (bi.Name() != "len" && bi.Name() != "cap") {
					return false
				}
			default:
				return false
			}
		}
		return true
	}
	var refs []ssa.Instruction
	for _, r := range *table.Referrers() {
		if sl, ok := r.(*ssa.Slice); ok {
			if sl.Low != nil || sl.High != nil {
				return 0, 0, false
			}
			refs = append(refs, *sl.Referrers()...)
			continue
		}
		refs = append(refs, r)
	}
	if !readOnly(refs) {
		return 0, 0, false
	}
	at := table.Type().Underlying().(*types.Pointer).Elem().Underlying().(*types.Array)
	if int64(n) != at.Len() {
		return 0, 0, false // a row leaves the field at zero
	}
	return lo, hi, true
}

var returnsIndexCache sync.Map // *ssa.Function -> bool

// returnsIndexInto: every value f returns (single int result) is provably ≥ -1 and ≤ len(first parameter) - 1 at
// the point of the return (with the facts of f's own body: the constant -1, the result of an Index* call on the
// parameter, a loop index bounded by its length).
func (a *NilAnalysis) returnsIndexInto(f *ssa.Function) bool {
	if v, ok := returnsIndexCache.Load(f); ok {
		return v.(bool)
	}
	returnsIndexCache.Store(f, false) // recursion guard
	res := func() bool {
		if len(f.Blocks) == 0 || f.Signature.Results().Len() != 1 {
			return false
		}
		p0 := f.Params[0]
		switch p0.Type().Underlying().(type) {
		case *types.Slice:
		case *types.Basic:
			if !isStringT(p0.Type()) {
				return false
			}
		default:
			return false
		}
		if a.at == nil {
			return false
		}
		saveCur, saveFn, saveCase, saveCases := a.cur, a.curFn, a.curCase, a.curCases
		defer func() { a.cur, a.curFn, a.curCase, a.curCases = saveCur, saveFn, saveCase, saveCases }()
		n := 0
		for _, b := range f.Blocks {
			ret, ok := b.Instrs[len(b.Instrs)-1].(*ssa.Return)
			if !ok {
				continue
			}
			n++
			r := ret.Results[0]
			if c, ok := constInt(r); ok {
				if c != -1 {
					return false
				}
				continue
			}
			t, k, ok := a.intTerm(r)
			if !ok {
				return false
			}
			a.cur, a.curFn, a.curCase, a.curCases = ret, f, nil, nil
			g := a.newGraph(f, ret)
			g.define(r, 0)
			g.defineLen(p0, 0)
			lp := "len(" + a.regKey(p0) + ")"
			if !g.proveLE(t, k, lp, -1) || !g.proveLE(zeroTerm, -1, t, k) {
				return false
			}
		}
		return n > 0
	}()
	returnsIndexCache.Store(f, res)
	return res
}
