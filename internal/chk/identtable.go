package chk

import (
	"go/token"

	"golang.org/x/tools/go/ssa"
)

// ---- E10 text identity: a table of identity strings kept parallel to the cue list -----------------------------
// Unfragment may compute Item.String() once per cue into a local []string and compare texts[i] == texts[j]
// instead of calling String() for every comparison. That is the same comparison as long as texts[k] is the
// string of s.Items[k] at every moment:
//   (1) every store into the table is  texts[k] = s.Items[k].String()  with the same index on both sides;
//   (2) the table is filled after the list has been ordered (no call that permutes the list follows the fill);
//   (3) every in-place deletion from the list is accompanied, in the same block, by the same deletion from the
//       table (same index), and the table is deleted from nowhere else;
//   (4) nothing else writes the table.

type identTable struct {
	family map[ssa.Value]bool
	mk     *ssa.MakeSlice
	dels   []*ssa.Call // append(T[:j], T[j+1:]...)
}

// identityTableOf: v is an element loaded from a local []string table; returns the table's family of values.
func identityTableOf(v ssa.Value) *identTable {
	u, ok := v.(*ssa.UnOp)
	if !ok || u.Op != token.MUL {
		return nil
	}
	ia, ok := u.X.(*ssa.IndexAddr)
	if !ok || !isStringT(u.Type()) {
		return nil
	}
	t := &identTable{family: map[ssa.Value]bool{}}
	var walk func(x ssa.Value) bool
	walk = func(x ssa.Value) bool {
		if t.family[x] {
			return true
		}
		switch y := x.(type) {
		case *ssa.MakeSlice:
			if t.mk != nil && t.mk != y {
				return false
			}
			t.mk = y
			t.family[x] = true
			return true
		case *ssa.Phi:
			t.family[x] = true
			for _, e := range y.Edges {
				if !walk(e) {
					return false
				}
			}
			return true
		case *ssa.Slice:
			t.family[x] = true
			return walk(y.X)
		case *ssa.Call:
			bi, ok := y.Call.Value.(*ssa.Builtin)
			if !ok || bi.Name() != "append" || len(y.Call.Args) != 2 {
				return false
			}
			s0, ok0 := y.Call.Args[0].(*ssa.Slice)
			s1, ok1 := y.Call.Args[1].(*ssa.Slice)
			if !ok0 || !ok1 || s0.High == nil || s0.Low != nil || s1.Low == nil || s1.High != nil {
				return false
			}
			b0, k0 := linear(s0.High)
			b1, k1 := linear(s1.Low)
			if b0 != b1 || k1 != k0+1 {
				return false
			}
			t.family[x] = true
			t.dels = append(t.dels, y)
			return walk(s0.X) && walk(s1.X)
		}
		return false
	}
	if !walk(ia.X) || t.mk == nil {
		return nil
	}
	return t
}

// identityTableSound checks (1)–(4) for table t used by fn, str being the identity function; why is empty when sound.
func identityTableSound(p *Prog, fn *ssa.Function, t *identTable, str *ssa.Function) string {
	// close the family over every value derived from a member (slices, deletions, merges)
	for changed := true; changed; {
		changed = false
		for m := range t.family {
			refs := m.Referrers()
			if refs == nil {
				continue
			}
			for _, r := range *refs {
				switch y := r.(type) {
				case *ssa.Phi:
					if !t.family[y] {
						t.family[y] = true
						changed = true
					}
				case *ssa.Slice:
					if !t.family[y] {
						t.family[y] = true
						changed = true
					}
				case *ssa.Call:
					if bi, ok := y.Call.Value.(*ssa.Builtin); ok && bi.Name() == "append" && !t.family[y] {
						if identityTableOfAppend(t, y) {
							t.family[y] = true
							changed = true
						} else {
							return "the table is appended to in a way that is not the deletion of one element"
						}
					}
				}
			}
		}
	}
	fills := 0
	var fillBlocks []*ssa.BasicBlock
	for m := range t.family {
		refs := m.Referrers()
		if refs == nil {
			continue
		}
		for _, r := range *refs {
			switch y := r.(type) {
			case *ssa.IndexAddr:
				for _, r2 := range *y.Referrers() {
					st, ok := r2.(*ssa.Store)
					if !ok {
						continue
					}
					if st.Addr != ssa.Value(y) {
						return "an element address of the table escapes"
					}
					c, ok := st.Val.(*ssa.Call)
					if !ok || c.Call.StaticCallee() != str {
						return "an element of the table is assigned something that is not " + FnName(str) + "()"
					}
					// receiver: *(&Items[k]) dereferenced, same k as the table index
					if !sameIndexReceiver(c.Call.Args[0], y.Index) {
						return "texts[k] is not assigned the string of Items[k] (the indices differ or cannot be related)"
					}
					fills++
					fillBlocks = append(fillBlocks, st.Block())
				}
			case *ssa.Phi, *ssa.Slice, *ssa.DebugRef:
			case *ssa.Call:
				bi, ok := y.Call.Value.(*ssa.Builtin)
				if !ok || (bi.Name() != "append" && bi.Name() != "len" && bi.Name() != "cap") {
					return "the table is passed to " + y.Call.Value.Name()
				}
			default:
				return "the table is used in a way the rule does not follow"
			}
		}
	}
	if fills == 0 {
		return "the table is never filled with " + FnName(str) + "() results"
	}
	// (2) no permutation of the list after a fill
	for _, b := range fn.Blocks {
		for _, ins := range b.Instrs {
			c, ok := ins.(*ssa.Call)
			if !ok {
				continue
			}
			sc := c.Call.StaticCallee()
			if sc == nil {
				continue
			}
			if FnName(sc) == "Subtitles.Order" || (sc.Pkg != nil && sc.Pkg.Pkg.Path() == "sort") {
				for _, fb := range fillBlocks {
					if fb == b || reachableFrom(fb)[b] {
						return "the list is reordered after the table has been filled"
					}
				}
			}
		}
	}
	// (3) deletions in lockstep
	dels := inPlaceDeletes(fn)
	var tdel []*ssa.Call
	for m := range t.family {
		if c, ok := m.(*ssa.Call); ok {
			tdel = append(tdel, c)
		}
	}
	if len(dels) > len(tdel) {
		return "VIOLATION: a cue is removed from the list without removing its entry from the table: after the first merge texts[k] is the text of another cue than Items[k]"
	}
	if len(dels) != len(tdel) {
		return "the list and the table are not deleted from the same number of times"
	}
	for _, d := range dels {
		matched := false
		for _, c := range tdel {
			b0, _ := linear(c.Call.Args[0].(*ssa.Slice).High)
			if c.Block() == d.st.Block() && b0 == d.idx {
				matched = true
			}
		}
		if !matched {
			return "VIOLATION: a deletion from the list is not accompanied by the same deletion from the table (same block, same index): texts[k] stops being the text of Items[k]"
		}
	}
	return ""
}

func identityTableOfAppend(t *identTable, y *ssa.Call) bool {
	if len(y.Call.Args) != 2 {
		return false
	}
	s0, ok0 := y.Call.Args[0].(*ssa.Slice)
	s1, ok1 := y.Call.Args[1].(*ssa.Slice)
	if !ok0 || !ok1 || s0.High == nil || s0.Low != nil || s1.Low == nil || s1.High != nil {
		return false
	}
	b0, k0 := linear(s0.High)
	b1, k1 := linear(s1.Low)
	return b0 == b1 && k1 == k0+1 && (t.family[s0.X] || t.family[s0]) && (t.family[s1.X] || t.family[s1])
}

// sameIndexReceiver: recv is the cue Items[k] (the loaded pointer, or its dereferenced value for a value
// receiver) for the same index value k.
func sameIndexReceiver(recv ssa.Value, k ssa.Value) bool {
	v := recv
	for depth := 0; depth < 4; depth++ {
		u, ok := v.(*ssa.UnOp)
		if !ok || u.Op != token.MUL {
			return false
		}
		if ia, ok := u.X.(*ssa.IndexAddr); ok {
			if _, f, _ := loadedField(ia.X); f != "Items" {
				return false
			}
			return ia.Index == k
		}
		v = u.X
	}
	return false
}
