package chk

import (
	"go/token"
	"go/types"

	"golang.org/x/tools/go/ssa"
)

// ---- E14-M3 (keyed form): sort.Stable on {items, keys} with keys[k] = items[k].StartAt ------------------------
// Order may sort through a table of start times kept in step with the list: a struct {items []*Item; keys
// []time.Duration} whose Less compares keys[i] < keys[j] and whose Swap exchanges both slices. That is the stable
// order on StartAt exactly when
//
//	(1) items is the receiver's Items and keys a fresh slice of the same length;
//	(2) before the sort every keys[k] is assigned items[k].StartAt (one loop over the list, same index);
//	(3) Len is len(items); Swap exchanges items[i], items[j] AND keys[i], keys[j]; Less is keys[i] < keys[j].
//
// Returns handled=false when the sorted value is not such a struct.
func keyedStableSort(p *Prog, fn *ssa.Function, c *ssa.Call, isList func(ssa.Value) bool) (handled bool, ok bool, why string) {
	mi, isMI := c.Call.Args[0].(*ssa.MakeInterface)
	if !isMI {
		return false, false, ""
	}
	st, isStruct := mi.X.Type().Underlying().(*types.Struct)
	if !isStruct || st.NumFields() != 2 {
		return false, false, ""
	}
	itemsF, keysF := -1, -1
	for i := 0; i < 2; i++ {
		sl, isSl := st.Field(i).Type().Underlying().(*types.Slice)
		if !isSl {
			return false, false, ""
		}
		if isPtrToNamed(sl.Elem(), "Item") {
			itemsF = i
		} else if isIntegerT(sl.Elem()) {
			keysF = i
		}
	}
	if itemsF < 0 || keysF < 0 {
		return false, false, ""
	}
	// (1) the struct value: *alloc with stores into its two fields
	ld, isLd := mi.X.(*ssa.UnOp)
	if !isLd || ld.Op != token.MUL {
		return true, false, "the sorted struct is not a local literal"
	}
	lit, isAl := ld.X.(*ssa.Alloc)
	if !isAl {
		return true, false, "the sorted struct is not a local literal"
	}
	var itemsV, keysV ssa.Value
	for _, r := range *lit.Referrers() {
		fa, isFA := r.(*ssa.FieldAddr)
		if !isFA {
			continue
		}
		for _, r2 := range *fa.Referrers() {
			if s, isSt := r2.(*ssa.Store); isSt && s.Addr == ssa.Value(fa) {
				if fa.Field == itemsF {
					itemsV = s.Val
				} else {
					keysV = s.Val
				}
			}
		}
	}
	if itemsV == nil || !isList(throughLocalCell(itemsV)) {
		return true, false, "the items of the sorted struct are not the receiver's Items"
	}
	mk, isMk := keysV.(*ssa.MakeSlice)
	if !isMk {
		return true, false, "the key table is not a fresh slice"
	}
	if lc, isC := mk.Len.(*ssa.Call); !isC || !isList(throughLocalCell(lc.Call.Args[0])) {
		return true, false, "the key table does not have the length of the list"
	}
	// (2) keys[k] = Items[k].StartAt in a loop over the list
	filled := false
	for _, b := range fn.Blocks {
		for _, ins := range b.Instrs {
			s, isSt := ins.(*ssa.Store)
			if !isSt {
				continue
			}
			ia, isIA := s.Addr.(*ssa.IndexAddr)
			if !isIA {
				continue
			}
			// the table reached through the literal's field, or the MakeSlice itself
			tbl := ia.X
			if u, isU := tbl.(*ssa.UnOp); isU && u.Op == token.MUL {
				if fa, isFA := u.X.(*ssa.FieldAddr); isFA && fa.X == ssa.Value(lit) && fa.Field == keysF {
					tbl = mk
				}
			}
			if tbl != ssa.Value(mk) {
				continue
			}
			_, f, base := loadedField(s.Val)
			if f != "StartAt" || base == nil {
				return true, false, "an entry of the key table is assigned something that is not the StartAt of a cue"
			}
			eu, isU := base.(*ssa.UnOp)
			if !isU {
				return true, false, "the cue whose start fills the key table is not an element of the list"
			}
			eia, isIA2 := eu.X.(*ssa.IndexAddr)
			if !isIA2 || eia.Index != ia.Index || !isList(throughLocalCell(eia.X)) {
				return true, false, "keys[k] is not assigned Items[k].StartAt (the indices differ)"
			}
			inLoop := false
			for _, li := range loopsOf(fn) {
				if li.blocks[b] && !li.blocks[c.Block()] {
					if iff, isIf := li.header.Instrs[len(li.header.Instrs)-1].(*ssa.If); isIf && isLoopBoundCond(iff.Cond) {
						inLoop = true
					}
				}
			}
			if !inLoop || !b.Dominates(c.Block()) && !reachableFrom(b)[c.Block()] {
				return true, false, "the key table is not filled by a loop over the whole list before the sort"
			}
			filled = true
		}
	}
	if !filled {
		return true, false, "the key table is never filled with the cues' starts"
	}
	// (3) the three methods
	ms := p.SSA.MethodSets.MethodSet(mi.X.Type())
	get := func(n string) *ssa.Function {
		for i := 0; i < ms.Len(); i++ {
			if ms.At(i).Obj().Name() == n {
				return p.SSA.MethodValue(ms.At(i))
			}
		}
		return nil
	}
	lenF, swapF, lessF := get("Len"), get("Swap"), get("Less")
	if lenF == nil || swapF == nil || lessF == nil {
		return true, false, "sort.Interface methods of the sorted struct not found"
	}
	fieldOfRecv := func(f *ssa.Function, v ssa.Value) int {
		// v = recv.field (value receiver: ssa.Field on the parameter, or a load through its spilled copy)
		switch x := v.(type) {
		case *ssa.Field:
			if x.X == ssa.Value(f.Params[0]) {
				return x.Field
			}
		case *ssa.UnOp:
			if fa, isFA := x.X.(*ssa.FieldAddr); isFA && x.Op == token.MUL {
				if al, isAl := fa.X.(*ssa.Alloc); isAl {
					for _, r := range *al.Referrers() {
						if s, isSt := r.(*ssa.Store); isSt && s.Addr == ssa.Value(al) && s.Val == ssa.Value(f.Params[0]) {
							return fa.Field
						}
					}
				}
				if fa.X == ssa.Value(f.Params[0]) {
					return fa.Field
				}
			}
		}
		return -1
	}
	// Len
	okLen := false
	for _, b := range lenF.Blocks {
		if r, isR := b.Instrs[len(b.Instrs)-1].(*ssa.Return); isR && len(r.Results) == 1 {
			if lc, isC := r.Results[0].(*ssa.Call); isC {
				if bi, isB := lc.Call.Value.(*ssa.Builtin); isB && bi.Name() == "len" && fieldOfRecv(lenF, lc.Call.Args[0]) == itemsF {
					okLen = true
				}
			}
		}
	}
	if !okLen {
		return true, false, "Len of the sorted struct is not the length of its items"
	}
	// Swap: each of the two slices has a store at index i and a store at index j
	if len(swapF.Params) != 3 {
		return true, false, "Swap has an unexpected signature"
	}
	stored := map[[2]int]bool{}
	for _, b := range swapF.Blocks {
		for _, ins := range b.Instrs {
			s, isSt := ins.(*ssa.Store)
			if !isSt {
				continue
			}
			ia, isIA := s.Addr.(*ssa.IndexAddr)
			if !isIA {
				continue
			}
			f := fieldOfRecv(swapF, ia.X)
			which := -1
			if ia.Index == ssa.Value(swapF.Params[1]) {
				which = 0
			} else if ia.Index == ssa.Value(swapF.Params[2]) {
				which = 1
			}
			// the value stored is the other index of the same slice
			if lv, isU := s.Val.(*ssa.UnOp); isU && lv.Op == token.MUL {
				if sia, isIA2 := lv.X.(*ssa.IndexAddr); isIA2 && fieldOfRecv(swapF, sia.X) == f && which >= 0 && sia.Index == ssa.Value(swapF.Params[2-which]) {
					stored[[2]int{f, which}] = true
				}
			}
		}
	}
	for _, f := range []int{itemsF, keysF} {
		if !stored[[2]int{f, 0}] || !stored[[2]int{f, 1}] {
			return true, false, "Swap does not exchange elements i and j of both the items and the key table: the table no longer says where each cue starts after the first exchange"
		}
	}
	// Less: keys[i] < keys[j]
	if len(lessF.Params) != 3 {
		return true, false, "Less has an unexpected signature"
	}
	okLess, strict := false, true
	for _, b := range lessF.Blocks {
		if r, isR := b.Instrs[len(b.Instrs)-1].(*ssa.Return); isR && len(r.Results) == 1 {
			bo, isBO := r.Results[0].(*ssa.BinOp)
			if !isBO {
				continue
			}
			side := func(v ssa.Value) int {
				u, isU := v.(*ssa.UnOp)
				if !isU || u.Op != token.MUL {
					return -1
				}
				ia, isIA := u.X.(*ssa.IndexAddr)
				if !isIA || fieldOfRecv(lessF, ia.X) != keysF {
					return -1
				}
				if ia.Index == ssa.Value(lessF.Params[1]) {
					return 0
				}
				if ia.Index == ssa.Value(lessF.Params[2]) {
					return 1
				}
				return -1
			}
			x, y := side(bo.X), side(bo.Y)
			if (bo.Op == token.LSS && x == 0 && y == 1) || (bo.Op == token.GTR && x == 1 && y == 0) {
				okLess = true
			}
			if bo.Op == token.LEQ || bo.Op == token.GEQ {
				strict = false
			}
		}
	}
	if !strict {
		return true, false, "Less of the sorted struct is not strict: equal starts are reordered"
	}
	if !okLess {
		return true, false, "Less of the sorted struct is not keys[i] < keys[j]"
	}
	return true, true, "sort.Stable over {items, keys}: keys[k] = Items[k].StartAt is established for every k before the sort, Swap exchanges both slices, Less is keys[i] < keys[j]"
}
