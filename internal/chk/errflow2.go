package chk

import (
	"fmt"
	"go/token"
	"strings"

	"golang.org/x/tools/go/ssa"
)

func (p *Prog) ioScope(l *Ledger, rule string) []*ssa.Function {
	seen := map[*ssa.Function]bool{}
	var out []*ssa.Function
	add := func(fs []*ssa.Function) {
		for _, f := range fs {
			if !seen[f] {
				seen[f] = true
				out = append(out, f)
			}
		}
	}
	add(p.ReaderClosure(l, rule))
	add(p.WriterClosure(l, rule))
	add(p.CLIFns)
	return out
}

// ruleErrPropagation: R7.1 over the reader/writer closures and package main.
func ruleErrPropagation(p *Prog, l *Ledger, tier string) {
	const rule = "E7.R7.1-propagation"
	ef := newErrFlow(p)
	n := 0
	for _, fn := range p.ioScope(l, rule) {
		for _, b := range fn.Blocks {
			for _, ins := range b.Instrs {
				switch x := ins.(type) {
				case *ssa.Call:
					if src := ef.isSource(fn, x); src != "" {
						n++
						ef.checkSource(l, rule, fn, x, src)
					}
				case *ssa.Defer:
					if src := ef.isSource(fn, x); src != "" {
						n++
						l.Fail(rule, FnName(fn), l.Key(rule, FnName(fn), "deferred-source", src), p.Pos(x.Pos()), FnName(fn)+": I/O call "+src+" is deferred, its error cannot be reported")
					} else if name := calleeName(x.Common()); strings.HasSuffix(name, ".Close") {
						l.Add(Ob{Rule: rule + ".close", Fn: FnName(fn), Key: l.Key(rule, FnName(fn), "defer-close", name), Pos: p.Pos(x.Pos()), Status: Info, Why: "error of deferred " + name + " is not reported (not demanded by C18's statement)"})
					}
				case *ssa.Go:
					if src := ef.isSource(fn, x); src != "" {
						n++
						l.Fail(rule, FnName(fn), l.Key(rule, FnName(fn), "go-source", src), p.Pos(x.Pos()), FnName(fn)+": I/O call "+src+" runs in a goroutine, its error cannot be reported")
					}
				}
			}
		}
	}
	l.Min(rule, n, 30)
}

// scanFalseSuccs: blocks entered when sc.Scan() has returned false.
func scanFalseSuccs(call *ssa.Call) []*ssa.BasicBlock {
	var out []*ssa.BasicBlock
	direct := false
	for _, ref := range *call.Referrers() {
		switch r := ref.(type) {
		case *ssa.If:
			out = append(out, r.Block().Succs[1])
			direct = true
		case *ssa.UnOp:
			if r.Op == token.NOT {
				for _, u := range *r.Referrers() {
					if iff, ok := u.(*ssa.If); ok {
						out = append(out, iff.Block().Succs[0])
						direct = true
					}
				}
			}
		}
	}
	if !direct {
		out = append(out, call.Block()) // result used some other way: be conservative
	}
	return out
}

// ruleScannerErr: R7.2 — after Scan() has returned false, no success return without sc.Err().
func ruleScannerErr(p *Prog, l *Ledger, tier string) {
	scannerErrIn(p, l, p.ioScope(l, "E7.R7.2-scanner-err"), 3)
}

// ruleScannerErrTTML: R7.2 for the scanners of the TTML reader (C03/r15): one that runs over a paragraph's text and
// whose Err() is not consulted drops the rest of a document with a line beyond the token limit.
func ruleScannerErrTTML(p *Prog, l *Ledger, tier string) {
	fn := anchor(p, l, "E7.R7.2-scanner-err", "ReadFromTTML")
	if fn == nil {
		return
	}
	var fns []*ssa.Function
	for _, f := range p.Closure([]*ssa.Function{fn}) {
		if fnPkg(f) == p.LibSSA {
			fns = append(fns, f)
		}
	}
	scannerErrIn(p, l, fns, 0)
}

func scannerErrIn(p *Prog, l *Ledger, scope []*ssa.Function, min int) {
	const rule = "E7.R7.2-scanner-err"
	n := 0
	for _, fn := range scope {
		fname := FnName(fn)
		// group Scan calls by receiver value
		scans := map[ssa.Value][]*ssa.Call{}
		var order []ssa.Value
		for _, b := range fn.Blocks {
			for _, ins := range b.Instrs {
				c, ok := ins.(*ssa.Call)
				if !ok {
					continue
				}
				if sc := c.Call.StaticCallee(); sc != nil && sc.String() == "(*bufio.Scanner).Scan" {
					recv := c.Call.Args[0]
					if scans[recv] == nil {
						order = append(order, recv)
					}
					scans[recv] = append(scans[recv], c)
				}
			}
		}
		for _, recv := range order {
			n++
			key := l.Key(rule, fname, "scanner", valueDesc(recv))
			// blocks that consult recv.Err()
			errBlocks := map[*ssa.BasicBlock]bool{}
			var errCalls []*ssa.Call
			for _, ref := range *recv.Referrers() {
				if c, ok := ref.(*ssa.Call); ok {
					if sc := c.Call.StaticCallee(); sc != nil && sc.String() == "(*bufio.Scanner).Err" && c.Call.Args[0] == recv {
						errBlocks[c.Block()] = true
						errCalls = append(errCalls, c)
					}
				}
			}
			if errResultIndex(fn.Signature) < 0 {
				l.Fail(rule, fname, key, p.Pos(scans[recv][0].Pos()), fname+" scans input but cannot return an error")
				continue
			}
			var bad []string
			seen := map[*ssa.BasicBlock]bool{}
			var work []*ssa.BasicBlock
			for _, c := range scans[recv] {
				work = append(work, scanFalseSuccs(c)...)
			}
			for len(work) > 0 {
				b := work[len(work)-1]
				work = work[:len(work)-1]
				if seen[b] {
					continue
				}
				seen[b] = true
				if errBlocks[b] {
					continue // Err() consulted on this path (its result is a source under R7.1)
				}
				if r, ok := b.Instrs[len(b.Instrs)-1].(*ssa.Return); ok {
					v := retErrOperand(fn, r)
					if v == nil || !nonNilError(v, knownNonNilAt(b), 0) {
						bad = append(bad, p.Pos(r.Pos()))
					}
					continue
				}
				work = append(work, b.Succs...)
			}
			if len(bad) > 0 {
				l.Fail(rule, fname, key, p.Pos(scans[recv][0].Pos()), fmt.Sprintf("%s: after Scan() returns false the return at %s is reachable without consulting scanner.Err(): a read error or an over-long line ends the loop like end of input (silent truncation)", fname, strings.Join(dedupKeep(bad), ", ")))
			} else {
				l.Prove(rule, fname, key, p.Pos(scans[recv][0].Pos()), fmt.Sprintf("%d Scan call(s); every path from a false Scan to a possibly-nil-error return passes one of %d Err() call(s)", len(scans[recv]), len(errCalls)))
			}
		}
	}
	if n == 0 && min == 0 {
		l.Prove(rule, "", rule+"|none", "", fmt.Sprintf("no bufio.Scanner in the %d functions in scope", len(scope)))
	}
	l.Min(rule, n, min)
}

// ruleFlush: R7.3 — buffered sinks created in writers are flushed on every success path.
func ruleFlush(p *Prog, l *Ledger, tier string) {
	const rule = "E7.R7.3-flush"
	creators := map[string][]string{
		"encoding/xml.NewEncoder": {"(*encoding/xml.Encoder).Encode", "(*encoding/xml.Encoder).Flush", "(*encoding/xml.Encoder).Close", "(*encoding/xml.Encoder).EncodeElement"},
		"bufio.NewWriter":         {"(*bufio.Writer).Flush"},
		"bufio.NewWriterSize":     {"(*bufio.Writer).Flush"},
		"encoding/csv.NewWriter":  {"(*encoding/csv.Writer).Flush"},
	}
	n := 0
	for _, fn := range p.ioScope(l, rule) {
		fname := FnName(fn)
		for _, b := range fn.Blocks {
			for _, ins := range b.Instrs {
				c, ok := ins.(*ssa.Call)
				if !ok {
					continue
				}
				sc := c.Call.StaticCallee()
				if sc == nil {
					continue
				}
				flushers, ok := creators[sc.String()]
				if !ok {
					continue
				}
				n++
				key := l.Key(rule, fname, "sink", sc.String())
				fb := map[*ssa.BasicBlock]bool{}
				for _, ref := range *c.Referrers() {
					if fc, ok := ref.(*ssa.Call); ok {
						if fs := fc.Call.StaticCallee(); fs != nil {
							for _, f := range flushers {
								if fs.String() == f {
									fb[fc.Block()] = true
								}
							}
						}
					}
				}
				var bad []string
				seen := map[*ssa.BasicBlock]bool{}
				work := []*ssa.BasicBlock{c.Block()}
				for len(work) > 0 {
					x := work[len(work)-1]
					work = work[:len(work)-1]
					if seen[x] {
						continue
					}
					seen[x] = true
					if fb[x] {
						continue
					}
					if r, ok := x.Instrs[len(x.Instrs)-1].(*ssa.Return); ok {
						v := retErrOperand(fn, r)
						if v == nil || !nonNilError(v, knownNonNilAt(x), 0) {
							bad = append(bad, p.Pos(r.Pos()))
						}
						continue
					}
					work = append(work, x.Succs...)
				}
				if len(bad) > 0 {
					l.Fail(rule, fname, key, p.Pos(c.Pos()), fmt.Sprintf("%s: sink created by %s can reach the success return at %s without Flush/Encode", fname, sc.String(), strings.Join(bad, ", ")))
				} else {
					l.Prove(rule, fname, key, p.Pos(c.Pos()), "every success path passes a flushing call")
				}
			}
		}
	}
	l.Min(rule, n, 1)
}

// valueDesc: a description of an SSA value that is stable under unrelated edits.
func valueDesc(v ssa.Value) string {
	switch x := v.(type) {
	case *ssa.Call:
		return "result of " + calleeName(&x.Call)
	case *ssa.Parameter:
		return "parameter " + x.Name()
	case *ssa.Extract:
		return "result of " + valueDesc(x.Tuple)
	}
	return typeStr(v.Type())
}
