package chk

import (
	"fmt"
	"go/token"

	"golang.org/x/tools/go/ssa"
)

// ---- E9-T7 the page number is an injective function of its two digits ---------------------------------
// A teletext page header carries two Hamming-protected hexadecimal digits (0..15 each). The value
// parsePacketHeader compares with the selected page is computed from them; if two different digit
// pairs give the same value (tens*10+units: 1,A and 2,0 both give 20), packets of another page are
// taken for the selected one. The combining expression is evaluated on all 256 digit pairs, and the
// selected page given as a decimal number (newTeletextPageBuffer) must be encoded by the same function
// of its decimal digits.
func evalInt(v ssa.Value, env map[ssa.Value]int64, depth int) (int64, bool) {
	if depth > 12 {
		return 0, false
	}
	if x, ok := env[v]; ok {
		return x, true
	}
	if c, ok := constInt(v); ok {
		return c, true
	}
	switch t := v.(type) {
	case *ssa.Convert:
		return evalInt(t.X, env, depth+1)
	case *ssa.ChangeType:
		return evalInt(t.X, env, depth+1)
	case *ssa.BinOp:
		a, ok1 := evalInt(t.X, env, depth+1)
		b, ok2 := evalInt(t.Y, env, depth+1)
		if !ok1 || !ok2 {
			return 0, false
		}
		switch t.Op {
		case token.ADD:
			return a + b, true
		case token.SUB:
			return a - b, true
		case token.MUL:
			return a * b, true
		case token.QUO:
			if b == 0 {
				return 0, false
			}
			return a / b, true
		case token.REM:
			if b == 0 {
				return 0, false
			}
			return a % b, true
		case token.SHL:
			return a << uint(b), true
		case token.SHR:
			return a >> uint(b), true
		case token.OR:
			return a | b, true
		case token.AND:
			return a & b, true
		case token.XOR:
			return a ^ b, true
		}
	}
	return 0, false
}

func ruleTeletextPageNumber(p *Prog, l *Ledger, tier string) {
	const rule = "E9.T7-teletext-page-number"
	hd := anchor(p, l, rule, "teletextPageBuffer.parsePacketHeader")
	nb := anchor(p, l, rule, "newTeletextPageBuffer")
	if hd == nil || nb == nil {
		return
	}
	// the two decoded digits: first results of ByteHamming84Decode(i[0]) and (i[1])
	var units, tens ssa.Value
	for _, b := range hd.Blocks {
		for _, ins := range b.Instrs {
			ex, ok := ins.(*ssa.Extract)
			if !ok || ex.Index != 0 {
				continue
			}
			c, ok := ex.Tuple.(*ssa.Call)
			if !ok || calleeShort(&c.Call) != "go-astikit.ByteHamming84Decode" && calleeName(&c.Call) != "github.com/asticode/go-astikit.ByteHamming84Decode" {
				continue
			}
			u, ok := c.Call.Args[0].(*ssa.UnOp)
			if !ok {
				continue
			}
			ia, ok := u.X.(*ssa.IndexAddr)
			if !ok {
				continue
			}
			switch k, _ := constInt(ia.Index); k {
			case 0:
				units = ex
			case 1:
				tens = ex
			}
		}
	}
	key := rule + "|injective"
	if units == nil || tens == nil {
		l.Undecide(rule, hd.Name(), key, "", "the two page-number digits of the header were not found")
		return
	}
	// the value compared with b.pageNumber
	var pageExpr ssa.Value
	for _, b := range hd.Blocks {
		for _, ins := range b.Instrs {
			bo, ok := ins.(*ssa.BinOp)
			if !ok || (bo.Op != token.EQL && bo.Op != token.NEQ) {
				continue
			}
			for _, pr := range [][2]ssa.Value{{bo.X, bo.Y}, {bo.Y, bo.X}} {
				if _, f, _ := loadedField(pr[1]); f == "pageNumber" {
					if mentions(pr[0], units, 0) || mentions(pr[0], tens, 0) {
						pageExpr = pr[0]
					}
				}
			}
		}
	}
	if pageExpr == nil {
		l.Undecide(rule, hd.Name(), key, "", "no comparison of a value computed from the header digits with the selected page number was found")
		return
	}
	seen := map[int64][2]int64{}
	clash := ""
	f := func(t, u int64) (int64, bool) {
		return evalInt(pageExpr, map[ssa.Value]int64{tens: t, units: u}, 0)
	}
	for t := int64(0); t < 16 && clash == ""; t++ {
		for u := int64(0); u < 16; u++ {
			v, ok := f(t, u)
			if !ok {
				l.Undecide(rule, hd.Name(), key, p.Pos(pageExpr.Pos()), "the page-number expression could not be evaluated")
				return
			}
			if prev, dup := seen[v]; dup {
				clash = fmt.Sprintf("digits %X,%X and %X,%X both give %d", prev[0], prev[1], t, u, v)
				break
			}
			seen[v] = [2]int64{t, u}
		}
	}
	if clash != "" {
		l.Fail(rule, hd.Name(), key, p.Pos(pageExpr.Pos()), fmt.Sprintf("the page number compared with the selected page is not an injective function of the two hexadecimal digits of the header (%s): packets of another page are taken for the selected one", clash))
	} else {
		l.Prove(rule, hd.Name(), key, p.Pos(pageExpr.Pos()), "the page number is injective over the 256 digit pairs")
	}
	// the selected page (decimal parameter) is encoded by the same function of its decimal digits
	key2 := rule + "|selected-page-encoding"
	var sel ssa.Value
	for _, v := range fieldStores(nb.Blocks, "teletextPageBuffer")["pageNumber"] {
		sel = v
	}
	if sel == nil || len(nb.Params) == 0 {
		l.Undecide(rule, nb.Name(), key2, "", "store to teletextPageBuffer.pageNumber not found in newTeletextPageBuffer")
		return
	}
	bad := ""
	for page := int64(100); page < 900 && bad == ""; page += 7 {
		got, ok := evalInt(sel, map[ssa.Value]int64{nb.Params[0]: page}, 0)
		want, ok2 := f((page%100)/10, page%10)
		if !ok || !ok2 {
			l.Undecide(rule, nb.Name(), key2, "", "the selected-page expression could not be evaluated")
			return
		}
		if got != want {
			bad = fmt.Sprintf("page %d is stored as %d but its header digits give %d", page, got, want)
		}
	}
	if bad == "" {
		l.Prove(rule, nb.Name(), key2, "", "the selected page is encoded like the header digits")
	} else {
		l.Fail(rule, nb.Name(), key2, "", "newTeletextPageBuffer and parsePacketHeader encode page numbers differently: "+bad+": the selected page is never recognised")
	}
	// "no page selected" is the pair (magazine 0, page 0) tested in the header parser: no selectable page may be stored
	// as that pair (a magazine kept on its three transmitted bits turns page 800 into it)
	key3 := rule + "|selected-page-not-sentinel"
	zeroTest := func(field string) bool {
		for _, b := range hd.Blocks {
			for _, ins := range b.Instrs {
				bo, ok := ins.(*ssa.BinOp)
				if !ok || (bo.Op != token.EQL && bo.Op != token.NEQ) {
					continue
				}
				for _, pr := range [][2]ssa.Value{{bo.X, bo.Y}, {bo.Y, bo.X}} {
					if _, f, _ := loadedField(pr[0]); f == field {
						if c, ok := constInt(pr[1]); ok && c == 0 {
							return true
						}
					}
				}
			}
		}
		return false
	}
	if !zeroTest("magazineNumber") || !zeroTest("pageNumber") {
		l.Prove(rule, nb.Name(), key3, "", "the header parser does not use magazine 0 / page 0 as the sign that no page is selected")
		l.Min(rule, 3, 3)
		return
	}
	var mag ssa.Value
	for _, v := range fieldStores(nb.Blocks, "teletextPageBuffer")["magazineNumber"] {
		mag = v
	}
	if mag == nil {
		l.Undecide(rule, nb.Name(), key3, "", "store to teletextPageBuffer.magazineNumber not found in newTeletextPageBuffer")
		return
	}
	bad = ""
	for page := int64(100); page < 900 && bad == ""; page++ {
		m, ok := evalInt(mag, map[ssa.Value]int64{nb.Params[0]: page}, 0)
		pg, ok2 := evalInt(sel, map[ssa.Value]int64{nb.Params[0]: page}, 0)
		if !ok || !ok2 {
			l.Undecide(rule, nb.Name(), key3, "", "the selected-magazine expression could not be evaluated")
			return
		}
		if m == 0 && pg == 0 {
			bad = fmt.Sprintf("page %d is stored as magazine 0, page 0", page)
		}
	}
	if bad == "" {
		l.Prove(rule, nb.Name(), key3, "", "none of the pages 100 to 899 is stored as (magazine 0, page 0), the pair the header parser reads as \"no page selected\"")
	} else {
		l.Fail(rule, nb.Name(), key3, p.Pos(mag.Pos()), bad+", which the header parser takes for \"no page selected\": the reader then locks on the first subtitle page it sees instead of the one asked for")
	}
	l.Min(rule, 3, 3)
}
