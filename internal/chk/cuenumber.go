package chk

import (
	"fmt"

	"golang.org/x/tools/go/ssa"
)

// ---- E10-A13 cues are numbered by position (added after seeded change C02/2, round 4) ----------------------
// "Writing … produces a document (cues numbered consecutively)": the identifier line the SRT and
// WebVTT writers emit is the position of the cue in the list plus one. Rule: inside the cue loop of
// the writer, every integer rendered with strconv.Itoa derives from the range index (and constants)
// only; in particular not from Item.Index, the identifier the cue happened to carry when it was read.
func intOrigins(v ssa.Value, seen map[ssa.Value]bool, out strset) {
	if seen[v] {
		return
	}
	seen[v] = true
	v2 := stripConv(v)
	if v2 != v {
		intOrigins(v2, seen, out)
		return
	}
	if _, ok := constInt(v); ok {
		return
	}
	switch t := v.(type) {
	case *ssa.Phi:
		if t.Comment == "rangeindex" {
			out.add("range-index")
			return
		}
		for _, e := range t.Edges {
			intOrigins(e, seen, out)
		}
		return
	case *ssa.BinOp:
		intOrigins(t.X, seen, out)
		intOrigins(t.Y, seen, out)
		return
	}
	if tn, f, _ := loadedField(v); f != "" {
		out.add(tn + "." + f)
		return
	}
	out.add(descOf(v))
}

func ruleCueNumbering(names ...string) func(p *Prog, l *Ledger, tier string) {
	return func(p *Prog, l *Ledger, tier string) {
		const rule = "E10.A13-cue-numbering"
		n := 0
		for _, name := range names {
			fn := anchor(p, l, rule, name)
			if fn == nil {
				continue
			}
			loops := loopsOf(fn)
			for _, b := range fn.Blocks {
				inLoop := false
				for _, li := range loops {
					if li.blocks[b] {
						inLoop = true
					}
				}
				if !inLoop {
					continue
				}
				for _, ins := range b.Instrs {
					c, ok := ins.(*ssa.Call)
					if !ok {
						continue
					}
					// the integer rendered: strconv.Itoa(n), strconv.FormatInt(n, 10), strconv.AppendInt(buf, n, 10)
					argIdx := map[string]int{"strconv.Itoa": 0, "strconv.FormatInt": 0, "strconv.AppendInt": 1}
					k, isRender := argIdx[calleeName(&c.Call)]
					if !isRender || k >= len(c.Call.Args) {
						continue
					}
					or := strset{}
					intOrigins(c.Call.Args[k], map[ssa.Value]bool{}, or)
					if !or["range-index"] && !or["Item.Index"] {
						continue // some other number (region lines, …)
					}
					n++
					key := l.Key(rule, name, "itoa", "")
					if or["Item.Index"] {
						l.Fail(rule, name, key, p.Pos(c.Pos()), fmt.Sprintf("%s renders a cue identifier that can come from Item.Index (origins %v): cues are no longer numbered consecutively from 1 (gaps, arbitrary start, duplicates when an unnumbered cue falls back to its position)", name, or.sorted()))
					} else {
						l.Prove(rule, name, key, p.Pos(c.Pos()), "the identifier is the range index plus a constant")
					}
				}
			}
		}
		l.Min(rule, n, len(names))
	}
}
