package chk

import (
	"fmt"
	"go/token"

	"golang.org/x/tools/go/ssa"
)

// ---- E13-I7 readers consume the whole source (added after seeded change C05/1) ----------------------
// A reader denotes the whole document only if its main loop – the loop that pulls lines / blocks /
// packets from the source – runs until the source is exhausted or an error is returned. Rule: every
// exit edge of a source-driven loop (E4 class L4: a progress primitive executed on every trip) of a
// reader entry point is controlled by a condition that depends on the result of that primitive
// (Scan() == false, readNBytes' err == io.EOF) or on an error value. An exit controlled by document
// data (a counter from a header field, a sentinel line) stops before the end of the source.
func errOperand(v ssa.Value, depth int) bool {
	if depth > 4 {
		return false
	}
	switch t := v.(type) {
	case *ssa.BinOp:
		if t.Op == token.EQL || t.Op == token.NEQ {
			return isErrorType(t.X.Type()) || isErrorType(t.Y.Type())
		}
	case *ssa.Call:
		if n := calleeName(&t.Call); n == "errors.Is" || n == "errors.As" {
			return true
		}
	case *ssa.UnOp:
		if t.Op == token.NOT {
			return errOperand(t.X, depth+1)
		}
	case *ssa.Phi:
		// short-circuit conditions merged by a phi
		for _, e := range t.Edges {
			if _, isConst := e.(*ssa.Const); isConst {
				continue
			}
			if !errOperand(e, depth+1) {
				return false
			}
		}
		return true
	}
	return false
}

func ruleReaderFullScan(names []string, min int) func(p *Prog, l *Ledger, tier string) {
	return func(p *Prog, l *Ledger, tier string) {
		const rule = "E13.I7-reader-full-scan"
		pf := progressFns(p)
		n := 0
		for _, name := range names {
			fn := anchor(p, l, rule, name)
			if fn == nil {
				continue
			}
			for _, li := range loopsOf(fn) {
				// the progress call executed on every trip
				var prog *ssa.Call
				for b := range li.blocks {
					for _, ins := range b.Instrs {
						c, ok := ins.(*ssa.Call)
						if !ok {
							continue
						}
						isProg := progressPrimitives[calleeName(&c.Call)]
						if sc := c.Call.StaticCallee(); sc != nil && pf[sc] {
							isProg = true
						}
						if !isProg {
							continue
						}
						dom := true
						for _, lt := range li.latch {
							if !b.Dominates(lt) {
								dom = false
							}
						}
						// only the loop that directly owns the call: the call's innermost loop is this one
						if dom && innermostLoop(fn, b) == li.header {
							prog = c
						}
					}
				}
				if prog == nil {
					continue
				}
				n++
				key := l.Key(rule, name, "loop", calleeShort(&prog.Call))
				bad := ""
				for b := range li.blocks {
					iff, ok := b.Instrs[len(b.Instrs)-1].(*ssa.If)
					if !ok {
						continue
					}
					exits := false
					for _, s := range b.Succs {
						if !li.blocks[s] {
							exits = true
						}
					}
					if !exits {
						continue
					}
					if dependsOnCall(iff.Cond, prog, li, map[ssa.Value]bool{}) || errOperand(iff.Cond, 0) {
						continue
					}
					pos := p.Pos(iff.Cond.Pos())
					if pos == "-" {
						pos = blockPos(p, b)
					}
					if bad == "" || pos < bad {
						bad = pos
					}
				}
				if bad == "" {
					l.Prove(rule, name, key, blockPos(p, li.header), "every exit of the source loop depends on "+calleeShort(&prog.Call)+" or on an error value")
				} else {
					l.Fail(rule, name, key, bad, fmt.Sprintf("%s: the loop that reads the source with %s (at %s) can be left on a condition at %s that depends neither on the source being exhausted nor on an error: the rest of the document is not read", name, calleeShort(&prog.Call), blockPos(p, li.header), bad))
				}
			}
		}
		l.Min(rule, n, min)
	}
}

// innermostLoop: header of the innermost natural loop containing b (nil if none).
func innermostLoop(fn *ssa.Function, b *ssa.BasicBlock) *ssa.BasicBlock {
	var best *loopInfo
	for _, li := range loopsOf(fn) {
		if li.blocks[b] && (best == nil || len(li.blocks) < len(best.blocks)) {
			best = li
		}
	}
	if best == nil {
		return nil
	}
	return best.header
}
