package chk

import "strings"

type retKind int

const (
	retFresh   retKind = iota // result is freshly allocated / immutable, unrelated to arguments
	retAlias                  // result may alias any reference argument (incl. receiver)
	retHold                   // result is a fresh object that holds (points to) the reference arguments
	retUnknown                // unknown callee: aliases everything, marked Unknown
)

// contract describes the memory behaviour of an external callee (P2 of DESIGN.md §2.3).
// Argument indexes are positions in CallCommon.Args; for invokes the receiver is index -1.
type contract struct {
	ret     retKind
	writes  []int // arguments whose pointee is written (contents come from the other arguments / the outside)
	copies  bool  // what is written is a copy of bytes / runes: the written object keeps no reference to the other arguments
	io      bool  // performs I/O through / mutates its receiver (Args[0], or the invoke receiver)
	permute int   // argument permuted in place (sort.*); -1 none. 0 means Args[0] only when hasPermute
	hasPerm bool
	logs    bool   // writes to the process logger (goroutine-safe by documentation)
	global  string // touches this process-global state (flag.CommandLine)
	why     string
}

var contracts = map[string]contract{
	// builtins are handled structurally in effects.go
	"bytes.TrimSpace":   {ret: retAlias, why: "returns a subslice of its argument"},
	"bytes.Split":       {ret: retAlias, why: "returns subslices of its argument"},
	"bytes.TrimPrefix":  {ret: retAlias},
	"bytes.TrimSuffix":  {ret: retAlias},
	"bytes.TrimRight":   {ret: retAlias},
	"bytes.TrimLeft":    {ret: retAlias},
	"bytes.Trim":        {ret: retAlias},
	"bytes.Fields":      {ret: retAlias},
	"bytes.SplitN":      {ret: retAlias},
	"bytes.IndexAny":    {},
	"bytes.Index":       {},
	"bytes.IndexByte":   {},
	"bytes.Equal":       {},
	"bytes.HasPrefix":   {},
	"bytes.HasSuffix":   {},
	"bytes.Contains":    {},
	"bytes.NewReader":   {ret: retHold},
	"bytes.NewBuffer":   {ret: retHold},
	"bytes.ToLower":     {},
	"bytes.ToUpper":     {},
	"bytes.Join":        {},
	"bytes.Repeat":      {},
	"bytes.ReplaceAll":  {},
	"bytes.Replace":     {},
	"bytes.Count":       {},
	"bytes.LastIndex":   {},
	"bytes.IndexFunc":   {},
	"bytes.IndexRune":   {},
	"bytes.ContainsAny": {},

	"github.com/asticode/go-astikit.BytesPad":                {ret: retAlias, why: "may return its input slice or a slice of it (astikit pad.go)"},
	"github.com/asticode/go-astikit.StrPad":                  {},
	"github.com/asticode/go-astikit.BoolPtr":                 {},
	"github.com/asticode/go-astikit.IntPtr":                  {},
	"github.com/asticode/go-astikit.Float64Ptr":              {},
	"github.com/asticode/go-astikit.StrPtr":                  {},
	"github.com/asticode/go-astikit.UInt8Ptr":                {},
	"github.com/asticode/go-astikit.UInt32Ptr":               {},
	"github.com/asticode/go-astikit.Int64Ptr":                {},
	"github.com/asticode/go-astikit.DurationPtr":             {},
	"github.com/asticode/go-astikit.ByteHamming84Decode":     {},
	"github.com/asticode/go-astikit.ByteParity":              {},
	"github.com/asticode/go-astikit.NewBiMap":                {},
	"(*github.com/asticode/go-astikit.BiMap).Get":            {ret: retAlias, why: "read under RWMutex; value comes from the map"},
	"(*github.com/asticode/go-astikit.BiMap).GetInverse":     {ret: retAlias},
	"(*github.com/asticode/go-astikit.BiMap).MustGet":        {ret: retAlias},
	"(*github.com/asticode/go-astikit.BiMap).MustGetInverse": {ret: retAlias},
	"(*github.com/asticode/go-astikit.BiMap).Set":            {ret: retAlias, writes: []int{0}, why: "mutates the map (under its mutex) and returns the receiver"},
	"(*github.com/asticode/go-astikit.BiMap).SetInverse":     {ret: retAlias, writes: []int{0}},
	"github.com/asticode/go-astikit.FlagCmd":                 {global: "os.Args"},
	"github.com/asticode/go-astikit.NewFlagStrings":          {},

	"(encoding/binary.bigEndian).PutUint16":    {writes: []int{1}},
	"(encoding/binary.bigEndian).PutUint32":    {writes: []int{1}},
	"(encoding/binary.bigEndian).PutUint64":    {writes: []int{1}},
	"(encoding/binary.littleEndian).PutUint16": {writes: []int{1}},
	"(encoding/binary.littleEndian).PutUint32": {writes: []int{1}},
	"(encoding/binary.littleEndian).PutUint64": {writes: []int{1}},
	"(encoding/binary.bigEndian).Uint16":       {},
	"(encoding/binary.bigEndian).Uint32":       {},
	"(encoding/binary.bigEndian).Uint64":       {},
	"(encoding/binary.littleEndian).Uint16":    {},
	"(encoding/binary.littleEndian).Uint32":    {},
	"(encoding/binary.littleEndian).Uint64":    {},

	"bufio.NewScanner":                        {ret: retHold},
	"bufio.NewReader":                         {ret: retHold},
	"bufio.NewReaderSize":                     {ret: retHold},
	"bufio.NewWriter":                         {ret: retHold},
	"(*bufio.Scanner).Scan":                   {io: true},
	"(*bufio.Scanner).Split":                  {writes: []int{0}},
	"(*bufio.Scanner).Buffer":                 {writes: []int{0}},
	"(*bufio.Scanner).Text":                   {},
	"(*bufio.Scanner).Bytes":                  {ret: retAlias},
	"(*bufio.Scanner).Err":                    {ret: retAlias},
	"encoding/xml.NewDecoder":                 {ret: retHold},
	"encoding/xml.NewTokenDecoder":            {ret: retHold},
	"encoding/xml.NewEncoder":                 {ret: retHold},
	"(*encoding/xml.Decoder).Decode":          {io: true, writes: []int{1}},
	"(*encoding/xml.Decoder).DecodeElement":   {io: true, writes: []int{1}},
	"(*encoding/xml.Decoder).Token":           {io: true},
	"(*encoding/xml.Decoder).RawToken":        {io: true},
	"(*encoding/xml.Decoder).Skip":            {io: true},
	"(*encoding/xml.Encoder).Encode":          {io: true, why: "reads its argument by reflection; MarshalText methods of the package are analysed separately"},
	"(*encoding/xml.Encoder).EncodeElement":   {io: true},
	"(*encoding/xml.Encoder).EncodeToken":     {io: true},
	"(*encoding/xml.Encoder).Flush":           {io: true},
	"(*encoding/xml.Encoder).Close":           {io: true},
	"(*encoding/xml.Encoder).Indent":          {writes: []int{0}},
	"encoding/xml.Unmarshal":                  {writes: []int{1}},
	"encoding/xml.Marshal":                    {},
	"encoding/xml.MarshalIndent":              {},
	"invoke (encoding/xml.TokenReader).Token": {io: true},

	"github.com/asticode/go-astits.NewDemuxer":             {ret: retHold},
	"(*github.com/asticode/go-astits.Demuxer).NextData":    {io: true},
	"(*github.com/asticode/go-astits.Demuxer).NextPacket":  {io: true},
	"(*github.com/asticode/go-astits.Demuxer).Rewind":      {io: true},
	"(github.com/asticode/go-astits.ClockReference).Time":  {},
	"(*github.com/asticode/go-astits.ClockReference).Time": {},

	"golang.org/x/net/html.NewTokenizer":           {ret: retHold},
	"(*golang.org/x/net/html.Tokenizer).Next":      {io: true},
	"(*golang.org/x/net/html.Tokenizer).Err":       {ret: retAlias},
	"(*golang.org/x/net/html.Tokenizer).Raw":       {ret: retAlias},
	"(*golang.org/x/net/html.Tokenizer).Token":     {io: true},
	"(*golang.org/x/net/html.Tokenizer).Text":      {io: true, ret: retAlias},
	"(*golang.org/x/net/html.Tokenizer).TagName":   {io: true, ret: retAlias},
	"(*golang.org/x/net/html.Tokenizer).TagAttr":   {io: true, ret: retAlias},
	"(golang.org/x/text/unicode/norm.Form).Bytes":  {why: "returns a new slice (norm/normalize.go: Bytes appends to a fresh buffer when changes are needed, else returns... a copy)"},
	"(golang.org/x/text/unicode/norm.Form).String": {},

	"os.Open":                  {},
	"os.Create":                {},
	"os.CreateTemp":            {},
	"os.Rename":                {},
	"os.Remove":                {},
	"os.OpenFile":              {},
	"(*os.File).Close":         {io: true},
	"(*os.File).Write":         {io: true},
	"(*os.File).Read":          {io: true, writes: []int{1}},
	"invoke (io.Reader).Read":  {io: true, writes: []int{0}},
	"invoke (io.Writer).Write": {io: true},
	"invoke (io.Closer).Close": {io: true},
	"io.ReadFull":              {io: true, writes: []int{1}},
	"io.ReadAtLeast":           {io: true, writes: []int{1}},
	"io.ReadAll":               {io: true},
	"io.Copy":                  {io: true},
	"io.WriteString":           {io: true},

	"log.Printf": {logs: true}, "log.Println": {logs: true}, "log.Print": {logs: true},
	"log.Fatal": {logs: true}, "log.Fatalf": {logs: true}, "log.Fatalln": {logs: true},

	"sort.Ints": {permute: 0, hasPerm: true}, "sort.Strings": {permute: 0, hasPerm: true},
	"sort.Float64s": {permute: 0, hasPerm: true}, "sort.Slice": {permute: 0, hasPerm: true},
	"sort.SliceStable": {permute: 0, hasPerm: true}, "sort.Sort": {permute: 0, hasPerm: true},
	"sort.Stable":     {permute: 0, hasPerm: true},
	"sort.SearchInts": {}, "sort.SearchStrings": {}, "sort.Search": {},
	"sort.SliceIsSorted": {}, "sort.StringsAreSorted": {}, "sort.IntsAreSorted": {}, "sort.IsSorted": {}, "sort.Float64sAreSorted": {},

	"strings.NewReplacer":            {},
	"strings.NewReader":              {},
	"(*strings.Replacer).Replace":    {},
	"(*strings.Builder).WriteString": {writes: []int{0}, copies: true},
	"(*strings.Builder).WriteByte":   {writes: []int{0}, copies: true},
	"(*strings.Builder).WriteRune":   {writes: []int{0}, copies: true},
	"(*strings.Builder).Write":       {writes: []int{0}, copies: true},
	"(*strings.Builder).Grow":        {writes: []int{0}, copies: true},
	"(*strings.Builder).Reset":       {writes: []int{0}, copies: true},
	"(*strings.Builder).Len":         {},
	"(*strings.Builder).String":      {},
	"(*bytes.Buffer).Write":          {writes: []int{0}, copies: true},
	"(*bytes.Buffer).WriteString":    {writes: []int{0}, copies: true},
	"(*bytes.Buffer).WriteByte":      {writes: []int{0}, copies: true},
	"(*bytes.Buffer).WriteRune":      {writes: []int{0}, copies: true},
	"(*bytes.Buffer).Truncate":       {writes: []int{0}, copies: true},
	"(*bytes.Buffer).Reset":          {writes: []int{0}, copies: true},
	"(*bytes.Buffer).Grow":           {writes: []int{0}, copies: true},
	"(*bytes.Buffer).Bytes":          {ret: retAlias},
	"(*bytes.Buffer).String":         {},
	"(*bytes.Buffer).Len":            {},
	"(*bytes.Buffer).Cap":            {},
	"regexp.MustCompile":             {},
	"regexp.Compile":                 {},
	"context.Background":             {},
	"time.Now":                       {why: "reads the wall clock (nondeterminism source; see rule C19.nondet)"},
	"time.Parse":                     {},
	"flag.Duration":                  {global: "flag.CommandLine"}, "flag.Int": {global: "flag.CommandLine"},
	"flag.String": {global: "flag.CommandLine"}, "flag.Parse": {global: "flag.CommandLine"},
	"flag.Var": {global: "flag.CommandLine", ret: retHold}, "flag.Bool": {global: "flag.CommandLine"},
}

// purePrefixes: callees from these packages / with these receivers neither write their arguments
// nor retain them, and return fresh (or immutable) results.
var purePrefixes = []string{
	"strings.", "strconv.", "unicode.", "unicode/utf8.", "math.", "math/bits.", "errors.", "fmt.Sprint",
	"fmt.Errorf", "path/filepath.", "path.", "(time.Duration).", "(time.Time).", "(*time.Time).", "time.Duration",
	"time.Since", "time.Until", "time.Unix", "time.Date", "(*regexp.Regexp).", "(time.Month).", "html.",
	"utf16.", "unicode/utf16.", "(*strings.Reader).", "(reflect.", "reflect.TypeOf", "(time.Location).",
}

func lookupContract(name string) (contract, bool) {
	if c, ok := contracts[name]; ok {
		return c, true
	}
	if strings.HasSuffix(name, ".init") {
		return contract{}, true
	}
	for _, pre := range purePrefixes {
		if strings.HasPrefix(name, pre) {
			return contract{}, true
		}
	}
	return contract{ret: retUnknown}, false
}
