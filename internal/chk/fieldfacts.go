package chk

import (
	"go/token"
	"go/types"

	"golang.org/x/tools/go/ssa"
)

// Integer field of an object returned by a library constructor.
//
// A load  x.f  (f an integer field of an unexported struct type T of the library) is ≥ 1 when
//   (1) x is result #i of a static call of a library function c, and the load is dominated by the
//       err == nil edge of that call's error result (when c returns one);
//   (2) every return of c whose error result is not certainly non-nil is dominated by a store
//       <returned object>.f = v with v ≥ 1 proved at the store, and every store to T.f in c stores
//       a value ≥ 1;
//   (3) no other function of the library can lower the field of an object it did not create itself:
//       every store to T.f outside c is to an object allocated in that same function (another
//       constructor's own object), or stores a value proved ≥ 1.
//   (4) the address of a field of that name is never used for anything but loads and stores (no store through a
//       plain pointer can reach it).
// T being unexported, code outside the library can neither build a T nor write the field.
// This is what the residue entry for the STL frame rate used to assume; it is now derived.

type fieldLoKey struct {
	c     *ssa.Function
	typ   string
	field string
}

func (a *NilAnalysis) provesGE1(fn *ssa.Function, at ssa.Instruction, v ssa.Value) bool {
	saveCur, saveFn := a.cur, a.curFn
	defer func() { a.cur, a.curFn = saveCur, saveFn }()
	a.cur, a.curFn = at, fn
	g := a.newGraph(fn, at)
	t, k, ok := a.intTerm(v)
	if !ok {
		return false
	}
	g.define(v, 0)
	return g.proveLE(zeroTerm, 1, t, k)
}

func unexportedStructOf(t types.Type) (*types.Named, bool) {
	pt, ok := t.Underlying().(*types.Pointer)
	if !ok {
		return nil, false
	}
	nt, ok := pt.Elem().(*types.Named)
	if !ok || nt.Obj().Exported() || nt.Obj().Pkg() == nil || nt.Obj().Pkg().Path() != LibPath {
		return nil, false
	}
	if _, ok := nt.Underlying().(*types.Struct); !ok {
		return nil, false
	}
	return nt, true
}

func (a *NilAnalysis) ctorFieldGE1(c *ssa.Function, resIdx int, nt *types.Named, field string) bool {
	if a.fieldLo == nil {
		a.fieldLo = map[fieldLoKey]int{}
	}
	k := fieldLoKey{c, nt.Obj().Name(), field}
	if r, ok := a.fieldLo[k]; ok {
		return r == 1
	}
	a.fieldLo[k] = 0 // pessimistic while computing (recursion)
	// the field is only written by the stores examined below: its address is never handed out
	for _, set := range a.escapedFieldAddrs() {
		if set["."+field] {
			return false
		}
	}
	isField := func(addr ssa.Value) (*ssa.FieldAddr, bool) {
		fa, ok := addr.(*ssa.FieldAddr)
		if !ok {
			return nil, false
		}
		n2, ok := unexportedStructOf(fa.X.Type())
		if !ok || n2.Obj() != nt.Obj() || fieldName(fa.X.Type(), fa.Field) != field {
			return nil, false
		}
		return fa, true
	}
	// (2)
	var stores []*ssa.Store
	for _, b := range c.Blocks {
		for _, ins := range b.Instrs {
			if st, ok := ins.(*ssa.Store); ok {
				if _, ok := isField(st.Addr); ok {
					if !a.provesGE1(c, st, st.Val) {
						return false
					}
					stores = append(stores, st)
				}
			}
		}
	}
	if len(stores) == 0 {
		return false
	}
	for _, b := range c.Blocks {
		r, ok := b.Instrs[len(b.Instrs)-1].(*ssa.Return)
		if !ok {
			continue
		}
		if ev := retErrOperand(c, r); ev != nil && nonNilError(ev, knownNonNilAt(b), 0) {
			continue
		}
		if resIdx >= len(r.Results) {
			return false
		}
		dominated := false
		for _, st := range stores {
			fa, _ := isField(st.Addr)
			if fa.X == r.Results[resIdx] && (st.Block().Dominates(b)) {
				dominated = true
			}
		}
		if !dominated {
			return false
		}
	}
	// (3)
	for _, fn := range a.p.LibFns {
		if fn == c {
			continue
		}
		for _, b := range fn.Blocks {
			for _, ins := range b.Instrs {
				st, ok := ins.(*ssa.Store)
				if !ok {
					continue
				}
				fa, ok := isField(st.Addr)
				if !ok {
					continue
				}
				if al, ok := fa.X.(*ssa.Alloc); ok && al.Heap {
					continue // the storing function's own object
				}
				if !a.provesGE1(fn, st, st.Val) {
					return false
				}
			}
		}
	}
	a.fieldLo[k] = 1
	return true
}

// loadOfCtorFieldGE1: x is a load that satisfies (1)–(3).
func (a *NilAnalysis) loadOfCtorFieldGE1(x *ssa.UnOp) bool {
	if x.Op != token.MUL || !isIntegerT(x.Type()) {
		return false
	}
	fa, ok := x.X.(*ssa.FieldAddr)
	if !ok {
		return false
	}
	nt, ok := unexportedStructOf(fa.X.Type())
	if !ok {
		return false
	}
	var call *ssa.Call
	resIdx := 0
	switch b := fa.X.(type) {
	case *ssa.Extract:
		call, _ = b.Tuple.(*ssa.Call)
		resIdx = b.Index
	case *ssa.Call:
		call = b
	}
	if call == nil {
		return false
	}
	c := call.Call.StaticCallee()
	if c == nil || fnPkg(c) != a.p.LibSSA || len(c.Blocks) == 0 {
		return false
	}
	if ei := errResultIndex(c.Signature); ei >= 0 {
		// dominated by err == nil of this very call
		okEdge := false
		for bb := x.Block(); bb != nil; bb = bb.Idom() {
			d := bb.Idom()
			if d == nil || len(bb.Preds) != 1 || bb.Preds[0] != d {
				continue
			}
			iff, ok := d.Instrs[len(d.Instrs)-1].(*ssa.If)
			if !ok {
				continue
			}
			bo, ok := iff.Cond.(*ssa.BinOp)
			if !ok {
				continue
			}
			var v ssa.Value
			if isNilConst(bo.X) {
				v = bo.Y
			} else if isNilConst(bo.Y) {
				v = bo.X
			} else {
				continue
			}
			ex, ok := v.(*ssa.Extract)
			if !ok || ex.Tuple != ssa.Value(call) || ex.Index != ei {
				continue
			}
			if (bo.Op == token.NEQ && d.Succs[1] == bb) || (bo.Op == token.EQL && d.Succs[0] == bb) {
				okEdge = true
			}
		}
		if !okEdge {
			return false
		}
	}
	return a.ctorFieldGE1(c, resIdx, nt, fieldName(fa.X.Type(), fa.Field))
}
