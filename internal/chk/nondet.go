package chk

import (
	"fmt"
	"go/types"
	"strings"

	"golang.org/x/tools/go/ssa"
)

// nondeterminism sources that must not be reachable from a writer (C19 (c),(d)).
var nondetPkgs = map[string]string{
	"math/rand":    "pseudo-random numbers",
	"math/rand/v2": "pseudo-random numbers",
	"crypto/rand":  "random bytes",
	"runtime":      "runtime state",
	"os/user":      "process environment",
	"net":          "network",
}
var nondetFuncs = map[string]string{
	"time.Now": "wall clock", "time.Since": "wall clock", "time.Until": "wall clock", "time.Tick": "timer", "time.After": "timer",
	"time.Sleep": "scheduling", "time.NewTimer": "timer", "time.NewTicker": "timer",
	"os.Getenv": "process environment", "os.LookupEnv": "process environment", "os.Environ": "process environment",
	"os.Getpid": "process id", "os.Hostname": "host name", "os.Getwd": "working directory", "os.Getuid": "user id",
	"os.TempDir": "process environment", "os.Executable": "process environment", "os.ReadFile": "file system",
	"os.Stat": "file system", "os.ReadDir": "file system",
}

// ruleWriterNondet: zero-rule — inside the writer closure the only nondeterminism source is a
// call through the injectable Now variable; fmt never formats pointers or maps.
func ruleWriterNondet(p *Prog, l *Ledger, tier string) {
	const rule = "E5.writer-nondet"
	fns := p.WriterClosure(l, rule)
	nowCalls := 0
	calls := 0
	bad := 0
	for _, fn := range fns {
		name := FnName(fn)
		for _, b := range fn.Blocks {
			for _, ins := range b.Instrs {
				site, ok := ins.(ssa.CallInstruction)
				if !ok {
					continue
				}
				c := site.Common()
				calls++
				if isNowCall(c) {
					nowCalls++
					l.Add(Ob{Rule: rule, Fn: name, Key: l.Key(rule, name, "clock", "Now"), Pos: p.Pos(site.Pos()), Status: Proved, Why: "clock read through the injectable Now variable"})
					continue
				}
				sc := c.StaticCallee()
				if sc != nil && sc.Pkg != nil && !p.inScope(sc) {
					full := sc.String()
					why := ""
					if w, ok := nondetFuncs[full]; ok {
						why = w
					} else if w, ok := nondetPkgs[sc.Pkg.Pkg.Path()]; ok {
						why = w
					}
					if why != "" {
						bad++
						l.Fail(rule, name, l.Key(rule, name, "nondet", full), p.Pos(site.Pos()), fmt.Sprintf("%s calls %s (%s): output is no longer a function of the cue list and Now", name, full, why))
					}
					if sc.Pkg.Pkg.Path() == "fmt" && (strings.HasPrefix(sc.Name(), "Sprint") || strings.HasPrefix(sc.Name(), "Fprint") || strings.HasPrefix(sc.Name(), "Append")) {
						for _, a := range fmtOperands(c) {
							if t := a.Type(); addressLike(t) {
								bad++
								l.Fail(rule, name, l.Key(rule, name, "fmt-pointer", typeStr(t)), p.Pos(site.Pos()), fmt.Sprintf("%s formats a value of type %s with fmt.%s: prints an address / unordered content", name, typeStr(t), sc.Name()))
							}
						}
					}
				}
				if _, isGo := ins.(*ssa.Go); isGo {
					bad++
					l.Fail(rule, name, l.Key(rule, name, "go", ""), p.Pos(site.Pos()), "goroutine started inside a writer")
				}
			}
			for _, ins := range b.Instrs {
				if s, ok := ins.(*ssa.Select); ok {
					bad++
					l.Fail(rule, name, l.Key(rule, name, "select", ""), p.Pos(s.Pos()), "select inside a writer")
				}
			}
		}
	}
	if bad == 0 {
		l.Prove(rule, "", rule+"|closure", "", fmt.Sprintf("%d call sites in %d writer-closure functions: no clock/random/environment source except %d call(s) through Now; fmt operands are scalars, strings or Stringers", calls, len(fns), nowCalls))
	}
	l.Min(rule+".functions", len(fns), 25)
}

// fmtOperands returns the values boxed into the variadic ...interface{} of a fmt call.
func fmtOperands(c *ssa.CallCommon) []ssa.Value {
	var out []ssa.Value
	if len(c.Args) == 0 {
		return nil
	}
	last := c.Args[len(c.Args)-1]
	sl, ok := last.(*ssa.Slice)
	if !ok {
		return nil
	}
	alloc, ok := sl.X.(*ssa.Alloc)
	if !ok {
		return nil
	}
	for _, ref := range *alloc.Referrers() {
		ia, ok := ref.(*ssa.IndexAddr)
		if !ok {
			continue
		}
		for _, r2 := range *ia.Referrers() {
			if st, ok := r2.(*ssa.Store); ok {
				out = append(out, stripIface(st.Val))
			}
		}
	}
	return out
}

// addressLike: formatting a value of this type may print an address or map-ordered content.
func addressLike(t types.Type) bool {
	if implementsStringerOrError(t) {
		return false
	}
	switch u := t.Underlying().(type) {
	case *types.Pointer:
		// %v of *T prints &{...} for structs (fields by value, nested pointers as addresses)
		if st, ok := u.Elem().Underlying().(*types.Struct); ok {
			for i := 0; i < st.NumFields(); i++ {
				if addressLike(st.Field(i).Type()) {
					return true
				}
			}
			return false
		}
		return true
	case *types.Map:
		return addressLike(u.Elem()) || addressLike(u.Key())
	case *types.Chan, *types.Signature:
		return true
	case *types.Slice:
		return addressLike(u.Elem())
	case *types.Array:
		return addressLike(u.Elem())
	case *types.Struct:
		for i := 0; i < u.NumFields(); i++ {
			if _, isPtr := u.Field(i).Type().Underlying().(*types.Pointer); isPtr {
				return true
			}
			if addressLike(u.Field(i).Type()) {
				return true
			}
		}
	}
	return false
}

func implementsStringerOrError(t types.Type) bool {
	for _, tt := range []types.Type{t, types.NewPointer(t)} {
		ms := types.NewMethodSet(tt)
		for i := 0; i < ms.Len(); i++ {
			m := ms.At(i).Obj()
			if (m.Name() == "String" || m.Name() == "Error") && m.Type().(*types.Signature).Params().Len() == 0 {
				if _, isPtr := t.Underlying().(*types.Pointer); isPtr || tt == t {
					return true
				}
			}
		}
	}
	return false
}
