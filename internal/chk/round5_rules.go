package chk

import (
	"fmt"
	"go/token"
	"go/types"
	"strings"

	"golang.org/x/tools/go/ssa"
)

// Rules added after the fifth round of seeded changes. Each states the clause it encodes.

// ---- E11 cli-flags-readonly (C15/3): the command line passes the flag values it was given ------------
// main never stores through a flag pointer: re-ordering "-a1/-a2" by swapping *actual1 and *actual2
// (without swapping the desired instants) changes which pairs the operation receives while the call
// still names the documented flag variables.
func ruleCLIFlagsReadOnly(p *Prog, l *Ledger, tier string) {
	const rule = "E11.cli-flags-readonly"
	fn := anchor(p, l, rule, "main.main")
	if fn == nil {
		return
	}
	n, bad := 0, 0
	for _, f := range p.CLIFns {
		for _, b := range f.Blocks {
			for _, ins := range b.Instrs {
				switch x := ins.(type) {
				case *ssa.UnOp:
					if x.Op == token.MUL {
						if g, ok := x.X.(*ssa.Global); ok && g.Pkg == p.CLISSA {
							n++
						}
					}
				case *ssa.Store:
					if g, ok := x.Addr.(*ssa.Global); ok && g.Pkg == p.CLISSA && f.Synthetic == "" && f.Name() != "init" {
						bad++
						l.Fail(rule, FnName(f), l.Key(rule, FnName(f), "store-var", g.Name()), p.Pos(x.Pos()), fmt.Sprintf("%s re-points flag variable %s before the operation is called: the operation no longer receives what was given on the command line (swapping -a1/-a2 without -d1/-d2 pairs a1 with d2)", FnName(f), g.Name()))
					}
					if u, ok := x.Addr.(*ssa.UnOp); ok && u.Op == token.MUL {
						if g, ok := u.X.(*ssa.Global); ok && g.Pkg == p.CLISSA {
							bad++
							l.Fail(rule, FnName(f), l.Key(rule, FnName(f), "store", g.Name()), p.Pos(x.Pos()), fmt.Sprintf("%s overwrites the value of flag variable %s before the operation is called: the operation no longer receives what was given on the command line (swapping -a1/-a2 without -d1/-d2 pairs a1 with d2)", FnName(f), g.Name()))
						}
					}
				}
			}
		}
	}
	if bad == 0 {
		l.Prove(rule, "main.main", rule+"|all", "", fmt.Sprintf("%d reads of flag variables, no store through any of them", n))
	}
	l.Min(rule, n, 5)
}

// ---- E12-G6b ForceDuration boundary tests (C14/2) -------------------------------------------------------
// "Removes every cue that starts at or after d, shortens every cue that ends after d": a comparison of
// a cue's StartAt with d is >= (or its complement <), a comparison of EndAt with d is > (or <=).
func ruleForceDurationBoundaryTests(p *Prog, l *Ledger, tier string) {
	const rule = "E12.G6b-forceduration-boundaries"
	const name = "Subtitles.ForceDuration"
	fn := anchor(p, l, rule, name)
	if fn == nil {
		return
	}
	d := ssa.Value(fn.Params[1])
	n := 0
	for _, b := range p.helperBlocks(fn) {
		for _, ins := range b.Instrs {
			bo, ok := ins.(*ssa.BinOp)
			if !ok {
				continue
			}
			op := bo.Op
			var fld string
			switch {
			case throughLocalCell(p.rootValue(fn, bo.Y)) == d:
				_, fld, _ = loadedField(stripAllConv(p.rootValue(fn, stripAllConv(bo.X))))
			case throughLocalCell(p.rootValue(fn, bo.X)) == d:
				_, fld, _ = loadedField(stripAllConv(p.rootValue(fn, stripAllConv(bo.Y))))
				op = map[token.Token]token.Token{token.LSS: token.GTR, token.LEQ: token.GEQ, token.GTR: token.LSS, token.GEQ: token.LEQ}[op]
			}
			if fld != "StartAt" && fld != "EndAt" {
				continue
			}
			switch op {
			case token.LSS, token.LEQ, token.GTR, token.GEQ:
			default:
				continue
			}
			n++
			key := l.Key(rule, name, "cmp", fld+op.String())
			okOp := (fld == "StartAt" && (op == token.GEQ || op == token.LSS)) || (fld == "EndAt" && (op == token.GTR || op == token.LEQ))
			if okOp {
				l.Prove(rule, name, key, p.Pos(bo.Pos()), fmt.Sprintf("%s %s d", fld, op))
			} else {
				l.Fail(rule, name, key, p.Pos(bo.Pos()), fmt.Sprintf("%s tests %s %s d: a cue that starts exactly at d has to be removed (StartAt >= d) and a cue is clipped only when it ends after d (EndAt > d); with this relation a cue on the boundary is kept as a zero-length cue or clipped needlessly", name, fld, op))
			}
		}
	}
	l.Min(rule, n, 2)
}

// ---- E14-M2c RemoveStyling has no data-dependent early return (C13/2) -----------------------------------
// Inline attributes live on cues and runs independently of the definition tables, so RemoveStyling
// may not return before its loops on a test of anything but the cue list being empty.
func ruleNoEarlyReturn(name string, allowed func(cond ssa.Value) bool, what string) func(p *Prog, l *Ledger, tier string) {
	return func(p *Prog, l *Ledger, tier string) {
		const rule = "E13.I13-no-early-return"
		fn := anchor(p, l, rule, name)
		if fn == nil {
			return
		}
		var loops []*loopInfo
		for _, li := range loopsOf(fn) {
			// work loops: loops that store into memory (a scan that only computes a maximum is not work)
			works := false
			for b := range li.blocks {
				for _, ins := range b.Instrs {
					switch ins.(type) {
					case *ssa.Store, *ssa.MapUpdate:
						works = true
					}
				}
			}
			if works {
				loops = append(loops, li)
			}
		}
		inAnyLoop := func(b *ssa.BasicBlock) bool {
			for _, li := range loops {
				if li.blocks[b] {
					return true
				}
			}
			return false
		}
		reachesLoop := func(b *ssa.BasicBlock) bool {
			for x := range reachableFrom(b) {
				if inAnyLoop(x) {
					return true
				}
			}
			return inAnyLoop(b)
		}
		n := 0
		for _, b := range fn.Blocks {
			if _, ok := b.Instrs[len(b.Instrs)-1].(*ssa.Return); !ok {
				continue
			}
			// a return that is reached without having gone through any loop, while a loop is reachable from entry
			viaLoop := false
			for _, li := range loops {
				for x := range li.blocks {
					if reachableFrom(x)[b] {
						viaLoop = true
					}
				}
			}
			if viaLoop || !reachesLoop(fn.Blocks[0]) {
				continue
			}
			n++
			key := l.Key(rule, name, "early-return", "")
			bad := ""
			for _, dc := range dominatingConds(b) {
				if !allowed(dc.cond) {
					bad = p.Pos(dc.cond.Pos())
					if bad == "-" {
						bad = descOf(dc.cond)
					}
				}
			}
			if bad == "" {
				l.Prove(rule, name, key, blockPos(p, b), "the early return depends only on "+what)
			} else {
				l.Fail(rule, name, key, blockPos(p, b), fmt.Sprintf("%s returns before doing its work on a condition (%s) other than %s: inputs satisfying that condition are left untouched although the operation applies to them", name, bad, what))
			}
		}
		l.Note("%s: %d early return(s) examined in %s", rule, n, name)
		// a work loop nested in another one runs on every trip of the outer loop: a way round the outer
		// loop that does not reach the inner loop's header leaves the sub-elements of that element
		// untouched (a cue without cue-level style still has lines and runs with their own style)
		for _, outer := range loops {
			for _, inner := range loops {
				if inner == outer || !outer.blocks[inner.header] || inner.blocks[outer.header] {
					continue
				}
				// directly nested only: a loop two levels down is not entered when the one between makes no trip
				direct := true
				for _, mid := range loopsOf(fn) {
					if mid.header != outer.header && mid.header != inner.header && outer.blocks[mid.header] && mid.blocks[inner.header] {
						direct = false
					}
				}
				if !direct {
					continue
				}
				key := l.Key(rule, name, "inner-loop-skipped", loopDesc(inner))
				avoid := map[*ssa.BasicBlock]bool{inner.header: true}
				if path := cycleAvoiding(outer, avoid, func(b *ssa.BasicBlock, succ int) bool {
					// not counted: the branch taken because the inner collection is empty
					iff, ok := b.Instrs[len(b.Instrs)-1].(*ssa.If)
					if !ok {
						return false
					}
					bo, ok := iff.Cond.(*ssa.BinOp)
					if !ok {
						return false
					}
					for k, side := range []ssa.Value{bo.X, bo.Y} {
						other := bo.Y
						if k == 1 {
							other = bo.X
						}
						if c, ok := side.(*ssa.Call); ok && isZeroConst(other) {
							if bi, ok := c.Call.Value.(*ssa.Builtin); ok && bi.Name() == "len" {
								return true
							}
						}
					}
					return false
				}); path != nil {
					l.Fail(rule, name, key, blockPos(p, path[len(path)-1]), fmt.Sprintf("%s: the loop at %s can go round without entering the nested loop at %s (through %s): for such an element the nested elements are left as they are although the operation applies to them independently", name, loopPos(p, outer), loopPos(p, inner), blockPos(p, path[len(path)-1])))
				} else {
					l.Prove(rule, name, key, loopPos(p, inner), "the nested loop is entered on every trip of the enclosing loop")
				}
			}
		}
	}
}

// cycleAvoiding: a path header → … → header inside loop li that enters no block of avoid; edges for
// which skip(b, succIndex) holds are not followed. nil if there is none.
func cycleAvoiding(li *loopInfo, avoid map[*ssa.BasicBlock]bool, skip func(b *ssa.BasicBlock, succ int) bool) []*ssa.BasicBlock {
	seen := map[*ssa.BasicBlock]bool{}
	var path []*ssa.BasicBlock
	var dfs func(b *ssa.BasicBlock) bool
	dfs = func(b *ssa.BasicBlock) bool {
		seen[b] = true
		path = append(path, b)
		for i, s := range b.Succs {
			if !li.blocks[s] || (skip != nil && skip(b, i)) {
				continue
			}
			if s == li.header {
				return true
			}
			if avoid[s] || seen[s] {
				continue
			}
			if dfs(s) {
				return true
			}
		}
		path = path[:len(path)-1]
		return false
	}
	if dfs(li.header) {
		return path
	}
	return nil
}

func isLenOfItemsCond(v ssa.Value) bool {
	bo, ok := v.(*ssa.BinOp)
	if !ok {
		return false
	}
	// a parameter compared with the constant 0 (f <= 0): a guard on the argument, not on the cues
	if _, isP := stripAllConv(bo.X).(*ssa.Parameter); isP && isZeroConst(bo.Y) {
		return true
	}
	if _, isP := stripAllConv(bo.Y).(*ssa.Parameter); isP && isZeroConst(bo.X) {
		return true
	}
	for _, side := range []ssa.Value{bo.X, bo.Y} {
		if c, ok := side.(*ssa.Call); ok {
			if bi, ok := c.Call.Value.(*ssa.Builtin); ok && bi.Name() == "len" {
				if _, f, _ := loadedField(c.Call.Args[0]); f == "Items" {
					return true
				}
			}
		}
	}
	return false
}

// ---- E9-T0 lookup tables are bijections (C03/3) ------------------------------------------------------------
// astikit.BiMap.Set overwrites the inverse entry when a value is set twice: an alias added for
// reading ("jp" → japanese after "ja" → japanese) silently changes what the writer emits. Rule: no
// package-level BiMap that is used with GetInverse anywhere has two rows with the same value, and no
// BiMap has two rows with the same key.
func ruleBiMapsBijective(p *Prog, l *Ledger, tier string) {
	const rule = "E9.T0-bimap-bijective"
	inverseUsed := strset{}
	for _, fn := range p.LibFns {
		for _, b := range fn.Blocks {
			for _, ins := range b.Instrs {
				c, ok := ins.(*ssa.Call)
				if !ok || !(isBiMapMethod(&c.Call, "GetInverse") || isBiMapMethod(&c.Call, "MustGetInverse")) {
					continue
				}
				if u, ok := c.Call.Args[0].(*ssa.UnOp); ok {
					if g, ok := u.X.(*ssa.Global); ok {
						inverseUsed.add(g.Name())
					}
				}
			}
		}
	}
	n := 0
	bm := p.BiMaps()
	check := func(name string, rows []biPair, inv bool) {
		n++
		key := rule + "|" + name
		ks, vs := strset{}, strset{}
		bad := ""
		for _, r := range rows {
			k, v := constDesc(r.k), constDesc(r.v)
			if ks[k] {
				bad = fmt.Sprintf("key %s is set twice", k)
			}
			if vs[v] && inv {
				bad = fmt.Sprintf("value %s is set twice and the table is used with GetInverse: the inverse lookup returns the key set last (an alias added for reading becomes what the writer emits)", v)
			}
			ks.add(k)
			vs.add(v)
		}
		if bad == "" {
			l.Prove(rule, "", key, "", fmt.Sprintf("%s: %d rows, keys distinct%s", name, len(rows), map[bool]string{true: ", values distinct (used inversely)", false: ""}[inv]))
		} else {
			l.Fail(rule, "", key, p.Pos(rows[0].pos), fmt.Sprintf("table %s is not a bijection: %s", name, bad))
		}
	}
	for name, rows := range bm.byGlobal {
		check(name, rows, inverseUsed[name])
	}
	for name, chains := range bm.byGlobalMap {
		for i, rows := range chains {
			check(fmt.Sprintf("%s[%d]", name, i), rows, false)
		}
	}
	l.Min(rule, n, 4)
}

func constDesc(v ssa.Value) string {
	if mi, ok := v.(*ssa.MakeInterface); ok {
		v = mi.X
	}
	if s, ok := constStr(v); ok {
		return fmt.Sprintf("%q", s)
	}
	if c, ok := constInt(v); ok {
		return fmt.Sprintf("%d", c)
	}
	if u, ok := v.(*ssa.UnOp); ok {
		if g, ok := u.X.(*ssa.Global); ok {
			return g.Name()
		}
	}
	return descOf(v)
}

// ---- E12-G10 the per-column styler is created inside the column loop (C05/3) ---------------------------------
// parseTeletextRow / parseOpenSubtitleRow get a factory `fs func() styler`; the STL styler is a
// one-shot flag holder, so a styler shared by the whole row keeps "has been set" true after the first
// style code and every later byte is treated as a style change (its text is lost). Rule: every call of
// the factory parameter sits inside the loop over the row.
func ruleStylerPerColumn(names ...string) func(p *Prog, l *Ledger, tier string) {
	return func(p *Prog, l *Ledger, tier string) {
		const rule = "E12.G10-styler-per-column"
		n := 0
		for _, name := range names {
			fn := anchor(p, l, rule, name)
			if fn == nil {
				continue
			}
			var fs ssa.Value
			for _, prm := range fn.Params {
				if sig, ok := prm.Type().Underlying().(*types.Signature); ok && sig.Params().Len() == 0 && sig.Results().Len() == 1 {
					fs = prm
				}
			}
			if fs == nil {
				continue
			}
			loops := loopsOf(fn)
			// a styler may be kept from one column to the next as long as it is still blank: it is then replaced, inside
			// the loop, under a flag that holds what hasBeenSet() answered for the previous column
			replacedWhenSet := false
			for _, b := range fn.Blocks {
				for _, ins := range b.Instrs {
					c, ok := ins.(*ssa.Call)
					if !ok || c.Call.Value != fs {
						continue
					}
					inLoop := false
					for _, li := range loops {
						if li.blocks[b] {
							inLoop = true
						}
					}
					if !inLoop {
						continue
					}
					for _, dc := range dominatingConds(b) {
						if !dc.taken {
							continue
						}
						seen := map[ssa.Value]bool{}
						var fromHasBeenSet func(v ssa.Value) bool
						fromHasBeenSet = func(v ssa.Value) bool {
							if seen[v] {
								return false
							}
							seen[v] = true
							switch x := v.(type) {
							case *ssa.Phi:
								for _, e := range x.Edges {
									if fromHasBeenSet(e) {
										return true
									}
								}
							case *ssa.Call:
								return x.Call.IsInvoke() && x.Call.Method.Name() == "hasBeenSet"
							}
							return false
						}
						if fromHasBeenSet(dc.cond) {
							replacedWhenSet = true
						}
					}
				}
			}
			for _, b := range fn.Blocks {
				for _, ins := range b.Instrs {
					c, ok := ins.(*ssa.Call)
					if !ok || c.Call.Value != fs {
						continue
					}
					n++
					key := l.Key(rule, name, "factory-call", "")
					in := false
					for _, li := range loops {
						if li.blocks[b] {
							in = true
						}
					}
					if !in && replacedWhenSet {
						l.Prove(rule, name, key, p.Pos(c.Pos()), "the styler created before the loop is replaced inside it as soon as hasBeenSet() has answered true for a column")
						continue
					}
					if in {
						l.Prove(rule, name, key, p.Pos(c.Pos()), "a fresh styler is created for every column")
					} else {
						l.Fail(rule, name, key, p.Pos(c.Pos()), fmt.Sprintf("%s creates its styler once for the whole row: the styler is a one-shot flag holder, so after the first italic/underline/boxing code every following byte is taken as a style change and its text is dropped", name))
					}
				}
			}
		}
		l.Min(rule, n, len(names))
	}
}

// ---- E12-G11 the TTML paragraph decoder always goes through the <br>-holding token reader (C03/2) -----------
func ruleTTMLDecoderAlwaysWrapped(p *Prog, l *Ledger, tier string) {
	const rule = "E12.G11-ttml-decoder-wrapped"
	const name = "newTTMLXmlDecoder"
	fn := anchor(p, l, rule, name)
	if fn == nil {
		return
	}
	n := 0
	for _, b := range fn.Blocks {
		r, ok := b.Instrs[len(b.Instrs)-1].(*ssa.Return)
		if !ok || len(r.Results) == 0 {
			continue
		}
		n++
		key := l.Key(rule, name, "return", "")
		good := true
		var walk func(v ssa.Value, seen map[ssa.Value]bool)
		walk = func(v ssa.Value, seen map[ssa.Value]bool) {
			if seen[v] {
				return
			}
			seen[v] = true
			switch t := v.(type) {
			case *ssa.Phi:
				for _, e := range t.Edges {
					walk(e, seen)
				}
			case *ssa.Call:
				if calleeName(&t.Call) != "encoding/xml.NewTokenDecoder" {
					good = false
				}
			default:
				good = false
			}
		}
		walk(r.Results[0], map[ssa.Value]bool{})
		if good {
			l.Prove(rule, name, key, p.Pos(r.Pos()), "the decoder returned is built on the token reader that turns <br> into a line break")
		} else {
			l.Fail(rule, name, key, p.Pos(r.Pos()), name+" can return a decoder that is not built with xml.NewTokenDecoder on the <br>-holding token reader: a line break the shortcut does not recognise (a namespace-prefixed <tt:br/> inside a span) is skipped by encoding/xml and two lines merge")
		}
	}
	l.Min(rule, n, 1)
}

// ---- E12-G12 the tokenizer's unescaped text is never used in the WebVTT / SRT parsers (C02/2) ---------------
// The text parsers look for markup-like structure (inline timestamps <00:00:05.000>) in the raw
// token and unescape afterwards; (*html.Tokenizer).Text unescapes first, so an escaped &lt;00:05.000>
// would be taken for a timestamp. Zero-rule with the raw-token calls as instance count.
func ruleRawTokenOnly(p *Prog, l *Ledger, tier string) {
	const rule = "E12.G12-raw-token-only"
	raw, bad := 0, 0
	for _, name := range []string{"parseTextWebVTT", "parseTextSrt"} {
		fn := anchor(p, l, rule, name)
		if fn == nil {
			continue
		}
		for _, f := range p.Closure([]*ssa.Function{fn}) {
			if fnPkg(f) != p.LibSSA {
				continue
			}
			for _, b := range f.Blocks {
				for _, ins := range b.Instrs {
					c, ok := ins.(*ssa.Call)
					if !ok {
						continue
					}
					switch calleeName(&c.Call) {
					case "(*golang.org/x/net/html.Tokenizer).Raw":
						raw++
					case "(*golang.org/x/net/html.Tokenizer).TagName", "(*golang.org/x/net/html.Tokenizer).TagAttr", "(*golang.org/x/net/html.Tokenizer).Token":
						// SRT takes its (case-insensitive) tags through Token(); WebVTT tag names carry the
						// classes, which are case-sensitive and end up in the written file
						if name == "parseTextWebVTT" {
							bad++
							l.Fail(rule, FnName(f), l.Key(rule, FnName(f), "normalised-tag", ""), p.Pos(c.Pos()), FnName(f)+" takes the tag through "+calleeShort(&c.Call)+", which lower-cases the tag name and with it the classes attached to it (<c.Loud> becomes c.loud): the classes written back differ from the ones read; only the raw token keeps them")
						}
					case "(*golang.org/x/net/html.Tokenizer).Text":
						bad++
						l.Fail(rule, FnName(f), l.Key(rule, FnName(f), "text-call", ""), p.Pos(c.Pos()), FnName(f)+" takes the token through (*html.Tokenizer).Text, which unescapes it before the parser has looked for markup-like structure: text that spells an inline timestamp with an escaped < (&lt;00:00:05.000>) is consumed as a timestamp")
					}
				}
			}
		}
	}
	// (round 17) the text of a run is not the Data of a Token() either: the tokenizer has unescaped it with the full
	// HTML entity table (&copy, &#33; and legacy names without a semicolon), where the readers decode only the
	// entities their writers produce
	for _, name := range []string{"parseTextWebVTT", "parseTextSrt"} {
		fn := p.Fn(name)
		if fn == nil {
			continue
		}
		for _, f := range p.Closure([]*ssa.Function{fn}) {
			if fnPkg(f) != p.LibSSA {
				continue
			}
			for _, b := range f.Blocks {
				for _, ins := range b.Instrs {
					st, ok := ins.(*ssa.Store)
					if !ok {
						continue
					}
					fa, ok := st.Addr.(*ssa.FieldAddr)
					if !ok || fieldName(fa.X.Type(), fa.Field) != "Text" || !isPtrToNamed(fa.X.Type(), "LineItem") {
						continue
					}
					if tokenData(st.Val, map[ssa.Value]bool{}, 0) {
						bad++
						l.Fail(rule, FnName(f), l.Key(rule, FnName(f), "token-data", ""), p.Pos(st.Pos()), FnName(f)+" stores the Data of an html.Token as the text of a run: the tokenizer has already replaced every HTML character reference in it (&copy=, &#33;, &gt;), so text that merely contains an ampersand is altered on reading; the text is the raw token, unescaped with the library's own table")
					}
				}
			}
		}
	}
	if bad == 0 {
		l.Prove(rule, "", rule+"|all", "", fmt.Sprintf("%d uses of the raw token, none of Tokenizer.Text, no run text taken from Token.Data", raw))
	}
	l.Min(rule, raw, 2)
}

// tokenData: v is computed from the Data field of a golang.org/x/net/html.Token.
func tokenData(v ssa.Value, seen map[ssa.Value]bool, depth int) bool {
	if v == nil || seen[v] || depth > 10 {
		return false
	}
	seen[v] = true
	isTok := func(t types.Type) bool {
		if pt, ok := t.Underlying().(*types.Pointer); ok {
			t = pt.Elem()
		}
		nt, ok := t.(*types.Named)
		return ok && nt.Obj().Name() == "Token" && nt.Obj().Pkg() != nil && strings.HasSuffix(nt.Obj().Pkg().Path(), "net/html")
	}
	switch x := v.(type) {
	case *ssa.Field:
		if isTok(x.X.Type()) && fieldName(x.X.Type(), x.Field) == "Data" {
			return true
		}
		return false
	case *ssa.UnOp:
		if fa, ok := x.X.(*ssa.FieldAddr); ok && isTok(fa.X.Type()) && fieldName(fa.X.Type(), fa.Field) == "Data" {
			return true
		}
		return tokenData(x.X, seen, depth+1)
	case *ssa.Phi:
		for _, e := range x.Edges {
			if tokenData(e, seen, depth+1) {
				return true
			}
		}
	case *ssa.Call:
		for _, a := range x.Call.Args {
			if isStringT(a.Type()) && tokenData(a, seen, depth+1) {
				return true
			}
		}
	case *ssa.BinOp:
		return tokenData(x.X, seen, depth+1) || tokenData(x.Y, seen, depth+1)
	case *ssa.Convert:
		return tokenData(x.X, seen, depth+1)
	}
	return false
}

// ---- E10-A14 SSA style reference is kept and resolved verbatim (C04/2) ------------------------------------------
func ruleSSAStyleReference(p *Prog, l *Ledger, tier string) {
	const rule = "E10.A14-ssa-style-reference"
	rd := anchor(p, l, rule, "newSSAEventFromString")
	it := anchor(p, l, rule, "ssaEvent.item")
	if rd == nil || it == nil {
		return
	}
	// (a) the style column is stored as it stands (or as a constant)
	keyA := rule + "|stored-verbatim"
	bad := ""
	n := 0
	for _, v := range fieldStores(rd.Blocks, "ssaEvent")["style"] {
		n++
		var walk func(v ssa.Value, seen map[ssa.Value]bool)
		walk = func(v ssa.Value, seen map[ssa.Value]bool) {
			if seen[v] {
				return
			}
			seen[v] = true
			switch t := v.(type) {
			case *ssa.Phi:
				for _, e := range t.Edges {
					walk(e, seen)
				}
			case *ssa.Call:
				bad = calleeShort(&t.Call) + " at " + p.Pos(t.Pos())
			}
		}
		walk(v, map[ssa.Value]bool{})
	}
	if bad == "" && n > 0 {
		l.Prove(rule, "newSSAEventFromString", keyA, "", "the Style column is stored unmodified (or as the reserved constant)")
	} else if n == 0 {
		l.Undecide(rule, "newSSAEventFromString", keyA, "", "no store to ssaEvent.style found")
	} else {
		l.Fail(rule, "newSSAEventFromString", keyA, "", "newSSAEventFromString transforms the Style column before storing it ("+bad+"): a style whose own name starts with the stripped prefix can no longer be referenced, and the event is written back without its style")
	}
	// (b) the exact name is among the keys tried
	keyB := rule + "|exact-name-tried"
	exact := false
	for _, b := range it.Blocks {
		for _, ins := range b.Instrs {
			v, ok := ins.(ssa.Value)
			if !ok {
				continue
			}
			if t, f, _ := loadedField(v); t != "ssaEvent" || f != "style" {
				continue
			}
			for _, ref := range *v.Referrers() {
				switch r := ref.(type) {
				case *ssa.Lookup:
					if r.Index == v {
						exact = true
					}
				case *ssa.Store:
					if _, ok := r.Addr.(*ssa.IndexAddr); ok && r.Val == v {
						exact = true // one of the candidate names
					}
				}
			}
		}
	}
	if exact {
		l.Prove(rule, "ssaEvent.item", keyB, "", "the style table is looked up with the unmodified name (possibly among other candidates)")
	} else {
		l.Fail(rule, "ssaEvent.item", keyB, blockPos(p, it.Blocks[0]), "ssaEvent.item never looks the style up under the unmodified name of the event's Style column")
	}
	l.Min(rule, 2, 2)
}

// ---- E10-A15 a GSI field is overridden under a test of its own metadata field only (C19/3) --------------------
func ruleGSIOverrideGuards(p *Prog, l *Ledger, tier string) {
	const rule = "E10.A15-gsi-override-guards"
	const name = "newGSIBlock"
	fn := anchor(p, l, rule, name)
	if fn == nil {
		return
	}
	n := 0
	for _, b := range fn.Blocks {
		for _, ins := range b.Instrs {
			st, ok := ins.(*ssa.Store)
			if !ok {
				continue
			}
			t, x := fieldOfAddr(st.Addr)
			if t != "gsiBlock" {
				continue
			}
			src := strset{}
			traceField(st.Val, "Metadata", map[ssa.Value]bool{}, src)
			f, one := oneOf(src)
			if !one {
				continue
			}
			n++
			key := l.Key(rule, name, "override", x)
			bad := ""
			for _, dc := range dominatingConds(b) {
				other := strset{}
				traceField(dc.cond, "Metadata", map[ssa.Value]bool{}, other)
				for g := range other {
					if g != f {
						bad = g
					}
				}
			}
			if bad == "" {
				l.Prove(rule, name, key, p.Pos(st.Pos()), fmt.Sprintf("gsiBlock.%s ← Metadata.%s under tests of that field only", x, f))
			} else {
				l.Fail(rule, name, key, p.Pos(st.Pos()), fmt.Sprintf("%s takes gsiBlock.%s from Metadata.%s only when Metadata.%s passes a test: a value supplied for %s is ignored when %s is not (for a date the default is the clock, so the output depends on the day it is written)", name, x, f, bad, f, bad))
			}
		}
	}
	l.Min(rule, n, 10)
}

var _ = strings.TrimSpace

// ---- E5-R5.4 unexported package-level slices and maps are not handed out (C14/3) ------------------------------
// A package-level slice or map is implementation state shared by every call. Storing it (not a copy)
// into a value the caller receives aliases that state: an in-place edit of one result changes what
// every later call hands out (a filler cue whose Lines is a shared slice no longer guarantees the
// placeholder text). Rule: outside init, a loaded unexported global of slice or map type is never the
// value operand of a store into a struct field, slice element or map entry.
func ruleNoGlobalAliasing(p *Prog, l *Ledger, tier string) {
	const rule = "E5.R5.4-no-global-aliasing"
	n := 0
	for _, fn := range p.LibFns {
		name := FnName(fn)
		if name == "init" {
			continue
		}
		for _, b := range fn.Blocks {
			for _, ins := range b.Instrs {
				u, ok := ins.(*ssa.UnOp)
				if !ok || u.Op != token.MUL {
					continue
				}
				g, ok := u.X.(*ssa.Global)
				if !ok || g.Pkg != p.LibSSA || g.Object() == nil || g.Object().Exported() {
					continue
				}
				switch u.Type().Underlying().(type) {
				case *types.Slice, *types.Map:
				default:
					continue
				}
				n++
				for _, ref := range *u.Referrers() {
					escapes := false
					switch r := ref.(type) {
					case *ssa.Store:
						if r.Val == ssa.Value(u) {
							switch r.Addr.(type) {
							case *ssa.FieldAddr, *ssa.IndexAddr:
								escapes = true
							}
						}
					case *ssa.MapUpdate:
						escapes = r.Value == ssa.Value(u)
					}
					if escapes {
						l.Fail(rule, name, l.Key(rule, name, "alias", g.Name()), p.Pos(ref.Pos()), fmt.Sprintf("%s stores the package-level %s itself (not a copy) into a value it hands out: every result shares that memory, so editing one of them in place changes what later calls return", name, g.Name()))
					}
				}
			}
		}
	}
	if l.CountBadRule(rule) == 0 {
		l.Prove(rule, "", rule+"|all", "", fmt.Sprintf("%d loads of unexported package-level slices/maps outside init, none stored into a field, element or entry", n))
	}
	l.Min(rule, n, 3)
}

func scopeTeletextPID(p *Prog, l *Ledger, rule string) []*ssa.Function {
	return p.fnsByName(l, rule, []string{"teletextPID"})
}

// ---- E5-R5.5 attribute propagation leaves the format's own attributes alone (round 8, C05) ----------------
// StyleAttributes.propagate<F>Attributes derives the attributes of the other formats from those of
// format F (what the reader of F has just stored).  It may write any field except those of F itself,
// and nothing behind a pointer held in a field of F (STLPosition, …): a "clamp" or "normalisation"
// done through such a pointer silently rewrites what the reader returned for the file.
func rulePropagateKeepsSource(p *Prog, l *Ledger, tier string) {
	const rule = "E5.R5.5-propagate-keeps-source"
	eff := ComputeEffects(p)
	n := 0
	for _, g := range []string{"SRT", "SSA", "STL", "Teletext", "TTML", "WebVTT"} {
		name := "StyleAttributes.propagate" + g + "Attributes"
		fn := p.Fn(name)
		if fn == nil {
			continue
		}
		n++
		key := rule + "|" + name
		bad := ""
		sum := eff.Sum[fn]
		if sum != nil {
			for _, ef := range sortedEffects(sum.Effects) {
				if strings.HasPrefix(ef.Loc, "StyleAttributes."+g) {
					bad = fmt.Sprintf("it writes %s at %s", ef.Loc, p.Pos(ef.Pos))
				}
				if ef.CT != "" && ef.CT != "StyleAttributes" && strings.HasPrefix(strings.TrimPrefix(ef.CT, "*"), g) {
					bad = fmt.Sprintf("it writes %s (an object held in a %s field) at %s", ef.Loc, g, p.Pos(ef.Pos))
				}
			}
		}
		if bad == "" {
			l.Prove(rule, name, key, p.Pos(fn.Pos()), "writes no "+g+" attribute and nothing behind one")
		} else {
			l.Fail(rule, name, key, p.Pos(fn.Pos()), name+" derives the other formats' attributes from the "+g+" ones, but "+bad+": the value the "+g+" reader returned for the file is rewritten")
		}
	}
	l.Min(rule, n, 5)
}
