package chk

import (
	"fmt"
	"go/token"
	"go/types"

	"golang.org/x/tools/go/ssa"
)

// ---- E13-I14 a separator is placed by position, not by what has been emitted so far -------------------------
// (added after seeded change C03/r9). A writer that joins the pieces of a list with a separator has to decide
// "is this the first piece" from the piece's position. When it decides from the accumulated output
// (if len(out) > 0 { out = append(out, sep) }) and a trip of the loop may contribute nothing besides the
// separator (the pieces of the element are appended in an inner loop that can run zero times, or under a
// condition), an element that contributes nothing and comes before the first one that does leaves no trace:
// [[], [A]] and [[A]] are written identically, so the written document has one line less than the cue.
// The test on the accumulated output is fine when every trip that reaches it also appends content
// unconditionally (joining the non-empty pieces on purpose: the element is skipped as a whole before the test).
//
// Accumulators: a slice or string held in a memory cell (local struct field, non-lifted local) or in a
// loop-carried register; a strings.Builder / bytes.Buffer tested with Len().

type accRef struct {
	cell string    // memory form: access path of the cell
	reg  ssa.Value // register form: loop-header phi
	recv ssa.Value // builder form: receiver address
}

func (a accRef) valid() bool { return a.cell != "" || a.reg != nil || a.recv != nil }

func cellPath(addr ssa.Value, depth int) string {
	if depth > 6 {
		return ""
	}
	switch x := addr.(type) {
	case *ssa.FieldAddr:
		base := ""
		if u, ok := x.X.(*ssa.UnOp); ok && u.Op == token.MUL {
			base = cellPath(u.X, depth+1)
			if base != "" {
				base = "*" + base
			}
		} else {
			base = cellPath(x.X, depth+1)
		}
		if base == "" {
			base = x.X.Name()
		}
		return base + "." + fieldName(x.X.Type(), x.Field)
	case *ssa.Alloc:
		if x.Comment != "" {
			return x.Comment
		}
		return "a:" + x.Name()
	case *ssa.Global:
		return "g:" + x.Name()
	case *ssa.FreeVar:
		return "fv:" + x.Name()
	case *ssa.Parameter:
		return "p:" + x.Name()
	}
	return ""
}

// accOfValue: which accumulator the slice/string value v is the current content of.
func accOfValue(v ssa.Value, li *loopInfo) accRef {
	return accOfValueSeen(v, li, map[ssa.Value]bool{})
}

func accOfValueSeen(v ssa.Value, li *loopInfo, seen map[ssa.Value]bool) accRef {
	for v != nil && !seen[v] {
		seen[v] = true
		switch x := v.(type) {
		case *ssa.UnOp:
			if x.Op == token.MUL {
				if p := cellPath(x.X, 0); p != "" {
					return accRef{cell: p}
				}
			}
			return accRef{}
		case *ssa.Phi:
			if x.Block() == li.header {
				return accRef{reg: x}
			}
			// a merge inside the trip: follow an operand that leads back to the header phi
			var next ssa.Value
			for _, e := range x.Edges {
				if seen[e] {
					continue
				}
				if a := accOfValueSeen(e, li, seen); a.valid() {
					return a
				}
				next = e
			}
			_ = next
			return accRef{}
		case *ssa.Call:
			if bi, ok := x.Call.Value.(*ssa.Builtin); ok && bi.Name() == "append" {
				v = x.Call.Args[0]
				continue
			}
			return accRef{}
		case *ssa.BinOp:
			if x.Op == token.ADD && isStringT(x.Type()) {
				v = x.X
				continue
			}
			return accRef{}
		case *ssa.Slice:
			v = x.X
		default:
			return accRef{}
		}
	}
	return accRef{}
}

func sameAcc(a, b accRef) bool {
	switch {
	case a.cell != "":
		return a.cell == b.cell
	case a.reg != nil:
		return a.reg == b.reg
	case a.recv != nil:
		return b.recv != nil && cellPath(a.recv, 0) != "" && cellPath(a.recv, 0) == cellPath(b.recv, 0)
	}
	return false
}

// nonEmptyTest: cond is "acc is not empty" (taken=true) or "acc is empty" (taken=false) for some accumulator.
func nonEmptyTest(cond ssa.Value, li *loopInfo) (accRef, bool, bool) {
	bo, ok := cond.(*ssa.BinOp)
	if !ok {
		return accRef{}, false, false
	}
	x, y, op := bo.X, bo.Y, bo.Op
	if _, isC := x.(*ssa.Const); isC {
		x, y, op = y, x, flipCompare(op)
	}
	var acc accRef
	if s, ok := constStr(y); ok && s == "" {
		acc = accOfValue(x, li)
	} else if c, ok := constInt(y); ok {
		call, isCall := x.(*ssa.Call)
		if !isCall {
			return accRef{}, false, false
		}
		if bi, ok := call.Call.Value.(*ssa.Builtin); ok && bi.Name() == "len" {
			acc = accOfValue(call.Call.Args[0], li)
		} else if sc := call.Call.StaticCallee(); sc != nil && (sc.String() == "(*strings.Builder).Len" || sc.String() == "(*bytes.Buffer).Len") {
			acc = accRef{recv: call.Call.Args[0]}
		} else {
			return accRef{}, false, false
		}
		// len > 0, len != 0, len >= 1  |  len == 0, len <= 0, len < 1
		switch {
		case (op == token.GTR || op == token.NEQ) && c == 0, op == token.GEQ && c == 1:
			return acc, true, acc.valid()
		case (op == token.EQL || op == token.LEQ) && c == 0, op == token.LSS && c == 1:
			return acc, false, acc.valid()
		}
		return accRef{}, false, false
	} else {
		return accRef{}, false, false
	}
	switch op {
	case token.NEQ:
		return acc, true, acc.valid()
	case token.EQL:
		return acc, false, acc.valid()
	}
	return accRef{}, false, false
}

// appendsTo: the instructions of block b that add to the accumulator.
func appendsTo(b *ssa.BasicBlock, acc accRef, li *loopInfo) []ssa.Instruction {
	var out []ssa.Instruction
	for _, ins := range b.Instrs {
		switch x := ins.(type) {
		case *ssa.Store:
			if acc.cell != "" && cellPath(x.Addr, 0) == acc.cell && grows(x.Val) {
				out = append(out, x)
			}
		case *ssa.Call:
			if acc.reg != nil && grows(x) && sameAcc(accOfValue(x, li), acc) {
				out = append(out, x)
			}
			if acc.recv != nil {
				if sc := x.Call.StaticCallee(); sc != nil && len(x.Call.Args) > 0 {
					switch sc.String() {
					case "(*strings.Builder).WriteString", "(*strings.Builder).WriteByte", "(*strings.Builder).WriteRune", "(*strings.Builder).Write",
						"(*bytes.Buffer).WriteString", "(*bytes.Buffer).WriteByte", "(*bytes.Buffer).WriteRune", "(*bytes.Buffer).Write":
						if sameAcc(accRef{recv: x.Call.Args[0]}, acc) {
							out = append(out, x)
						}
					}
				}
			}
		case *ssa.BinOp:
			if acc.reg != nil && x.Op == token.ADD && isStringT(x.Type()) && sameAcc(accOfValue(x, li), acc) {
				out = append(out, x)
			}
		}
	}
	return out
}

func grows(v ssa.Value) bool {
	switch x := v.(type) {
	case *ssa.Call:
		bi, ok := x.Call.Value.(*ssa.Builtin)
		return ok && bi.Name() == "append"
	case *ssa.BinOp:
		return x.Op == token.ADD && isStringT(x.Type())
	}
	return false
}

func ruleSeparatorByPosition(scope func(*Prog, *Ledger, string) []*ssa.Function, extra ...string) func(p *Prog, l *Ledger, tier string) {
	return func(p *Prog, l *Ledger, tier string) {
		const rule = "E13.I14-separator-by-position"
		fns := scope(p, l, rule)
		for _, n := range extra {
			if fn := anchor(p, l, rule, n); fn != nil {
				fns = append(fns, fn)
			}
		}
		seenFn := map[*ssa.Function]bool{}
		nLoops := 0
		for _, fn := range fns {
			if seenFn[fn] || len(fn.Blocks) == 0 {
				continue
			}
			seenFn[fn] = true
			loops := loopsOf(fn)
			for _, li := range loops {
				nLoops++
				for g := range li.blocks {
					inner := false
					for _, l2 := range loops {
						if l2 != li && l2.blocks[g] && len(l2.blocks) < len(li.blocks) {
							inner = true
						}
					}
					if inner {
						continue
					}
					iff, ok := g.Instrs[len(g.Instrs)-1].(*ssa.If)
					if !ok {
						continue
					}
					acc, nonEmptyOnTrue, ok := nonEmptyTest(iff.Cond, li)
					if !ok {
						continue
					}
					sepBlock := g.Succs[0]
					if !nonEmptyOnTrue {
						sepBlock = g.Succs[1]
					}
					if len(sepBlock.Preds) != 1 || !li.blocks[sepBlock] {
						continue
					}
					seps := appendsTo(sepBlock, acc, li)
					if len(seps) == 0 {
						continue
					}
					// a separator does not depend on the element at hand (a constant, a fixed literal)
					dependent := false
					for _, sp := range seps {
						if dependsOnLoop(sp, li) {
							dependent = true
						}
					}
					if dependent {
						continue
					}
					// the side where nothing is pending must not append the same thing (a plain if/else on emptiness)
					// content appended on every way from the test to the next trip or the exit?
					unavoidable := false
					for b := range li.blocks {
						if b == sepBlock {
							continue
						}
						solid := false
						for _, ap := range appendsTo(b, acc, li) {
							if !mayAppendNothing(ap) {
								solid = true
							}
						}
						if !solid {
							continue
						}
						if !escapesWithout(g, b, li) {
							unavoidable = true
							break
						}
					}
					key := l.Key(rule, FnName(fn), "separator", acc.String())
					if unavoidable {
						l.Prove(rule, FnName(fn), key, p.Pos(iff.Pos()), "the separator is decided on the accumulated output, and every trip that reaches the test also appends content unconditionally")
						continue
					}
					l.Fail(rule, FnName(fn), key, p.Pos(seps[0].Pos()), fmt.Sprintf("%s: the separator appended at %s is decided by whether anything has been emitted so far (%s not empty), not by the position of the element, and a trip of the loop at %s can contribute nothing else (its content is appended in an inner loop, under a condition, or is a string or list that can be empty): an element that contributes nothing before the first one that does leaves no separator, so what is written has fewer elements than the list", FnName(fn), p.Pos(seps[0].Pos()), acc.String(), loopPos(p, li)))
				}
			}
		}
		l.Min(rule, nLoops, 1)
	}
}

func (a accRef) String() string {
	switch {
	case a.cell != "":
		return a.cell
	case a.reg != nil:
		if ph, ok := a.reg.(*ssa.Phi); ok && ph.Comment != "" {
			return ph.Comment
		}
		return a.reg.Name()
	case a.recv != nil:
		if p := cellPath(a.recv, 0); p != "" {
			return p
		}
		return a.recv.Name()
	}
	return "?"
}

// escapesWithout: from block g, can the loop header (next trip) or a block outside the loop be reached
// without passing through block b?
func escapesWithout(g, b *ssa.BasicBlock, li *loopInfo) bool {
	seen := map[*ssa.BasicBlock]bool{b: true}
	var walk func(x *ssa.BasicBlock) bool
	walk = func(x *ssa.BasicBlock) bool {
		for _, s := range x.Succs {
			if s == li.header || !li.blocks[s] {
				if s != b {
					return true
				}
				continue
			}
			if seen[s] {
				continue
			}
			seen[s] = true
			if walk(s) {
				return true
			}
		}
		return false
	}
	return walk(g)
}

var _ = types.Typ

// dependsOnLoop: what ins appends is computed from something that varies round the loop (a loop-carried
// value other than the accumulator itself, the element of a range, a map or slice lookup in the loop).
func dependsOnLoop(ins ssa.Instruction, li *loopInfo) bool {
	seen := map[ssa.Value]bool{}
	var dep func(v ssa.Value, depth int) bool
	dep = func(v ssa.Value, depth int) bool {
		if v == nil || seen[v] || depth > 12 {
			return false
		}
		seen[v] = true
		switch x := v.(type) {
		case *ssa.Const, *ssa.Global, *ssa.Function, *ssa.Parameter, *ssa.FreeVar, *ssa.Builtin:
			return false
		case *ssa.Phi:
			return li.blocks[x.Block()]
		case *ssa.Next, *ssa.Extract, *ssa.Lookup, *ssa.Index, *ssa.IndexAddr, *ssa.Range:
			if in, ok := v.(ssa.Instruction); ok && li.blocks[in.Block()] {
				// the varargs array of an append is indexed with constants
				if ia, ok := v.(*ssa.IndexAddr); ok {
					if _, isC := ia.Index.(*ssa.Const); isC {
						return dep(ia.X, depth+1)
					}
				}
				return true
			}
			return false
		case *ssa.Alloc:
			for _, r := range *x.Referrers() {
				if st, ok := r.(*ssa.Store); ok && dep(st.Val, depth+1) {
					return true
				}
				switch a := r.(type) {
				case *ssa.FieldAddr:
					for _, r2 := range *a.Referrers() {
						if st, ok := r2.(*ssa.Store); ok && st.Addr == ssa.Value(a) && dep(st.Val, depth+1) {
							return true
						}
					}
				case *ssa.IndexAddr:
					for _, r2 := range *a.Referrers() {
						if st, ok := r2.(*ssa.Store); ok && st.Addr == ssa.Value(a) && dep(st.Val, depth+1) {
							return true
						}
					}
				}
			}
			return false
		}
		in, ok := v.(ssa.Instruction)
		if !ok {
			return false
		}
		for _, op := range in.Operands(nil) {
			if *op != nil && dep(*op, depth+1) {
				return true
			}
		}
		return false
	}
	var ops []ssa.Value
	switch x := ins.(type) {
	case *ssa.Store:
		if c, ok := x.Val.(*ssa.Call); ok {
			ops = c.Call.Args[1:]
		} else if b, ok := x.Val.(*ssa.BinOp); ok {
			ops = []ssa.Value{b.Y}
		}
	case *ssa.Call:
		if len(x.Call.Args) > 1 {
			ops = x.Call.Args[1:]
		}
	case *ssa.BinOp:
		ops = []ssa.Value{x.Y}
	}
	for _, o := range ops {
		if dep(o, 0) {
			return true
		}
	}
	return false
}

// mayAppendNothing: the append can leave the accumulator as it was: a spread append of a list, or a string
// (bytes) operand whose emptiness depends on the data (an element of the loop, a field, the result of one of
// the library's own functions) and is not excluded by a dominating test. Constants and results of
// standard-library formatters are taken as non-empty.
func mayAppendNothing(ins ssa.Instruction) bool {
	var vals []ssa.Value
	spread := false
	switch x := ins.(type) {
	case *ssa.Store:
		switch v := x.Val.(type) {
		case *ssa.Call:
			vals = v.Call.Args[1:]
			spread = v.Call.Signature().Variadic() && !isVarargsLiteral(v.Call.Args[len(v.Call.Args)-1])
		case *ssa.BinOp:
			vals = []ssa.Value{v.Y}
		}
	case *ssa.Call:
		if bi, ok := x.Call.Value.(*ssa.Builtin); ok && bi.Name() == "append" {
			vals = x.Call.Args[1:]
			spread = !isVarargsLiteral(x.Call.Args[len(x.Call.Args)-1])
		} else if sc := x.Call.StaticCallee(); sc != nil {
			switch sc.Name() {
			case "WriteByte", "WriteRune":
				return false
			}
			vals = x.Call.Args[1:]
			spread = true // Write / WriteString of a whole string
		}
	case *ssa.BinOp:
		vals = []ssa.Value{x.Y}
		spread = true
	}
	if !spread {
		return false
	}
	for _, v := range vals {
		if !possiblyEmpty(v, ins.Block(), 0) {
			return false
		}
	}
	return true
}

func isVarargsLiteral(v ssa.Value) bool {
	sl, ok := v.(*ssa.Slice)
	if !ok {
		return false
	}
	_, ok = sl.X.(*ssa.Alloc)
	return ok
}

func possiblyEmpty(v ssa.Value, at *ssa.BasicBlock, depth int) bool {
	if depth > 6 {
		return false
	}
	if s, ok := constStr(v); ok {
		return s == ""
	}
	// a dominating test that v is not empty
	for _, dc := range dominatingConds(at) {
		bo, ok := dc.cond.(*ssa.BinOp)
		if !ok {
			continue
		}
		if bo.X == v || bo.Y == v {
			other := bo.Y
			if bo.Y == v {
				other = bo.X
			}
			if s, ok := constStr(other); ok && s == "" && ((bo.Op == token.NEQ && dc.taken) || (bo.Op == token.EQL && !dc.taken)) {
				return false
			}
		}
		if c, ok := bo.X.(*ssa.Call); ok {
			if bi, ok := c.Call.Value.(*ssa.Builtin); ok && bi.Name() == "len" && c.Call.Args[0] == v {
				if k, ok := constInt(bo.Y); ok {
					op := bo.Op
					if !dc.taken {
						op = negateCompare(op)
					}
					if (k == 0 && (op == token.GTR || op == token.NEQ)) || (k >= 1 && (op == token.GEQ || op == token.EQL)) {
						return false
					}
				}
			}
		}
	}
	switch x := v.(type) {
	case *ssa.Convert:
		return possiblyEmpty(x.X, at, depth+1)
	case *ssa.ChangeType:
		return possiblyEmpty(x.X, at, depth+1)
	case *ssa.Call:
		sc := x.Call.StaticCallee()
		if sc == nil {
			return true // String() through an interface
		}
		if sc.Pkg != nil && sc.Pkg.Pkg.Path() == "github.com/asticode/go-astisub" {
			return true
		}
		return false
	case *ssa.UnOp, *ssa.Extract, *ssa.Field, *ssa.Index, *ssa.Lookup, *ssa.Parameter, *ssa.Slice:
		return true
	case *ssa.Phi:
		for _, e := range x.Edges {
			if possiblyEmpty(e, at, depth+1) {
				return true
			}
		}
		return false
	case *ssa.BinOp:
		if x.Op == token.ADD {
			return possiblyEmpty(x.X, at, depth+1) && possiblyEmpty(x.Y, at, depth+1)
		}
	}
	return false
}
