package chk

// Rule is one decision procedure; it appends obligations to the ledger.
type Rule struct {
	Name string
	Run  func(p *Prog, l *Ledger, tier string)
}

// PropSpec ties a property to its rules and its evidence text.
type PropSpec struct {
	ID          string
	Explanation string
	Assumptions []string
	Rules       []Rule
}

var registry = map[string]*PropSpec{}

func register(ps *PropSpec) { registry[ps.ID] = ps }

func Spec(id string) *PropSpec { return registry[id] }

func AllProps() []string {
	var out []string
	for k := range registry {
		out = append(out, k)
	}
	sortStrings(out)
	return out
}
