// Package chk holds the static checker for go-astisub properties C01–C20.
package chk

import (
	"fmt"
	"go/ast"
	"go/token"
	"go/types"
	"os"
	"sort"
	"strings"

	"golang.org/x/tools/go/callgraph"
	"golang.org/x/tools/go/callgraph/cha"
	"golang.org/x/tools/go/callgraph/vta"
	"golang.org/x/tools/go/packages"
	"golang.org/x/tools/go/ssa"
	"golang.org/x/tools/go/ssa/ssautil"
)

const (
	LibPath = "github.com/asticode/go-astisub"
	CLIPath = "github.com/asticode/go-astisub/astisub"
)

// Prog is the loaded, type-checked and SSA-built program under analysis.
type Prog struct {
	Repo   string
	Fset   *token.FileSet
	Pkgs   []*packages.Package // all packages (deps included)
	Lib    *packages.Package
	CLI    *packages.Package
	SSA    *ssa.Program
	LibSSA *ssa.Package
	CLISSA *ssa.Package
	CG     *callgraph.Graph // VTA over CHA
	CHA    *callgraph.Graph
	Files  []string // source files of Lib and CLI seen by the loader
	AllFns map[*ssa.Function]bool
	LibFns []*ssa.Function // every function (incl. anonymous) whose package is Lib, sorted
	CLIFns []*ssa.Function
	// Wrappers: synthetic method-value / interface wrappers around functions of Lib or CLI
	Wrappers  []*ssa.Function
	isWrapper map[*ssa.Function]bool
	byName    map[string]*ssa.Function
	Tags      string
	NumPkgs   int
	eff       *Effects
	nila      *NilAnalysis
	bimaps    *biMaps
}

// Load loads /repo's current working tree.
func Load(repo string, tags string, env []string) (*Prog, error) {
	cfg := &packages.Config{
		Mode:  packages.LoadAllSyntax,
		Dir:   repo,
		Tests: false,
		Env:   append(os.Environ(), env...),
	}
	if tags != "" {
		cfg.BuildFlags = []string{"-tags=" + tags}
	}
	pkgs, err := packages.Load(cfg, "./...")
	if err != nil {
		return nil, fmt.Errorf("packages.Load: %w", err)
	}
	if len(pkgs) == 0 {
		return nil, fmt.Errorf("no packages loaded from %s", repo)
	}
	p := &Prog{Repo: repo, Tags: tags, byName: map[string]*ssa.Function{}}
	var errs []string
	packages.Visit(pkgs, nil, func(pk *packages.Package) {
		p.Pkgs = append(p.Pkgs, pk)
		for _, e := range pk.Errors {
			errs = append(errs, pk.PkgPath+": "+e.Error())
		}
		switch pk.PkgPath {
		case LibPath:
			p.Lib = pk
		case CLIPath:
			p.CLI = pk
		}
	})
	if len(errs) > 0 {
		sort.Strings(errs)
		if len(errs) > 10 {
			errs = errs[:10]
		}
		return nil, fmt.Errorf("type/load errors: %s", strings.Join(errs, "; "))
	}
	if p.Lib == nil || p.CLI == nil {
		return nil, fmt.Errorf("anchor packages not found (lib=%v cli=%v)", p.Lib != nil, p.CLI != nil)
	}
	p.NumPkgs = len(p.Pkgs)
	p.Fset = p.Lib.Fset
	for _, pk := range []*packages.Package{p.Lib, p.CLI} {
		p.Files = append(p.Files, pk.CompiledGoFiles...)
	}
	sort.Strings(p.Files)

	prog, _ := ssautil.AllPackages(pkgs, ssa.InstantiateGenerics)
	prog.Build()
	p.SSA = prog
	p.LibSSA = prog.Package(p.Lib.Types)
	p.CLISSA = prog.Package(p.CLI.Types)
	if p.LibSSA == nil || p.CLISSA == nil {
		return nil, fmt.Errorf("ssa packages missing")
	}
	p.AllFns = ssautil.AllFunctions(prog)
	p.CHA = cha.CallGraph(prog)
	p.CG = vta.CallGraph(p.AllFns, p.CHA)
	for fn := range p.AllFns {
		if fn.Pkg == nil {
			// anonymous functions have Pkg set through parent in x/tools ≥0.2x; be defensive
			if fn.Parent() == nil {
				continue
			}
		}
		if fn.Synthetic != "" && fn.Synthetic != "package initializer" {
			continue // wrappers, bound-method thunks: no source of their own (see Wrappers below)
		}
		pk := fnPkg(fn)
		switch pk {
		case p.LibSSA:
			p.LibFns = append(p.LibFns, fn)
		case p.CLISSA:
			p.CLIFns = append(p.CLIFns, fn)
		}
	}
	// method-value and interface wrappers (s.WriteToSRT used as a func value): synthetic functions
	// without a package whose body calls a function of the library or the CLI. They get effect
	// summaries of their own so that a call through a method value is not an unknown callee.
	inScopeFn := map[*ssa.Function]bool{}
	for _, fn := range p.LibFns {
		inScopeFn[fn] = true
	}
	for _, fn := range p.CLIFns {
		inScopeFn[fn] = true
	}
	for fn := range p.AllFns {
		if fn.Synthetic == "" || fn.Synthetic == "package initializer" || fn.Blocks == nil || inScopeFn[fn] {
			continue
		}
		if fn.Pkg != nil && fn.Pkg != p.LibSSA && fn.Pkg != p.CLISSA {
			continue
		}
		target := false
		for _, b := range fn.Blocks {
			for _, ins := range b.Instrs {
				if c, ok := ins.(ssa.CallInstruction); ok {
					if sc := c.Common().StaticCallee(); sc != nil && inScopeFn[sc] {
						target = true
					}
				}
			}
		}
		if target {
			p.Wrappers = append(p.Wrappers, fn)
		}
	}
	less := func(s []*ssa.Function) func(i, j int) bool {
		return func(i, j int) bool { return s[i].String() < s[j].String() }
	}
	sort.Slice(p.LibFns, less(p.LibFns))
	sort.Slice(p.CLIFns, less(p.CLIFns))
	sort.Slice(p.Wrappers, less(p.Wrappers))
	p.isWrapper = map[*ssa.Function]bool{}
	for _, fn := range p.Wrappers {
		p.isWrapper[fn] = true
	}
	for _, fn := range append(append([]*ssa.Function{}, p.LibFns...), p.CLIFns...) {
		p.byName[FnName(fn)] = fn
	}
	return p, nil
}

func fnPkg(fn *ssa.Function) *ssa.Package {
	for f := fn; f != nil; f = f.Parent() {
		if f.Pkg != nil {
			return f.Pkg
		}
	}
	return nil
}

// FnName is the stable short name used in keys: "ReadFromSRT", "Subtitles.Add",
// "(*teletextPageBuffer).process" → "teletextPageBuffer.process", closures "newScanner$1",
// CLI functions are prefixed "main.".
func FnName(fn *ssa.Function) string {
	if fn == nil {
		return "<nil>"
	}
	if fn.Parent() != nil {
		n := fn.Name()
		// ssa names closures parent$N
		if i := strings.LastIndex(n, "$"); i >= 0 {
			return FnName(fn.Parent()) + n[i:]
		}
		return FnName(fn.Parent()) + "$" + n
	}
	name := fn.Name()
	if recv := fn.Signature.Recv(); recv != nil {
		t := recv.Type()
		if pt, ok := t.(*types.Pointer); ok {
			t = pt.Elem()
		}
		if nt, ok := t.(*types.Named); ok {
			name = nt.Obj().Name() + "." + name
		}
	}
	if pk := fnPkg(fn); pk != nil && pk.Pkg.Path() == CLIPath {
		name = "main." + name
	}
	return name
}

// Fn resolves a function of the library / CLI by short name; nil when absent.
func (p *Prog) Fn(name string) *ssa.Function { return p.byName[name] }

// Pos renders a position relative to the repo root.
func (p *Prog) Pos(pos token.Pos) string {
	if !pos.IsValid() {
		return "-"
	}
	ps := p.Fset.Position(pos)
	f := strings.TrimPrefix(ps.Filename, p.Repo+"/")
	return fmt.Sprintf("%s:%d", f, ps.Line)
}

// FuncDecl finds the AST declaration of a library function by short name ("Subtitles.Add").
func (p *Prog) FuncDecl(name string) *ast.FuncDecl {
	for _, pk := range []*packages.Package{p.Lib, p.CLI} {
		for _, f := range pk.Syntax {
			for _, d := range f.Decls {
				fd, ok := d.(*ast.FuncDecl)
				if !ok {
					continue
				}
				n := fd.Name.Name
				if fd.Recv != nil && len(fd.Recv.List) == 1 {
					t := fd.Recv.List[0].Type
					if st, ok := t.(*ast.StarExpr); ok {
						t = st.X
					}
					if id, ok := t.(*ast.Ident); ok {
						n = id.Name + "." + n
					}
				}
				if pk == p.CLI {
					n = "main." + n
				}
				if n == name {
					return fd
				}
			}
		}
	}
	return nil
}

// WithCHA returns a view of the program whose call graph is the (coarser) CHA graph, with all
// derived analyses reset; used by the thorough tier to re-decide reachability-based rules.
func (p *Prog) WithCHA() *Prog {
	q := *p
	q.CG = p.CHA
	q.eff, q.nila, q.bimaps = nil, nil, nil
	return &q
}
