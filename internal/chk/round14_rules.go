package chk

import (
	"fmt"
	"go/token"
	"go/types"
	"strings"

	"golang.org/x/tools/go/ssa"
)

// Rules added after the fourteenth round of seeded changes.

// ---- E14-M1c the walk up the parent styles ends on nil or on a style already seen, nothing else (C13/r14) ------------
// Every ancestor of a used style is used.  The loop that follows Style.Style from a used style may stop when there is
// no parent or when the parent has been marked before (which also ends cycles); a depth counter, however generous,
// drops the ancestors beyond it, and their children keep a reference to a style that is gone.
func ruleParentWalkUnbounded(p *Prog, l *Ledger, tier string) {
	const rule = "E14.M1c-parent-walk-unbounded"
	const name = "Subtitles.removeUnusedRegionsAndStyles"
	fn := anchor(p, l, rule, name)
	if fn == nil {
		return
	}
	n := 0
	for _, h := range p.Helpers(fn) {
		if fnPkg(h) != p.LibSSA {
			continue
		}
		for _, li := range loopsOf(h) {
			// a loop whose header carries a *Style loaded, inside the loop, from Style.Style of itself
			var walker *ssa.Phi
			for _, ins := range li.header.Instrs {
				ph, ok := ins.(*ssa.Phi)
				if !ok {
					break
				}
				if !isPtrToNamed(ph.Type(), "Style") {
					continue
				}
				for k, e := range ph.Edges {
					if !li.blocks[li.header.Preds[k]] {
						continue
					}
					if t, f, base := loadedField(e); t == "Style" && f == "Style" && base == ssa.Value(ph) {
						walker = ph
					}
				}
			}
			if walker == nil {
				continue
			}
			n++
			key := l.Key(rule, FnName(h), "walk", "")
			bad := ""
			for b := range li.blocks {
				iff, ok := b.Instrs[len(b.Instrs)-1].(*ssa.If)
				if !ok {
					continue
				}
				exits := false
				for _, s := range b.Succs {
					if !li.blocks[s] {
						exits = true
					}
				}
				if !exits {
					continue
				}
				var numeric func(v ssa.Value, depth int) ssa.Value
				numeric = func(v ssa.Value, depth int) ssa.Value {
					if depth > 6 {
						return nil
					}
					switch x := v.(type) {
					case *ssa.UnOp:
						if x.Op == token.NOT {
							return numeric(x.X, depth+1)
						}
					case *ssa.Phi:
						for _, e := range x.Edges {
							if w := numeric(e, depth+1); w != nil {
								return w
							}
						}
					case *ssa.BinOp:
						switch x.Op {
						case token.LSS, token.LEQ, token.GTR, token.GEQ, token.EQL, token.NEQ:
							// a counter carried round this loop (a test of mark bits found in a map is not one)
							for _, side := range []ssa.Value{x.X, x.Y} {
								base, _ := linear(side)
								if ph, ok := base.(*ssa.Phi); ok && ph.Block() == li.header && isIntegerT(ph.Type()) {
									return x
								}
							}
						}
					}
					return nil
				}
				if w := numeric(iff.Cond, 0); w != nil {
					bad = p.Pos(w.Pos())
				}
			}
			if bad != "" {
				l.Fail(rule, FnName(h), key, bad, fmt.Sprintf("%s: the walk from a used style up its parents can also end on a comparison of integers at %s (a depth limit): the ancestors beyond it are not marked and are deleted, while their children keep pointing at them", FnName(h), bad))
			} else {
				l.Prove(rule, FnName(h), key, loopPos(p, li), "the walk up the parents ends only where there is no parent or the parent is already marked")
			}
		}
	}
	l.Min(rule, n, 1)
}

var _ = types.Typ
var _ = strings.TrimSpace

// ---- E11 Open hands the transport-stream reader something it can rewind (C07/r14) -------------------------------------
// ReadFromTeletext scans the stream for the teletext PID and rewinds it before decoding; the demuxer rewinds only a
// reader that is an io.Seeker and otherwise carries on from where it is, silently, so everything transmitted before
// the PID was known is lost.  Rule: whatever Open passes to ReadFromTeletext has a Seek method (the file itself), on
// every path.
func ruleOpenGivesSeekableToTeletext(p *Prog, l *Ledger, tier string) {
	const rule = "E11.open-teletext-seekable"
	const name = "Open"
	fn := anchor(p, l, rule, name)
	if fn == nil {
		return
	}
	hasSeek := func(t types.Type) bool {
		ms := types.NewMethodSet(t)
		for i := 0; i < ms.Len(); i++ {
			if ms.At(i).Obj().Name() == "Seek" {
				return true
			}
		}
		return false
	}
	var bad func(v ssa.Value, seen map[ssa.Value]bool) string
	bad = func(v ssa.Value, seen map[ssa.Value]bool) string {
		if seen[v] {
			return ""
		}
		seen[v] = true
		switch x := v.(type) {
		case *ssa.MakeInterface:
			if hasSeek(x.X.Type()) {
				return ""
			}
			return typeStr(x.X.Type())
		case *ssa.ChangeInterface:
			return bad(x.X, seen)
		case *ssa.Phi:
			for _, e := range x.Edges {
				if w := bad(e, seen); w != "" {
					return w
				}
			}
			return ""
		case *ssa.UnOp:
			if al, ok := x.X.(*ssa.Alloc); ok && x.Op == token.MUL {
				for _, r := range *al.Referrers() {
					if st, ok := r.(*ssa.Store); ok && st.Addr == ssa.Value(al) {
						if w := bad(st.Val, seen); w != "" {
							return w
						}
					}
				}
				return ""
			}
		}
		if hasSeek(v.Type()) {
			return ""
		}
		return typeStr(v.Type())
	}
	n := 0
	for _, h := range p.Helpers(fn) {
		if fnPkg(h) != p.LibSSA {
			continue
		}
		for _, b := range h.Blocks {
			for _, ins := range b.Instrs {
				c, ok := ins.(*ssa.Call)
				if !ok || c.Call.StaticCallee() == nil || FnName(c.Call.StaticCallee()) != "ReadFromTeletext" || h.Name() == "ReadFromTeletext" {
					continue
				}
				if FnName(h) != "Open" && FnName(h) != "OpenFile" {
					continue
				}
				n++
				key := l.Key(rule, name, "reader", "")
				if w := bad(c.Call.Args[0], map[ssa.Value]bool{}); w != "" {
					l.Fail(rule, name, key, p.Pos(c.Pos()), "Open passes a "+w+" to ReadFromTeletext: it is not an io.Seeker, so the rewind the teletext reader asks for once it has found the PID does nothing, and every page transmitted before that point is missing from the result (no error is returned)")
				} else {
					l.Prove(rule, name, key, p.Pos(c.Pos()), "the reader handed to ReadFromTeletext can be rewound")
				}
			}
		}
	}
	if n == 0 {
		// the readers are dispatched through a table of function values: every reader Open hands to a function value
		for _, h := range p.Helpers(fn) {
			if fnPkg(h) != p.LibSSA || (FnName(h) != "Open" && FnName(h) != "OpenFile") {
				continue
			}
			for _, b := range h.Blocks {
				for _, ins := range b.Instrs {
					c, ok := ins.(*ssa.Call)
					if !ok || c.Call.StaticCallee() != nil || c.Call.IsInvoke() {
						continue
					}
					for _, a := range c.Call.Args {
						if !isIOReader(a.Type()) {
							continue
						}
						n++
						key := l.Key(rule, name, "reader", "dynamic")
						if w := bad(a, map[ssa.Value]bool{}); w != "" {
							l.Fail(rule, name, key, p.Pos(c.Pos()), "Open passes a "+w+" to the reader function it has looked up: when that is ReadFromTeletext the rewind it asks for does nothing (not an io.Seeker), and every page transmitted before the PID was found is missing from the result")
						} else {
							l.Prove(rule, name, key, p.Pos(c.Pos()), "the reader handed to the looked-up reader function can be rewound")
						}
					}
				}
			}
		}
	}
	if n == 0 {
		l.Prove(rule, name, rule+"|none", p.Pos(fn.Pos()), "Open neither calls ReadFromTeletext itself nor hands a reader to a function value: nothing for this rule to decide")
	}
}

// ---- E9 the descriptors that make an elementary stream a teletext stream (C06/r14) ----------------------------------
// "The first teletext PID of the PMT": a stream counts when it carries a teletext descriptor (0x56) or a VBI teletext
// descriptor (0x46).  A VBI data descriptor (0x45) announces VBI lines of any kind (WSS, VPS …): accepting it selects a
// stream without teletext when it is listed first.  Rule: the descriptor tags teletextPID accepts – constants compared
// with the descriptor's Tag, keys of a package-level table it looks the Tag up in – are exactly those two.
func ruleTeletextDescriptorTags(p *Prog, l *Ledger, tier string) {
	const rule = "E9.T8-teletext-descriptor-tags"
	const name = "teletextPID"
	fn := anchor(p, l, rule, name)
	if fn == nil {
		return
	}
	want := map[int64]string{}
	for _, pk := range p.Pkgs {
		if pk.PkgPath == "github.com/asticode/go-astits" {
			for _, cn := range []string{"DescriptorTagTeletext", "DescriptorTagVBITeletext"} {
				if c, ok := pk.Types.Scope().Lookup(cn).(*types.Const); ok {
					if v, ok := constantInt64(c); ok {
						want[v] = cn
					}
				}
			}
		}
	}
	key := rule + "|" + name
	if len(want) != 2 {
		l.Undecide(rule, name, key, "", "the two descriptor tag constants of go-astits were not found")
		return
	}
	isTag := func(v ssa.Value) bool {
		_, f, _ := loadedField(stripConv(v))
		return f == "Tag"
	}
	got := map[int64]string{}
	for _, h := range p.Helpers(fn) {
		if fnPkg(h) != p.LibSSA {
			continue
		}
		for _, b := range h.Blocks {
			for _, ins := range b.Instrs {
				switch x := ins.(type) {
				case *ssa.BinOp:
					if x.Op != token.EQL && x.Op != token.NEQ {
						continue
					}
					for _, pr := range [][2]ssa.Value{{x.X, x.Y}, {x.Y, x.X}} {
						if isTag(pr[0]) {
							if c, ok := constInt(stripConv(pr[1])); ok {
								got[c] = p.Pos(x.Pos())
							}
						}
					}
				case *ssa.Lookup:
					if !isTag(x.Index) {
						continue
					}
					if u, ok := x.X.(*ssa.UnOp); ok {
						if gl, ok := u.X.(*ssa.Global); ok {
							if mk, ok := p.globalInit(gl.Name()).(*ssa.MakeMap); ok {
								for _, r := range *mk.Referrers() {
									if mu, ok := r.(*ssa.MapUpdate); ok {
										if c, ok := constInt(stripConv(mu.Key)); ok {
											got[c] = p.Pos(mu.Pos())
										} else {
											l.Undecide(rule, name, key, p.Pos(mu.Pos()), "a key of the descriptor table is not a constant")
											return
										}
									}
								}
							}
						}
					}
				}
			}
		}
	}
	if len(got) == 0 {
		l.Undecide(rule, name, key, p.Pos(fn.Pos()), "the descriptor tags teletextPID accepts could not be extracted (no comparison of the descriptor's Tag with a constant, no table looked up with it)")
		return
	}
	var bad []string
	for c, pos := range got {
		if _, ok := want[c]; !ok {
			bad = append(bad, fmt.Sprintf("%#x at %s", c, pos))
		}
	}
	for c, cn := range want {
		if _, ok := got[c]; !ok {
			bad = append(bad, fmt.Sprintf("%s (%#x) is no longer accepted", cn, c))
		}
	}
	if len(bad) > 0 {
		l.Fail(rule, name, key, p.Pos(fn.Pos()), "teletextPID takes an elementary stream for a teletext stream on other descriptors than the teletext (0x56) and VBI teletext (0x46) ones: "+strings.Join(sortedStrings(bad), "; ")+": a stream without teletext listed first in the PMT is selected and no cue is returned")
	} else {
		l.Prove(rule, name, key, p.Pos(fn.Pos()), "the accepted descriptor tags are exactly DescriptorTagTeletext and DescriptorTagVBITeletext")
	}
}

// ---- E12 the linear correction is refused on an equality only (C15/r14) ----------------------------------------------
// Two distinct reference points define the line whatever their order.  A guard that gives up (returns before the cues
// are corrected) may test that the two actual points are equal; an ordering test (a2 - a1 < ε) also gives up when the
// later point is passed first, and leaves every cue where it was.  Rule: every return of ApplyLinearCorrection that
// the loop over the cues does not lead to is guarded by equalities only – also when the verdict comes from a library
// helper as a boolean.
func ruleLinearCorrectionRefusesOnEqualityOnly(p *Prog, l *Ledger, tier string) {
	const rule = "E12.G14-linear-correction-refusal"
	const name = "Subtitles.ApplyLinearCorrection"
	fn := anchor(p, l, rule, name)
	if fn == nil {
		return
	}
	var ordering func(f *ssa.Function, v ssa.Value, depth int) ssa.Instruction
	ordering = func(f *ssa.Function, v ssa.Value, depth int) ssa.Instruction {
		if depth > 6 || v == nil {
			return nil
		}
		switch x := v.(type) {
		case *ssa.UnOp:
			return ordering(f, x.X, depth+1)
		case *ssa.Phi:
			for _, e := range x.Edges {
				if w := ordering(f, e, depth+1); w != nil {
					return w
				}
			}
		case *ssa.BinOp:
			switch x.Op {
			case token.LSS, token.LEQ, token.GTR, token.GEQ:
				return x
			}
		case *ssa.Extract:
			return ordering(f, x.Tuple, depth+1)
		case *ssa.Call:
			// a verdict computed by a library helper: the tests on the way to each of its returns
			sc := x.Call.StaticCallee()
			if sc == nil || fnPkg(sc) != p.LibSSA || len(sc.Blocks) == 0 {
				return nil
			}
			for _, b := range sc.Blocks {
				if _, ok := b.Instrs[len(b.Instrs)-1].(*ssa.Return); !ok {
					continue
				}
				for _, dc := range dominatingConds(b) {
					if w := ordering(sc, dc.cond, depth+1); w != nil {
						return w
					}
				}
			}
		}
		return nil
	}
	loops := loopsOf(fn)
	n := 0
	for _, b := range fn.Blocks {
		if _, ok := b.Instrs[len(b.Instrs)-1].(*ssa.Return); !ok {
			continue
		}
		after := false
		for _, li := range loops {
			if li.header.Dominates(b) {
				after = true
			}
		}
		if after || len(loops) == 0 {
			continue
		}
		n++
		key := l.Key(rule, name, "early-return", "")
		var bad ssa.Instruction
		for _, dc := range dominatingConds(b) {
			if w := ordering(fn, dc.cond, 0); w != nil {
				bad = w
			}
		}
		if bad != nil {
			l.Fail(rule, name, key, p.Pos(bad.Pos()), "ApplyLinearCorrection gives up before correcting anything on an ordering test ("+p.Pos(bad.Pos())+"): two reference points given in the other order (the later one first) define the same line and are refused, so every cue stays where it was")
		} else {
			l.Prove(rule, name, key, p.Pos(b.Instrs[len(b.Instrs)-1].Pos()), "the early return is guarded by equalities only")
		}
	}
	if n == 0 {
		l.Prove(rule, name, rule+"|none", p.Pos(fn.Pos()), "ApplyLinearCorrection has no return that skips the loop over the cues")
	}
}

// ---- E13-I19 a one-entry memo needs to know whether it holds anything (C15/r14) --------------------------------------
// "Remember the last argument and its result; recompute only when the argument differs" is right only if the remembered
// argument has been computed for: with both cells left at their zero value and a hit test that is the bare comparison
// arg != last, the first call with the zero argument is taken for a hit and answers the zero result without computing
// (a first cue starting at 0 keeps its start).  Rule: in a closure whose recompute branch is guarded by exactly
// `param != captured` and stores the parameter into that captured variable, the captured variable must have been
// assigned by the enclosing function before the closure can run, or the guard must have another disjunct (a validity
// flag, a nil test of the remembered result).
func ruleMemoNeedsValidity(p *Prog, l *Ledger, tier string) {
	const rule = "E13.I19-memo-needs-validity"
	n := 0
	for _, fn := range p.LibFns {
		par := fn.Parent()
		if par == nil || len(fn.FreeVars) == 0 {
			continue
		}
		name := FnName(fn)
		for _, b := range fn.Blocks {
			iff, ok := b.Instrs[len(b.Instrs)-1].(*ssa.If)
			if !ok {
				continue
			}
			bo, ok := iff.Cond.(*ssa.BinOp)
			if !ok || (bo.Op != token.NEQ && bo.Op != token.EQL) {
				continue
			}
			var prm *ssa.Parameter
			var fv *ssa.FreeVar
			for _, pr := range [][2]ssa.Value{{bo.X, bo.Y}, {bo.Y, bo.X}} {
				q, isP := pr[0].(*ssa.Parameter)
				u, isU := pr[1].(*ssa.UnOp)
				if !isP || !isU || u.Op != token.MUL {
					continue
				}
				if f, isFV := u.X.(*ssa.FreeVar); isFV {
					prm, fv = q, f
				}
			}
			if prm == nil {
				continue
			}
			recompute := b.Succs[0]
			if bo.Op == token.EQL {
				recompute = b.Succs[1]
			}
			// the recompute branch stores the parameter into the remembered key
			storesKey := false
			for _, x := range fn.Blocks {
				if !recompute.Dominates(x) {
					continue
				}
				for _, ins := range x.Instrs {
					if st, ok := ins.(*ssa.Store); ok && st.Addr == ssa.Value(fv) && st.Val == ssa.Value(prm) {
						storesKey = true
					}
				}
			}
			if !storesKey || len(recompute.Preds) != 1 {
				continue // not a memo, or the recompute branch has another way in (a validity test ahead of this one)
			}
			n++
			key := l.Key(rule, name, "memo", fv.Name())
			// the remembered key as the enclosing function leaves it before the closure runs
			initialised := false
			for k, f := range fn.FreeVars {
				if f != fv {
					continue
				}
				for _, pb := range par.Blocks {
					for _, pi := range pb.Instrs {
						mc, ok := pi.(*ssa.MakeClosure)
						if !ok || mc.Fn != ssa.Value(fn) || k >= len(mc.Bindings) {
							continue
						}
						if cell, ok := mc.Bindings[k].(*ssa.Alloc); ok {
							for _, r := range *cell.Referrers() {
								if st, ok := r.(*ssa.Store); ok && st.Addr == ssa.Value(cell) {
									if _, isC := st.Val.(*ssa.Const); !isC {
										initialised = true
									}
								}
							}
						} else {
							initialised = true
						}
					}
				}
			}
			if initialised {
				l.Prove(rule, name, key, p.Pos(bo.Pos()), "the remembered argument is assigned by the enclosing function before the memo is consulted")
			} else {
				l.Fail(rule, name, key, p.Pos(bo.Pos()), fmt.Sprintf("%s recomputes only when its argument differs from the remembered one (%s), which starts at the zero value with nothing computed for it: the first call with a zero argument is answered from the empty memo (the zero result) instead of being computed", name, fv.Name()))
			}
		}
	}
	// the same memo held in the fields of a small struct with a method: if arg != m.last { m.last = arg; m.val = f(arg) }
	for _, fn := range p.LibFns {
		if fn.Parent() != nil || fn.Signature.Recv() == nil || len(fn.Params) < 2 {
			continue
		}
		recv := fn.Params[0]
		if _, isPtr := recv.Type().Underlying().(*types.Pointer); !isPtr {
			continue
		}
		name := FnName(fn)
		for _, b := range fn.Blocks {
			iff, ok := b.Instrs[len(b.Instrs)-1].(*ssa.If)
			if !ok {
				continue
			}
			bo, ok := iff.Cond.(*ssa.BinOp)
			if !ok || (bo.Op != token.NEQ && bo.Op != token.EQL) {
				continue
			}
			var prm *ssa.Parameter
			var fld *ssa.FieldAddr
			for _, pr := range [][2]ssa.Value{{bo.X, bo.Y}, {bo.Y, bo.X}} {
				q, isP := pr[0].(*ssa.Parameter)
				u, isU := pr[1].(*ssa.UnOp)
				if !isP || q == recv || !isU || u.Op != token.MUL {
					continue
				}
				if fa, isFA := u.X.(*ssa.FieldAddr); isFA && fa.X == ssa.Value(recv) {
					prm, fld = q, fa
				}
			}
			if prm == nil {
				continue
			}
			recompute := b.Succs[0]
			if bo.Op == token.EQL {
				recompute = b.Succs[1]
			}
			storesKey := false
			for _, x := range fn.Blocks {
				if !recompute.Dominates(x) {
					continue
				}
				for _, ins := range x.Instrs {
					if st, ok := ins.(*ssa.Store); ok && st.Val == ssa.Value(prm) {
						if fa, ok := st.Addr.(*ssa.FieldAddr); ok && fa.X == ssa.Value(recv) && fa.Field == fld.Field {
							storesKey = true
						}
					}
				}
			}
			if !storesKey || len(recompute.Preds) != 1 {
				continue
			}
			// every receiver the library calls it on is a zero-valued local whose key field nobody else assigns
			sites, zero := 0, 0
			for _, caller := range p.LibFns {
				for _, cb := range caller.Blocks {
					for _, ci := range cb.Instrs {
						c, ok := ci.(*ssa.Call)
						if !ok || c.Call.StaticCallee() != fn || len(c.Call.Args) == 0 {
							continue
						}
						sites++
						al, ok := c.Call.Args[0].(*ssa.Alloc)
						if !ok {
							continue
						}
						assigned := false
						for _, r := range *al.Referrers() {
							switch y := r.(type) {
							case *ssa.Store:
								if y.Addr == ssa.Value(al) {
									assigned = true
								}
							case *ssa.FieldAddr:
								if y.Field == fld.Field {
									for _, r2 := range *y.Referrers() {
										if _, isSt := r2.(*ssa.Store); isSt {
											assigned = true
										}
									}
								}
							}
						}
						if !assigned {
							zero++
						}
					}
				}
			}
			if sites == 0 {
				continue
			}
			n++
			key := l.Key(rule, name, "memo", fieldName(recv.Type(), fld.Field))
			if zero > 0 {
				l.Fail(rule, name, key, p.Pos(bo.Pos()), fmt.Sprintf("%s recomputes only when its argument differs from the remembered one (field %s), and it is called on a zero-valued %s with nothing computed for the zero argument: the first call with a zero argument is answered from the empty memo (the first cue starting at 0 gets an empty timestamp)", name, fieldName(recv.Type(), fld.Field), typeStr(recv.Type())))
			} else {
				l.Prove(rule, name, key, p.Pos(bo.Pos()), "the remembered argument is assigned before the memo is consulted")
			}
		}
	}
	if n == 0 {
		l.Prove(rule, "", rule+"|none", "", "no closure or method of the library is a one-entry memo guarded by a bare comparison with the remembered argument")
	}
}

// ---- E10 the TTML writer hands the text to the XML encoder as it is (C03/r14) ----------------------------------------
// "for any text made of XML-legal characters": the encoder escapes what has to be escaped; a filter between the cue and
// the encoder (dropping what unicode.IsPrint rejects) also drops legal characters (no-break space, zero-width joiner).
// Rule: what WriteToTTML stores into the Text of an output item, and into the title and copyright of the output
// metadata, is a load of the corresponding field of the list, with no call in between.
func ruleTTMLTextVerbatim(p *Prog, l *Ledger, tier string) {
	const rule = "E10.A14-ttml-text-verbatim"
	const name = "Subtitles.WriteToTTML"
	fn := anchor(p, l, rule, name)
	if fn == nil {
		return
	}
	want := map[string]string{"TTMLOutItem.Text": "LineItem.Text", "TTMLOutMetadata.Title": "Metadata.Title", "TTMLOutMetadata.Copyright": "Metadata.TTMLCopyright"}
	n := 0
	for _, h := range p.Helpers(fn) {
		if fnPkg(h) != p.LibSSA {
			continue
		}
		for _, b := range h.Blocks {
			for _, ins := range b.Instrs {
				st, ok := ins.(*ssa.Store)
				if !ok {
					continue
				}
				t, f := fieldOfAddr(st.Addr)
				src, tracked := want[t+"."+f]
				if !tracked {
					continue
				}
				n++
				key := l.Key(rule, name, "text", t+"."+f)
				v := st.Val
				for {
					if ph, ok := v.(*ssa.Phi); ok && len(ph.Edges) == 1 {
						v = ph.Edges[0]
						continue
					}
					break
				}
				if c, ok := v.(*ssa.Call); ok {
					l.Fail(rule, name, key, p.Pos(st.Pos()), fmt.Sprintf("%s stores into %s.%s the result of %s instead of %s itself: whatever that call drops or rewrites is missing from the document although the XML encoder could have carried it", FnName(h), t, f, calleeName(&c.Call), src))
					continue
				}
				if st2, sf, _ := loadedField(v); st2+"."+sf == src || (sf != "" && strings.HasSuffix(src, "."+sf)) {
					l.Prove(rule, name, key, p.Pos(st.Pos()), t+"."+f+" ← "+src+", untouched")
				} else if _, isConst := v.(*ssa.Const); isConst {
					l.Prove(rule, name, key, p.Pos(st.Pos()), t+"."+f+" ← a constant")
				} else {
					l.Undecide(rule, name, key, p.Pos(st.Pos()), fmt.Sprintf("what %s stores into %s.%s is not read as a load of %s", FnName(h), t, f, src))
				}
			}
		}
	}
	l.Min(rule, n, 3)
}

// ---- E10 identifiers are written the same way where they are defined and where they are referred to (C07/r14) --------
// A TTML document names its styles and regions in the head (xml:id) and refers to them from the body (style=, region=)
// and from other definitions (the parent style).  Whatever is done to an identifier on one side has to be done on the
// other, or the reference names something the head does not define and the document cannot be read back.
// Rule: the stores of WriteToTTML (and its helpers) into the string fields ID, Style and Region of the TTMLOut… structs
// are all loads of an identifier as it is, or all results of the same function.
func ruleTTMLIdentifiersAlike(p *Prog, l *Ledger, tier string) {
	const rule = "E10.A15-ttml-identifiers-alike"
	const name = "Subtitles.WriteToTTML"
	fn := anchor(p, l, rule, name)
	if fn == nil {
		return
	}
	classes := map[string][]string{}
	n := 0
	for _, h := range p.Helpers(fn) {
		if fnPkg(h) != p.LibSSA {
			continue
		}
		for _, b := range h.Blocks {
			for _, ins := range b.Instrs {
				st, ok := ins.(*ssa.Store)
				if !ok || !isStringT(st.Val.Type()) {
					continue
				}
				t, f := fieldOfAddr(st.Addr)
				if !strings.HasPrefix(t, "TTMLOut") || (f != "ID" && f != "Style" && f != "Region") {
					continue
				}
				n++
				cls := "as it is"
				if c, ok := st.Val.(*ssa.Call); ok {
					cls = "through " + calleeShort(&c.Call)
				}
				classes[cls] = append(classes[cls], t+"."+f+" at "+p.Pos(st.Pos()))
			}
		}
	}
	key := rule + "|" + name
	if len(classes) > 1 {
		var parts []string
		for cls, sites := range classes {
			parts = append(parts, fmt.Sprintf("%s: %s", cls, strings.Join(sortedStrings(sites), ", ")))
		}
		l.Fail(rule, name, key, p.Pos(fn.Pos()), "the TTML writer does not write identifiers alike where they are defined and where they are referred to ("+strings.Join(sortedStrings(parts), "; ")+"): a name that is changed on one side only is referred to without being defined, and the document is rejected when read back")
	} else {
		l.Prove(rule, name, key, p.Pos(fn.Pos()), fmt.Sprintf("%d stores of identifiers, all written the same way", n))
	}
	l.Min(rule, n, 5)
}

// ---- E12 a reader stores the value the document gives, whatever the value (C01/r14, C02/r14) --------------------------
// "Returns exactly what it denotes": a colour spelled #FFF, a line setting of -1 are what the document says.  A reader
// that stores an attribute only when a predicate over the value itself holds (a whitelist of spellings, a pattern per
// setting) silently drops every well-formed value the predicate did not think of.  Rule: a store of a value into one
// of the listed model fields is not control-dependent on a call that receives that value (tests of presence – nil,
// empty, number of pieces – are not calls on the value).
func ruleStoreNotGuardedByItsValue(fname string, fields ...string) func(p *Prog, l *Ledger, tier string) {
	return func(p *Prog, l *Ledger, tier string) {
		const rule = "E12.G15-store-not-guarded-by-its-value"
		fn := anchor(p, l, rule, fname)
		if fn == nil {
			return
		}
		want := map[string]bool{}
		for _, f := range fields {
			want[f] = true
		}
		n := 0
		for _, h := range p.Helpers(fn) {
			if fnPkg(h) != p.LibSSA {
				continue
			}
			for _, b := range h.Blocks {
				for _, ins := range b.Instrs {
					st, ok := ins.(*ssa.Store)
					if !ok {
						continue
					}
					t, f := fieldOfAddr(st.Addr)
					if !want[t+"."+f] {
						continue
					}
					if _, isC := st.Val.(*ssa.Const); isC {
						continue // a reset
					}
					n++
					key := l.Key(rule, FnName(h), "store", t+"."+f)
					src := descOf(st.Val)
					var bad *ssa.Call
					var scan func(v ssa.Value, depth int)
					scan = func(v ssa.Value, depth int) {
						if v == nil || depth > 6 || bad != nil {
							return
						}
						switch x := v.(type) {
						case *ssa.Call:
							if _, isB := x.Call.Value.(*ssa.Builtin); isB {
								return
							}
							for _, a := range x.Call.Args {
								if a == st.Val || mentionsValue(a, st.Val, 0) || (src != "" && descOf(a) == src) {
									bad = x
									return
								}
							}
						case *ssa.UnOp:
							scan(x.X, depth+1)
						case *ssa.BinOp:
							scan(x.X, depth+1)
							scan(x.Y, depth+1)
						case *ssa.Phi:
							for _, e := range x.Edges {
								scan(e, depth+1)
							}
						case *ssa.Extract:
							scan(x.Tuple, depth+1)
						}
					}
					for _, dc := range dominatingConds(b) {
						scan(dc.cond, 0)
					}
					// control dependence without dominance: a test on the value one branch of which skips the store
					// (continue to the next setting) while the other goes on to it
					if bad == nil {
						var hdr *ssa.BasicBlock
						size := -1
						for _, li := range loopsOf(h) {
							if li.blocks[b] && (size < 0 || len(li.blocks) < size) {
								hdr, size = li.header, len(li.blocks) // the innermost loop around the store
							}
						}
						reach := func(from *ssa.BasicBlock) bool {
							seen := map[*ssa.BasicBlock]bool{}
							work := []*ssa.BasicBlock{from}
							for len(work) > 0 {
								x := work[len(work)-1]
								work = work[:len(work)-1]
								if x == b {
									return true
								}
								if seen[x] || x == hdr {
									continue
								}
								seen[x] = true
								work = append(work, x.Succs...)
							}
							return false
						}
						for _, cb := range h.Blocks {
							iff, ok := cb.Instrs[len(cb.Instrs)-1].(*ssa.If)
							if !ok || len(cb.Succs) != 2 || cb == b {
								continue
							}
							r0, r1 := reach(cb.Succs[0]), reach(cb.Succs[1])
							if r0 == r1 {
								continue
							}
							scan(iff.Cond, 0)
							if bad != nil {
								break
							}
						}
					}
					if bad != nil {
						l.Fail(rule, FnName(h), key, p.Pos(st.Pos()), fmt.Sprintf("%s stores %s into %s.%s only when %s, called on that very value, lets it through (%s): a well-formed value the test does not know is dropped without a word, and what the reader returns is no longer what the document says", FnName(h), src, t, f, calleeShort(&bad.Call), p.Pos(bad.Pos())))
					} else {
						l.Prove(rule, FnName(h), key, p.Pos(st.Pos()), "stored whatever its value")
					}
				}
			}
		}
		if n == 0 {
			l.Prove(rule, fname, rule+"|none|"+fname, "", "no direct store into "+strings.Join(fields, ", ")+" in "+fname+" and its helpers (the destinations are held in a table): nothing for this rule to decide")
		}
	}
}

// ---- E12 the columns of an SSA section are those its Format line names (C04/r14) -------------------------------------
// "Each attribute taken from the column its Format line assigns": the table column index → name the row readers use is
// filled from the Format line and from nothing else.  Seeding it with the usual columns makes a shorter Format line
// leave the usual tail in place: rows are then read against columns the document never declared.
// Rule: in ReadFromSSAWithOptions every store into a map[int]string holds a value computed from the scanned line, never
// a constant or an entry of a package-level table.
func ruleSSAFormatFromLineOnly(p *Prog, l *Ledger, tier string) {
	const rule = "E12.G16-ssa-format-from-line-only"
	const name = "ReadFromSSAWithOptions"
	fn := anchor(p, l, rule, name)
	if fn == nil {
		return
	}
	n := 0
	for _, h := range p.Helpers(fn) {
		if fnPkg(h) != p.LibSSA || (h != fn && FnName(h) != name) {
			if h != fn {
				continue
			}
		}
		for _, b := range h.Blocks {
			for _, ins := range b.Instrs {
				mu, ok := ins.(*ssa.MapUpdate)
				if !ok {
					continue
				}
				mt, ok := mu.Map.Type().Underlying().(*types.Map)
				if !ok || !isIntegerT(mt.Key()) || !isStringT(mt.Elem()) {
					continue
				}
				n++
				key := l.Key(rule, name, "format-store", "")
				fromTable := ""
				seen := map[ssa.Value]bool{}
				var walk func(v ssa.Value, depth int)
				walk = func(v ssa.Value, depth int) {
					if v == nil || seen[v] || depth > 8 {
						return
					}
					seen[v] = true
					switch x := v.(type) {
					case *ssa.Const:
						if depth == 0 {
							fromTable = "the constant " + x.Value.ExactString()
						}
					case *ssa.Global:
						fromTable = "the package-level " + x.Name()
					case *ssa.UnOp:
						walk(x.X, depth+1)
					case *ssa.IndexAddr:
						walk(x.X, depth+1)
					case *ssa.Phi:
						for _, e := range x.Edges {
							walk(e, depth+1)
						}
					case *ssa.Extract:
						walk(x.Tuple, depth+1)
					case *ssa.Next:
						walk(x.Iter, depth+1)
					case *ssa.Range:
						walk(x.X, depth+1)
					case *ssa.Call:
						for _, a := range x.Call.Args {
							if isStringT(a.Type()) {
								walk(a, depth+1)
							}
						}
					case *ssa.Slice:
						walk(x.X, depth+1)
					}
				}
				walk(mu.Value, 0)
				if fromTable != "" {
					l.Fail(rule, name, key, p.Pos(mu.Pos()), "ReadFromSSAWithOptions puts "+fromTable+" into the table of columns it reads rows with: the columns of a section are those its Format line names, and a line that names fewer (or other) columns than the seeded ones is then read against columns the document never declared")
				} else if filled := prefilledMap(p, mu.Map); filled != "" {
					// (round 16) the table the Format line is written into starts empty
					l.Fail(rule, name, key, p.Pos(mu.Pos()), "ReadFromSSAWithOptions writes the columns of a Format line into a table that "+filled+": a line that names fewer columns than that table holds leaves the rest of it in place, and rows are then refused or read against columns the document never declared")
				} else {
					l.Prove(rule, name, key, p.Pos(mu.Pos()), "the column name comes from the scanned line, and goes into a table made empty")
				}
			}
		}
	}
	l.Min(rule, n, 1)
}

// prefilledMap: some value that reaches m (through phis) is the result of a library function that stores into the
// map it returns: the map is not empty when it arrives.  "" when every reaching value is a fresh make(map…).
// A value that arrives over the false edge of a test of a flag is left out when the flag is shown to be true whenever
// the value is a filled map (the two are carried round the loop together: filled map stored ⇒ flag set in the same
// arm; see filledImpliesFlag).
func prefilledMap(p *Prog, m ssa.Value) string {
	filledBy := func(v ssa.Value) string {
		x, ok := v.(*ssa.Call)
		if !ok {
			return ""
		}
		sc := x.Call.StaticCallee()
		if sc == nil || fnPkg(sc) != p.LibSSA {
			return ""
		}
		for _, b := range sc.Blocks {
			for _, ins := range b.Instrs {
				if mu, ok := ins.(*ssa.MapUpdate); ok {
					for _, rb := range sc.Blocks {
						if r, ok := rb.Instrs[len(rb.Instrs)-1].(*ssa.Return); ok && len(r.Results) > 0 && r.Results[0] == mu.Map {
							return "comes filled from " + FnName(sc) + " (" + p.Pos(x.Pos()) + ")"
						}
					}
				}
			}
		}
		return ""
	}
	seen := map[ssa.Value]bool{}
	var walk func(v ssa.Value) string
	walk = func(v ssa.Value) string {
		if v == nil || seen[v] {
			return ""
		}
		seen[v] = true
		switch x := v.(type) {
		case *ssa.Phi:
			for k, e := range x.Edges {
				pred := x.Block().Preds[k]
				if iff, ok := pred.Instrs[len(pred.Instrs)-1].(*ssa.If); ok && len(pred.Succs) == 2 && pred.Succs[1] == x.Block() && pred.Succs[0] != x.Block() {
					// e arrives only when the tested flag is false
					if ep, ok := e.(*ssa.Phi); ok {
						if fp, ok := iff.Cond.(*ssa.Phi); ok && fp.Block() == ep.Block() && filledImpliesFlag(ep, fp, filledBy) {
							continue
						}
					}
				}
				if w := walk(e); w != "" {
					return w
				}
			}
		case *ssa.Call:
			return filledBy(x)
		}
		return ""
	}
	return walk(m)
}

// filledImpliesFlag: mp (a map carried round a loop) and fp (a bool carried round the same loop, phis of one block)
// are assigned together: on every way into the block, a map that may be filled comes with the flag true.
func filledImpliesFlag(mp, fp *ssa.Phi, filledBy func(ssa.Value) string) bool {
	type pair struct{ m, f ssa.Value }
	seen := map[pair]bool{}
	var mayBeFilled func(v ssa.Value, vis map[ssa.Value]bool) bool
	mayBeFilled = func(v ssa.Value, vis map[ssa.Value]bool) bool {
		if vis[v] {
			return false
		}
		vis[v] = true
		switch x := v.(type) {
		case *ssa.MakeMap:
			return false
		case *ssa.Const:
			return false // nil map
		case *ssa.Phi:
			for _, e := range x.Edges {
				if mayBeFilled(e, vis) {
					return true
				}
			}
			return false
		case *ssa.Call:
			return filledBy(x) != "" || true
		}
		return true
	}
	isTrue := func(v ssa.Value) bool {
		c, ok := v.(*ssa.Const)
		return ok && c.Value != nil && c.Value.String() == "true"
	}
	var ok func(m, f ssa.Value, depth int) bool
	ok = func(m, f ssa.Value, depth int) bool {
		if depth > 12 {
			return false
		}
		if seen[pair{m, f}] {
			return true // the hypothesis being established
		}
		seen[pair{m, f}] = true
		if isTrue(f) {
			return true
		}
		if !mayBeFilled(m, map[ssa.Value]bool{}) {
			return true
		}
		mph, isM := m.(*ssa.Phi)
		fph, isF := f.(*ssa.Phi)
		if isM && isF && mph.Block() == fph.Block() {
			for k := range mph.Edges {
				if !ok(mph.Edges[k], fph.Edges[k], depth+1) {
					return false
				}
			}
			return true
		}
		if isM && !isF {
			// the map is joined here and the flag is not: every arm has to be fine with this flag value
			for _, e := range mph.Edges {
				if !ok(e, f, depth+1) {
					return false
				}
			}
			return true
		}
		return false
	}
	return ok(mp, fp, 0)
}
