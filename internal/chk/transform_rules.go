package chk

import (
	"fmt"
	"go/token"
	"go/types"
	"sort"
	"strings"

	"golang.org/x/tools/go/ssa"
)

// Rules E12 (guards / ordering), E13 (idioms) and E14 (model) for the transformation properties.

// fieldOfAddr: (struct type name, field name) when v is a FieldAddr, else "".
func fieldOfAddr(v ssa.Value) (string, string) {
	if fa, ok := v.(*ssa.FieldAddr); ok {
		t := fa.X.Type().Underlying().(*types.Pointer).Elem()
		return typeStr(t), fieldName(fa.X.Type(), fa.Field)
	}
	return "", ""
}

// loadedField: v is a load of struct field → (type, field, base pointer).
func loadedField(v ssa.Value) (string, string, ssa.Value) {
	if u, ok := v.(*ssa.UnOp); ok && u.Op == token.MUL {
		if fa, ok := u.X.(*ssa.FieldAddr); ok {
			t, f := fieldOfAddr(fa)
			return t, f, fa.X
		}
	}
	if f, ok := v.(*ssa.Field); ok {
		return typeStr(f.X.Type()), fieldName(f.X.Type(), f.Field), f.X
	}
	return "", "", nil
}

// ---- E14-M3: Order is a stable sort with a strict < on StartAt of (i, j) -------------------

func ruleStableOrder(p *Prog, l *Ledger, tier string) {
	stableOrderIn(p, l, "E14.M3-stable-order", "Subtitles.Order", func(v ssa.Value) bool {
		_, f, _ := loadedField(v)
		return f == "Items"
	})
}

// stableOrderIn: function fname permutes the list (what isList accepts, looked at through local
// single-assignment variables) with exactly one stable library sort whose comparator is the strict
// order on StartAt of (i, j).
func stableOrderIn(p *Prog, l *Ledger, rule, fname string, isList func(v ssa.Value) bool) {
	fn := anchor(p, l, rule, fname)
	if fn == nil {
		return
	}
	a := NewNilAnalysis(p)
	var sorts []*ssa.Call
	for _, b := range fn.Blocks {
		for _, ins := range b.Instrs {
			if c, ok := ins.(*ssa.Call); ok {
				if sc := c.Call.StaticCallee(); sc != nil && sc.Pkg != nil && (sc.Pkg.Pkg.Path() == "sort" || sc.Pkg.Pkg.Path() == "slices") {
					if strings.Contains(sc.Name(), "IsSorted") || strings.HasPrefix(sc.Name(), "Search") || strings.HasPrefix(sc.Name(), "Binary") {
						continue // queries do not permute
					}
					sorts = append(sorts, c)
				}
			}
		}
	}
	key := rule + "|" + fname
	if len(sorts) != 1 {
		l.Fail(rule, fname, key, p.Pos(fn.Pos()), fmt.Sprintf("%s must permute the list with exactly one library sort call, found %d", fname, len(sorts)))
		return
	}
	c := sorts[0]
	name := c.Call.StaticCallee().String()
	pos := p.Pos(c.Pos())
	if name == "sort.Slice" {
		// an unstable sort of (cue, position) pairs under a strict total order has one possible outcome
		if handled, ok, why, _ := decoratedStableSort(p, fn, c, isList); handled && ok {
			l.Prove(rule, fname, key, pos, why)
			return
		}
	}
	if name != "sort.SliceStable" && name != "sort.Stable" && name != "slices.SortStableFunc" {
		l.Fail(rule, fname, key, pos, fname+" sorts with "+name+", which is not a stable sort: cues with equal starts may change their relative order")
		return
	}
	if name == "slices.SortStableFunc" {
		l.Undecide(rule, fname, key, pos, "stable sort through "+name+": comparator shape not analysed")
		return
	}
	// sorted value is the receiver's Items
	sorted := stripIface(c.Call.Args[0])
	for {
		if ct, ok := sorted.(*ssa.ChangeType); ok {
			sorted = ct.X
			continue
		}
		break
	}
	sorted = throughLocalCell(sorted)
	if name == "sort.Stable" {
		if handled, ok, why := keyedStableSort(p, fn, c, isList); handled {
			if ok {
				l.Prove(rule, fname, key, pos, why)
			} else {
				l.Fail(rule, fname, key, pos, fname+": "+why)
			}
			return
		}
	}
	if name == "sort.SliceStable" {
		if handled, ok, why, _ := decoratedStableSort(p, fn, c, isList); handled {
			if ok {
				l.Prove(rule, fname, key, pos, why)
			} else {
				l.Fail(rule, fname, key, pos, fname+": "+why)
			}
			return
		}
	}
	if !isList(sorted) {
		l.Fail(rule, fname, key, pos, "the sorted slice is not the receiver's Items field")
		return
	}
	var less *ssa.Function
	off := 0 // index of the first index parameter of less
	isItems := func(v ssa.Value) bool {
		return isList(throughLocalCell(v))
	}
	if name == "sort.Stable" {
		// sort.Interface on a named slice type: Len is len, Swap swaps, Less is analysed below
		mi, ok := c.Call.Args[0].(*ssa.MakeInterface)
		if !ok {
			l.Undecide(rule, fname, key, pos, "sort.Stable on a value whose dynamic type is not visible")
			return
		}
		ms := p.SSA.MethodSets.MethodSet(mi.X.Type())
		get := func(n string) *ssa.Function {
			for i := 0; i < ms.Len(); i++ {
				if ms.At(i).Obj().Name() == n {
					return p.SSA.MethodValue(ms.At(i))
				}
			}
			return nil
		}
		lenF, swapF := get("Len"), get("Swap")
		less = get("Less")
		if lenF == nil || swapF == nil || less == nil || len(less.Params) != 3 {
			l.Undecide(rule, fname, key, pos, "sort.Interface methods of "+mi.X.Type().String()+" not found")
			return
		}
		if _, isSlice := mi.X.Type().Underlying().(*types.Slice); !isSlice {
			l.Undecide(rule, fname, key, pos, "sort.Stable on "+mi.X.Type().String()+", which is not a slice of the items")
			return
		}
		if !isLenOfRecv(lenF) {
			l.Fail(rule, fname, key, p.Pos(lenF.Pos()), "Len of the sorted type is not the length of the list: some cues are left out of the ordering")
			return
		}
		if !isSwapOfRecv(swapF) {
			l.Fail(rule, fname, key, p.Pos(swapF.Pos()), "Swap of the sorted type does not exchange elements i and j")
			return
		}
		off = 1
		recvP := less.Params[0]
		isItems = func(v ssa.Value) bool { return v == ssa.Value(recvP) }
	} else {
		mc, ok := c.Call.Args[1].(*ssa.MakeClosure)
		if !ok {
			l.Undecide(rule, fname, key, pos, "comparator is not a function literal")
			return
		}
		less = mc.Fn.(*ssa.Function)
	}
	var rets []*ssa.Return
	for _, b := range less.Blocks {
		if r, ok := b.Instrs[len(b.Instrs)-1].(*ssa.Return); ok {
			rets = append(rets, r)
		}
	}
	if len(rets) > 1 {
		// returns of false reached only when an index lies outside the list: the sort never passes such an index
		var live []*ssa.Return
		for _, r := range rets {
			if !indexGuardReturn(less, r, off, isItems) {
				live = append(live, r)
			}
		}
		rets = live
	}
	if len(rets) != 1 {
		l.Undecide(rule, fname, key, pos, "comparator has more than one return")
		return
	}
	bo, ok := rets[0].Results[0].(*ssa.BinOp)
	if !ok {
		l.Fail(rule, fname, key, pos, "comparator does not return a comparison")
		return
	}
	// operand: load StartAt of element (Items[param k])
	elemOf := func(v ssa.Value) (field string, param int, itemsOK bool) {
		_, f, base := loadedField(v)
		if base == nil {
			return "", -1, false
		}
		u, ok := base.(*ssa.UnOp)
		if !ok {
			return f, -1, false
		}
		ia, ok := u.X.(*ssa.IndexAddr)
		if !ok {
			return f, -1, false
		}
		for k, par := range less.Params {
			if k >= off && ia.Index == ssa.Value(par) {
				return f, k - off, isItems(ia.X)
			}
		}
		return f, -1, isItems(ia.X)
	}
	fx, px, okx := elemOf(bo.X)
	fy, py, oky := elemOf(bo.Y)
	_ = a
	switch {
	case !okx || !oky || px < 0 || py < 0:
		l.Fail(rule, fname, key, pos, "comparator does not compare fields of Items[i] and Items[j]")
	case fx != "StartAt" || fy != "StartAt":
		l.Fail(rule, fname, key, pos, fmt.Sprintf("comparator compares %s with %s instead of StartAt with StartAt", fx, fy))
	case (bo.Op == token.LSS && px == 0 && py == 1) || (bo.Op == token.GTR && px == 1 && py == 0):
		l.Prove(rule, fname, key, pos, name+" over s.Items with less = Items[i].StartAt < Items[j].StartAt: stable, strict, on StartAt of (i, j)")
	case bo.Op == token.LEQ || bo.Op == token.GEQ:
		l.Fail(rule, fname, key, pos, "comparator uses a non-strict comparison: with sort.SliceStable equal starts are reordered (less must be a strict order)")
	default:
		l.Fail(rule, fname, key, pos, fmt.Sprintf("comparator is Items[#%d].StartAt %s Items[#%d].StartAt: not an ascending strict order on (i, j)", px, bo.Op, py))
	}
}

// ---- E14-M4 + E12-G7: Merge appends receiver first, orders, adds definitions only when absent ----

func ruleMergeShape(p *Prog, l *Ledger, tier string) {
	const rule = "E14.M4-merge"
	fn := anchor(p, l, rule, "Subtitles.Merge")
	if fn == nil {
		return
	}
	a := NewNilAnalysis(p)
	recv, arg := fn.Params[0], fn.Params[1]
	var rootedAt func(v ssa.Value, par *ssa.Parameter) bool
	// a value inside a helper Merge calls from one place: a parameter stands for what that call passes
	actualOf := func(v ssa.Value) ssa.Value {
		par, ok := v.(*ssa.Parameter)
		if !ok || par.Parent() == fn {
			return v
		}
		h := par.Parent()
		var site *ssa.Call
		for _, b := range fn.Blocks {
			for _, ins := range b.Instrs {
				if c, ok := ins.(*ssa.Call); ok && c.Call.StaticCallee() == h {
					if site != nil {
						return v
					}
					site = c
				}
			}
		}
		if site == nil {
			return v
		}
		for k, q := range h.Params {
			if q == par && k < len(site.Call.Args) {
				return site.Call.Args[k]
			}
		}
		return v
	}
	rootedAt = func(v ssa.Value, par *ssa.Parameter) bool {
		v = actualOf(v)
		_, f, base := loadedField(v)
		if f != "Items" || base == nil {
			return false
		}
		return actualOf(base) == ssa.Value(par)
	}
	// (1) the append
	nApp := 0
	var appendStore *ssa.Store
	for _, b := range p.helperBlocks(fn) {
		if b.Parent() != fn && FnName(b.Parent()) == "Subtitles.Order" {
			continue
		}
		for _, ins := range b.Instrs {
			st, ok := ins.(*ssa.Store)
			if !ok {
				continue
			}
			if _, f := fieldOfAddr(st.Addr); f != "Items" {
				continue
			}
			if fa, ok := st.Addr.(*ssa.FieldAddr); ok && actualOf(fa.X) != ssa.Value(recv) {
				continue // the Items of another object
			}
			nApp++
			key := l.Key(rule, "Subtitles.Merge", "items-store", "")
			c, ok := throughLocalCell(st.Val).(*ssa.Call)
			if !ok {
				l.Fail(rule, "Subtitles.Merge", key, p.Pos(st.Pos()), "Merge assigns Items something that is not an append")
				continue
			}
			if bi, ok := c.Call.Value.(*ssa.Builtin); !ok || bi.Name() != "append" {
				l.Fail(rule, "Subtitles.Merge", key, p.Pos(st.Pos()), "Merge assigns Items something that is not an append")
				continue
			}
			if rootedAt(c.Call.Args[0], recv) && rootedAt(c.Call.Args[1], arg) {
				appendStore = st
				l.Prove(rule, "Subtitles.Merge", key, p.Pos(st.Pos()), "s.Items = append(s.Items, i.Items...): receiver's cues first, then the argument's")
			} else {
				l.Fail(rule, "Subtitles.Merge", key, p.Pos(st.Pos()), "the merged list is not append(receiver.Items, argument.Items...): on equal starts the receiver's cues no longer come first, or cues are lost")
			}
		}
	}
	if nApp == 0 {
		l.Fail(rule, "Subtitles.Merge", rule+"|no-append", p.Pos(fn.Pos()), "Merge never stores the merged list into Items")
	}
	// (2) Order() after the append
	ordered := false
	var skipped *ssa.Call
	for _, b := range p.helperBlocks(fn) {
		if b.Parent() != fn && FnName(b.Parent()) == "Subtitles.Order" {
			continue
		}
		for _, ins := range b.Instrs {
			if c, ok := ins.(*ssa.Call); ok {
				if sc := c.Call.StaticCallee(); sc != nil && FnName(sc) == "Subtitles.Order" && len(c.Call.Args) > 0 && actualOf(c.Call.Args[0]) == ssa.Value(recv) {
					appendSite := ssa.Instruction(appendStore)
					var orderSite ssa.Instruction = c
					if appendStore != nil && appendStore.Parent() != c.Parent() {
						// seen from Merge: the call of the helper that appends, the call of the helper that orders
						appendSite = p.siteIn(fn, appendStore)
						orderSite = p.siteIn(fn, c)
					}
					if appendStore != nil && appendSite != nil && orderSite != nil && instrDominates(appendSite, orderSite) {
						if returnsWithout(appendSite.Block(), orderSite.Block()) {
							skipped = c
						} else {
							ordered = true
						}
					}
				}
			}
		}
	}
	// Order inlined: a stable sort of the merged list in Merge itself, after the append
	inlineSort := false
	if !ordered && appendStore != nil {
		merged := throughLocalCell(appendStore.Val)
		for _, b := range fn.Blocks {
			for _, ins := range b.Instrs {
				c, ok := ins.(*ssa.Call)
				if !ok {
					continue
				}
				if sc := c.Call.StaticCallee(); sc != nil && sc.Pkg != nil && sc.Pkg.Pkg.Path() == "sort" && (sc.Name() == "SliceStable" || sc.Name() == "Stable") {
					if instrDominates(appendStore, c) || appendStore.Block().Dominates(c.Block()) {
						inlineSort = true
					}
				}
			}
		}
		if inlineSort {
			before := len(l.Obs)
			stableOrderIn(p, l, rule, "Subtitles.Merge", func(v ssa.Value) bool {
				if v == merged {
					return true
				}
				_, f, base := loadedField(v)
				return f == "Items" && base == ssa.Value(recv)
			})
			for _, o := range l.Obs[before:] {
				if o.Status == Violation || o.Status == Undecided {
					inlineSort = false
				}
			}
			if inlineSort {
				ordered = true
			}
		}
	}
	if ordered && inlineSort {
		l.Prove(rule, "Subtitles.Merge", rule+"|order-after-append", "", "the merged list is sorted in Merge itself by a stable sort with the strict order on StartAt, after the append")
	} else if ordered {
		l.Prove(rule, "Subtitles.Merge", rule+"|order-after-append", "", "Order() is called on the receiver after the append on every path")
	} else if skipped != nil {
		l.Fail(rule, "Subtitles.Merge", rule+"|order-after-append", p.Pos(skipped.Pos()), "Merge orders the receiver after appending only on some paths: when the call at "+p.Pos(skipped.Pos())+" is skipped the merged list is left as appended, which is ordered only if both lists already were and the argument starts after the receiver ends")
	} else {
		l.Fail(rule, "Subtitles.Merge", rule+"|order-after-append", p.Pos(fn.Pos()), "Merge does not order the receiver after appending")
	}
	// (2b) (round 18) no way out of Merge before the lists have been put together: a return that the append does not
	// dominate ("nothing to merge" when the argument has no cues) also skips the union of the definitions and the
	// ordering of the receiver
	for _, b := range fn.Blocks {
		r, ok := b.Instrs[len(b.Instrs)-1].(*ssa.Return)
		if !ok {
			continue
		}
		dominated := false
		for _, b2 := range fn.Blocks {
			for _, ins := range b2.Instrs {
				switch x := ins.(type) {
				case *ssa.Call:
					// the append itself, or a call of a helper of the library that receives the argument
					if bi, isB := x.Call.Value.(*ssa.Builtin); isB && bi.Name() == "append" && instrDominates(x, r) {
						dominated = true
					}
					if sc := x.Call.StaticCallee(); sc != nil && fnPkg(sc) == p.LibSSA && instrDominates(x, r) {
						for _, a := range x.Call.Args {
							if a == ssa.Value(arg) {
								dominated = true
							}
							// … or something loaded from the argument (its cues, its maps)
							if _, _, base := loadedField(a); base == ssa.Value(arg) {
								dominated = true
							}
						}
					}
				}
			}
		}
		if !dominated {
			l.Fail(rule, "Subtitles.Merge", rule+"|early-return", p.Pos(r.Pos()), "Merge can return at "+p.Pos(r.Pos())+" before anything of the argument has been taken (no append, no helper receiving the argument dominates this return): on that path the regions and styles of the argument are not added and the receiver is not ordered, whatever the test that leads there looks at")
		}
	}
	// (3) G7: definitions are added only when absent (receiver wins)
	nMU := 0
	for _, b := range p.helperBlocks(fn) {
		for _, ins := range b.Instrs {
			mu, ok := ins.(*ssa.MapUpdate)
			if !ok {
				continue
			}
			_, f, base := loadedField(mu.Map)
			if base == nil || (f != "Regions" && f != "Styles") {
				if ph, ok := mu.Map.(*ssa.Phi); ok { // s.Regions after the nil check: phi(load, make)
					for _, e := range ph.Edges {
						if _, f2, b2 := loadedField(e); b2 != nil {
							f, base = f2, b2
						}
					}
				}
			}
			// the store made by a helper into the map it receives: add(dst, src) called as s.F = add(s.F, i.F)
			var viaParam *ssa.Parameter
			if f != "Regions" && f != "Styles" {
				if par, made := mapOrigin(mu.Map); par != nil && mu.Parent() != fn {
					if site, ok := p.siteIn(fn, mu).(*ssa.Call); ok && site.Call.StaticCallee() == mu.Parent() {
						for k, q := range mu.Parent().Params {
							if q == par && k < len(site.Call.Args) {
								if _, f2, b2 := loadedField(site.Call.Args[k]); b2 != nil && (f2 == "Regions" || f2 == "Styles") {
									f, base, viaParam = f2, b2, par
									if made && !storedIntoField(site, base, f2) {
										nMU++
										l.Fail(rule, "Subtitles.Merge", l.Key(rule, "Subtitles.Merge", "add-if-absent", f), p.Pos(site.Pos()), FnName(mu.Parent())+" may allocate the map it fills, and Merge does not store what it returns into the receiver's "+f2+": definitions added to a receiver without a map are lost")
										f = ""
									}
								}
							}
						}
					}
				}
			}
			if f != "Regions" && f != "Styles" {
				continue
			}
			nMU++
			key := l.Key(rule, "Subtitles.Merge", "add-if-absent", f)
			if p.rootValue(fn, base) != ssa.Value(recv) {
				l.Fail(rule, "Subtitles.Merge", key, p.Pos(mu.Pos()), "definition stored into the "+f+" of something that is not Merge's receiver")
				continue
			}
			// dominated by the false edge of a comma-ok lookup of the same map with the same key
			ok2 := false
			for x := b; x != nil; x = x.Idom() {
				d := x.Idom()
				if d == nil || len(x.Preds) != 1 || x.Preds[0] != d {
					continue
				}
				iff, isIf := d.Instrs[len(d.Instrs)-1].(*ssa.If)
				if !isIf || d.Succs[1] != x {
					continue
				}
				ex, isEx := iff.Cond.(*ssa.Extract)
				if !isEx || ex.Index != 1 {
					continue
				}
				lk, isLk := ex.Tuple.(*ssa.Lookup)
				if !isLk || !lk.CommaOk {
					continue
				}
				_, lf, lbase := loadedField(lk.X)
				if lf == f && lbase == base && a.key(lk.Index) == a.key(mu.Key) {
					ok2 = true
				}
				if viaParam != nil {
					if lp, _ := mapOrigin(lk.X); lp == viaParam && a.key(lk.Index) == a.key(mu.Key) {
						ok2 = true
					}
				}
			}
			if ok2 {
				l.Prove(rule, "Subtitles.Merge", key, p.Pos(mu.Pos()), "stored only on the not-found edge of a lookup of the same map under the same key")
			} else {
				l.Fail(rule, "Subtitles.Merge", key, p.Pos(mu.Pos()), "definition stored into "+f+" without first finding the identifier absent: the argument's definition can overwrite the receiver's")
			}
		}
	}
	l.Min(rule+".add-if-absent", nMU, 2)
}

// ---- E14-M1: the marking phase of Optimize reads every reference edge of the model --------

func modelStruct(p *Prog, name string) *types.Struct {
	obj := p.Lib.Types.Scope().Lookup(name)
	if obj == nil {
		return nil
	}
	st, _ := obj.Type().Underlying().(*types.Struct)
	return st
}

func isPtrToNamed(t types.Type, names ...string) bool {
	pt, ok := t.(*types.Pointer)
	if !ok {
		return false
	}
	nt, ok := pt.Elem().(*types.Named)
	if !ok {
		return false
	}
	for _, n := range names {
		if nt.Obj().Name() == n && nt.Obj().Pkg() != nil && nt.Obj().Pkg().Path() == LibPath {
			return true
		}
	}
	return false
}

// fieldsRead: "T.f" of every struct field read in the closure of fn.
func fieldsRead(p *Prog, fns []*ssa.Function) strset {
	out := strset{}
	for _, fn := range p.Closure(fns) {
		for _, b := range fn.Blocks {
			for _, ins := range b.Instrs {
				switch x := ins.(type) {
				case *ssa.UnOp:
					if t, f, _ := loadedField(x); f != "" {
						out.add(t + "." + f)
					}
				case *ssa.Field:
					out.add(typeStr(x.X.Type()) + "." + fieldName(x.X.Type(), x.Field))
				}
			}
		}
	}
	return out
}

func ruleOptimizeEdges(p *Prog, l *Ledger, tier string) {
	const rule = "E14.M1-reference-edges"
	fn := anchor(p, l, rule, "Subtitles.Optimize")
	if fn == nil {
		return
	}
	read := fieldsRead(p, []*ssa.Function{fn})
	n := 0
	for _, tn := range []string{"Item", "Line", "LineItem", "Region", "Style"} {
		st := modelStruct(p, tn)
		if st == nil {
			l.Undecide(rule, "", rule+"|"+tn, "", "model type "+tn+" not found")
			continue
		}
		for i := 0; i < st.NumFields(); i++ {
			f := st.Field(i)
			if !isPtrToNamed(f.Type(), "Style", "Region") {
				continue
			}
			n++
			edge := tn + "." + f.Name()
			key := rule + "|" + edge
			if read[edge] {
				l.Prove(rule, "Subtitles.Optimize", key, "", "the marking code reads reference edge "+edge)
			} else {
				l.Fail(rule, "Subtitles.Optimize", key, p.Pos(fn.Pos()), "reference edge "+edge+" is never read by the code reachable from Optimize: a definition reachable only through it is deleted although a cue still needs it")
			}
		}
	}
	l.Min(rule, n, 5)
}

// ---- E14-M2: RemoveStyling clears every styling field --------------------------------------

func ruleRemoveStylingComplete(p *Prog, l *Ledger, tier string) {
	const rule = "E14.M2-styling-complete"
	fn := anchor(p, l, rule, "Subtitles.RemoveStyling")
	if fn == nil {
		return
	}
	// stores in RemoveStyling: field → stored values
	stored := map[string][]ssa.Value{}
	for _, f := range p.Closure([]*ssa.Function{fn}) {
		for _, b := range f.Blocks {
			for _, ins := range b.Instrs {
				if st, ok := ins.(*ssa.Store); ok {
					if t, fld := fieldOfAddr(st.Addr); fld != "" {
						stored[t+"."+fld] = append(stored[t+"."+fld], st.Val)
					}
				}
			}
		}
	}
	isStylingType := func(t types.Type) bool {
		if isPtrToNamed(t, "Style", "Region", "StyleAttributes") {
			return true
		}
		if m, ok := t.Underlying().(*types.Map); ok {
			return isPtrToNamed(m.Elem(), "Style", "Region", "StyleAttributes")
		}
		return false
	}
	n := 0
	for _, tn := range []string{"Subtitles", "Item", "Line", "LineItem"} {
		st := modelStruct(p, tn)
		if st == nil {
			continue
		}
		for i := 0; i < st.NumFields(); i++ {
			f := st.Field(i)
			if !isStylingType(f.Type()) {
				continue
			}
			n++
			name := tn + "." + f.Name()
			key := rule + "|" + name
			vals := stored[name]
			if len(vals) == 0 {
				l.Fail(rule, "Subtitles.RemoveStyling", key, p.Pos(fn.Pos()), "styling field "+name+" is never cleared by RemoveStyling")
				continue
			}
			bad := ""
			for _, v := range vals {
				switch x := v.(type) {
				case *ssa.Const:
					if x.Value != nil {
						bad = "a non-nil constant"
					}
				case *ssa.MakeMap:
					for _, ref := range *x.Referrers() {
						if _, ok := ref.(*ssa.MapUpdate); ok {
							bad = "a map that is then filled"
						}
					}
				default:
					bad = "a value that is neither nil nor a fresh empty map"
				}
			}
			if bad != "" {
				l.Fail(rule, "Subtitles.RemoveStyling", key, p.Pos(fn.Pos()), "styling field "+name+" is assigned "+bad)
			} else {
				l.Prove(rule, "Subtitles.RemoveStyling", key, "", name+" is set to nil / an empty map")
			}
		}
	}
	l.Min(rule, n, 7)
}

func sortedStrs(m map[string]bool) []string {
	var out []string
	for k := range m {
		out = append(out, k)
	}
	sort.Strings(out)
	return out
}

var _ = strings.Join

// isLenOfRecv: f is `func (x T) Len() int { return len(x) }`.
func isLenOfRecv(f *ssa.Function) bool {
	if len(f.Blocks) != 1 || len(f.Params) != 1 {
		return false
	}
	r, ok := f.Blocks[0].Instrs[len(f.Blocks[0].Instrs)-1].(*ssa.Return)
	if !ok || len(r.Results) != 1 {
		return false
	}
	c, ok := r.Results[0].(*ssa.Call)
	if !ok {
		return false
	}
	bi, ok := c.Call.Value.(*ssa.Builtin)
	return ok && bi.Name() == "len" && c.Call.Args[0] == ssa.Value(f.Params[0])
}

// isSwapOfRecv: f is `func (x T) Swap(i, j int) { x[i], x[j] = x[j], x[i] }`: exactly two stores,
// x[i] receives the old x[j] and x[j] the old x[i], both loaded before either store.
func isSwapOfRecv(f *ssa.Function) bool {
	if len(f.Blocks) != 1 || len(f.Params) != 3 {
		return false
	}
	recv, pi, pj := ssa.Value(f.Params[0]), ssa.Value(f.Params[1]), ssa.Value(f.Params[2])
	which := func(addr ssa.Value) int {
		ia, ok := addr.(*ssa.IndexAddr)
		if !ok || ia.X != recv {
			return -1
		}
		switch ia.Index {
		case pi:
			return 0
		case pj:
			return 1
		}
		return -1
	}
	var stores []*ssa.Store
	firstStore := -1
	idx := map[ssa.Instruction]int{}
	for k, ins := range f.Blocks[0].Instrs {
		idx[ins] = k
		if st, ok := ins.(*ssa.Store); ok {
			stores = append(stores, st)
			if firstStore < 0 {
				firstStore = k
			}
		}
	}
	if len(stores) != 2 {
		return false
	}
	seen := [2]bool{}
	for _, st := range stores {
		dst := which(st.Addr)
		ld, ok := st.Val.(*ssa.UnOp)
		if dst < 0 || !ok || ld.Op != token.MUL || idx[ld] > firstStore {
			return false
		}
		if src := which(ld.X); src < 0 || src == dst {
			return false
		}
		seen[dst] = true
	}
	return seen[0] && seen[1]
}

// throughLocalCell: v loads a local variable that is assigned exactly once (directly, or as a
// captured variable inside a closure): the value assigned; otherwise v itself.
func throughLocalCell(v ssa.Value) ssa.Value {
	u, ok := v.(*ssa.UnOp)
	if !ok || u.Op != token.MUL {
		return v
	}
	var cell *ssa.Alloc
	switch x := u.X.(type) {
	case *ssa.Alloc:
		cell = x
	case *ssa.FreeVar:
		fn := x.Parent()
		if fn == nil || fn.Parent() == nil {
			return v
		}
		idx := -1
		for i, fv := range fn.FreeVars {
			if fv == x {
				idx = i
			}
		}
		for _, b := range fn.Parent().Blocks {
			for _, ins := range b.Instrs {
				if mc, ok := ins.(*ssa.MakeClosure); ok && mc.Fn == ssa.Value(fn) && idx >= 0 && idx < len(mc.Bindings) {
					cell, _ = mc.Bindings[idx].(*ssa.Alloc)
				}
			}
		}
	}
	if cell == nil {
		return v
	}
	var stored ssa.Value
	n := 0
	count := func(name ssa.Value) {
		for _, r := range *name.Referrers() {
			if st, ok := r.(*ssa.Store); ok && st.Addr == name {
				stored = st.Val
				n++
			}
		}
	}
	count(cell)
	for _, r := range *cell.Referrers() {
		if mc, ok := r.(*ssa.MakeClosure); ok {
			cf := mc.Fn.(*ssa.Function)
			for i, bnd := range mc.Bindings {
				if bnd == ssa.Value(cell) {
					count(cf.FreeVars[i])
				}
			}
		}
	}
	if n == 1 && stored != nil {
		return stored
	}
	return v
}

// returnsWithout: from block from, a return can be reached without passing through block b.
func returnsWithout(from, b *ssa.BasicBlock) bool {
	if from == b {
		return false
	}
	seen := map[*ssa.BasicBlock]bool{b: true, from: true}
	work := []*ssa.BasicBlock{from}
	for len(work) > 0 {
		x := work[len(work)-1]
		work = work[:len(work)-1]
		if _, ok := x.Instrs[len(x.Instrs)-1].(*ssa.Return); ok {
			return true
		}
		for _, sc := range x.Succs {
			if !seen[sc] {
				seen[sc] = true
				work = append(work, sc)
			}
		}
	}
	return false
}

// mapOrigin: the map value v is a parameter of its function, possibly replaced on the way by a map made on the spot
// (dst := param; if dst == nil { dst = make(…) }; carried round a loop): returns that parameter and whether a fresh map
// may stand in for it.  nil when the value has any other origin.
func mapOrigin(v ssa.Value) (*ssa.Parameter, bool) {
	var par *ssa.Parameter
	made, bad := false, false
	seen := map[ssa.Value]bool{}
	var walk func(x ssa.Value)
	walk = func(x ssa.Value) {
		if seen[x] {
			return
		}
		seen[x] = true
		switch y := x.(type) {
		case *ssa.Phi:
			for _, e := range y.Edges {
				walk(e)
			}
		case *ssa.MakeMap:
			made = true
		case *ssa.Parameter:
			if par != nil && par != y {
				bad = true
			}
			par = y
		default:
			bad = true
		}
	}
	walk(v)
	if bad {
		return nil, false
	}
	return par, made
}

// storedIntoField: the result of the call is stored into field f of the object base points to.
func storedIntoField(call *ssa.Call, base ssa.Value, f string) bool {
	for _, r := range *call.Referrers() {
		st, ok := r.(*ssa.Store)
		if !ok || st.Val != ssa.Value(call) {
			continue
		}
		if fa, ok := st.Addr.(*ssa.FieldAddr); ok && fa.X == base && fieldName(fa.X.Type(), fa.Field) == f {
			return true
		}
	}
	return false
}

// indexGuardReturn: r returns the constant false and is reached only from the true edge of tests "index < 0" or
// "index >= len(list)" on the index parameters of the comparator (a defensive guard the contract of the sort
// functions makes unreachable: they pass 0 <= i, j < Len()).
func indexGuardReturn(less *ssa.Function, r *ssa.Return, off int, isItems func(ssa.Value) bool) bool {
	if len(r.Results) != 1 {
		return false
	}
	c, ok := r.Results[0].(*ssa.Const)
	if !ok || c.Value == nil || c.Value.String() != "false" {
		return false
	}
	b := r.Block()
	if len(b.Instrs) != 1 || len(b.Preds) == 0 {
		return false
	}
	isIdx := func(v ssa.Value) bool {
		for k, par := range less.Params {
			if k >= off && v == ssa.Value(par) {
				return true
			}
		}
		return false
	}
	isLen := func(v ssa.Value) bool {
		call, ok := v.(*ssa.Call)
		if !ok {
			return false
		}
		bi, ok := call.Call.Value.(*ssa.Builtin)
		return ok && bi.Name() == "len" && isItems(call.Call.Args[0])
	}
	for _, pb := range b.Preds {
		iff, ok := pb.Instrs[len(pb.Instrs)-1].(*ssa.If)
		if !ok || pb.Succs[0] != b || pb.Succs[1] == b {
			return false
		}
		bo, ok := iff.Cond.(*ssa.BinOp)
		if !ok {
			return false
		}
		switch {
		case bo.Op == token.LSS && isIdx(bo.X) && isZeroConst(bo.Y):
		case bo.Op == token.GTR && isZeroConst(bo.X) && isIdx(bo.Y):
		case bo.Op == token.GEQ && isIdx(bo.X) && isLen(bo.Y):
		case bo.Op == token.LEQ && isLen(bo.X) && isIdx(bo.Y):
		default:
			return false
		}
	}
	return true
}
