package chk

import (
	"fmt"
	"go/constant"
	"go/token"
	"go/types"
	"strings"

	"golang.org/x/tools/go/ssa"
)

// analyzeFn runs the must-dataflow for fn; returns true when a summary changed.
func (a *NilAnalysis) analyzeFn(fn *ssa.Function) bool {
	if len(fn.Blocks) == 0 {
		return false
	}
	// reverse post-order
	order := rpo(fn)
	a.in[fn.Blocks[0]] = nilFacts{}
	for _, b := range fn.Blocks[1:] {
		delete(a.in, b)
		delete(a.out, b)
	}
	delete(a.out, fn.Blocks[0])
	for iter := 0; iter < 40; iter++ {
		changed := false
		for _, b := range order {
			var in nilFacts
			if b == fn.Blocks[0] {
				in = nilFacts{}
				for k, par := range fn.Params {
					for suffix := range a.sum[fn].paramFields[k] {
						in["p:"+par.Name()+suffix] = true
					}
				}
			} else {
				first := true
				perPred := make([]nilFacts, len(b.Preds))
				for i, p := range b.Preds {
					po, ok := a.out[p]
					if !ok {
						continue // not yet computed: optimistic (top)
					}
					f := po.clone()
					for si, s := range p.Succs {
						if s == b {
							// with two edges to the same block nothing can be learnt
							if len(p.Succs) == 2 && p.Succs[0] == p.Succs[1] {
								break
							}
							a.edgeFacts(fn, p, si, f)
							break
						}
					}
					perPred[i] = f
					if first {
						in = f.clone()
						first = false
					} else {
						in = intersect(in, f)
					}
				}
				if in == nil {
					continue
				}
				// phis
				for _, ins := range b.Instrs {
					ph, ok := ins.(*ssa.Phi)
					if !ok {
						break
					}
					if !isNilable(ph.Type()) {
						continue
					}
					all := true
					for i, e := range ph.Edges {
						if perPred[i] == nil {
							continue
						}
						if !a.nonNil(fn, e, perPred[i]) {
							all = false
							break
						}
					}
					if all {
						in["v:"+ph.Name()] = true
					}
				}
			}
			old, had := a.in[b]
			if !had || !sameFacts(old, in) {
				a.in[b] = in
				changed = true
			}
			f := in.clone()
			for _, ins := range b.Instrs {
				a.at[ins] = f.clone()
				a.transfer(fn, ins, f)
			}
			oldOut, hadOut := a.out[b]
			if !hadOut || !sameFacts(oldOut, f) {
				a.out[b] = f
				changed = true
			}
		}
		if !changed {
			break
		}
	}
	// summaries from returns
	s := a.sum[fn]
	changed := false
	ei := errResultIndex(fn.Signature)
	for _, b := range fn.Blocks {
		r, ok := b.Instrs[len(b.Instrs)-1].(*ssa.Return)
		if !ok {
			continue
		}
		f := a.at[r]
		errMayBeNil := true
		if ei >= 0 && ei < len(r.Results) {
			ev := retErrOperand(fn, r)
			known := knownNonNilAt(b)
			if ev != nil && nonNilError(ev, known, 0) {
				errMayBeNil = false
			}
		}
		okMayBeTrue := true
		if oi := okResultIndex(fn.Signature); oi >= 0 && oi < len(r.Results) {
			okMayBeTrue = !knownFalseAt(r.Results[oi], b)
		}
		for i, res := range r.Results {
			if i == ei {
				continue
			}
			// field facts below the returned value
			base := a.key(res)
			cur := strset{}
			for k := range f {
				if strings.HasPrefix(k, base+".") {
					cur.add(k[len(base):])
				}
			}
			if s.retFields[i] == nil {
				s.retFields[i] = cur
				if len(cur) > 0 {
					changed = true
				}
			} else {
				for k := range s.retFields[i] {
					if !cur[k] {
						delete(s.retFields[i], k)
						changed = true
					}
				}
			}
			if !isNilable(res.Type()) {
				continue
			}
			nn := a.nonNil(fn, res, f)
			if !nn && s.retNonNil[i] {
				s.retNonNil[i] = false
				changed = true
			}
			if !nn && errMayBeNil && s.retNonNilNoErr[i] {
				s.retNonNilNoErr[i] = false
				changed = true
			}
			if !nn && okMayBeTrue && s.retNonNilOk[i] {
				s.retNonNilOk[i] = false
				changed = true
			}
		}
	}
	return changed
}

func sameFacts(a, b nilFacts) bool {
	if len(a) != len(b) {
		return false
	}
	for k := range a {
		if !b[k] {
			return false
		}
	}
	return true
}

func rpo(fn *ssa.Function) []*ssa.BasicBlock {
	seen := map[*ssa.BasicBlock]bool{}
	var post []*ssa.BasicBlock
	var dfs func(b *ssa.BasicBlock)
	dfs = func(b *ssa.BasicBlock) {
		seen[b] = true
		for _, s := range b.Succs {
			if !seen[s] {
				dfs(s)
			}
		}
		post = append(post, b)
	}
	dfs(fn.Blocks[0])
	for i, j := 0, len(post)-1; i < j; i, j = i+1, j-1 {
		post[i], post[j] = post[j], post[i]
	}
	return post
}

// updateParams joins parameter nilness over all in-package call sites.
func (a *NilAnalysis) updateParams(fns []*ssa.Function) bool {
	type agg struct {
		sites  int
		nn     []bool
		fields []strset
	}
	acc := map[*ssa.Function]*agg{}
	for _, fn := range fns {
		for _, b := range fn.Blocks {
			for _, ins := range b.Instrs {
				site, ok := ins.(ssa.CallInstruction)
				if !ok {
					continue
				}
				c := site.Common()
				in, _ := a.p.Callees(fn, site)
				var actuals []ssa.Value
				if c.IsInvoke() {
					actuals = append([]ssa.Value{c.Value}, c.Args...)
				} else {
					actuals = c.Args
				}
				for _, callee := range in {
					ag := acc[callee]
					if ag == nil {
						ag = &agg{nn: make([]bool, len(callee.Params)), fields: make([]strset, len(callee.Params))}
						for i := range ag.nn {
							ag.nn[i] = true
						}
						acc[callee] = ag
					}
					ag.sites++
					for k := range callee.Params {
						if k < len(actuals) {
							base := a.key(actuals[k])
							cur := strset{}
							for fk := range a.at[ins] {
								if strings.HasPrefix(fk, base+".") {
									cur.add(fk[len(base):])
								}
							}
							if ag.fields[k] == nil {
								ag.fields[k] = cur
							} else {
								for fk := range ag.fields[k] {
									if !cur[fk] {
										delete(ag.fields[k], fk)
									}
								}
							}
						}
						if k >= len(actuals) || !isNilable(callee.Params[k].Type()) {
							continue
						}
						if !a.nonNil(fn, actuals[k], a.at[ins]) {
							ag.nn[k] = false
						}
					}
				}
			}
		}
	}
	changed := false
	for _, fn := range fns {
		s := a.sum[fn]
		ag := acc[fn]
		for k := range s.paramNonNil {
			if ag != nil && !isExportedEntry(fn) {
				nf := ag.fields[k]
				if !sameFacts(nilFacts(nf), nilFacts(s.paramFields[k])) {
					s.paramFields[k] = nf
					changed = true
				}
			}
			v := true
			if ag != nil {
				v = ag.nn[k]
			}
			if s.paramNonNil[k] && !v && !a.freezeNN {
				s.paramNonNil[k] = false
				changed = true
			}
		}
	}
	return changed
}

// derefSite describes one obligation of rule E1.
type derefSite struct {
	ins  ssa.Instruction
	op   ssa.Value
	kind string
}

func derefSites(fn *ssa.Function, p *Prog) []derefSite {
	var out []derefSite
	addrLike := func(v ssa.Value) bool {
		switch v.(type) {
		case *ssa.FieldAddr, *ssa.IndexAddr, *ssa.Alloc, *ssa.Global, *ssa.FreeVar:
			return true
		}
		return false
	}
	for _, b := range fn.Blocks {
		for _, ins := range b.Instrs {
			switch x := ins.(type) {
			case *ssa.FieldAddr:
				if !addrLike(x.X) {
					out = append(out, derefSite{ins, x.X, "field"})
				}
			case *ssa.IndexAddr:
				if _, isPtr := x.X.Type().Underlying().(*types.Pointer); isPtr && !addrLike(x.X) {
					out = append(out, derefSite{ins, x.X, "index"})
				}
			case *ssa.UnOp:
				if x.Op == token.MUL && !addrLike(x.X) {
					out = append(out, derefSite{ins, x.X, "load"})
				}
			case *ssa.Store:
				if !addrLike(x.Addr) {
					out = append(out, derefSite{ins, x.Addr, "store"})
				}
			case *ssa.MapUpdate:
				out = append(out, derefSite{ins, x.Map, "mapstore"})
			case *ssa.Slice:
				if _, isPtr := x.X.Type().Underlying().(*types.Pointer); isPtr && !addrLike(x.X) {
					out = append(out, derefSite{ins, x.X, "slice"})
				}
			case ssa.CallInstruction:
				c := x.Common()
				switch {
				case c.IsInvoke():
					out = append(out, derefSite{ins, c.Value, "invoke"})
				case c.StaticCallee() == nil:
					if _, isB := c.Value.(*ssa.Builtin); !isB {
						out = append(out, derefSite{ins, c.Value, "funcvalue"})
					}
				default:
					sc := c.StaticCallee()
					if !p.inScope(sc) && sc.Signature.Recv() != nil && len(c.Args) > 0 {
						if _, isPtr := sc.Signature.Recv().Type().Underlying().(*types.Pointer); isPtr {
							out = append(out, derefSite{ins, c.Args[0], "extrecv"})
						}
					}
				}
			}
		}
	}
	return out
}

// scopeFns: functions whose sites are C08 obligations (quick: reader/writer closures + helpers).
func c08Scope(p *Prog, l *Ledger, rule, tier string) []*ssa.Function {
	seen := map[*ssa.Function]bool{}
	var out []*ssa.Function
	add := func(fs []*ssa.Function) {
		for _, f := range fs {
			if !seen[f] && fnPkg(f) == p.LibSSA && FnName(f) != "init" {
				seen[f] = true
				out = append(out, f)
			}
		}
	}
	add(p.ReaderClosure(l, rule))
	add(p.WriterClosure(l, rule))
	return out
}

// widerScope: library functions outside the reader/writer closures (transformations, unused
// helpers). In the thorough tier their sites are listed as informational obligations: C08's
// statement is about readers and writers only.
func widerScope(p *Prog, l *Ledger, rule string) []*ssa.Function {
	in := map[*ssa.Function]bool{}
	for _, f := range c08Scope(p, l, rule, "quick") {
		in[f] = true
	}
	var out []*ssa.Function
	for _, f := range p.LibFns {
		if !in[f] && FnName(f) != "init" {
			out = append(out, f)
		}
	}
	return out
}

// ruleNilDeref: E1 over the scope.
func ruleNilDeref(p *Prog, l *Ledger, tier string) {
	const rule = "E1.nilderef"
	a := NewNilAnalysis(p)
	if !a.converged {
		l.Undecide(rule, "", rule+"|fixpoint", "", "the interprocedural non-nil / numeric summaries did not reach a fixpoint within the round limit: facts read from them are not justified")
	}
	trivial, sites := 0, 0
	for _, fn := range c08Scope(p, l, rule, tier) {
		fname := FnName(fn)
		for _, ds := range derefSites(fn, p) {
			if constructorNonNil(ds.op) {
				trivial++
				continue
			}
			sites++
			key := l.Key(rule, fname, ds.kind, descOf(ds.op))
			pos := p.Pos(ds.ins.Pos())
			if a.nonNil(fn, ds.op, a.at[ds.ins]) {
				l.Prove(rule, fname, key, pos, "non-nil by dominating test / construction / call-site join")
				continue
			}
			l.Fail(rule, fname, key, pos, fmt.Sprintf("%s: %s of %s (%s) is not preceded by a nil test on every path; nilable source: %s", fname, derefVerb(ds.kind), descOf(ds.op), typeStr(ds.op.Type()), nilSource(ds.op)))
		}
	}
	if tier == "thorough" {
		nw, bw := 0, 0
		for _, fn := range widerScope(p, l, rule) {
			for _, ds := range derefSites(fn, p) {
				if constructorNonNil(ds.op) {
					continue
				}
				nw++
				if !a.nonNil(fn, ds.op, a.at[ds.ins]) {
					bw++
					l.Add(Ob{Rule: rule + ".wider-scope", Fn: FnName(fn), Key: l.Key(rule+".wider-scope", FnName(fn), ds.kind, descOf(ds.op)), Pos: p.Pos(ds.ins.Pos()), Status: Info, Why: "outside the reader/writer closures: " + derefVerb(ds.kind) + " of " + descOf(ds.op) + " not proved non-nil"})
				}
			}
		}
		l.Note("E1 thorough: %d further sites in transformations and helpers outside the C08 scope, %d of them unproved (listed as info)", nw, bw)
	}
	l.Note("E1: %d trivially non-nil dereference operands (allocations, field addresses, globals' addresses) not listed", trivial)
	l.Min(rule, sites, 150)
	var cf []string
	for _, k := range sortedKeys(a.ctorF) {
		cf = append(cf, k)
	}
	l.Note("E1: constructor-non-nil fields of unexported types: %s", strings.Join(cf, ", "))
}

func derefVerb(kind string) string {
	switch kind {
	case "mapstore":
		return "store into map"
	case "invoke":
		return "method call on interface value"
	case "funcvalue":
		return "call of function value"
	case "extrecv":
		return "method call with pointer receiver"
	}
	return "dereference"
}

func nilSource(v ssa.Value) string {
	switch x := v.(type) {
	case *ssa.UnOp:
		if x.Op == token.MUL {
			switch x.X.(type) {
			case *ssa.FieldAddr:
				return "struct field load"
			case *ssa.Alloc:
				return "local variable"
			case *ssa.Global:
				return "package-level variable"
			}
			return "memory load"
		}
	case *ssa.Lookup:
		return "map lookup without presence test"
	case *ssa.Extract:
		if c, ok := x.Tuple.(*ssa.Call); ok {
			return "result of " + calleeShort(&c.Call)
		}
		return "tuple component"
	case *ssa.Call:
		return "result of " + calleeShort(&x.Call)
	case *ssa.Parameter:
		return "parameter (nil at some in-package call site)"
	case *ssa.Phi:
		return "merge of values, one possibly nil"
	case *ssa.Field:
		return "struct field"
	case *ssa.TypeAssert:
		return "type assertion result"
	}
	return fmt.Sprintf("%T", v)
}

// ruleNilProducer: O2 — values stored into slices/maps of pointers are non-nil (so that
// consumers may assume non-nil elements).
func ruleNilProducer(p *Prog, l *Ledger, tier string) {
	const rule = "E1.nil-element"
	a := NewNilAnalysis(p)
	n := 0
	for _, fn := range p.LibFns {
		if FnName(fn) == "init" {
			continue
		}
		fname := FnName(fn)
		check := func(ins ssa.Instruction, v ssa.Value, what string) {
			if _, isPtr := v.Type().Underlying().(*types.Pointer); !isPtr {
				return
			}
			n++
			key := l.Key(rule, fname, what, descOf(v))
			if a.nonNil(fn, v, a.at[ins]) {
				l.Prove(rule, fname, key, p.Pos(ins.Pos()), "stored element is non-nil")
			} else if st, ok := ins.(*ssa.Store); ok && orderWriteBack(p, fn) == st {
				l.Prove(rule, fname, key, p.Pos(ins.Pos()), "the cue of pair k of a slice of pairs each filled from an element of the list itself (M3's sorted-pairs form): the list's own elements come back")
			} else if st, ok := ins.(*ssa.Store); ok && insertPlaceholder(st) {
				l.Prove(rule, fname, key, p.Pos(ins.Pos()), "nil placeholder of the insert idiom append(X, nil); copy(X[i+1:], X[i:]); X[i] = v: overwritten before the list is read")
			} else {
				l.Fail(rule, fname, key, p.Pos(ins.Pos()), fmt.Sprintf("%s: possibly-nil %s is stored as a %s; readers of the container assume non-nil elements", fname, descOf(v), what))
			}
		}
		for _, b := range fn.Blocks {
			for _, ins := range b.Instrs {
				switch x := ins.(type) {
				case *ssa.MapUpdate:
					check(ins, x.Value, "map value")
				case *ssa.Store:
					if ia, ok := x.Addr.(*ssa.IndexAddr); ok && isElemContainer(ia.X.Type()) && !elemIsPtrToBasic(ia.X.Type()) {
						check(ins, x.Val, "slice element")
					}
				}
			}
		}
	}
	l.Min(rule, n, 10)
}

// ruleSupportCurrentPage backs the residue entries for b.currentPage in parsePacketData:
// (a) every store to teletextPageBuffer.currentPage stores a non-nil value, (b) every store of
// true to teletextPageBuffer.receiving shares its block with a store to currentPage.
func ruleSupportCurrentPage(p *Prog, l *Ledger, tier string) {
	const rule = "E1.support-currentPage"
	a := NewNilAnalysis(p)
	nCur, nRecv := 0, 0
	var problems []string
	for _, fn := range p.LibFns {
		for _, b := range fn.Blocks {
			storesCur := false
			var recvTrue []*ssa.Store
			for _, ins := range b.Instrs {
				st, ok := ins.(*ssa.Store)
				if !ok {
					continue
				}
				fa, ok := st.Addr.(*ssa.FieldAddr)
				if !ok {
					continue
				}
				nt, ok := fa.X.Type().Underlying().(*types.Pointer).Elem().(*types.Named)
				if !ok || nt.Obj().Name() != "teletextPageBuffer" {
					continue
				}
				switch fieldName(fa.X.Type(), fa.Field) {
				case "currentPage":
					nCur++
					storesCur = true
					if !a.nonNil(fn, st.Val, a.at[ins]) {
						problems = append(problems, "possibly-nil value stored into currentPage at "+p.Pos(st.Pos()))
					}
				case "receiving":
					if c, ok := st.Val.(*ssa.Const); ok && c.Value != nil && c.Value.String() == "true" {
						nRecv++
						recvTrue = append(recvTrue, st)
					} else if _, isConst := st.Val.(*ssa.Const); !isConst {
						problems = append(problems, "non-constant value stored into receiving at "+p.Pos(st.Pos()))
					}
				}
			}
			for _, st := range recvTrue {
				if !storesCur {
					problems = append(problems, "receiving set to true at "+p.Pos(st.Pos())+" without storing a page into currentPage in the same block")
				}
			}
		}
	}
	if nCur == 0 || nRecv == 0 {
		l.Undecide(rule, "", rule, "", fmt.Sprintf("anchor fields not found (stores to currentPage: %d, receiving=true: %d)", nCur, nRecv))
		return
	}
	if len(problems) > 0 {
		l.Fail(rule, "teletextPageBuffer", rule, "", strings.Join(problems, "; "))
		return
	}
	l.Prove(rule, "teletextPageBuffer", rule, "", fmt.Sprintf("%d store(s) to currentPage all non-nil; %d store(s) receiving=true each paired with a currentPage store", nCur, nRecv))
}

// ruleNilDerefIn: E1 restricted to the named functions (used by transformation properties).
func ruleNilDerefIn(names ...string) func(p *Prog, l *Ledger, tier string) {
	return func(p *Prog, l *Ledger, tier string) {
		const rule = "E1.nilderef"
		a := NewNilAnalysis(p)
		n := 0
		for _, name := range names {
			fn := anchor(p, l, rule, name)
			if fn == nil {
				continue
			}
			for _, ds := range derefSites(fn, p) {
				if constructorNonNil(ds.op) {
					continue
				}
				n++
				key := l.Key(rule, name, ds.kind, descOf(ds.op))
				pos := p.Pos(ds.ins.Pos())
				if a.nonNil(fn, ds.op, a.at[ds.ins]) {
					l.Prove(rule, name, key, pos, "non-nil by dominating test / construction / call-site join")
				} else {
					l.Fail(rule, name, key, pos, fmt.Sprintf("%s: %s of %s (%s) is not preceded by a nil test on every path; nilable source: %s", name, derefVerb(ds.kind), descOf(ds.op), typeStr(ds.op.Type()), nilSource(ds.op)))
				}
			}
		}
		l.Min(rule, n, 1)
	}
}

// insertPlaceholder: st stores nil into the one-element argument array of
//
//	X = append(X, nil); copy(X[i+1:], X[i:]); X[i] = v
//
// (the insert-at-i idiom).  The nil never survives: for i < old length copy shifts an old element
// into the last slot, for i == old length X[i] = v overwrites it, and for i beyond that X[i]
// panics before anything is observed (E2 decides that).  All three statements are in one block
// and X is the same field of the same base throughout.
func insertPlaceholder(st *ssa.Store) bool {
	c, ok := st.Val.(*ssa.Const)
	if !ok || c.Value != nil {
		return false
	}
	ia, ok := st.Addr.(*ssa.IndexAddr)
	if !ok {
		return false
	}
	arr, ok := ia.X.(*ssa.Alloc)
	if !ok {
		return false
	}
	// arr[:] passed to append whose result is stored to a field
	var target *ssa.Store
	var grown *ssa.Call // register form: items = append(items, nil) with the result used directly
	for _, r := range *arr.Referrers() {
		sl, ok := r.(*ssa.Slice)
		if !ok {
			continue
		}
		for _, r2 := range *sl.Referrers() {
			call, ok := r2.(*ssa.Call)
			if !ok {
				continue
			}
			if bi, ok := call.Call.Value.(*ssa.Builtin); !ok || bi.Name() != "append" || call.Call.Args[1] != ssa.Value(sl) {
				continue
			}
			for _, r3 := range *call.Referrers() {
				if s2, ok := r3.(*ssa.Store); ok && s2.Val == ssa.Value(call) && s2.Block() == st.Block() {
					target = s2
				}
			}
			if call.Block() == st.Block() {
				grown = call
			}
		}
	}
	if target == nil && grown == nil {
		return false
	}
	var tfa *ssa.FieldAddr
	if target != nil {
		tfa, ok = target.Addr.(*ssa.FieldAddr)
		if !ok {
			return false
		}
	}
	sameLoc := func(v ssa.Value) bool { // v is a load of the same field of the same base (or the grown list itself)
		if tfa == nil {
			return v == ssa.Value(grown)
		}
		u, ok := v.(*ssa.UnOp)
		if !ok || u.Op != token.MUL {
			return false
		}
		fa, ok := u.X.(*ssa.FieldAddr)
		return ok && fa.X == tfa.X && fa.Field == tfa.Field
	}
	var idx ssa.Value
	copied, stored := false, false
	after := false
	for _, ins := range st.Block().Instrs {
		if (target != nil && ins == ssa.Instruction(target)) || (target == nil && ins == ssa.Instruction(grown)) {
			after = true
			continue
		}
		if !after {
			continue
		}
		switch x := ins.(type) {
		case *ssa.Call:
			bi, ok := x.Call.Value.(*ssa.Builtin)
			if !ok || bi.Name() != "copy" {
				continue
			}
			dst, ok1 := x.Call.Args[0].(*ssa.Slice)
			src, ok2 := x.Call.Args[1].(*ssa.Slice)
			if !ok1 || !ok2 || !sameLoc(dst.X) || !sameLoc(src.X) || dst.High != nil || src.High != nil || src.Low == nil {
				continue
			}
			bo, ok := dst.Low.(*ssa.BinOp)
			if !ok || bo.Op != token.ADD || bo.X != src.Low {
				continue
			}
			if one, ok := constInt(bo.Y); !ok || one != 1 {
				continue
			}
			idx, copied = src.Low, true
		case *ssa.Store:
			if x == target {
				continue
			}
			if fa, ok := x.Addr.(*ssa.FieldAddr); ok && tfa != nil && fa.X == tfa.X && fa.Field == tfa.Field {
				return false // the list is reassigned in between
			}
			if ia2, ok := x.Addr.(*ssa.IndexAddr); ok && copied && sameLoc(ia2.X) && ia2.Index == idx {
				if cc, isConst := x.Val.(*ssa.Const); !isConst || cc.Value != nil {
					stored = true
				}
			}
		}
	}
	return copied && stored
}

// okResultIndex: the index of the last result when it is a bool and there are others (the comma-ok convention), or -1.
func okResultIndex(sig *types.Signature) int {
	r := sig.Results()
	if r.Len() < 2 {
		return -1
	}
	if bt, ok := r.At(r.Len() - 1).Type().Underlying().(*types.Basic); ok && bt.Kind() == types.Bool {
		return r.Len() - 1
	}
	return -1
}

// knownFalseAt: the bool value v is false whenever block b runs (the constant false, or a value a dominating branch
// has tested).
func knownFalseAt(v ssa.Value, b *ssa.BasicBlock) bool { return knownFalseAtD(v, b, 0) }

func knownFalseAtD(v ssa.Value, b *ssa.BasicBlock, depth int) bool {
	if depth > 8 {
		return false
	}
	if c, ok := v.(*ssa.Const); ok && c.Value != nil && c.Value.Kind() == constant.Bool {
		return !constant.BoolVal(c.Value)
	}
	for _, dc := range dominatingConds(b) {
		if dc.cond == v && !dc.taken {
			return true
		}
		if u, ok := dc.cond.(*ssa.UnOp); ok && u.Op == token.NOT && u.X == v && dc.taken {
			return true
		}
	}
	// a result merged from several returns: every edge is known false where it comes from
	if ph, ok := v.(*ssa.Phi); ok {
		// every value that can arrive is false where it comes from
		for k, e := range ph.Edges {
			pred := ph.Block().Preds[k]
			// the edge itself may be the false branch of a test of that very value
			if iff, ok := pred.Instrs[len(pred.Instrs)-1].(*ssa.If); ok && iff.Cond == e && len(pred.Succs) == 2 && pred.Succs[1] == ph.Block() && pred.Succs[0] != ph.Block() {
				continue
			}
			if !knownFalseAtD(e, pred, depth+1) {
				return false
			}
		}
		return len(ph.Edges) > 0
	}
	return false
}
