package chk

import (
	"fmt"
	"go/token"
	"go/types"
	"strings"

	"golang.org/x/tools/go/ssa"
)

// E3 miscpanic: integer division, single-result type assertions, explicit panics (DESIGN.md §3 E3).

func ruleDivZero(p *Prog, l *Ledger, tier string) {
	const rule = "E3.divzero"
	a := NewNilAnalysis(p)
	n := 0
	for _, fn := range c08Scope(p, l, rule, tier) {
		fname := FnName(fn)
		for _, b := range fn.Blocks {
			for _, ins := range b.Instrs {
				bo, ok := ins.(*ssa.BinOp)
				if !ok || (bo.Op != token.QUO && bo.Op != token.REM) || !isIntegerT(bo.Type()) {
					continue
				}
				if c, ok := constInt(bo.Y); ok && c != 0 {
					continue
				}
				n++
				key := l.Key(rule, fname, "div", descOf(bo.Y))
				pos := p.Pos(bo.Pos())
				a.cur, a.curFn = ins, fn
				g := a.newGraph(fn, ins)
				t, k, ok := a.intTerm(bo.Y)
				proved := false
				if ok {
					g.define(bo.Y, 0)
					proved = g.proveLE(zeroTerm, 1, t, k) || g.proveLE(t, k, zeroTerm, -1)
				}
				a.cur, a.curFn = nil, nil
				if proved {
					l.Prove(rule, fname, key, pos, "divisor is non-zero by a dominating test, its parameter's call sites or table constants")
				} else {
					l.Fail(rule, fname, key, pos, fmt.Sprintf("%s: integer %s by %s, which is not shown to be non-zero on every path", fname, map[token.Token]string{token.QUO: "division", token.REM: "remainder"}[bo.Op], descOf(bo.Y)))
				}
			}
		}
	}
	l.Min(rule, n, 3)
}

// ruleTypeAssert: x.(T) without comma-ok must be a BiMap lookup under its ok whose table only
// holds values of dynamic type T.
func ruleTypeAssert(p *Prog, l *Ledger, tier string) {
	const rule = "E3.typeassert"
	n := 0
	for _, fn := range c08Scope(p, l, rule, tier) {
		fname := FnName(fn)
		for _, b := range fn.Blocks {
			for _, ins := range b.Instrs {
				ta, ok := ins.(*ssa.TypeAssert)
				if !ok || ta.CommaOk {
					continue
				}
				n++
				key := l.Key(rule, fname, "assert", descOf(ta.X)+".("+typeStr(ta.AssertedType)+")")
				pos := p.Pos(ta.Pos())
				call, inv, isBi := biMapLookup(ta.X)
				if !isBi {
					l.Fail(rule, fname, key, pos, fmt.Sprintf("%s: single-result type assertion %s.(%s) on a value that is not a BiMap lookup result; it panics when the dynamic type differs", fname, descOf(ta.X), typeStr(ta.AssertedType)))
					continue
				}
				// under ok
				okGuard := false
				for _, ref := range *call.Referrers() {
					if ex, isEx := ref.(*ssa.Extract); isEx && ex.Index == 1 {
						for x := b; x != nil; x = x.Idom() {
							d := x.Idom()
							if d == nil || len(x.Preds) != 1 || x.Preds[0] != d {
								continue
							}
							if iff, isIf := d.Instrs[len(d.Instrs)-1].(*ssa.If); isIf && iff.Cond == ssa.Value(ex) && d.Succs[0] == x {
								okGuard = true
							}
							// ok && more: the && lowers to nested ifs; the first one is what we need
						}
					}
				}
				if !okGuard {
					l.Fail(rule, fname, key, pos, fmt.Sprintf("%s: type assertion on a BiMap lookup result that is not guarded by the lookup's ok (a missing key yields a nil interface)", fname))
					continue
				}
				srcs, ok := p.biMapSourcesOf(call.Call.Args[0], 0)
				if !ok || len(srcs) == 0 {
					l.Fail(rule, fname, key, pos, fmt.Sprintf("%s: the table behind %s cannot be resolved to Set chains in the package initialiser", fname, descOf(call.Call.Args[0])))
					continue
				}
				var bad []string
				cnt := 0
				for _, ch := range srcs {
					for _, pr := range ch {
						v := pr.v
						if inv {
							v = pr.k
						}
						cnt++
						if !types.Identical(v.Type(), ta.AssertedType) {
							bad = append(bad, fmt.Sprintf("%s has type %s at %s", descOf(v), typeStr(v.Type()), p.Pos(pr.pos)))
						}
					}
				}
				if len(bad) > 0 {
					l.Fail(rule, fname, key, pos, fmt.Sprintf("%s: assertion to %s but the table holds other dynamic types: %s", fname, typeStr(ta.AssertedType), strings.Join(bad[:min(3, len(bad))], "; ")))
					continue
				}
				l.Prove(rule, fname, key, pos, fmt.Sprintf("under ok; all %d table entries have dynamic type %s", cnt, typeStr(ta.AssertedType)))
			}
		}
	}
	l.Min(rule, n, 6)
}

// rulePanicCalls: no explicit panic, log.Fatal*, os.Exit or Must* reachable from library entry points.
func rulePanicCalls(p *Prog, l *Ledger, tier string) {
	const rule = "E3.explicit-panic"
	bad := 0
	fns := c08Scope(p, l, rule, tier)
	for _, fn := range fns {
		fname := FnName(fn)
		for _, b := range fn.Blocks {
			for _, ins := range b.Instrs {
				switch x := ins.(type) {
				case *ssa.Panic:
					bad++
					l.Fail(rule, fname, l.Key(rule, fname, "panic", ""), p.Pos(x.Pos()), fname+": explicit panic reachable from a reader/writer entry point")
				case ssa.CallInstruction:
					sc := x.Common().StaticCallee()
					if sc == nil || p.inScope(sc) {
						continue
					}
					full := sc.String()
					if strings.HasPrefix(full, "log.Fatal") || strings.HasPrefix(full, "log.Panic") || full == "os.Exit" || full == "runtime.Goexit" ||
						(sc.Pkg != nil && strings.HasPrefix(sc.Name(), "Must")) {
						bad++
						l.Fail(rule, fname, l.Key(rule, fname, "fatal", full), p.Pos(x.Pos()), fname+": call to "+full+" (aborts or panics) reachable from a reader/writer entry point")
					}
				}
			}
		}
	}
	if bad == 0 {
		l.Prove(rule, "", rule, "", fmt.Sprintf("no panic instruction and no log.Fatal*/log.Panic*/os.Exit/Must* call in %d functions", len(fns)))
	}
}

// ruleSupportFramerate backs the residue entry for the division in parseDurationSTLBytes: the
// frame rate travels through the gsiBlock returned by parseGSIBlock. Checked: every return of
// parseGSIBlock whose error may be nil is dominated by a store of a value ≥ 1 into the framerate
// field of the block it returns, and ReadFromSTL passes that block's framerate to parseTTIBlock.
func ruleSupportFramerate(p *Prog, l *Ledger, tier string) {
	const rule = "E3.support-framerate"
	a := NewNilAnalysis(p)
	fn := anchor(p, l, rule, "parseGSIBlock")
	if fn == nil {
		return
	}
	var stores []*ssa.Store
	for _, b := range fn.Blocks {
		for _, ins := range b.Instrs {
			if st, ok := ins.(*ssa.Store); ok {
				if fa, ok := st.Addr.(*ssa.FieldAddr); ok && fieldName(fa.X.Type(), fa.Field) == "framerate" {
					stores = append(stores, st)
				}
			}
		}
	}
	if len(stores) == 0 {
		l.Undecide(rule, "parseGSIBlock", rule, "", "no store to gsiBlock.framerate found in parseGSIBlock")
		return
	}
	var problems []string
	for _, st := range stores {
		a.cur, a.curFn = st, fn
		g := a.newGraph(fn, st)
		t, k, ok := a.intTerm(st.Val)
		if ok {
			g.define(st.Val, 0)
		}
		if !ok || !g.proveLE(zeroTerm, 1, t, k) {
			problems = append(problems, "value stored into framerate at "+p.Pos(st.Pos())+" is not shown to be ≥ 1")
		}
		a.cur, a.curFn = nil, nil
	}
	for _, b := range fn.Blocks {
		r, ok := b.Instrs[len(b.Instrs)-1].(*ssa.Return)
		if !ok {
			continue
		}
		ev := retErrOperand(fn, r)
		if ev != nil && nonNilError(ev, knownNonNilAt(b), 0) {
			continue
		}
		dominated := false
		for _, st := range stores {
			if st.Block().Dominates(b) {
				dominated = true
			}
		}
		if !dominated {
			problems = append(problems, "return at "+p.Pos(r.Pos())+" may succeed without a frame rate having been stored")
		}
	}
	if len(problems) > 0 {
		l.Fail(rule, "parseGSIBlock", rule, p.Pos(fn.Pos()), "parseGSIBlock: "+strings.Join(problems, "; "))
		return
	}
	l.Prove(rule, "parseGSIBlock", rule, p.Pos(fn.Pos()), fmt.Sprintf("%d store(s) to framerate, each ≥ 1; every possibly-successful return is dominated by one", len(stores)))
}
