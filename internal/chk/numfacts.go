package chk

import (
	"fmt"
	"go/constant"
	"go/token"
	"go/types"
	"sort"
	"strconv"
	"strings"

	"golang.org/x/tools/go/ssa"
)

// Numeric facts carried by the same forward must-dataflow as the nil facts (nilguard*.go):
//   "N|a|b|c"   a - b ≤ c, where a, b are register terms ("v:t3", "len(v:t7)", "p:n") or "0"
//   "E|v:t3|K"  register t3 currently equals the content of memory location K (access path)
// N-facts mention only SSA registers and are never killed; E-facts die when K may be written.

const zeroTerm = "0"

// intTerm returns (term, offset) with value = term + offset; term "" means constant offset.
func (a *NilAnalysis) intTerm(v ssa.Value) (string, int64, bool) {
	base, k := linear(v)
	switch x := base.(type) {
	case *ssa.Const:
		if x.Value != nil && x.Value.Kind() == constant.Int {
			n, ok := constant.Int64Val(x.Value)
			if !ok {
				return "", 0, false
			}
			return "", n + k, true
		}
		return "", 0, false
	case *ssa.Call:
		if b, ok := x.Call.Value.(*ssa.Builtin); ok && (b.Name() == "len" || b.Name() == "cap") && b.Name() == "len" {
			return "len(" + a.regKey(x.Call.Args[0]) + ")", k, true
		}
	case *ssa.Convert:
		// integer conversions that cannot change the value
		if widening(x.X.Type(), x.Type()) {
			t, k2, ok := a.intTerm(x.X)
			return t, k + k2, ok
		}
	case *ssa.ChangeType:
		t, k2, ok := a.intTerm(x.X)
		return t, k + k2, ok
	}
	if !isIntegerT(base.Type()) {
		return "", 0, false
	}
	return a.regKey(base), k, true
}

func isIntegerT(t types.Type) bool {
	b, ok := t.Underlying().(*types.Basic)
	return ok && b.Info()&types.IsInteger != 0
}

// widening: converting from -> to preserves the numeric value.
func widening(from, to types.Type) bool {
	fb, ok1 := from.Underlying().(*types.Basic)
	tb, ok2 := to.Underlying().(*types.Basic)
	if !ok1 || !ok2 || fb.Info()&types.IsInteger == 0 || tb.Info()&types.IsInteger == 0 {
		return false
	}
	size := func(b *types.Basic) int {
		switch b.Kind() {
		case types.Int8, types.Uint8:
			return 8
		case types.Int16, types.Uint16:
			return 16
		case types.Int32, types.Uint32:
			return 32
		}
		return 64
	}
	fu, tu := fb.Info()&types.IsUnsigned != 0, tb.Info()&types.IsUnsigned != 0
	switch {
	case fu == tu:
		return size(tb) >= size(fb)
	case fu && !tu:
		return size(tb) > size(fb)
	}
	return false
}

// regKey: identity of a register-like value (parameters and SSA registers are immutable).
func (a *NilAnalysis) regKey(v ssa.Value) string {
	switch x := v.(type) {
	case *ssa.Parameter:
		return "p:" + x.Name()
	case *ssa.ChangeType:
		return a.regKey(x.X)
	case *ssa.BinOp:
		// c*x computed twice from the same register is the same number (registers are immutable)
		if x.Op == token.MUL && isIntegerT(x.Type()) {
			for _, pair := range [][2]ssa.Value{{x.X, x.Y}, {x.Y, x.X}} {
				if n, ok := constInt(pair[1]); ok {
					if _, isConst := pair[0].(*ssa.Const); !isConst {
						if t, k, ok := a.intTerm(pair[0]); ok && t != "" {
							return fmt.Sprintf("m:%d*(%s%+d)", n, t, k)
						}
					}
				}
			}
		}
	case *ssa.Field:
		// a field of a struct-valued parameter (value receivers) is as immutable as the parameter
		if base := a.regKey(x.X); strings.HasPrefix(base, "p:") {
			return base + "." + fieldName(x.X.Type(), x.Field)
		}
	}
	return "v:" + v.Name()
}

func nfact(a, b string, c int64) string { return "N|" + a + "|" + b + "|" + strconv.FormatInt(c, 10) }

// addLE records  (ta + ka) - (tb + kb) ≤ c.
func addLE(f nilFacts, ta string, ka int64, tb string, kb int64, c int64) {
	if ta == "" {
		ta = zeroTerm
	}
	if tb == "" {
		tb = zeroTerm
	}
	if ta == tb {
		return
	}
	f[nfact(ta, tb, c-ka+kb)] = true
}

// condNumFacts adds the numeric consequences of taking an edge of a comparison.
func (a *NilAnalysis) condNumFacts(cond ssa.Value, taken bool, f nilFacts) {
	if a.condDepth > 24 {
		return
	}
	a.condDepth++
	defer func() { a.condDepth-- }()
	switch c := cond.(type) {
	case *ssa.UnOp:
		if c.Op == token.NOT {
			a.condNumFacts(c.X, !taken, f)
		}
	case *ssa.Phi:
		// a && b (taken) or a || b (not taken) in value position: on this edge the right operand decided
		var rhs ssa.Value
		n := 0
		for _, e := range c.Edges {
			if kc, ok := e.(*ssa.Const); ok && kc.Value != nil && kc.Value.Kind() == constant.Bool {
				if constant.BoolVal(kc.Value) == taken {
					return
				}
				continue
			}
			rhs = e
			n++
		}
		if n == 1 {
			a.condNumFacts(rhs, taken, f)
		}
	case *ssa.BinOp:
		op := c.Op
		if !taken {
			switch op {
			case token.LSS:
				op = token.GEQ
			case token.LEQ:
				op = token.GTR
			case token.GTR:
				op = token.LEQ
			case token.GEQ:
				op = token.LSS
			case token.EQL:
				op = token.NEQ
			case token.NEQ:
				op = token.EQL
			default:
				return
			}
		}
		tx, kx, ok1 := a.intTerm(c.X)
		ty, ky, ok2 := a.intTerm(c.Y)
		if !ok1 || !ok2 {
			// strings.Contains-style and nil comparisons are handled elsewhere
			return
		}
		switch op {
		case token.LSS: // x < y  ⇒ x - y ≤ -1
			addLE(f, tx, kx, ty, ky, -1)
		case token.LEQ:
			addLE(f, tx, kx, ty, ky, 0)
		case token.GTR: // x > y ⇒ y - x ≤ -1
			addLE(f, ty, ky, tx, kx, -1)
		case token.GEQ:
			addLE(f, ty, ky, tx, kx, 0)
		case token.EQL:
			addLE(f, tx, kx, ty, ky, 0)
			addLE(f, ty, ky, tx, kx, 0)
		case token.NEQ:
			// x != y: useful only against a known bound (x ≥ y ⇒ x ≥ y+1); record as a tagged fact
			if tx == "" {
				tx = zeroTerm
			}
			if ty == "" {
				ty = zeroTerm
			}
			f["NE|"+tx+"|"+ty+"|"+strconv.FormatInt(ky-kx, 10)] = true // tx - ty != ky - kx
			f["NE|"+ty+"|"+tx+"|"+strconv.FormatInt(kx-ky, 10)] = true
		}
	}
}

// loadFact: register v now equals the content of location K.
func (a *NilAnalysis) loadFact(x *ssa.UnOp, f nilFacts) {
	if x.Op != token.MUL {
		return
	}
	if K := a.loc(x.X); K != "" {
		f["E|v:"+x.Name()+"|"+K] = true
	}
}

// constraint graph ------------------------------------------------------------------------

type cgraph struct {
	a     *NilAnalysis
	fn    *ssa.Function
	edges map[string]map[string]int64 // edges[b][a] = c  means a - b ≤ c  (path b → a with weight c)
	ne    map[string]bool
	seen  map[string]bool
	vals  map[string]ssa.Value
	alias map[string]string  // union-find over register terms made equal by E-facts
	rows  map[string][]int64 // rows of FindAll results named so far: list@baseterm -> offsets
}

func (g *cgraph) find(t string) string {
	for {
		p, ok := g.alias[t]
		if !ok || p == t {
			return t
		}
		t = p
	}
}

func (g *cgraph) canon(t string) string {
	if strings.HasPrefix(t, "len(") {
		return "len(" + g.find(t[4:len(t)-1]) + ")"
	}
	return g.find(t)
}

func (g *cgraph) le(ta, tb string, c int64) { // ta - tb ≤ c
	ta, tb = g.canon(ta), g.canon(tb)
	if ta == tb {
		return
	}
	if g.edges[tb] == nil {
		g.edges[tb] = map[string]int64{}
	}
	if old, ok := g.edges[tb][ta]; !ok || c < old {
		g.edges[tb][ta] = c
	}
}

// newGraph builds the constraint graph valid just before instruction at.
func (a *NilAnalysis) newGraph(fn *ssa.Function, at ssa.Instruction) *cgraph {
	g := &cgraph{a: a, fn: fn, edges: map[string]map[string]int64{}, ne: map[string]bool{}, seen: map[string]bool{}, vals: map[string]ssa.Value{}, alias: map[string]string{}}
	f := a.at[at]
	// aliases first
	byLoc := map[string][]string{}
	for k := range f {
		if strings.HasPrefix(k, "E|") {
			parts := strings.SplitN(k, "|", 3)
			byLoc[parts[2]] = append(byLoc[parts[2]], parts[1])
		}
	}
	for _, regs := range byLoc {
		min := regs[0]
		for _, r := range regs {
			if r < min {
				min = r
			}
		}
		for _, r := range regs {
			if r != min {
				g.alias[g.find(r)] = g.find(min)
			}
		}
	}
	// registers made equal to another one bring their definitional facts along
	for _, regs := range byLoc {
		if len(regs) < 2 {
			continue
		}
		for _, r := range regs {
			if strings.HasPrefix(r, "v:") {
				if v := valueByName(fn, r[2:]); v != nil && isIntegerT(v.Type()) {
					g.define(v, 2)
				}
			}
		}
	}
	var lenTerms []string
	for k := range f {
		switch {
		case strings.HasPrefix(k, "N|"):
			p := strings.Split(k, "|")
			c, _ := strconv.ParseInt(p[3], 10, 64)
			g.le(p[1], p[2], c)
			for _, t := range p[1:3] {
				if strings.HasPrefix(t, "len(v:") && strings.HasSuffix(t, ")") {
					lenTerms = append(lenTerms, t[len("len(v:"):len(t)-1])
				}
			}
		case strings.HasPrefix(k, "NE|"):
			p := strings.Split(k, "|")
			g.ne[g.canon(p[1])+"|"+g.canon(p[2])+"|"+p[3]] = true
		}
	}
	// a length that a fact mentions is defined by the way its slice was built (x[:n] has length n)
	sort.Strings(lenTerms)
	for _, name := range lenTerms {
		if v := a.valueNamed(fn, name); v != nil {
			if _, isSlice := v.(*ssa.Slice); isSlice {
				g.defineLen(v, 6)
			}
		}
	}
	return g
}

func (a *NilAnalysis) valueNamed(fn *ssa.Function, name string) ssa.Value {
	if a.byName == nil {
		a.byName = map[*ssa.Function]map[string]ssa.Value{}
	}
	m, ok := a.byName[fn]
	if !ok {
		m = map[string]ssa.Value{}
		for _, b := range fn.Blocks {
			for _, ins := range b.Instrs {
				if v, ok := ins.(ssa.Value); ok {
					m[v.Name()] = v
				}
			}
		}
		a.byName[fn] = m
	}
	return m[name]
}

// define adds the definitional constraints of value v (and, recursively, of what it is made of).
func (g *cgraph) define(v ssa.Value, depth int) {
	if depth > 12 {
		return
	}
	a := g.a
	t, k, ok := a.intTerm(v)
	if ok && t != "" {
		own := a.regKey(v)
		if own != t || k != 0 {
			// v = t + k
			if isIntegerT(v.Type()) {
				g.le(own, t, k)
				g.le(t, own, -k)
			}
		}
	}
	key := a.regKey(v)
	if g.seen[key] {
		return
	}
	g.seen[key] = true
	g.vals[key] = v
	// type range
	if b, ok := v.Type().Underlying().(*types.Basic); ok && b.Info()&types.IsInteger != 0 {
		if b.Info()&types.IsUnsigned != 0 {
			g.le(zeroTerm, key, 0)
		}
		switch b.Kind() {
		case types.Uint8:
			g.le(key, zeroTerm, 255)
		case types.Uint16:
			g.le(key, zeroTerm, 65535)
		case types.Int8:
			g.le(key, zeroTerm, 127)
			g.le(zeroTerm, key, 128)
		}
	}
	switch x := v.(type) {
	case *ssa.BinOp:
		g.define(x.X, depth+1)
		g.define(x.Y, depth+1)
		g.defineBinOp(x, key)
	case *ssa.Convert:
		g.define(x.X, depth+1)
		if !widening(x.X.Type(), x.Type()) && isIntegerT(x.X.Type()) && isIntegerT(x.Type()) {
			// narrowing keeps the value when the operand already fits; record only that case
			if lo, hi, ok := g.bounds(a.regKey(x.X)); ok {
				if tlo, thi, ok2 := typeRange(x.Type()); ok2 && lo >= tlo && hi <= thi {
					g.le(key, a.regKey(x.X), 0)
					g.le(a.regKey(x.X), key, 0)
				}
			}
		}
	case *ssa.Call:
		g.defineCall(x, key, depth)
	case *ssa.Phi:
		g.definePhi(x, key, depth)
	case *ssa.Extract:
		if c, ok := x.Tuple.(*ssa.Call); ok {
			g.defineCallResult(c, x.Index, key, x)
		}
		if nx, ok := x.Tuple.(*ssa.Next); ok && x.Index == 1 {
			// range key over a string: 0 ≤ k < len(s)
			if r, ok := nx.Iter.(*ssa.Range); ok && nx.IsString {
				g.le(zeroTerm, key, 0)
				g.le(key, "len("+a.regKey(r.X)+")", -1)
			}
		}
	case *ssa.UnOp:
		if x.Op == token.MUL {
			g.defineLoad(x, key)
		}
	case *ssa.Index:
		// element of the copy of a constant package-level integer array (range over the array value)
		if gl, _, ok := globalTableLookup(x); ok {
			if lo, hi, ok := a.globalIntArray(gl); ok {
				g.le(key, zeroTerm, hi)
				g.le(zeroTerm, key, -lo)
			}
		}
	case *ssa.Parameter:
		g.defineParam(x, key)
	case *ssa.TypeAssert:
		// integer taken out of a BiMap table: bounded by the table's constants
		if isIntegerT(x.Type()) {
			if call, inv, ok := biMapLookup(x.X); ok {
				if srcs, ok := a.p.biMapSourcesOf(call.Call.Args[0], 0); ok {
					lo, hi, n := infW, -infW, 0
					for _, ch := range srcs {
						for _, pr := range ch {
							v := pr.v
							if inv {
								v = pr.k
							}
							if c, ok := constInt(v); ok {
								n++
								if c < lo {
									lo = c
								}
								if c > hi {
									hi = c
								}
							} else if isIntegerT(v.Type()) {
								n = -1 << 20
							}
						}
					}
					if n > 0 {
						g.le(key, zeroTerm, hi)
						g.le(zeroTerm, key, -lo)
					}
				}
			}
		}
	}
}

func typeRange(t types.Type) (int64, int64, bool) {
	b, ok := t.Underlying().(*types.Basic)
	if !ok {
		return 0, 0, false
	}
	switch b.Kind() {
	case types.Uint8:
		return 0, 255, true
	case types.Uint16:
		return 0, 65535, true
	case types.Int8:
		return -128, 127, true
	case types.Int16:
		return -32768, 32767, true
	case types.Uint32:
		return 0, 1<<32 - 1, true
	case types.Int32:
		return -(1 << 31), 1<<31 - 1, true
	}
	return 0, 0, false
}

func constInt(v ssa.Value) (int64, bool) {
	c, ok := v.(*ssa.Const)
	if !ok || c.Value == nil || c.Value.Kind() != constant.Int {
		return 0, false
	}
	return constant.Int64Val(c.Value)
}

func (g *cgraph) defineBinOp(x *ssa.BinOp, key string) {
	a := g.a
	switch x.Op {
	case token.AND:
		for _, pair := range [][2]ssa.Value{{x.X, x.Y}, {x.Y, x.X}} {
			if m, ok := constInt(pair[1]); ok && m >= 0 {
				g.le(key, zeroTerm, m)
				g.le(zeroTerm, key, 0)
			}
			_ = pair
		}
	case token.SHR:
		if n, ok := constInt(x.Y); ok && n >= 0 && n < 63 {
			if _, hi, ok := g.bounds(a.regKey(x.X)); ok && hi >= 0 {
				g.le(key, zeroTerm, hi>>uint(n))
			}
			if lo, _, ok := g.boundsLo(a.regKey(x.X)); ok && lo >= 0 {
				g.le(zeroTerm, key, 0)
			}
		}
	case token.REM:
		if n, ok := constInt(x.Y); ok && n > 0 {
			g.le(key, zeroTerm, n-1)
			if lo, _, ok := g.boundsLo(a.regKey(x.X)); ok && lo >= 0 {
				g.le(zeroTerm, key, 0)
			} else {
				g.le(zeroTerm, key, n-1)
			}
		}
	case token.QUO:
		if n, ok := constInt(x.Y); ok && n > 0 {
			if lo, _, ok := g.boundsLo(a.regKey(x.X)); ok && lo >= 0 {
				g.le(zeroTerm, key, 0)
			}
			if _, hi, ok := g.bounds(a.regKey(x.X)); ok && hi >= 0 {
				g.le(key, zeroTerm, hi/n)
			}
		}
	case token.MUL:
		for _, pair := range [][2]ssa.Value{{x.X, x.Y}, {x.Y, x.X}} {
			n, ok := constInt(pair[1])
			if !ok || n < 0 || n > 1<<20 {
				continue
			}
			if _, isConst := pair[0].(*ssa.Const); isConst {
				continue
			}
			if lo, _, ok := g.boundsLo(a.regKey(pair[0])); ok && lo >= 0 {
				g.le(zeroTerm, key, -lo*n)
			}
			if _, hi, ok := g.bounds(a.regKey(pair[0])); ok && hi >= 0 && hi < 1<<40 {
				g.le(key, zeroTerm, hi*n)
			}
			break
		}
	case token.ADD:
		// sum of two non-negative registers is non-negative (constants are handled by linear())
		if _, ok := constInt(x.Y); !ok {
			g.substrIndexEnd(x, key)
			lo1, _, ok1 := g.boundsLo(g.termOf(x.X))
			lo2, _, ok2 := g.boundsLo(g.termOf(x.Y))
			if ok1 && ok2 {
				g.le(zeroTerm, key, -(lo1 + lo2))
			}
			// v = X + Y with Y ≥ lo2: v - X ≥ lo2
			if ok2 {
				if tx, kx, ok := a.intTerm(x.X); ok && tx != "" {
					g.le(tx, key, -lo2-kx)
				}
			}
			if ok1 {
				if ty, ky, ok := a.intTerm(x.Y); ok && ty != "" {
					g.le(ty, key, -lo1-ky)
				}
			}
		}
	case token.SUB:
		if _, ok := constInt(x.Y); !ok {
			// v = X - Y: v - X ≤ -lo(Y); and v ≥ 0 when Y ≤ X is known (searched by prove)
			if lo2, _, ok2 := g.boundsLo(g.termOf(x.Y)); ok2 {
				if tx, kx, ok := a.intTerm(x.X); ok && tx != "" {
					g.le(key, tx, kx-lo2)
				}
			}
			tx, kx, ok1 := a.intTerm(x.X)
			ty, ky, ok2 := a.intTerm(x.Y)
			if ok1 && ok2 {
				if tx == "" {
					tx = zeroTerm
				}
				if ty == "" {
					ty = zeroTerm
				}
				// if  ty - tx ≤ c  then  v = (tx+kx) - (ty+ky) ≥ -c + kx - ky
				if c, ok := g.shortest(tx, ty); ok {
					g.le(zeroTerm, key, c-kx+ky)
				}
				if c, ok := g.shortest(ty, tx); ok { // tx - ty ≤ c ⇒ v ≤ c + kx - ky
					g.le(key, zeroTerm, c+kx-ky)
				}
			}
		}
	}
}

// termOf: canonical term of a value when it is "term + 0", else its register key.
func (g *cgraph) termOf(v ssa.Value) string {
	if t, k, ok := g.a.intTerm(v); ok && t != "" && k == 0 {
		return t
	}
	return g.a.regKey(v)
}

func (g *cgraph) String() string { return fmt.Sprintf("%d nodes", len(g.edges)) }
