package chk

import (
	"fmt"
	"go/token"
	"go/types"
	"strings"

	"golang.org/x/tools/go/ssa"
)

// E6 maporder: a range over a map may feed later computation only through order-insensitive
// accumulators (DESIGN.md §3 E6).

type mapLoop struct {
	fn     *ssa.Function
	rng    *ssa.Range
	next   *ssa.Next
	header *ssa.BasicBlock
	blocks map[*ssa.BasicBlock]bool
}

func mapLoops(fn *ssa.Function) []*mapLoop {
	var out []*mapLoop
	for _, b := range fn.Blocks {
		for _, ins := range b.Instrs {
			nx, ok := ins.(*ssa.Next)
			if !ok || nx.IsString {
				continue
			}
			r, ok := nx.Iter.(*ssa.Range)
			if !ok {
				continue
			}
			if _, isMap := r.X.Type().Underlying().(*types.Map); !isMap {
				continue
			}
			lp := loopOf(b)
			out = append(out, &mapLoop{fn: fn, rng: r, next: nx, header: b, blocks: lp})
		}
	}
	return out
}

func isSortCall(c *ssa.CallCommon) bool {
	f := c.StaticCallee()
	if f == nil || f.Pkg == nil {
		return false
	}
	if f.Pkg.Pkg.Path() != "sort" && f.Pkg.Pkg.Path() != "slices" {
		return false
	}
	switch f.Name() {
	case "Strings", "Ints", "Float64s", "Slice", "SliceStable", "Sort", "Stable", "SortFunc", "SortStableFunc":
		return true
	}
	return false
}

// totalOrderSort: the sort call orders by a total order on the elements, so its result does not
// depend on the initial order: sort.Strings/Ints/Float64s, or sort.Slice* with a comparator that
// is a plain < / > between elements i and j of the sorted slice (of a basic element type).
func totalOrderSort(c *ssa.CallCommon) (bool, string) {
	f := c.StaticCallee()
	if f == nil {
		return false, "unresolved sort call"
	}
	switch f.Name() {
	case "Strings", "Ints", "Float64s":
		return true, ""
	case "Slice", "SliceStable":
		var less *ssa.Function
		switch x := c.Args[1].(type) {
		case *ssa.MakeClosure:
			less = x.Fn.(*ssa.Function)
		case *ssa.Function:
			less = x
		}
		if less == nil || len(less.Blocks) != 1 {
			return false, "comparator is not a single-expression function literal"
		}
		r, ok := less.Blocks[0].Instrs[len(less.Blocks[0].Instrs)-1].(*ssa.Return)
		if !ok || len(r.Results) != 1 {
			return false, "comparator shape not recognised"
		}
		bo, ok := r.Results[0].(*ssa.BinOp)
		if !ok || (bo.Op != token.LSS && bo.Op != token.GTR) {
			return false, "comparator is not a plain < or > on the elements"
		}
		elem := func(v ssa.Value) int {
			u, ok := v.(*ssa.UnOp)
			if !ok {
				return -1
			}
			ia, ok := u.X.(*ssa.IndexAddr)
			if !ok {
				return -1
			}
			if _, isBasic := u.Type().Underlying().(*types.Basic); !isBasic {
				return -1
			}
			for k, p := range less.Params {
				if ia.Index == ssa.Value(p) {
					return k
				}
			}
			return -1
		}
		x, y := elem(bo.X), elem(bo.Y)
		if x < 0 || y < 0 || x == y {
			return false, "comparator does not compare element i with element j directly"
		}
		return true, ""
	}
	return false, "sorted with " + f.String() + ", whose ordering the checker cannot show to be total"
}

func stripIface(v ssa.Value) ssa.Value {
	for {
		switch x := v.(type) {
		case *ssa.MakeInterface:
			v = x.X
		case *ssa.ChangeType:
			v = x.X
		default:
			return v
		}
	}
}

// dependsOn reports whether v is computed (inside the loop) from any of the given values.
func dependsOn(v ssa.Value, srcs map[ssa.Value]bool, loop map[*ssa.BasicBlock]bool, seen map[ssa.Value]bool) bool {
	if srcs[v] {
		return true
	}
	if seen[v] {
		return false
	}
	seen[v] = true
	ins, ok := v.(ssa.Instruction)
	if !ok || !loop[ins.Block()] {
		return false
	}
	for _, op := range ins.Operands(nil) {
		if *op != nil && dependsOn(*op, srcs, loop, seen) {
			return true
		}
	}
	return false
}

// accumulatorKind classifies how header phi ph is updated around the loop.
func (ml *mapLoop) accumulatorKind(ph *ssa.Phi) (kind string, detail string) {
	// follow the in-loop edge values back to ph through append / arithmetic / inner phis
	var visit func(v ssa.Value, seen map[ssa.Value]bool) string
	visit = func(v ssa.Value, seen map[ssa.Value]bool) string {
		if v == ph {
			return "self"
		}
		if seen[v] {
			return "self"
		}
		seen[v] = true
		ins, ok := v.(ssa.Instruction)
		if !ok || !ml.blocks[ins.Block()] {
			if _, isConst := v.(*ssa.Const); isConst {
				return "const"
			}
			return "outer"
		}
		switch x := v.(type) {
		case *ssa.Phi:
			k := "self"
			for _, e := range x.Edges {
				r := visit(e, seen)
				k = joinKind(k, r)
			}
			return k
		case *ssa.Call:
			if b, ok := x.Call.Value.(*ssa.Builtin); ok && b.Name() == "append" {
				base := visit(x.Call.Args[0], seen)
				if base == "self" || base == "append" {
					return "append"
				}
				return "other:append onto a value that is not the accumulator"
			}
			return "other:result of call " + calleeName(&x.Call) + " computed from the previous value or the element"
		case *ssa.BinOp:
			l, r := visit(x.X, seen), visit(x.Y, seen)
			switch x.Op {
			case token.ADD:
				if isInteger(x.Type()) {
					if l == "self" || l == "sum" || r == "self" || r == "sum" {
						return "sum"
					}
				}
				return "other:" + x.Op.String() + " on " + typeStr(x.Type())
			case token.OR, token.AND, token.LOR, token.LAND, token.MUL, token.XOR:
				if l == "self" || r == "self" || l == "sum" || r == "sum" {
					return "sum"
				}
			}
			return "other:operator " + x.Op.String()
		}
		return "other:" + fmt.Sprintf("%T", v)
	}
	k := "self"
	for i, e := range ph.Edges {
		if !ml.blocks[ph.Block().Preds[i]] {
			continue // entry edge
		}
		k = joinKind(k, visit(e, map[ssa.Value]bool{}))
	}
	if strings.HasPrefix(k, "other:") {
		return "other", strings.TrimPrefix(k, "other:")
	}
	return k, ""
}

func joinKind(a, b string) string {
	if strings.HasPrefix(a, "other") {
		return a
	}
	if strings.HasPrefix(b, "other") {
		return b
	}
	order := map[string]int{"self": 0, "const": 1, "outer": 2, "sum": 3, "append": 4}
	if order[b] > order[a] {
		return b
	}
	return a
}

func isInteger(t types.Type) bool {
	b, ok := t.Underlying().(*types.Basic)
	return ok && b.Info()&types.IsInteger != 0
}

// sortedBeforeUse: every use of v outside the loop is a sort call on v or dominated by one.
func (ml *mapLoop) sortedBeforeUse(v ssa.Value) (bool, string) {
	var sorts []ssa.Instruction
	var uses []ssa.Instruction
	notTotal := ""
	var walk func(x ssa.Value, seen map[ssa.Value]bool)
	walk = func(x ssa.Value, seen map[ssa.Value]bool) {
		if seen[x] {
			return
		}
		seen[x] = true
		for _, ref := range *x.Referrers() {
			if ml.blocks[ref.Block()] {
				continue
			}
			switch r := ref.(type) {
			case *ssa.MakeInterface:
				walk(r, seen) // sort.Slice(x any, ...)
				continue
			case *ssa.Phi:
				// merges with other definitions after the loop (e.g. an if around the loop)
				walk(r, seen)
				continue
			case *ssa.Call:
				if isSortCall(&r.Call) && len(r.Call.Args) > 0 && stripIface(r.Call.Args[0]) == stripIface(x) {
					if ok, why := totalOrderSort(&r.Call); !ok {
						notTotal = why
					}
					sorts = append(sorts, r)
					continue
				}
			}
			uses = append(uses, ref)
		}
	}
	walk(v, map[ssa.Value]bool{})
	if notTotal != "" {
		return false, "its sort call: " + notTotal
	}
	for _, u := range uses {
		ok := false
		for _, s := range sorts {
			if instrDominates(s, u) {
				ok = true
				break
			}
		}
		if !ok {
			return false, ml.fn.Prog.Fset.Position(u.Pos()).String()
		}
	}
	return true, ""
}

// instrDominates: a executes before b on every path to b.
func instrDominates(a, b ssa.Instruction) bool {
	if a.Block() == b.Block() {
		for _, ins := range a.Block().Instrs {
			if ins == a {
				return true
			}
			if ins == b {
				return false
			}
		}
		return false
	}
	return a.Block().Dominates(b.Block())
}

// checkMapLoop emits obligations for one loop.
func checkMapLoop(p *Prog, l *Ledger, rule string, ml *mapLoop) {
	fname := FnName(ml.fn)
	pos := p.Pos(ml.rng.Pos())
	if !ml.rng.Pos().IsValid() {
		pos = p.Pos(ml.next.Pos())
	}
	owner := ownerOf(ml.rng.X)
	key := l.Key(rule, fname, "maprange", owner)
	if ml.blocks == nil {
		l.Prove(rule, fname, key, pos, "range over map without back edge (body always leaves)")
		return
	}
	e := ComputeEffects(p)
	var problems []string
	var accs []string
	// 1. loop-carried SSA values
	for _, ins := range ml.header.Instrs {
		ph, ok := ins.(*ssa.Phi)
		if !ok {
			continue
		}
		name := ph.Comment
		if name == "" {
			name = ph.Name()
		}
		kind, detail := ml.accumulatorKind(ph)
		switch kind {
		case "self", "const", "outer":
			// not really accumulated: last-writer-wins of a loop-invariant or constant value
			if kind == "outer" {
				accs = append(accs, name+":=invariant")
			}
		case "sum":
			accs = append(accs, name+":commutative")
		case "append":
			if ok, where := ml.sortedBeforeUse(ph); ok {
				accs = append(accs, name+":append+sort")
			} else {
				problems = append(problems, fmt.Sprintf("accumulator %q (append, not sorted before its use at %s) is carried around the range over %s", name, relPos(p, where), owner))
			}
		default:
			problems = append(problems, fmt.Sprintf("accumulator %q (%s) is carried around the range over %s", name, detail, owner))
		}
	}
	// 1b. a search: the loop is left from its body with something taken from the entry at hand (return key, true on the
	// first match).  Which entry is met first depends on the iteration order, unless at most one entry can match: the map
	// is a package-level literal whose values (and keys) are pairwise distinct constants
	for b := range ml.blocks {
		for _, sb := range b.Succs {
			if ml.blocks[sb] || b == ml.header {
				continue
			}
			r, ok := sb.Instrs[len(sb.Instrs)-1].(*ssa.Return)
			if !ok {
				continue
			}
			carries := false
			for _, res := range r.Results {
				if mentionsNext(res, ml.next, 0) {
					carries = true
				}
			}
			if !carries {
				continue
			}
			if distinct, why := distinctLiteralMap(p, ml.rng.X); !distinct {
				problems = append(problems, fmt.Sprintf("the search at %s returns what the first matching entry of %s holds, and %s: which entry is met first changes from run to run", p.Pos(r.Pos()), owner, why))
			} else {
				accs = append(accs, "search:one-match-at-most")
			}
		}
	}
	// 2. writes to memory that outlives an iteration, and element selection
	for b := range ml.blocks {
		for _, ins := range b.Instrs {
			switch x := ins.(type) {
			case *ssa.Store:
				if a, ok := baseAlloc(x.Addr); ok && ml.blocks[a.Block()] {
					continue // variable local to one iteration
				}
				if _, isConst := x.Val.(*ssa.Const); isConst {
					continue // idempotent
				}
				// a variable held in memory (captured by a closure) used as an append accumulator
				if al, ok := x.Addr.(*ssa.Alloc); ok {
					if ok2, why := ml.memAccumulatorSorted(al, x); ok2 {
						accs = append(accs, al.Comment+":append+sort(mem)")
						continue
					} else if why != "" {
						problems = append(problems, fmt.Sprintf("accumulator %q (%s) is carried around the range over %s", al.Comment, why, owner))
						continue
					}
				}
				loc, _ := locOf(x.Addr)
				problems = append(problems, fmt.Sprintf("store to %s inside the range over %s at %s survives the iteration", loc, owner, p.Pos(x.Pos())))
			case *ssa.MapUpdate:
				// insert into a set/map: commutative unless the stored value depends on an accumulator
				hp := map[ssa.Value]bool{}
				for _, hi := range ml.header.Instrs {
					if ph, ok := hi.(*ssa.Phi); ok {
						hp[ph] = true
					}
				}
				if dependsOn(x.Value, hp, ml.blocks, map[ssa.Value]bool{}) || dependsOn(x.Key, hp, ml.blocks, map[ssa.Value]bool{}) {
					problems = append(problems, fmt.Sprintf("map insert at %s stores a value computed from an order-dependent accumulator", p.Pos(x.Pos())))
				}
			case ssa.CallInstruction:
				c := x.Common()
				if b, ok := c.Value.(*ssa.Builtin); ok {
					_ = b
					continue // append/len/delete/copy: append handled through phis, delete is commutative
				}
				// effects of the callee on memory that is not fresh in this iteration
				in, ext := p.Callees(ml.fn, x)
				for _, callee := range in {
					for _, ef := range sortedEffects(e.Sum[callee].Effects) {
						if strings.HasPrefix(ef.Loc, "map(") || strings.HasPrefix(ef.Loc, "mapdelete(") {
							continue
						}
						ri := parseRoot(ef.Root)
						if strings.HasPrefix(ri.base, "P") {
							k := atoi(ri.base[1:])
							var actuals []ssa.Value
							if c.IsInvoke() {
								actuals = append([]ssa.Value{c.Value}, c.Args...)
							} else {
								actuals = c.Args
							}
							if k >= 0 && k < len(actuals) {
								if a, ok := baseAlloc(actuals[k]); ok && ml.blocks[a.Block()] {
									continue
								}
								if loopFresh(actuals[k], ml.blocks) {
									continue
								}
							}
						}
						problems = append(problems, fmt.Sprintf("call to %s at %s writes %s of outer memory inside the range over %s", FnName(callee), p.Pos(x.Pos()), ef.Loc, owner))
					}
				}
				if ext {
					name := calleeName(c)
					if ct, _ := lookupContract(name); ct.io {
						problems = append(problems, fmt.Sprintf("I/O call %s at %s inside the range over %s", name, p.Pos(x.Pos()), owner))
					}
				}
			}
			// element selection: a loop-defined value used after the loop
			if v, ok := ins.(ssa.Value); ok {
				if _, isPhi := v.(*ssa.Phi); isPhi && ins.Block() == ml.header {
					continue
				}
				for _, ref := range *v.Referrers() {
					if ml.blocks[ref.Block()] {
						continue
					}
					if _, isRet := ref.(*ssa.Return); isRet {
						continue
					}
					problems = append(problems, fmt.Sprintf("value %s computed inside the range over %s is used after the loop at %s (selected by iteration order)", v.Name(), owner, p.Pos(ref.Pos())))
				}
			}
		}
	}
	if len(problems) == 0 {
		l.Prove(rule, fname, key, pos, "loop-carried state is order-insensitive: ["+strings.Join(accs, ", ")+"]")
		return
	}
	l.Fail(rule, fname, key, pos, fname+": "+strings.Join(dedupKeep(problems), "; "))
}

func relPos(p *Prog, s string) string { return strings.TrimPrefix(s, p.Repo+"/") }

func dedupKeep(s []string) []string {
	seen := map[string]bool{}
	var out []string
	for _, x := range s {
		if !seen[x] {
			seen[x] = true
			out = append(out, x)
		}
	}
	return out
}

// baseAlloc follows an address back to the Alloc it is derived from (without loads).
func baseAlloc(v ssa.Value) (*ssa.Alloc, bool) {
	for {
		switch x := v.(type) {
		case *ssa.Alloc:
			return x, true
		case *ssa.FieldAddr:
			v = x.X
		case *ssa.IndexAddr:
			v = x.X
		default:
			return nil, false
		}
	}
}

// loopFresh: v is (a pointer to) an object allocated inside the loop.
func loopFresh(v ssa.Value, loop map[*ssa.BasicBlock]bool) bool {
	switch x := v.(type) {
	case *ssa.Alloc:
		return loop[x.Block()]
	case *ssa.MakeMap:
		return loop[x.Block()]
	case *ssa.MakeSlice:
		return loop[x.Block()]
	case *ssa.Call:
		return loop[x.Block()] // result of a call made in this iteration (summary says fresh or param-derived)
	case *ssa.FieldAddr:
		return loopFresh(x.X, loop)
	case *ssa.IndexAddr:
		return loopFresh(x.X, loop)
	case *ssa.UnOp:
		return false
	}
	return false
}

// ruleMapOrder checks every map-range loop in the writer closure (quick) or the whole package (thorough, informational outside writers).
func ruleMapOrder(p *Prog, l *Ledger, tier string) {
	const rule = "E6.maporder"
	n := 0
	for _, fn := range p.WriterClosure(l, rule) {
		for _, ml := range mapLoops(fn) {
			n++
			checkMapLoop(p, l, rule, ml)
		}
	}
	l.Min(rule, n, 3)
}

// memAccumulatorSorted: st is  v = append(v, …)  on the memory variable al, and every read of al
// after the loop is a total-order sort of it or dominated by one. why == "" means "not this idiom".
func (ml *mapLoop) memAccumulatorSorted(al *ssa.Alloc, st *ssa.Store) (bool, string) {
	c, ok := st.Val.(*ssa.Call)
	if !ok {
		return false, ""
	}
	if b, ok := c.Call.Value.(*ssa.Builtin); !ok || b.Name() != "append" {
		return false, ""
	}
	if u, ok := c.Call.Args[0].(*ssa.UnOp); !ok || u.X != ssa.Value(al) {
		return false, ""
	}
	var sorts []ssa.Instruction
	var reads []ssa.Instruction
	for _, ref := range *al.Referrers() {
		u, ok := ref.(*ssa.UnOp)
		if !ok || ml.blocks[u.Block()] {
			continue
		}
		isSortArg := false
		for _, r2 := range *u.Referrers() {
			var call *ssa.Call
			switch y := r2.(type) {
			case *ssa.Call:
				call = y
			case *ssa.MakeInterface:
				for _, r3 := range *y.Referrers() {
					if cc, ok := r3.(*ssa.Call); ok {
						call = cc
					}
				}
			}
			if call != nil && isSortCall(&call.Call) && stripIface(call.Call.Args[0]) == ssa.Value(u) {
				if ok, why := totalOrderSort(&call.Call); !ok {
					return false, "append, then " + why
				}
				sorts = append(sorts, call)
				isSortArg = true
			}
		}
		if !isSortArg {
			reads = append(reads, u)
		}
	}
	for _, r := range reads {
		// reads before the loop do not matter
		if !instrReaches(st, r) {
			continue
		}
		ok := false
		for _, s := range sorts {
			if instrDominates(s, r) {
				ok = true
			}
		}
		if !ok {
			return false, "append, read at " + ml.fn.Prog.Fset.Position(r.Pos()).String() + " before being sorted"
		}
	}
	return len(sorts) > 0, "append, never sorted"
}

// mentionsNext: v is computed from the key or the value of the iteration step nx.
func mentionsNext(v ssa.Value, nx *ssa.Next, depth int) bool {
	if v == nil || depth > 6 {
		return false
	}
	if ex, ok := v.(*ssa.Extract); ok && ex.Tuple == ssa.Value(nx) {
		return ex.Index >= 1
	}
	if ins, ok := v.(ssa.Instruction); ok {
		if _, isPhi := v.(*ssa.Phi); isPhi && depth > 2 {
			return false
		}
		for _, op := range ins.Operands(nil) {
			if *op != nil && mentionsNext(*op, nx, depth+1) {
				return true
			}
		}
	}
	return false
}

// distinctLiteralMap: m is a package-level map built once from a literal whose keys and values are pairwise distinct
// constants (so an equality test on the value, or on the key, matches one entry at most).
func distinctLiteralMap(p *Prog, m ssa.Value) (bool, string) {
	u, ok := m.(*ssa.UnOp)
	if !ok {
		return false, "the map is not a package-level table"
	}
	gl, ok := u.X.(*ssa.Global)
	if !ok {
		return false, "the map is not a package-level table"
	}
	mk, ok := p.globalInit(gl.Name()).(*ssa.MakeMap)
	if !ok {
		return false, gl.Name() + " is not built from a literal"
	}
	seenV := map[string]bool{}
	for _, r := range *mk.Referrers() {
		mu, ok := r.(*ssa.MapUpdate)
		if !ok {
			continue
		}
		c, ok := stripConv(mu.Value).(*ssa.Const)
		if !ok || c.Value == nil {
			return false, "an entry of " + gl.Name() + " holds a value that is not a constant"
		}
		k := c.Value.ExactString()
		if seenV[k] {
			return false, "several entries of " + gl.Name() + " hold the value " + k
		}
		seenV[k] = true
	}
	return len(seenV) > 0, ""
}
