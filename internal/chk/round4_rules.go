package chk

import (
	"fmt"
	"go/token"
	"go/types"
	"strings"

	"golang.org/x/tools/go/ssa"
)

// ---- E12-G4s emphasis state consulted (SRT twin of E12-G4; added after seeded change C01/1, round 4) --------
// parseTextSrt receives the running bold/italic/underline/colour state of the cue in its
// *StyleAttributes parameter. A line item built without reading that state loses the emphasis opened
// on an earlier line. Rule: every store to Line.Items in parseTextSrt is dominated by a read of a
// field of that parameter, unless it is dominated by the "line is blank" test (an empty run has no
// style).
func ruleSRTStateConsulted(p *Prog, l *Ledger, tier string) {
	const rule = "E12.G4s-srt-state-consulted"
	const name = "parseTextSrt"
	fn := anchor(p, l, rule, name)
	if fn == nil {
		return
	}
	var sa ssa.Value
	for _, prm := range fn.Params {
		if typeStr(prm.Type()) == "*StyleAttributes" {
			sa = prm
		}
	}
	if sa == nil {
		l.Undecide(rule, name, rule+"|param", "", "no *StyleAttributes parameter: the running emphasis state is not passed in any more")
		return
	}
	// reads of the state: loads of fields of sa, or sa handed to a helper / copied as a whole
	var reads []ssa.Instruction
	for _, b := range fn.Blocks {
		for _, ins := range b.Instrs {
			switch x := ins.(type) {
			case *ssa.UnOp:
				if x.Op == token.MUL {
					if fa, ok := x.X.(*ssa.FieldAddr); ok && fa.X == sa {
						reads = append(reads, x)
					}
					if x.X == sa {
						reads = append(reads, x)
					}
				}
			case *ssa.Call:
				for _, a := range x.Call.Args {
					if a == sa {
						reads = append(reads, x)
					}
				}
			}
		}
	}
	// the fields of the state, and where each is read ("*": the whole state is read or handed on)
	stateFields := strset{}
	readsOf := map[string][]ssa.Instruction{}
	for _, b := range fn.Blocks {
		for _, ins := range b.Instrs {
			switch x := ins.(type) {
			case *ssa.Store:
				if fa, ok := x.Addr.(*ssa.FieldAddr); ok && fa.X == sa {
					stateFields.add(fieldName(fa.X.Type(), fa.Field))
				}
			case *ssa.UnOp:
				if x.Op == token.MUL {
					if fa, ok := x.X.(*ssa.FieldAddr); ok && fa.X == sa {
						f := fieldName(fa.X.Type(), fa.Field)
						readsOf[f] = append(readsOf[f], x)
					}
					if x.X == sa {
						readsOf["*"] = append(readsOf["*"], x)
					}
				}
			case *ssa.Call:
				for _, a := range x.Call.Args {
					if a == sa {
						readsOf["*"] = append(readsOf["*"], x)
					}
				}
			}
		}
	}
	n := 0
	for _, b := range fn.Blocks {
		for i, ins := range b.Instrs {
			st, ok := ins.(*ssa.Store)
			if !ok {
				continue
			}
			if t, f := fieldOfAddr(st.Addr); t != "Line" || f != "Items" {
				continue
			}
			n++
			key := l.Key(rule, name, "add-items", "Line.Items")
			ok2 := false
			for _, r := range reads {
				if r.Block() == b {
					for j, x := range b.Instrs {
						if x == r && j < i {
							ok2 = true
						}
					}
				} else if r.Block().Dominates(b) {
					ok2 = true
				}
			}
			blank := false
			for _, dc := range dominatingConds(b) {
				bo, ok := dc.cond.(*ssa.BinOp)
				if !ok || bo.Op != token.EQL || !dc.taken {
					continue
				}
				if c, ok := bo.X.(*ssa.Call); ok && calleeName(&c.Call) == "strings.TrimSpace" {
					if s, ok := constStr(bo.Y); ok && s == "" {
						blank = true
					}
				}
			}
			// every field of the running state (the fields the tag handlers store to) is read on every
			// path to the addition: a fast path that looks at some of them only loses the others
			missing := ""
			if ok2 && !blank {
				for _, f := range stateFields.sorted() {
					if pathAvoidingReads(fn, b, i, readsOf[f], readsOf["*"]) {
						missing = f
						break
					}
				}
			}
			switch {
			case ok2 && missing != "":
				l.Fail(rule, name, key, p.Pos(st.Pos()), fmt.Sprintf("%s adds items to the line at %s on a path that never reads %s of the running emphasis state (other fields of it are read): a run inside a span that only sets %s, opened on an earlier line, loses that markup", name, p.Pos(st.Pos()), f2s(missing), f2s(missing)))
			case ok2:
				l.Prove(rule, name, key, p.Pos(st.Pos()), "the addition of line items is dominated by a read of the running style state, and every field of that state is read on every path to it")
			case blank:
				l.Prove(rule, name, key, p.Pos(st.Pos()), "items added for a blank line: no text, no style needed")
			default:
				l.Fail(rule, name, key, p.Pos(st.Pos()), fmt.Sprintf("%s adds items to the line at %s on a path that never reads the running emphasis state (its *StyleAttributes parameter): a line without markup inside a <b>/<i>/<u>/<font> span opened on an earlier line loses that markup", name, p.Pos(st.Pos())))
			}
		}
	}
	l.Min(rule, n, 2)
}

// ---- E12-G8 unknown SSA sections are ignored (added after seeded change C04/2, round 4) ----------------------
// In the scanner loop of ReadFromSSAWithOptions every instruction that records content of the current
// line (stores into the script-info block, calls of its parse method, construction of styles and
// events) is dominated by a condition that excludes the unknown section: the false edge of
// sectionName == "unknown" or the true edge of sectionName == <a known name>.
func ruleSSAUnknownSectionIgnored(p *Prog, l *Ledger, tier string) {
	const rule = "E12.G8-ssa-unknown-section"
	const name = "ReadFromSSAWithOptions"
	fn := anchor(p, l, rule, name)
	if fn == nil {
		return
	}
	unknown := ""
	if c, ok := p.Lib.Types.Scope().Lookup("ssaSectionNameUnknown").(*types.Const); ok {
		unknown = strings.Trim(c.Val().ExactString(), "\"")
	}
	if unknown == "" {
		l.Undecide(rule, name, rule+"|const", "", "constant ssaSectionNameUnknown not found")
		return
	}
	loops := loopsOf(fn)
	inLoop := func(b *ssa.BasicBlock) bool {
		for _, li := range loops {
			if li.blocks[b] {
				return true
			}
		}
		return false
	}
	n := 0
	for _, b := range fn.Blocks {
		if !inLoop(b) {
			continue
		}
		for _, ins := range b.Instrs {
			what := ""
			switch x := ins.(type) {
			case *ssa.Store:
				if t, f := fieldOfAddr(x.Addr); t == "ssaScriptInfo" {
					what = "store to ssaScriptInfo." + f
				}
			case *ssa.Call:
				if sc := x.Call.StaticCallee(); sc != nil {
					switch FnName(sc) {
					case "ssaScriptInfo.parse", "newSSAEventFromString", "newSSAStyleFromString":
						what = "call of " + FnName(sc)
					}
				}
			}
			if what == "" {
				continue
			}
			n++
			key := l.Key(rule, name, "content-site", what)
			excluded := false
			for _, dc := range dominatingConds(b) {
				bo, ok := dc.cond.(*ssa.BinOp)
				if !ok || (bo.Op != token.EQL && bo.Op != token.NEQ) {
					continue
				}
				s, ok := constStr(bo.Y)
				if !ok {
					if s, ok = constStr(bo.X); !ok {
						continue
					}
				}
				eq := (bo.Op == token.EQL) == dc.taken // the section name equals s on this path
				if (s == unknown && !eq) || (s != unknown && eq && strings.HasPrefix(typeStr(bo.X.Type()), "string")) {
					excluded = true
				}
			}
			if excluded {
				l.Prove(rule, name, key, p.Pos(ins.Pos()), what+" only runs when the current section is not the unknown one")
			} else {
				l.Fail(rule, name, key, p.Pos(ins.Pos()), fmt.Sprintf("%s: %s is reachable while the current section is unknown ([Fonts], [Graphics], anything the library does not model): content of such sections (a data line starting with ';') ends up in the cue list's metadata and is written back under [Script Info]", name, what))
			}
		}
	}
	l.Min(rule, n, 4)
}

// ---- E12-G9 a teletext page instance starts with the header that opens it (seeded change C06/1, round 4) ------
// parsePacketHeader sets receiving = true when a header of the selected page arrives; the cue built
// from the rows that follow takes its start from the page object current at that moment. Rule:
// every store of true into `receiving` is followed, in the same straight-line code, by a store into
// `currentPage` of a page created with the time parameter of this header.
func ruleTeletextPageStart(p *Prog, l *Ledger, tier string) {
	const rule = "E12.G9-teletext-page-start"
	const name = "teletextPageBuffer.parsePacketHeader"
	fn := anchor(p, l, rule, name)
	if fn == nil {
		return
	}
	var tparam ssa.Value
	for _, prm := range fn.Params {
		if typeStr(prm.Type()) == "Time" || strings.HasSuffix(prm.Type().String(), "time.Time") {
			tparam = prm
		}
	}
	n := 0
	for _, b := range fn.Blocks {
		for _, ins := range b.Instrs {
			st, ok := ins.(*ssa.Store)
			if !ok {
				continue
			}
			if _, f := fieldOfAddr(st.Addr); f != "receiving" {
				continue
			}
			if c, ok := st.Val.(*ssa.Const); !ok || c.Value == nil || c.Value.ExactString() != "true" {
				continue
			}
			n++
			key := l.Key(rule, name, "receiving", "")
			fresh := false
			for x, k := b, 0; x != nil && k < 4; k++ {
				for _, j := range x.Instrs {
					s2, ok := j.(*ssa.Store)
					if !ok {
						continue
					}
					if _, f := fieldOfAddr(s2.Addr); f != "currentPage" {
						continue
					}
					if c, ok := s2.Val.(*ssa.Call); ok {
						for _, a := range c.Call.Args {
							if a == tparam {
								fresh = true
							}
						}
					}
				}
				if len(x.Succs) == 1 {
					x = x.Succs[0]
				} else {
					x = nil
				}
			}
			if fresh {
				l.Prove(rule, name, key, p.Pos(st.Pos()), "reception starts on a page created with this header's time")
			} else {
				l.Fail(rule, name, key, p.Pos(st.Pos()), name+": reception is switched on without installing a page created with this header's time: the rows that follow are added to an older page object, and the cue they form starts at that older header's time")
			}
		}
	}
	l.Min(rule, n, 1)
}

// ---- E3c-R4 writers truncate (added after seeded change C07/2, round 4) ----------------------------------------
// "Each writer renders a cue boundary as the latest representable instant not after it": in the
// functions that format timestamps – and in everything else the writers reach (a boundary rounded
// before it is handed to the formatter is rounded all the same) – nothing rounds to nearest or up:
// no (time.Duration).Round, no math.Round / math.Ceil / RoundToEven.
var formatterRoots = []string{"formatDuration", "formatDurationSRT", "formatDurationWebVTT", "formatDurationSSA", "formatDurationSTL", "formatDurationSTLBytes", "TTMLOutDuration.MarshalText"}

func ruleWritersTruncate(p *Prog, l *Ledger, tier string) {
	const rule = "E3c.R4-writers-truncate"
	var roots []*ssa.Function
	for _, n := range formatterRoots {
		if fn := anchor(p, l, rule, n); fn != nil {
			roots = append(roots, fn)
		}
	}
	n := 0
	scope := p.Closure(roots)
	seenFn := map[*ssa.Function]bool{}
	for _, fn := range scope {
		seenFn[fn] = true
	}
	for _, fn := range p.WriterClosure(l, rule) {
		if !seenFn[fn] {
			seenFn[fn] = true
			scope = append(scope, fn)
		}
	}
	for _, fn := range scope {
		if fnPkg(fn) != p.LibSSA || FnName(fn) == "init" {
			continue
		}
		n++
		name := FnName(fn)
		bad := ""
		for _, b := range fn.Blocks {
			for _, ins := range b.Instrs {
				c, ok := ins.(*ssa.Call)
				if !ok {
					continue
				}
				switch cn := calleeName(&c.Call); cn {
				case "(time.Duration).Round", "math.Round", "math.RoundToEven", "math.Ceil":
					bad = cn + " at " + p.Pos(c.Pos())
				}
			}
		}
		key := l.Key(rule, name, "rounding", "")
		if bad == "" {
			l.Prove(rule, name, key, "", "no rounding to nearest / upwards in "+name)
		} else {
			l.Fail(rule, name, key, "", fmt.Sprintf("%s uses %s while formatting a timestamp: an instant just below the next unit is rendered as that next unit (later than the instant; at x.9995 s the fraction even becomes 1000 without carrying)", name, bad))
		}
	}
	l.Min(rule, n, len(formatterRoots))
}

func f2s(f string) string { return "field " + f }

// pathAvoidingReads: some path from the function's entry to instruction #idx of block target passes
// none of the given reads.
func pathAvoidingReads(fn *ssa.Function, target *ssa.BasicBlock, idx int, reads ...[]ssa.Instruction) bool {
	readAt := map[*ssa.BasicBlock]int{} // smallest index of a read in the block
	for _, rs := range reads {
		for _, r := range rs {
			k := instrIndex(r)
			if old, ok := readAt[r.Block()]; !ok || k < old {
				readAt[r.Block()] = k
			}
		}
	}
	seen := map[*ssa.BasicBlock]bool{}
	var dfs func(b *ssa.BasicBlock) bool
	dfs = func(b *ssa.BasicBlock) bool {
		if seen[b] {
			return false
		}
		seen[b] = true
		k, has := readAt[b]
		if b == target {
			return !has || k > idx
		}
		if has {
			return false
		}
		for _, s := range b.Succs {
			if dfs(s) {
				return true
			}
		}
		return false
	}
	return dfs(fn.Blocks[0])
}
