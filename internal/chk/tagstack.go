package chk

import (
	"fmt"
	"go/token"

	"golang.org/x/tools/go/ssa"
)

// ---- E12-G4 open-tag stack consulted (added after seeded change C02/2) ------------------------------
// parseTextWebVTT parses one text line of a cue; the tags opened on earlier lines of the same cue
// are carried in sa.WebVTTTags. A line item created without looking at that stack loses the tags
// that are open around it. Rule: every instruction of parseTextWebVTT that adds to the Items of the
// line being built is dominated by a read of sa.WebVTTTags (must-pass-through on the dominator
// tree). The rule does not decide what is done with the stack once read.
func ruleTagStackConsulted(p *Prog, l *Ledger, tier string) {
	const rule = "E12.G4-tag-stack-consulted"
	const name = "parseTextWebVTT"
	fn := anchor(p, l, rule, name)
	if fn == nil {
		return
	}
	// the *StyleAttributes parameter
	var sa ssa.Value
	for _, prm := range fn.Params {
		if typeStr(prm.Type()) == "*StyleAttributes" {
			sa = prm
		}
	}
	if sa == nil {
		l.Undecide(rule, name, rule+"|"+name+"|param", "", "no *StyleAttributes parameter: the open-tag stack is not passed in any more")
		return
	}
	type site struct {
		b   *ssa.BasicBlock
		idx int
	}
	var reads []site
	var adds []ssa.Instruction
	for _, b := range fn.Blocks {
		for i, ins := range b.Instrs {
			switch x := ins.(type) {
			case *ssa.UnOp:
				if x.Op == token.MUL {
					if fa, ok := x.X.(*ssa.FieldAddr); ok && fa.X == sa {
						if _, f := fieldOfAddr(fa); f == "WebVTTTags" {
							reads = append(reads, site{b, i})
						}
					}
				}
			case *ssa.Store:
				if t, f := fieldOfAddr(x.Addr); t == "Line" && f == "Items" {
					adds = append(adds, x)
				}
			}
		}
	}
	for _, st := range adds {
		key := l.Key(rule, name, "add-items", "Line.Items")
		ok := false
		for _, r := range reads {
			if r.b == st.Block() {
				for i, ins := range r.b.Instrs {
					if ins == st && r.idx < i {
						ok = true
					}
				}
			} else if r.b.Dominates(st.Block()) {
				ok = true
			}
		}
		if ok {
			l.Prove(rule, name, key, p.Pos(st.Pos()), "the addition of line items is dominated by a read of sa.WebVTTTags")
		} else {
			l.Fail(rule, name, key, p.Pos(st.Pos()), fmt.Sprintf("%s adds items to the line at %s on a path that never reads sa.WebVTTTags: text inside a tag opened on an earlier line of the cue loses that tag", name, p.Pos(st.Pos())))
		}
	}
	l.Min(rule, len(adds), 1)
}
