package chk

import (
	"go/types"
	"strings"

	"golang.org/x/tools/go/ssa"
)

// elemsOf: roots/cells of the elements held by a slice/map value v (one load).
func (s *fnState) elemsOf(v ssa.Value) (strset, cellset) {
	r := deepenSet(s.roots[v])
	cr, cc := s.contentOf(s.cells[v])
	r.addAll(cr)
	return r, cc
}

// call applies the effect of a call instruction. res receives the result (nil for go/defer).
func (e *Effects) call(fn *ssa.Function, s *fnState, sum *Summary, site ssa.CallInstruction, res ssa.Value) {
	c := site.Common()
	where := FnName(fn)
	for _, a := range c.Args {
		e.operandFacts(s, a)
	}
	e.operandFacts(s, c.Value)
	if b, ok := c.Value.(*ssa.Builtin); ok {
		e.builtin(fn, s, b.Name(), site, res)
		return
	}
	var actuals []ssa.Value
	if c.IsInvoke() {
		actuals = append([]ssa.Value{c.Value}, c.Args...)
	} else {
		actuals = c.Args
	}
	in, ext := e.p.Callees(fn, site)
	for _, callee := range in {
		e.applySummary(fn, s, sum, site, res, callee, actuals)
	}
	if !ext {
		return
	}
	name := calleeName(c)
	_, listed := contracts[name]
	if name == "dynamic" || (c.IsInvoke() && !listed) {
		// a func value / interface implementation supplied from outside the package may write
		// whatever it is handed
		for _, a := range actuals {
			if !isRefType(a.Type()) {
				continue
			}
			r, cs := s.subst(rootInfo{base: "P", deep: true}, a)
			r.addAll(s.roots[a])
			delete(r, "U")
			delete(r, "U+")
			e.emit(fn, s, r, "callback("+typeStr(c.Value.Type())+")", "", site.Pos(), where, "", nil)
			s.taint(cs, strset{"U": true})
			s.taint(s.cells[a], strset{"U": true})
		}
		if res != nil && isRefType(res.Type()) {
			s.addRoot(res, "U")
		}
		return
	}
	ct, known := lookupContract(name)
	if !known {
		if sum.Unknown.add(name) {
			s.changed = true
		}
	}
	args := actuals
	shift := 0
	if c.IsInvoke() {
		shift = 1 // contract indexes are positions in Args; the receiver sits at -1
	}
	if res != nil && isRefType(res.Type()) {
		switch ct.ret {
		case retFresh:
			s.addCell(res, res)
		case retAlias, retUnknown:
			for _, a := range args {
				if isRefType(a.Type()) {
					s.inherit(res, a)
					er, ec := s.elemsOf(a)
					s.addRoots(res, er)
					s.addCells(res, ec)
				}
			}
			s.addCell(res, res)
			if ct.ret == retUnknown {
				s.addRoot(res, "U")
			}
		case retHold:
			s.addCell(res, res)
			for _, a := range args {
				if isRefType(a.Type()) {
					s.storeCells(res, s.roots[a], s.cells[a], a.Type())
				}
			}
		}
	}
	for _, w := range ct.writes {
		idx := w + shift
		if idx < 0 || idx >= len(args) {
			continue
		}
		a := args[idx]
		all := strset{}
		if !ct.copies {
			for j, o := range args {
				if j != idx && isRefType(o.Type()) {
					all.addAll(s.roots[o])
				}
			}
		}
		s.storeCells(a, all, nil, nil)
		if len(s.roots[a]) > 0 {
			e.emit(fn, s, s.roots[a], "extwrite("+name+")", "", site.Pos(), where, "", all)
		}
	}
	if ct.io && len(args) > 0 {
		// I/O through the receiver reaches whatever stream it holds
		r, _ := s.subst(rootInfo{base: "P", deep: true}, args[0])
		r.addAll(s.roots[args[0]])
		e.emit(fn, s, r, "io("+name+")", "", site.Pos(), where, "", nil)
	}
	if ct.hasPerm && ct.permute < len(args) {
		a := args[ct.permute]
		t := a.Type()
		if mi, ok := a.(*ssa.MakeInterface); ok {
			t = mi.X.Type()
		}
		if len(s.roots[a]) > 0 {
			e.emit(fn, s, s.roots[a], "permute("+typeStr(t)+")", typeStr(t), site.Pos(), where, "", nil)
		}
	}
	if ct.global != "" {
		e.emit(fn, s, strset{"G:" + ct.global: true}, "ext("+name+")", "", site.Pos(), where, "", nil)
	}
	if ct.ret == retUnknown {
		for _, a := range args {
			if !isRefType(a.Type()) {
				continue
			}
			r, cs := s.subst(rootInfo{base: "P", deep: true}, a)
			r.addAll(s.roots[a])
			delete(r, "U")
			delete(r, "U+")
			e.emit(fn, s, r, "unknown-callee("+name+")", "", site.Pos(), where, "", nil)
			s.taint(cs, strset{"U": true})
			s.taint(s.cells[a], strset{"U": true})
		}
	}
}

func (e *Effects) builtin(fn *ssa.Function, s *fnState, name string, site ssa.CallInstruction, res ssa.Value) {
	c := site.Common()
	where := FnName(fn)
	switch name {
	case "append":
		a, bb := c.Args[0], c.Args[1]
		if res != nil {
			s.inherit(res, a)
			s.addCell(res, site.(ssa.Value))
		}
		elemRef := false
		if sl, ok := a.Type().Underlying().(*types.Slice); ok {
			elemRef = isRefType(sl.Elem())
		}
		var br strset
		if elemRef {
			ar, ac := s.elemsOf(a)
			br2, bc := s.elemsOf(bb)
			br = br2
			if res != nil {
				all := strset{}
				all.addAll(ar)
				all.addAll(br2)
				ac.addAll(bc)
				s.storeCells(res, all, ac, a.Type().Underlying().(*types.Slice).Elem())
			}
		}
		if len(s.roots[a]) > 0 {
			e.emit(fn, s, s.roots[a], "elem("+typeStr(a.Type())+")", typeStr(a.Type()), site.Pos(), where, "", br)
		}
	case "copy":
		dst, src := c.Args[0], c.Args[1]
		var vr strset
		if sl, ok := dst.Type().Underlying().(*types.Slice); ok && isRefType(sl.Elem()) {
			er, ec := s.elemsOf(src)
			s.storeCells(dst, er, ec, sl.Elem())
			vr = er
		}
		if len(s.roots[dst]) > 0 {
			e.emit(fn, s, s.roots[dst], "elem("+typeStr(dst.Type())+")", typeStr(dst.Type()), site.Pos(), where, "", vr)
		}
	case "delete":
		m := c.Args[0]
		if len(s.roots[m]) > 0 {
			e.emit(fn, s, s.roots[m], "mapdelete("+ownerOf(m)+")", typeStr(m.Type()), site.Pos(), where, "", nil)
		}
	case "clear":
		m := c.Args[0]
		if len(s.roots[m]) > 0 {
			e.emit(fn, s, s.roots[m], "clear("+ownerOf(m)+")", typeStr(m.Type()), site.Pos(), where, "", nil)
		}
	}
}

// applySummary instantiates callee's summary at a call site.
func (e *Effects) applySummary(fn *ssa.Function, s *fnState, sum *Summary, site ssa.CallInstruction, res ssa.Value, callee *ssa.Function, actuals []ssa.Value) {
	cs := e.Sum[callee]
	if cs == nil {
		return
	}
	sum.GlobalsRead.addAll(cs.GlobalsRead)
	if sum.Unknown.addAll(cs.Unknown) {
		s.changed = true
	}
	var bindings []ssa.Value
	if mc, ok := site.Common().Value.(*ssa.MakeClosure); ok {
		bindings = mc.Bindings
	}
	// actualOf: (value, relative?) for a callee-relative root base
	actualOf := func(base string) (ssa.Value, bool) {
		if len(base) > 2 && base[:2] == "FV" {
			if k := atoi(base[2:]); k >= 0 && k < len(bindings) {
				return bindings[k], true
			}
			return nil, true
		}
		if len(base) > 1 && base[0] == 'P' {
			if k := atoi(base[1:]); k >= 0 {
				if k < len(actuals) {
					return actuals[k], true
				}
				return nil, true
			}
		}
		return nil, false
	}
	// wValue: the value of captured variable k of the closure called here (nil sets when unknown)
	wValue := func(base string) (strset, cellset, bool) {
		if len(base) > 1 && base[0] == 'W' {
			if k := atoi(base[1:]); k >= 0 && k < len(bindings) {
				A, C := s.cellValue(bindings[k])
				return A, C, true
			}
			return nil, nil, true
		}
		return nil, nil, false
	}
	substSet := func(v strset) (strset, cellset) {
		r, c := strset{}, cellset{}
		for root := range v {
			ri := parseRoot(root)
			if A, C, isW := wValue(ri.base); isW {
				if A != nil || C != nil {
					ar, ac := s.substFS(ri, A, C, "", nil)
					r.addAll(ar)
					c.addAll(ac)
				}
				continue
			}
			if a, rel := actualOf(ri.base); rel {
				if a != nil {
					ar, ac := s.subst(ri, a)
					r.addAll(ar)
					c.addAll(ac)
				}
				continue
			}
			r.add(root)
		}
		return r, c
	}
	via := FnName(callee)
	// a visitor helper called here with a function literal: what the helper does through its callback parameter is what
	// this literal does, not what the literals other callers hand to the same helper do
	notHere := map[string]bool{}
	for k, par := range callee.Params {
		if _, isSig := par.Type().Underlying().(*types.Signature); !isSig || k >= len(actuals) {
			continue
		}
		mc, ok := actuals[k].(*ssa.MakeClosure)
		if !ok {
			continue
		}
		here, _ := mc.Fn.(*ssa.Function)
		for _, cb := range callee.Blocks {
			for _, ci := range cb.Instrs {
				dc, ok := ci.(ssa.CallInstruction)
				if !ok || dc.Common().Value != ssa.Value(par) {
					continue
				}
				targets, _ := e.p.Callees(callee, dc)
				for _, t := range targets {
					if t != here && t.Parent() != nil {
						notHere[FnName(t)] = true
					}
				}
			}
		}
		if here != nil {
			delete(notHere, FnName(here))
		}
	}
	for _, ef := range sortedEffects(cs.Effects) {
		if len(notHere) > 0 && (notHere[ef.Fn] || viaMentions(ef.Via, notHere)) {
			continue
		}
		v2 := via
		if ef.Via != "" {
			v2 = via + ">" + ef.Via
		}
		ri := parseRoot(ef.Root)
		wA, wC, isW := wValue(ri.base)
		if a, rel := actualOf(ri.base); rel || isW {
			if (isW && wA == nil && wC == nil) || (!isW && a == nil) {
				continue // FV effects of closures not created here are accounted at MakeClosure
			}
			var ar strset
			var ac cellset
			if isW {
				ar, ac = s.substFS(ri, wA, wC, ef.CT, e)
			} else {
				ar, ac = s.substF(ri, a, ef.CT, e)
			}
			vr, vc := substSet(ef.Val)
			// a write through the pointer parameter itself (*p = …): when the actual is the address of a field
			// (directly, or taken from a local table of field addresses), the location written is that field
			locs := [][2]string{{ef.Loc, ef.CT}}
			if !isW && strings.HasPrefix(ef.Loc, "deref(") && ri.field == "" && !ri.deep && !ri.value {
				named := true
				ls := locsOf(a, 0)
				for _, lc := range ls {
					if strings.HasPrefix(lc[0], "deref(") {
						named = false
					}
				}
				if named && len(ls) > 0 {
					locs = ls
				}
			}
			// a store into a map received as a parameter: when the actual is a field of a struct (s.Regions), the map
			// written is that field's, and the effect is named after the field as if the store were made here
			if !isW && ri.field == "" && !ri.value {
				for _, pre := range []string{"map(", "mapdelete(", "clear("} {
					if strings.HasPrefix(ef.Loc, pre) && strings.TrimSuffix(strings.TrimPrefix(ef.Loc, pre), ")") == typeStr(a.Type()) {
						if own := ownerOf(a); own != typeStr(a.Type()) && strings.Contains(own, ".") && !strings.ContainsAny(own, "[]*(/") {
							locs = [][2]string{{pre + own + ")", ef.CT}}
						}
					}
				}
			}
			for _, lc := range locs {
				e.emit(fn, s, ar, lc[0], lc[1], ef.Pos, ef.Fn, v2, vr, ef.ValT.sorted()...)
				s.storeRegion(ar, lc[0], vr, vc)
			}
			for cc := range ac {
				s.touch(cc)
				for r := range vr {
					for vt := range ef.ValT {
						s.putContent(cc, storedForm(r), vt)
					}
				}
				if s.cellContent[cc].addAll(vc) {
					s.changed = true
				}
			}
			continue
		}
		e.emit(fn, s, strset{ef.Root: true}, ef.Loc, ef.CT, ef.Pos, ef.Fn, v2, nil)
	}
	if res != nil && isRefType(res.Type()) {
		dr, dc := substSet(cs.RetDirect)
		s.addRoots(res, dr)
		s.addCells(res, dc)
		if cs.RetFresh {
			// import the callee's returned allocation sites (and everything fresh they reach)
			// into this activation, translating parameter-relative contents
			cst := e.st[callee]
			s.addCells(res, cs.RetCells)
			_, reach := cst.reachCells(cs.RetCells)
			bases := map[ssa.Value]bool{}
			for c := range reach {
				bases[c.v] = true
			}
			for b := range bases {
				for _, rc := range cst.byBase[b] {
					s.touch(rc)
					for r, vts := range cst.ctype[rc] {
						ri := parseRoot(r)
						if A, C, isW := wValue(ri.base); isW {
							if A != nil || C != nil {
								ar, ac := s.substFS(ri, A, C, "", nil)
								for r2 := range ar {
									for vt := range vts {
										s.putContent(rc, storedForm(r2), vt)
									}
								}
								if s.cellContent[rc].addAll(ac) {
									s.changed = true
								}
							}
							continue
						}
						if a, rel := actualOf(ri.base); rel {
							if a != nil {
								ar, ac := s.subst(ri, a)
								for r2 := range ar {
									for vt := range vts {
										s.putContent(rc, storedForm(r2), vt)
									}
								}
								if s.cellContent[rc].addAll(ac) {
									s.changed = true
								}
							}
							continue
						}
						for vt := range vts {
							s.putContent(rc, r, vt)
						}
					}
					if s.cellContent[rc].addAll(cst.cellContent[rc]) {
						s.changed = true
					}
				}
			}
		}
	}
}

// viaMentions: the call chain of an effect goes through one of the named functions.
func viaMentions(via string, names map[string]bool) bool {
	if via == "" {
		return false
	}
	for _, part := range strings.Split(via, ">") {
		if names[part] {
			return true
		}
	}
	return false
}
