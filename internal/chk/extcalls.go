package chk

import (
	"fmt"
	"sort"

	"golang.org/x/tools/go/ssa"
)

// calleeName gives the contract-table name of a call: "strings.Split", "(*bufio.Scanner).Scan",
// "invoke io.Writer.Write", "builtin append", "dynamic" for calls of func values.
func calleeName(c *ssa.CallCommon) string {
	if c.IsInvoke() {
		return "invoke " + c.Method.FullName()
	}
	switch v := c.Value.(type) {
	case *ssa.Builtin:
		return "builtin " + v.Name()
	case *ssa.Function:
		return v.String()
	case *ssa.MakeClosure:
		return v.Fn.(*ssa.Function).String()
	}
	return "dynamic"
}

// inScope reports whether fn is a source function of the library or CLI.
func (p *Prog) inScope(fn *ssa.Function) bool {
	if fn == nil || fn.Blocks == nil {
		return false
	}
	if p.isWrapper[fn] {
		return true
	}
	pk := fnPkg(fn)
	return pk == p.LibSSA || pk == p.CLISSA
}

// Callees resolves the possible callees of a call instruction: the static callee, or the
// call-graph (VTA) targets of that site. ext is true when no in-scope target exists.
func (p *Prog) Callees(fn *ssa.Function, site ssa.CallInstruction) (in []*ssa.Function, ext bool) {
	c := site.Common()
	if sc := c.StaticCallee(); sc != nil {
		if p.inScope(sc) {
			return []*ssa.Function{sc}, false
		}
		return nil, true
	}
	if _, ok := c.Value.(*ssa.Builtin); ok {
		return nil, true
	}
	n := p.CG.Nodes[fn]
	seen := map[*ssa.Function]bool{}
	anyExt := false
	if n != nil {
		for _, e := range n.Out {
			if e.Site != site {
				continue
			}
			t := e.Callee.Func
			if p.inScope(t) {
				if !seen[t] {
					seen[t] = true
					in = append(in, t)
				}
			} else {
				anyExt = true
			}
		}
	}
	sort.Slice(in, func(i, j int) bool { return in[i].String() < in[j].String() })
	if len(in) == 0 {
		return nil, true
	}
	return in, anyExt
}

// dumpExtCalls lists every external callee name used by in-scope functions.
func dumpExtCalls(p *Prog) {
	cnt := map[string]int{}
	where := map[string]string{}
	for _, fn := range append(append([]*ssa.Function{}, p.LibFns...), p.CLIFns...) {
		for _, b := range fn.Blocks {
			for _, ins := range b.Instrs {
				site, ok := ins.(ssa.CallInstruction)
				if !ok {
					continue
				}
				in, ext := p.Callees(fn, site)
				if len(in) > 0 && !ext {
					continue
				}
				n := calleeName(site.Common())
				cnt[n]++
				where[n] = FnName(fn)
			}
		}
	}
	var names []string
	for n := range cnt {
		names = append(names, n)
	}
	sort.Strings(names)
	for _, n := range names {
		fmt.Printf("%4d %-60s e.g. %s\n", cnt[n], n, where[n])
	}
}
