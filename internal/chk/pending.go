package chk

import (
	"fmt"
	"go/token"
	"go/types"
	"strings"

	"golang.org/x/tools/go/ssa"
)

// ---- E13-I12 a pending element is used before it is replaced (added after seeded change C04/1, round 4) --------
// ssaEvent.item walks the override blocks of a line; the block met in one iteration is kept in a
// variable (a run under construction, or its style) and turned into a run when the next block – or
// the end of the line – is reached. If some way round the loop replaces that variable without
// having used the old value, the override block it held is lost (two adjacent blocks: the first
// one). Rule: for every loop-carried pointer that is re-assigned a fresh object in the loop, there
// is no cycle through the loop that avoids every use of the old value, not counting the edges taken
// because the pointer is nil (nothing is pending then).
func rulePendingFlushed(names ...string) func(p *Prog, l *Ledger, tier string) {
	return func(p *Prog, l *Ledger, tier string) {
		const rule = "E13.I12-pending-flushed"
		n := 0
		for _, name := range names {
			fn := anchor(p, l, rule, name)
			if fn == nil {
				continue
			}
			for _, li := range loopsOf(fn) {
				for _, ins := range li.header.Instrs {
					ph, ok := ins.(*ssa.Phi)
					if !ok {
						break
					}
					_, isPtr := ph.Type().Underlying().(*types.Pointer)
					isStr := isStringT(ph.Type())
					if !isPtr && !isStr {
						continue
					}
					// replaced by a fresh object inside the loop? (a new allocation; for a pending string, a
					// substring cut out in this trip, the variable starting empty)
					fresh := false
					var walkEdge func(e ssa.Value, seen map[ssa.Value]bool)
					walkEdge = func(e ssa.Value, seen map[ssa.Value]bool) {
						if seen[e] {
							return
						}
						seen[e] = true
						switch x := e.(type) {
						case *ssa.Alloc:
							if isPtr && li.blocks[x.Block()] {
								fresh = true
							}
						case *ssa.Slice:
							if isStr && li.blocks[x.Block()] {
								fresh = true
							}
						case *ssa.Phi:
							if x != ph {
								for _, e2 := range x.Edges {
									walkEdge(e2, seen)
								}
							}
						}
					}
					for i, e := range ph.Edges {
						if !li.blocks[li.header.Preds[i]] {
							if isStr {
								if s0, ok := constStr(e); !ok || s0 != "" {
									fresh = false
									break
								}
							}
							continue
						}
						walkEdge(e, map[ssa.Value]bool{})
					}
					if !fresh {
						continue
					}
					n++
					key := l.Key(rule, name, "pending", phiName(ph))
					useBlock := map[*ssa.BasicBlock]bool{}
					for _, ref := range *ph.Referrers() {
						if bo, ok := ref.(*ssa.BinOp); ok && (bo.Op == token.EQL || bo.Op == token.NEQ) {
							continue
						}
						if _, ok := ref.(*ssa.Phi); ok {
							continue
						}
						if li.blocks[ref.Block()] {
							useBlock[ref.Block()] = true
						}
					}
					if useBlock[li.header] {
						l.Prove(rule, name, key, loopPos(p, li), "the pending value is used in the loop header")
						continue
					}
					path := pendingFreeCycle(li, ph, useBlock)
					if path == nil {
						l.Prove(rule, name, key, loopPos(p, li), fmt.Sprintf("every way round the loop uses the pending %s before it is replaced (or it is nil)", phiName(ph)))
					} else {
						l.Fail(rule, name, key, blockPos(p, path[len(path)-1]), fmt.Sprintf("%s: the loop at %s can replace the pending %s without having used the previous one (through %s): what it held – an override block directly followed by another one – is dropped from the model and from anything written back", name, loopPos(p, li), phiName(ph), blockPos(p, path[len(path)-1])))
					}
				}
			}
		}
		if n == 0 {
			// idiom-conditional: without a loop-carried pointer that is replaced by a fresh object there
			// is no pending element to lose (the runs are then built some other way, which this rule
			// says nothing about)
			l.Prove(rule, "", rule+"|idiom-absent", "", "idiom-absent: no loop-carried pointer is replaced by a fresh object in "+strings.Join(names, ", "))
		}
	}
}

// pendingFreeCycle: a path header → … → header that enters no block using ph; edges taken because
// ph == nil are not followed.
func pendingFreeCycle(li *loopInfo, ph *ssa.Phi, useBlock map[*ssa.BasicBlock]bool) []*ssa.BasicBlock {
	nilEdge := func(b *ssa.BasicBlock) int {
		iff, ok := b.Instrs[len(b.Instrs)-1].(*ssa.If)
		if !ok {
			return -1
		}
		bo, ok := iff.Cond.(*ssa.BinOp)
		if !ok || (bo.X != ssa.Value(ph) && bo.Y != ssa.Value(ph)) {
			return -1
		}
		switch bo.Op {
		case token.EQL:
			return 0
		case token.NEQ:
			return 1
		}
		return -1
	}
	initNil := true
	for i, e := range ph.Edges {
		if li.blocks[li.header.Preds[i]] {
			continue
		}
		if c, ok := e.(*ssa.Const); !ok || !(c.IsNil() || (c.Value != nil && c.Value.ExactString() == `""`)) {
			initNil = false
		}
	}
	seen := map[*ssa.BasicBlock]bool{}
	var path []*ssa.BasicBlock
	var dfs func(b *ssa.BasicBlock) bool
	dfs = func(b *ssa.BasicBlock) bool {
		seen[b] = true
		path = append(path, b)
		ne := nilEdge(b)
		ft := -1
		if initNil {
			ft = firstTripSucc(li, b) // during the first trip the pending value is still its initial nil
		}
		for i, s := range b.Succs {
			if !li.blocks[s] || i == ne || i == ft {
				continue
			}
			if s == li.header {
				return true
			}
			if useBlock[s] || seen[s] {
				continue
			}
			if dfs(s) {
				return true
			}
		}
		path = path[:len(path)-1]
		return false
	}
	if dfs(li.header) {
		return path
	}
	return nil
}

// firstTripSucc: the successor of b that can only be taken during the first trip of loop li: b ends
// in a comparison of the loop's own counter (a header phi c0, +1 per trip, or that phi plus a
// constant) with a constant that only the counter's first value satisfies.  -1 if there is none.
func firstTripSucc(li *loopInfo, b *ssa.BasicBlock) int {
	iff, ok := b.Instrs[len(b.Instrs)-1].(*ssa.If)
	if !ok {
		return -1
	}
	bo, ok := iff.Cond.(*ssa.BinOp)
	if !ok {
		return -1
	}
	k, ok := constInt(bo.Y)
	if !ok {
		return -1
	}
	base, off := linear(bo.X)
	ph, ok := base.(*ssa.Phi)
	if !ok || ph.Block() != li.header {
		return -1
	}
	first, okFirst := int64(0), false
	for i, e := range ph.Edges {
		if li.blocks[li.header.Preds[i]] {
			b2, k2 := linear(e)
			if b2 != ssa.Value(ph) || k2 < 1 {
				return -1
			}
			continue
		}
		c, ok := constInt(e)
		if !ok || (okFirst && c != first) {
			return -1
		}
		first, okFirst = c, true
	}
	if !okFirst {
		return -1
	}
	first += off // value of bo.X during the first trip; it only grows afterwards
	switch bo.Op {
	case token.GTR: // v > k false ⇒ v ≤ k
		if k <= first {
			return 1
		}
	case token.GEQ: // v >= k false ⇒ v ≤ k-1
		if k-1 <= first {
			return 1
		}
	case token.LSS: // v < k true ⇒ v ≤ k-1
		if k-1 <= first {
			return 0
		}
	case token.LEQ:
		if k <= first {
			return 0
		}
	case token.EQL:
		if k <= first {
			return 0
		}
	case token.NEQ:
		if k <= first {
			return 1
		}
	}
	return -1
}
