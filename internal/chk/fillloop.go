package chk

import (
	"go/token"
	"go/types"

	"golang.org/x/tools/go/ssa"
)

// The read-until-full loop (io.ReadFull written by hand).
//
//	for n < limit && err == nil { m, err = r.Read(buf[n:]); n += m }
//
// A direct Read is independent of how the stream is chunked when
//
//	(1) it sits in a loop whose only exits are "n ≥ limit" (limit invariant in the loop) and
//	    "err != nil", n and err being header phis of that loop;
//	(2) the buffer handed to Read is buf[n:] (buf defined before the loop), the count result is
//	    added to n on every back edge, and the error result is the loop-carried err;
//	(3) nothing else happens in the loop (no other call, no store);
//	(4) after the loop the error is only looked at when n < limit: a reader may deliver its last
//	    bytes together with io.EOF or report io.EOF on the next call, so whether err is nil when the
//	    buffer is full depends on the delivery; every use of err outside the loop is dominated by
//	    the n < limit edge.
//
// Then n at the exit is min(limit, bytes available before the first error) and, when n < limit, err
// is that first error: both functions of the byte sequence only (given the io.Reader contract).
type fillLoop struct {
	call   *ssa.Call
	n, err *ssa.Phi
	buf    ssa.Value
	limit  ssa.Value
	loop   *loopInfo
	why    string
}

func isRawReadCall(c *ssa.CallCommon) bool {
	if !c.IsInvoke() || c.Method.Name() != "Read" {
		return false
	}
	sig := c.Signature()
	return sig.Params().Len() == 1 && sig.Results().Len() == 2
}

// recogniseFillLoop: nil with a reason when the call is not a verified fill loop.
func recogniseFillLoop(fn *ssa.Function, call *ssa.Call) (*fillLoop, string) {
	var li *loopInfo
	for _, l := range loopsOf(fn) {
		if l.blocks[call.Block()] && (li == nil || len(l.blocks) < len(li.blocks)) {
			li = l
		}
	}
	if li == nil {
		return nil, "the Read is not in a loop"
	}
	fl := &fillLoop{call: call, loop: li}
	// (2) buffer and results
	sl, ok := call.Call.Args[0].(*ssa.Slice)
	if !ok || sl.Low == nil {
		return nil, "the buffer handed to Read is not buf[n:]"
	}
	n, ok := sl.Low.(*ssa.Phi)
	if !ok || n.Block() != li.header {
		return nil, "the buffer offset is not carried round the loop"
	}
	if bi, ok := sl.X.(ssa.Instruction); ok && li.blocks[bi.Block()] {
		return nil, "the buffer is redefined inside the loop"
	}
	fl.n, fl.buf = n, sl.X
	var cnt, ev ssa.Value
	for _, r := range *call.Referrers() {
		if ex, ok := r.(*ssa.Extract); ok {
			if ex.Index == 0 {
				cnt = ex
			} else {
				ev = ex
			}
		}
	}
	if cnt == nil || ev == nil {
		return nil, "a result of Read is dropped"
	}
	for i, e := range n.Edges {
		if !li.blocks[li.header.Preds[i]] {
			continue
		}
		bo, ok := e.(*ssa.BinOp)
		if !ok || bo.Op != token.ADD || !((bo.X == ssa.Value(n) && bo.Y == cnt) || (bo.Y == ssa.Value(n) && bo.X == cnt)) {
			return nil, "the offset is not advanced by exactly the count Read returned"
		}
	}
	for _, ins := range li.header.Instrs {
		ph, ok := ins.(*ssa.Phi)
		if !ok {
			break
		}
		if !isErrorType(ph.Type()) {
			continue
		}
		okp := true
		for i, e := range ph.Edges {
			if li.blocks[li.header.Preds[i]] && e != ev {
				okp = false
			}
		}
		if okp {
			fl.err = ph
		}
	}
	if fl.err == nil {
		return nil, "the error Read returned is not carried round the loop"
	}
	// (3) nothing else in the loop
	for b := range li.blocks {
		for _, ins := range b.Instrs {
			switch x := ins.(type) {
			case *ssa.Store, *ssa.MapUpdate, *ssa.Send, *ssa.Go, *ssa.Defer:
				return nil, "the loop does more than reading"
			case *ssa.Call:
				if x == call {
					continue
				}
				if bi, ok := x.Call.Value.(*ssa.Builtin); ok && (bi.Name() == "len" || bi.Name() == "cap") {
					continue
				}
				return nil, "the loop calls something else"
			}
		}
	}
	// (1) exits
	for b := range li.blocks {
		for si, s := range b.Succs {
			if li.blocks[s] {
				continue
			}
			iff, ok := b.Instrs[len(b.Instrs)-1].(*ssa.If)
			if !ok {
				return nil, "the loop has an exit that is not a test"
			}
			bo, ok := iff.Cond.(*ssa.BinOp)
			if !ok {
				return nil, "an exit test is not a comparison"
			}
			switch {
			case bo.X == ssa.Value(fl.n) && (bo.Op == token.LSS) && si == 1 && loopInvariantValue(bo.Y, li):
				if fl.limit != nil && fl.limit != bo.Y {
					return nil, "two different limits"
				}
				fl.limit = bo.Y
			case (bo.X == ssa.Value(fl.err) && isNilConst(bo.Y) || bo.Y == ssa.Value(fl.err) && isNilConst(bo.X)) && ((bo.Op == token.EQL && si == 1) || (bo.Op == token.NEQ && si == 0)):
			default:
				return nil, "the loop has an exit other than `offset ≥ limit` and `err != nil`"
			}
		}
	}
	if fl.limit == nil {
		return nil, "the loop does not stop when the buffer is full"
	}
	// (4) uses of the error outside the loop
	short := func(b *ssa.BasicBlock) bool { // b is dominated by an edge that establishes n < limit
		for _, dc := range dominatingConds(b) {
			bo, ok := dc.cond.(*ssa.BinOp)
			if !ok || bo.X != ssa.Value(fl.n) || !sameLimit(bo.Y, fl.limit) {
				continue
			}
			if (bo.Op == token.LSS && dc.taken) || (bo.Op == token.GEQ && !dc.taken) {
				return true
			}
		}
		return false
	}
	for _, v := range []ssa.Value{fl.err, ev} {
		for _, r := range *v.Referrers() {
			if li.blocks[r.Block()] {
				if ph, ok := r.(*ssa.Phi); !ok || ph.Block() == li.header {
					continue
				}
			}
			switch x := r.(type) {
			case *ssa.DebugRef:
			case *ssa.Phi:
				for i, e := range x.Edges {
					if e == v && !li.blocks[x.Block().Preds[i]] && !short(x.Block().Preds[i]) {
						return nil, "after the loop the error is used although the buffer may be full (whether it is nil then depends on the delivery)"
					}
				}
			default:
				if !li.blocks[r.Block()] && !short(r.Block()) {
					return nil, "after the loop the error is used although the buffer may be full (whether it is nil then depends on the delivery)"
				}
			}
		}
	}
	return fl, ""
}

func loopInvariantValue(v ssa.Value, li *loopInfo) bool {
	switch x := v.(type) {
	case *ssa.Const, *ssa.Parameter:
		return true
	case ssa.Instruction:
		if c, ok := v.(*ssa.Call); ok {
			if bi, ok := c.Call.Value.(*ssa.Builtin); ok && bi.Name() == "len" {
				return loopInvariantValue(c.Call.Args[0], li)
			}
		}
		return !li.blocks[x.Block()]
	}
	return false
}

func sameLimit(a, b ssa.Value) bool {
	if a == b {
		return true
	}
	ca, ok1 := a.(*ssa.Call)
	cb, ok2 := b.(*ssa.Call)
	if ok1 && ok2 {
		ba, o1 := ca.Call.Value.(*ssa.Builtin)
		bb, o2 := cb.Call.Value.(*ssa.Builtin)
		return o1 && o2 && ba.Name() == "len" && bb.Name() == "len" && ca.Call.Args[0] == cb.Call.Args[0]
	}
	return false
}

var _ = types.Typ
