package chk

import (
	"bufio"
	"encoding/json"
	"fmt"
	"os"
	"path/filepath"
	"sort"
	"strings"
	"time"
)

type Status string

const (
	Proved    Status = "proved"
	Assumed   Status = "assumed" // audited residue entry
	Known     Status = "known-finding"
	Violation Status = "violation"
	Undecided Status = "undecided"
	Info      Status = "info"
)

// Ob is one obligation: a construct a rule had to decide.
type Ob struct {
	Rule   string `json:"rule"`
	Fn     string `json:"fn,omitempty"`
	Key    string `json:"key"`
	Pos    string `json:"pos,omitempty"`
	Status Status `json:"status"`
	Why    string `json:"why,omitempty"`
}

// Ledger collects obligations for one property run.
type Ledger struct {
	Prop       string
	Obs        []Ob
	Notes      []string
	Minima     []string // "rule: found N ≥ min M"
	residue    map[string]string
	resUsed    map[string]bool
	known      map[string]string // key → text (for this property)
	knownUsed  map[string]bool
	fixed      []string
	keyCount   map[string]int
	NoEvidence bool
}

func NewLedger(prop, verifDir string) (*Ledger, error) {
	l := &Ledger{Prop: prop, residue: map[string]string{}, resUsed: map[string]bool{},
		known: map[string]string{}, knownUsed: map[string]bool{}, keyCount: map[string]int{}}
	if err := l.loadResidue(filepath.Join(verifDir, "rules", "residue.txt")); err != nil {
		return nil, err
	}
	if err := l.loadKnown(filepath.Join(verifDir, "known_findings.txt")); err != nil {
		return nil, err
	}
	return l, nil
}

// residue.txt: "<prop>\t<key>\t<reason>" per line; '#' comments.
func (l *Ledger) loadResidue(path string) error {
	f, err := os.Open(path)
	if err != nil {
		if os.IsNotExist(err) {
			return nil
		}
		return err
	}
	defer f.Close()
	sc := bufio.NewScanner(f)
	sc.Buffer(make([]byte, 1<<20), 1<<20)
	for sc.Scan() {
		line := strings.TrimSpace(sc.Text())
		if line == "" || strings.HasPrefix(line, "#") {
			continue
		}
		parts := strings.SplitN(line, "\t", 3)
		if len(parts) != 3 || strings.TrimSpace(parts[2]) == "" {
			return fmt.Errorf("residue.txt: malformed line (need prop<TAB>key<TAB>reason): %q", line)
		}
		if !propListed(parts[0], l.Prop) {
			continue
		}
		l.residue[parts[1]] = parts[2]
	}
	return sc.Err()
}

func propListed(list, prop string) bool {
	for _, p := range strings.Split(list, ",") {
		if strings.TrimSpace(p) == prop {
			return true
		}
	}
	return false
}

// known_findings.txt: "known: property=<id> key=<key> :: <what>" or "fixed: property=<id> <commit> <what>".
func (l *Ledger) loadKnown(path string) error {
	f, err := os.Open(path)
	if err != nil {
		if os.IsNotExist(err) {
			return nil
		}
		return err
	}
	defer f.Close()
	sc := bufio.NewScanner(f)
	for sc.Scan() {
		line := strings.TrimSpace(sc.Text())
		if line == "" || strings.HasPrefix(line, "#") {
			continue
		}
		switch {
		case strings.HasPrefix(line, "fixed:"):
			if strings.Contains(line, "property="+l.Prop+" ") {
				l.fixed = append(l.fixed, line)
			}
		case strings.HasPrefix(line, "known:"):
			rest := strings.TrimSpace(strings.TrimPrefix(line, "known:"))
			if !strings.HasPrefix(rest, "property="+l.Prop+" ") {
				continue
			}
			rest = strings.TrimPrefix(rest, "property="+l.Prop+" ")
			i := strings.Index(rest, " :: ")
			if !strings.HasPrefix(rest, "key=") || i < 0 {
				return fmt.Errorf("known_findings.txt: malformed known line: %q", line)
			}
			l.known[strings.TrimPrefix(rest[:i], "key=")] = rest[i+4:]
		default:
			return fmt.Errorf("known_findings.txt: unrecognised line: %q", line)
		}
	}
	return sc.Err()
}

// Key builds a stable construct key with an ordinal for repeated constructs.
func (l *Ledger) Key(rule, fn, kind, operand string) string {
	base := rule + "|" + fn + "|" + kind + "|" + operand
	l.keyCount[base]++
	return fmt.Sprintf("%s|#%d", base, l.keyCount[base])
}

// Add records an obligation. A failing one (violation) is downgraded to assumed / known when
// the residue or known-findings file lists exactly this key.
func (l *Ledger) Add(o Ob) {
	if o.Status == Violation {
		if why, ok := l.residue[o.Key]; ok {
			o.Status, o.Why = Assumed, o.Why+" [residue: "+why+"]"
			l.resUsed[o.Key] = true
		} else if pat, why, ok := l.residueGlob(o.Key); ok {
			o.Status, o.Why = Assumed, o.Why+" [residue: "+why+"]"
			l.resUsed[pat] = true
		} else if what, ok := l.known[o.Key]; ok {
			o.Status, o.Why = Known, o.Why+" [known: "+what+"]"
			l.knownUsed[o.Key] = true
		}
	} else if o.Status == Proved {
		// a residue entry for something now proved is stale → flagged in Finish
	}
	l.Obs = append(l.Obs, o)
}

func (l *Ledger) Prove(rule, fn, key, pos, why string) {
	l.Add(Ob{Rule: rule, Fn: fn, Key: key, Pos: pos, Status: Proved, Why: why})
}
func (l *Ledger) Fail(rule, fn, key, pos, why string) {
	l.Add(Ob{Rule: rule, Fn: fn, Key: key, Pos: pos, Status: Violation, Why: why})
}
func (l *Ledger) Undecide(rule, fn, key, pos, why string) {
	l.Add(Ob{Rule: rule, Fn: fn, Key: key, Pos: pos, Status: Undecided, Why: why})
}
func (l *Ledger) Note(f string, a ...interface{}) { l.Notes = append(l.Notes, fmt.Sprintf(f, a...)) }

// CountBad: obligations that currently fail the run.
func (l *Ledger) CountBad() int {
	n := 0
	for _, o := range l.Obs {
		if o.Status == Violation || o.Status == Undecided {
			n++
		}
	}
	return n
}

// CountBadRule: failing obligations of one rule so far.
func (l *Ledger) CountBadRule(rule string) int {
	n := 0
	for _, o := range l.Obs {
		if o.Rule == rule && (o.Status == Violation || o.Status == Undecided) {
			n++
		}
	}
	return n
}

// Min enforces an instance-count floor for a rule (vacuous passes are failures).
func (l *Ledger) Min(rule string, found, min int) {
	l.Minima = append(l.Minima, fmt.Sprintf("%s: found %d, minimum %d", rule, found, min))
	if found < min {
		l.Undecide(rule, "", rule+"|minimum", "", fmt.Sprintf("extraction-below-minimum: found %d sites, hand-confirmed minimum is %d", found, min))
	}
}

type Evidence struct {
	PropertyID  string                 `json:"property_id"`
	Tier        string                 `json:"tier"`
	Seed        int                    `json:"seed"`
	Level       string                 `json:"level"`
	Coverage    map[string]interface{} `json:"coverage"`
	Assumptions []string               `json:"assumptions"`
	WallS       float64                `json:"wall_s"`
	Violations  int                    `json:"violations"`
}

// Finish prints the report, writes evidence and returns the exit code.
func (l *Ledger) Finish(p *Prog, tier string, seed int, start time.Time, verifDir string, explanation string, assumptions []string, extra map[string]interface{}) int {
	// stale residue / known entries
	var stale []string
	for k := range l.residue {
		if !l.resUsed[k] {
			stale = append(stale, k)
		}
	}
	sort.Strings(stale)
	// An entry that matches nothing suppresses nothing on this tree: it says that the site it was
	// written for has been proved, moved or rewritten, which is not a statement about the property.
	// It is reported (and counted in the evidence) so that the list is pruned, but it does not fail
	// the check: failing here turned every refactoring of an audited site into an alarm.
	for _, k := range stale {
		l.Add(Ob{Rule: "ledger.unused-residue", Key: k, Status: Info, Why: "residue entry matches no unproved site on this tree (the site was proved, moved or rewritten); it suppresses nothing here"})
		fmt.Printf("NOTE unused residue entry %s\n", k)
	}
	counts := map[Status]int{}
	perRule := map[string]map[Status]int{}
	for _, o := range l.Obs {
		counts[o.Status]++
		if perRule[o.Rule] == nil {
			perRule[o.Rule] = map[Status]int{}
		}
		perRule[o.Rule][o.Status]++
	}
	rules := make([]string, 0, len(perRule))
	for r := range perRule {
		rules = append(rules, r)
	}
	sort.Strings(rules)
	evPath := filepath.Join(verifDir, "evidence", l.Prop+".json")
	fmt.Printf("== %s tier=%s obligations=%d proved=%d assumed=%d known=%d info=%d violation=%d undecided=%d\n",
		l.Prop, tier, len(l.Obs)-counts[Info], counts[Proved], counts[Assumed], counts[Known], counts[Info], counts[Violation], counts[Undecided])
	ruleSummary := map[string]interface{}{}
	for _, r := range rules {
		m := perRule[r]
		fmt.Printf("   rule %-28s proved=%d assumed=%d known=%d info=%d violation=%d undecided=%d\n", r, m[Proved], m[Assumed], m[Known], m[Info], m[Violation], m[Undecided])
		ruleSummary[r] = map[string]int{"proved": m[Proved], "assumed": m[Assumed], "known": m[Known], "info": m[Info], "violation": m[Violation], "undecided": m[Undecided]}
	}
	for _, m := range l.Minima {
		fmt.Println("   minimum", m)
	}
	bad := 0
	for _, o := range l.Obs {
		switch o.Status {
		case Known:
			fmt.Printf("KNOWN-FINDING: property=%s %s %s %s\n", l.Prop, o.Key, o.Pos, o.Why)
		case Violation:
			bad++
			fmt.Printf("FAIL rule=%s at %s in %s: %s\n", o.Rule, o.Pos, o.Fn, o.Why)
			fmt.Printf("VIOLATION property=%s replay=%s#%s\n", l.Prop, evPath, o.Key)
		case Undecided:
			bad++
			fmt.Printf("UNDECIDED rule=%s key=%s at %s: %s\n", o.Rule, o.Key, o.Pos, o.Why)
			fmt.Printf("VIOLATION property=%s replay=%s#%s\n", l.Prop, evPath, o.Key)
		}
	}
	// samples: a few obligations of each status
	var samples []Ob
	seen := map[string]int{}
	for _, o := range l.Obs {
		k := o.Rule + string(o.Status)
		if seen[k] < 2 || o.Status == Violation || o.Status == Undecided || o.Status == Known || o.Status == Assumed {
			seen[k]++
			samples = append(samples, o)
		}
	}
	if len(samples) > 400 {
		samples = samples[:400]
	}
	distinct := map[string]bool{}
	for _, o := range l.Obs {
		if o.Status != Info {
			distinct[o.Key] = true
		}
	}
	cov := map[string]interface{}{
		"explanation":         explanation,
		"obligations":         len(l.Obs) - counts[Info],
		"discharged":          counts[Proved],
		"assumed_residue":     counts[Assumed],
		"known_findings":      counts[Known],
		"undecided":           counts[Undecided],
		"evaluations":         len(l.Obs) - counts[Info],
		"distinct_nontrivial": len(distinct),
		"rule":                "obligations are enumerated from the SSA/AST of /repo's working tree by the rules named in per_rule; distinct = distinct construct keys (rule|function|kind|operand|ordinal)",
		"per_rule":            ruleSummary,
		"minima":              l.Minima,
		"samples":             samples,
		"notes":               l.Notes,
		"checker_cmd":         strings.Join(os.Args, " "),
		"trusted_base":        []string{"go/types, go/ssa, callgraph/vta of golang.org/x/tools v0.29.0", "library contracts listed in internal/chk/contracts.go", "residue entries in rules/residue.txt (audited)"},
		"packages_loaded":     p.NumPkgs,
		"files_analysed":      relFiles(p),
		"functions_analysed":  len(p.LibFns) + len(p.CLIFns),
		"callgraph":           "VTA seeded with CHA",
		"fixed_entries":       l.fixed,
		"exhaustive":          true,
	}
	for k, v := range extra {
		cov[k] = v
	}
	ev := Evidence{PropertyID: l.Prop, Tier: tier, Seed: seed, Level: "other", Coverage: cov,
		Assumptions: assumptions, WallS: time.Since(start).Seconds(), Violations: bad}
	if !l.NoEvidence {
		os.MkdirAll(filepath.Dir(evPath), 0o755)
		b, _ := json.MarshalIndent(ev, "", " ")
		if err := os.WriteFile(evPath, b, 0o644); err != nil {
			fmt.Println("UNDECIDED cannot write evidence:", err)
			return 1
		}
	}
	if bad > 0 {
		return 1
	}
	return 0
}

func relFiles(p *Prog) []string {
	var out []string
	for _, f := range p.Files {
		out = append(out, strings.TrimPrefix(f, p.Repo+"/"))
	}
	return out
}

// residueGlob: a residue entry may leave the container of an index expression open ("…|index|*[i-32]|*": whatever table
// of the function is indexed by that expression): the audited statement is about the index value, not about one spelling
// of the table. '*' matches any run of characters; everything else is literal.
func (l *Ledger) residueGlob(key string) (string, string, bool) {
	for pat, why := range l.residue {
		if !strings.Contains(pat, "*") {
			continue
		}
		if globMatch(pat, key) {
			return pat, why, true
		}
	}
	return "", "", false
}

func globMatch(pat, s string) bool {
	parts := strings.Split(pat, "*")
	if !strings.HasPrefix(s, parts[0]) {
		return false
	}
	s = s[len(parts[0]):]
	for i := 1; i < len(parts); i++ {
		p := parts[i]
		if i == len(parts)-1 {
			return strings.HasSuffix(s, p)
		}
		j := strings.Index(s, p)
		if j < 0 {
			return false
		}
		s = s[j+len(p):]
	}
	return true
}
