package chk

import "sort"

func sortStrings(s []string) { sort.Strings(s) }

type strset map[string]bool

func (s strset) add(k string) bool {
	if s[k] {
		return false
	}
	s[k] = true
	return true
}
func (s strset) addAll(o strset) bool {
	ch := false
	for k := range o {
		if !s[k] {
			s[k] = true
			ch = true
		}
	}
	return ch
}
func (s strset) sorted() []string {
	out := make([]string, 0, len(s))
	for k := range s {
		out = append(out, k)
	}
	sort.Strings(out)
	return out
}
