package chk

import (
	"go/constant"
	"go/token"
	"go/types"
	"sort"

	"golang.org/x/tools/go/ssa"
)

// Helpers shared by the table (E9) and agreement (E10) rules. They read constants, composite
// literals and the shape of stores / switches from the SSA form; nothing is evaluated on run-time values.

func constStr(v ssa.Value) (string, bool) {
	c, ok := v.(*ssa.Const)
	if !ok || c.Value == nil || c.Value.Kind() != constant.String {
		return "", false
	}
	return constant.StringVal(c.Value), true
}

// globalInit returns the value stored into a package-level variable by the package initialiser.
func (p *Prog) globalInit(name string) ssa.Value {
	init := p.LibSSA.Func("init")
	if init == nil {
		return nil
	}
	var val ssa.Value
	n := 0
	for _, b := range init.Blocks {
		for _, ins := range b.Instrs {
			if st, ok := ins.(*ssa.Store); ok {
				if g, ok := st.Addr.(*ssa.Global); ok && g.Name() == name {
					val = st.Val
					n++
				}
			}
		}
	}
	if n != 1 {
		return nil
	}
	return val
}

// sliceLiteral returns the element values of a slice built from an array literal
// (slice t[:] of new [N]T with constant-index stores), in index order.
func sliceLiteral(v ssa.Value) ([]ssa.Value, bool) {
	sl, ok := v.(*ssa.Slice)
	if !ok {
		return nil, false
	}
	al, ok := sl.X.(*ssa.Alloc)
	if !ok {
		return nil, false
	}
	at, ok := al.Type().(*types.Pointer).Elem().Underlying().(*types.Array)
	if !ok {
		return nil, false
	}
	out := make([]ssa.Value, at.Len())
	for _, ref := range *al.Referrers() {
		ia, ok := ref.(*ssa.IndexAddr)
		if !ok {
			continue
		}
		idx, ok := constInt(ia.Index)
		if !ok || idx < 0 || idx >= at.Len() {
			return nil, false
		}
		for _, r2 := range *ia.Referrers() {
			if st, ok := r2.(*ssa.Store); ok && st.Addr == ssa.Value(ia) {
				out[idx] = st.Val
			}
		}
	}
	return out, true
}

// stringsOf maps a list of values to constant strings (ok=false if one is not constant).
func stringsOf(vals []ssa.Value) ([]string, bool) {
	var out []string
	for _, v := range vals {
		if v == nil {
			return nil, false
		}
		s, ok := constStr(stripIface(v))
		if !ok {
			return nil, false
		}
		out = append(out, s)
	}
	return out, true
}

// regionBlocks: target and every block it dominates, minus blocks in stop.
func regionBlocks(target *ssa.BasicBlock, stop map[*ssa.BasicBlock]bool) []*ssa.BasicBlock {
	var out []*ssa.BasicBlock
	for _, b := range target.Parent().Blocks {
		if b == target || (target.Dominates(b) && !stop[b]) {
			out = append(out, b)
		}
	}
	return out
}

// fieldStores: names of the fields of struct type tname stored in the blocks (T.f → values).
func fieldStores(blocks []*ssa.BasicBlock, tname string) map[string][]ssa.Value {
	out := map[string][]ssa.Value{}
	for _, b := range blocks {
		for _, ins := range b.Instrs {
			if st, ok := ins.(*ssa.Store); ok {
				if t, f := fieldOfAddr(st.Addr); f != "" && (tname == "" || t == tname) {
					out[f] = append(out[f], st.Val)
				}
			}
		}
	}
	return out
}

// fieldReads: names of the fields of struct type tname read in the blocks.
func fieldReads(blocks []*ssa.BasicBlock, tname string) strset {
	out := strset{}
	for _, b := range blocks {
		for _, ins := range b.Instrs {
			if v, ok := ins.(ssa.Value); ok {
				if t, f, _ := loadedField(v); f != "" && (tname == "" || t == tname) {
					out.add(f)
				}
			}
		}
	}
	return out
}

// traceField walks v backwards through conversions, calls, extracts, phis and arithmetic to the
// struct fields of type tname it is computed from.
func traceField(v ssa.Value, tname string, seen map[ssa.Value]bool, out strset) {
	if v == nil || seen[v] || len(seen) > 400 {
		return
	}
	seen[v] = true
	if t, f, base := loadedField(v); f != "" {
		if tname == "" || t == tname {
			out.add(f)
			return
		}
		traceField(base, tname, seen, out)
		return
	}
	switch x := v.(type) {
	case *ssa.Call:
		// a getter of the library itself (a small function or closure computing the text of a field): the fields
		// its results are loaded from
		if sc := x.Call.StaticCallee(); sc != nil && len(sc.Blocks) > 0 && x.Parent() != nil && sc.Pkg == x.Parent().Pkg && len(seen) < 300 && isGetterShape(sc) {
			got := strset{}
			// the getter's own parameters stand for this call's arguments (traced below), not for every call site
			for _, par := range sc.Params {
				seen[par] = true
			}
			for _, b := range sc.Blocks {
				if r, ok := b.Instrs[len(b.Instrs)-1].(*ssa.Return); ok {
					for _, res := range r.Results {
						traceField(res, tname, seen, got)
					}
				}
			}
			if len(got) > 0 {
				out.addAll(got)
				return
			}
		}
		for _, a := range x.Call.Args {
			traceField(a, tname, seen, out)
		}
		if x.Call.IsInvoke() {
			traceField(x.Call.Value, tname, seen, out)
		}
	case *ssa.Phi:
		for _, e := range x.Edges {
			traceField(e, tname, seen, out)
		}
	case *ssa.Parameter:
		// a helper's parameter: what its call sites in the package pass
		h := x.Parent()
		if h == nil || h.Pkg == nil || len(seen) > 200 {
			return
		}
		idx := -1
		for k, q := range h.Params {
			if q == x {
				idx = k
			}
		}
		if idx < 0 {
			return
		}
		for f := range ssautilAllFunctionsOf(h) {
			for _, b := range f.Blocks {
				for _, ins := range b.Instrs {
					if ci, ok := ins.(ssa.CallInstruction); ok && ci.Common().StaticCallee() == h && idx < len(ci.Common().Args) {
						traceField(ci.Common().Args[idx], tname, seen, out)
					}
				}
			}
		}
	case *ssa.MakeSlice:
		// a scratch buffer: what was written into it (binary.PutUintNN(buf, field))
		for _, ref := range *x.Referrers() {
			if c, ok := ref.(*ssa.Call); ok {
				for _, a := range c.Call.Args {
					if a != ssa.Value(x) {
						traceField(a, tname, seen, out)
					}
				}
			}
		}
	case ssa.Instruction:
		for _, op := range x.Operands(nil) {
			if *op != nil {
				traceField(*op, tname, seen, out)
			}
		}
	}
}

func oneOf(s strset) (string, bool) {
	if len(s) != 1 {
		return "", false
	}
	for k := range s {
		return k, true
	}
	return "", false
}

func sortedKeysOf(m map[string]string) []string {
	out := make([]string, 0, len(m))
	for k := range m {
		out = append(out, k)
	}
	sort.Strings(out)
	return out
}

// switchOn collects "tag == const" arms in fn for tags accepted by isTag, keyed by constant.
// When an arm lists several constants (case a, b:) they share the target block.
func switchConstArms(fn *ssa.Function, isTag func(v ssa.Value) bool) map[string]*ssa.BasicBlock {
	out := map[string]*ssa.BasicBlock{}
	for _, b := range fn.Blocks {
		iff, ok := b.Instrs[len(b.Instrs)-1].(*ssa.If)
		if !ok {
			continue
		}
		bo, ok := iff.Cond.(*ssa.BinOp)
		if !ok || bo.Op != token.EQL {
			continue
		}
		for _, pr := range [][2]ssa.Value{{bo.X, bo.Y}, {bo.Y, bo.X}} {
			if c, ok := pr[1].(*ssa.Const); ok && c.Value != nil && isTag(pr[0]) {
				out[c.Value.ExactString()] = b.Succs[0]
			}
		}
	}
	return out
}

func constantInt64(c *types.Const) (int64, bool) {
	if c.Val().Kind() != constant.Int {
		return 0, false
	}
	return constant.Int64Val(c.Val())
}

// evalStr evaluates a constant string expression: a literal, or string([]byte{...}) of constants.
func evalStr(v ssa.Value) (string, bool) {
	if s, ok := constStr(v); ok {
		return s, true
	}
	if cv, ok := v.(*ssa.Convert); ok {
		if elems, ok := sliceLiteral(cv.X); ok {
			var bs []byte
			for _, e := range elems {
				c, ok := constInt(e)
				if !ok || c < 0 || c > 255 {
					return "", false
				}
				bs = append(bs, byte(c))
			}
			return string(bs), true
		}
		if c, ok := constInt(cv.X); ok { // string(rune)
			return string(rune(c)), true
		}
	}
	return "", false
}

// globalMapKeys: the constant string keys of a package-level map literal (make + MapUpdate in init);
// nil when the map is built any other way or written outside init.
func (p *Prog) globalMapKeys(name string) []string {
	mk, ok := p.globalInit(name).(*ssa.MakeMap)
	if !ok {
		return nil
	}
	for _, fn := range p.LibFns {
		if FnName(fn) == "init" {
			continue
		}
		for _, b := range fn.Blocks {
			for _, ins := range b.Instrs {
				if mu, ok := ins.(*ssa.MapUpdate); ok {
					if u, ok := mu.Map.(*ssa.UnOp); ok {
						if g, ok := u.X.(*ssa.Global); ok && g.Name() == name {
							return nil
						}
					}
				}
			}
		}
	}
	var keys []string
	for _, r := range *mk.Referrers() {
		if mu, ok := r.(*ssa.MapUpdate); ok {
			k, ok := constStr(mu.Key)
			if !ok {
				return nil
			}
			keys = append(keys, k)
		}
	}
	return keys
}

// isGetterShape: a closure, or a function / method of one parameter that is a (pointer to a) struct: what it
// returns is computed from the fields of that one value.
func isGetterShape(f *ssa.Function) bool {
	if f.Parent() != nil {
		return true
	}
	if len(f.Params) != 1 {
		return false
	}
	t := f.Params[0].Type()
	if pt, ok := t.Underlying().(*types.Pointer); ok {
		t = pt.Elem()
	}
	_, ok := t.Underlying().(*types.Struct)
	return ok
}
