package chk

import (
	"fmt"
	"go/token"

	"golang.org/x/tools/go/ssa"
)

// ---- E13-I8 writers emit every element (added after seeded change C07/3) -------------------------------
// A writer that skips an element of the model on a data-dependent condition drops it from the
// document; if other elements refer to it (a cue to its style, a style to its parent) the result
// cannot even be read back. Rule: in the entry points of the writers, every loop over a collection of
// the model (cues, lines, styles, regions, their sorted key lists) appends to its output on every
// trip: some append / write executes in a block that dominates every back edge of the loop. Loops
// that only search or compute (no append at all) are classified separately and not constrained.
func isEmit(ins ssa.Instruction) bool {
	c, ok := ins.(*ssa.Call)
	if !ok {
		return false
	}
	if b, ok := c.Call.Value.(*ssa.Builtin); ok {
		return b.Name() == "append"
	}
	n := calleeName(&c.Call)
	switch n {
	case "invoke (io.Writer).Write", "(*encoding/xml.Encoder).Encode", "(*bytes.Buffer).Write", "(*bytes.Buffer).WriteString":
		return true
	}
	return false
}

func ruleEmitEveryElement(names []string, min int) func(p *Prog, l *Ledger, tier string) {
	return func(p *Prog, l *Ledger, tier string) {
		const rule = "E13.I8-emit-every-element"
		n := 0
		for _, name := range names {
			fn := anchor(p, l, rule, name)
			if fn == nil {
				continue
			}
			for _, li := range loopsOf(fn) {
				if fixedLocalTableLoop(li) || globalTableLoop(li) {
					continue // the rows of a fixed table of the program (settings, tags), not elements of the list
				}
				var emits []*ssa.BasicBlock
				for b := range li.blocks {
					// only emits that belong to this loop directly or to a block of it (inner loops included:
					// an inner loop's emit does not dominate the outer latch unless its block does)
					for _, ins := range b.Instrs {
						if isEmit(ins) {
							emits = append(emits, b)
							break
						}
					}
				}
				if len(emits) == 0 {
					continue // a search / computation loop
				}
				n++
				key := l.Key(rule, name, "loop", loopDesc(li))
				emitBlock := map[*ssa.BasicBlock]bool{}
				for _, e := range emits {
					emitBlock[e] = true
				}
				// an inner loop that appends stands for the sub-elements of the current element: reaching
				// it counts, also when it then makes no trip (an element without sub-elements has nothing
				// to contribute there; the inner loop is judged on its own)
				for _, inner := range loopsOf(fn) {
					if inner.header == li.header || !li.blocks[inner.header] {
						continue
					}
					if fixedLocalTableLoop(inner) || globalTableLoop(inner) {
						continue // the rows of a table of the program are not sub-elements of the current element
					}
					for b := range inner.blocks {
						if emitBlock[b] {
							emitBlock[inner.header] = true
							break
						}
					}
				}
				// is there a way round the loop that passes no emit? Edges taken because a pointer of the
				// element is nil are not counted: that element has nothing to contribute (and the test
				// guards a dereference).
				ok := !emitBlock[li.header] && emitFreeCycle(li, emitBlock) == nil || emitBlock[li.header]
				if ok {
					l.Prove(rule, name, key, loopPos(p, li), "an append/write dominates every back edge: each element contributes to the output")
				} else {
					l.Fail(rule, name, key, loopPos(p, li), fmt.Sprintf("%s: the loop at %s can go round without appending anything for the current element (every append in it is skipped on some path): that element is missing from the written document while others may still refer to it", name, loopPos(p, li)))
				}
			}
		}
		l.Min(rule, n, min)
	}
}

// nilSide: which successor index of b is taken when the tested pointer is nil (-1 if b does not end in a nil test).
func nilSide(b *ssa.BasicBlock) int {
	iff, ok := b.Instrs[len(b.Instrs)-1].(*ssa.If)
	if !ok {
		return -1
	}
	bo, ok := iff.Cond.(*ssa.BinOp)
	if !ok {
		return -1
	}
	isNil := func(v ssa.Value) bool {
		c, ok := v.(*ssa.Const)
		return ok && c.IsNil()
	}
	if !isNil(bo.X) && !isNil(bo.Y) {
		return -1
	}
	switch bo.Op.String() {
	case "==":
		return 0
	case "!=":
		return 1
	}
	return -1
}

// emitFreeCycle: a path header → … → header inside the loop that enters no emit block (nil if none).
func emitFreeCycle(li *loopInfo, emitBlock map[*ssa.BasicBlock]bool) []*ssa.BasicBlock {
	seen := map[*ssa.BasicBlock]bool{}
	var path []*ssa.BasicBlock
	var dfs func(b *ssa.BasicBlock) bool
	dfs = func(b *ssa.BasicBlock) bool {
		seen[b] = true
		path = append(path, b)
		ns := nilSide(b)
		for i, s := range b.Succs {
			if !li.blocks[s] || i == ns {
				continue
			}
			if s == li.header {
				return true
			}
			if emitBlock[s] || seen[s] {
				continue
			}
			if dfs(s) {
				return true
			}
		}
		path = path[:len(path)-1]
		return false
	}
	if dfs(li.header) {
		return path
	}
	return nil
}

// loopPos: the first source position inside the loop (range loops have no position on their header).
func loopPos(p *Prog, li *loopInfo) string {
	// phi nodes carry the position of the variable's declaration, which may be far above the loop
	for _, ins := range li.header.Instrs {
		if _, isPhi := ins.(*ssa.Phi); !isPhi && ins.Pos().IsValid() {
			return p.Pos(ins.Pos())
		}
	}
	var best token.Pos
	for b := range li.blocks {
		for _, ins := range b.Instrs {
			if _, isPhi := ins.(*ssa.Phi); isPhi {
				continue
			}
			if q := ins.Pos(); q.IsValid() && (best == 0 || q < best) {
				best = q
			}
		}
	}
	if best == 0 {
		return blockPos(p, li.header)
	}
	return p.Pos(best)
}

// globalTableLoop: the loop ranges over a package-level slice or array (its exit test compares the index with the
// length of a value loaded from a global, or with the constant length of a global array).
func globalTableLoop(li *loopInfo) bool {
	iff, ok := li.header.Instrs[len(li.header.Instrs)-1].(*ssa.If)
	if !ok {
		return false
	}
	bo, ok := iff.Cond.(*ssa.BinOp)
	if !ok || bo.Op != token.LSS {
		return false
	}
	if c, ok := bo.Y.(*ssa.Call); ok {
		if bi, ok := c.Call.Value.(*ssa.Builtin); ok && bi.Name() == "len" {
			if u, ok := c.Call.Args[0].(*ssa.UnOp); ok && u.Op == token.MUL {
				_, isG := u.X.(*ssa.Global)
				return isG
			}
		}
		return false
	}
	if _, isC := constInt(bo.Y); isC {
		for b := range li.blocks {
			for _, ins := range b.Instrs {
				if ia, ok := ins.(*ssa.IndexAddr); ok && ia.Index == bo.X {
					if _, isG := ia.X.(*ssa.Global); isG {
						return true
					}
				}
			}
		}
	}
	return false
}
