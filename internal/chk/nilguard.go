package chk

import (
	"go/constant"
	"go/token"
	"go/types"
	"sort"
	"strconv"
	"strings"

	"golang.org/x/tools/go/ssa"
)

// E1 nilguard: forward must-dataflow of "known non-nil" facts over access paths and SSA values
// (DESIGN.md §3 E1).

type nilFacts map[string]bool

func (f nilFacts) clone() nilFacts {
	n := make(nilFacts, len(f))
	for k := range f {
		n[k] = true
	}
	return n
}

func intersect(a, b nilFacts) nilFacts {
	n := nilFacts{}
	var bN map[string]int64 // "N|x|y|" -> tightest constant in b (built on demand)
	for k := range a {
		if b[k] {
			n[k] = true
			continue
		}
		// x - y ≤ c1 on one side and x - y ≤ c2 on the other: x - y ≤ max(c1, c2) on both
		if !strings.HasPrefix(k, "N|") {
			continue
		}
		if bN == nil {
			bN = map[string]int64{}
			for kb := range b {
				if strings.HasPrefix(kb, "N|") {
					i := strings.LastIndexByte(kb, '|')
					c, err := strconv.ParseInt(kb[i+1:], 10, 64)
					if err != nil {
						continue
					}
					if old, ok := bN[kb[:i+1]]; !ok || c < old {
						bN[kb[:i+1]] = c
					}
				}
			}
		}
		i := strings.LastIndexByte(k, '|')
		ca, err := strconv.ParseInt(k[i+1:], 10, 64)
		if err != nil {
			continue
		}
		if cb, ok := bN[k[:i+1]]; ok {
			if cb > ca {
				ca = cb
			}
			n[k[:i+1]+strconv.FormatInt(ca, 10)] = true
		}
	}
	return n
}

type nilSummary struct {
	retNonNil      []bool   // result i is never nil
	retNonNilNoErr []bool   // result i is non-nil on every return whose error result is nil
	retNonNilOk    []bool   // result i is non-nil on every return whose last (bool) result may be true
	paramNonNil    []bool   // parameter k is non-nil at every in-package call site (unexported functions)
	retFields      []strset // result i: access-path suffixes (".Regions") known non-nil at every return; nil = not yet computed
	paramFields    []strset // parameter k: suffixes known non-nil at every in-package call site
	paramIntLo     []int64  // parameter k (integer): lower bound over all in-package call sites (-infW unknown)
	paramLenLo     []int64  // parameter k (slice/string): lower bound of its length over all in-package call sites
}

type NilAnalysis struct {
	p     *Prog
	eff   *Effects
	sum   map[*ssa.Function]*nilSummary
	in    map[*ssa.BasicBlock]nilFacts
	out   map[*ssa.BasicBlock]nilFacts
	ctorF map[string]bool // "T.f": constructor-non-nil fields of unexported struct types
	globN map[string]bool // package-level pointer variables that are non-nil after init
	// per-instruction state for queries
	at map[ssa.Instruction]nilFacts
	// numeric side (numfacts*.go)
	cur       ssa.Instruction // instruction currently being proved (context for conditional contracts)
	curFn     *ssa.Function
	curCase   *phiCase   // set while a site is proved by cases on a phi
	curCases  []*phiCase // further simultaneous cases (a second merged operand)
	reSub     map[string]int
	gLen      map[string]int64
	gArr      map[string][3]int64
	lenSum    map[*ssa.Function][]*lenSummary
	fieldLo   map[fieldLoKey]int
	byName    map[*ssa.Function]map[string]ssa.Value
	litF      map[string]bool
	escF      map[string]map[string]bool
	condDepth int
	freezeNN  bool // warm-up rounds: parameter non-nil facts are not falsified yet
	converged bool
}

func isNilable(t types.Type) bool {
	switch t.Underlying().(type) {
	case *types.Pointer, *types.Map, *types.Signature, *types.Interface, *types.Chan:
		return true
	}
	return false
}

func isExportedEntry(fn *ssa.Function) bool {
	if fn.Parent() != nil {
		return false
	}
	obj := fn.Object()
	if obj == nil || !obj.Exported() {
		return false
	}
	if recv := fn.Signature.Recv(); recv != nil {
		t := recv.Type()
		if pt, ok := t.(*types.Pointer); ok {
			t = pt.Elem()
		}
		if nt, ok := t.(*types.Named); ok && !nt.Obj().Exported() {
			return false
		}
	}
	return true
}

// key of a value for the fact set: a location key when v is loaded from memory with a stable
// access path, else the SSA register identity.
func (a *NilAnalysis) key(v ssa.Value) string {
	switch x := v.(type) {
	case *ssa.UnOp:
		if x.Op == token.MUL {
			if l := a.loc(x.X); l != "" {
				return l
			}
		}
	case *ssa.Field:
		return a.key(x.X) + "." + fieldName(x.X.Type(), x.Field)
	case *ssa.Lookup:
		if _, ok := x.X.Type().Underlying().(*types.Map); ok {
			return a.key(x.X) + "{" + idxKey(x.Index) + "}"
		}
	case *ssa.Parameter:
		return "p:" + x.Name()
	case *ssa.ChangeType:
		return a.key(x.X)
	}
	return "v:" + v.Name()
}

// loc: key of the memory location designated by address value addr ("" when none).
func (a *NilAnalysis) loc(addr ssa.Value) string {
	switch x := addr.(type) {
	case *ssa.FieldAddr:
		return a.key(x.X) + "." + fieldName(x.X.Type(), x.Field)
	case *ssa.IndexAddr:
		return a.key(x.X) + "[" + idxKey(x.Index) + "]"
	case *ssa.Alloc:
		return "a:" + x.Name()
	case *ssa.Global:
		return "g:" + x.Name()
	case *ssa.FreeVar:
		return "fv:" + x.Name()
	case *ssa.Parameter:
		// *p for a pointer parameter to a slice, map, struct or pointer: one location for the whole call (two loads
		// with no store of that type and no writing call between them see the same value).  Pointers to basic values
		// are left out: stores through other pointers of the same basic type are not tracked as possible aliases.
		if pt, ok := x.Type().Underlying().(*types.Pointer); ok {
			switch pt.Elem().Underlying().(type) {
			case *types.Slice, *types.Map, *types.Struct, *types.Pointer:
				return "dp:" + x.Name()
			}
		}
	}
	return ""
}

func idxKey(v ssa.Value) string {
	if c, ok := v.(*ssa.Const); ok && c.Value != nil {
		return c.Value.ExactString()
	}
	return "v:" + v.Name()
}

// descOf: human, edit-stable description of a value for ledger keys.
func descOf(v ssa.Value) string {
	switch x := v.(type) {
	case *ssa.UnOp:
		if x.Op == token.MUL {
			return descOf(x.X)
		}
	case *ssa.FieldAddr:
		return descOf(x.X) + "." + fieldName(x.X.Type(), x.Field)
	case *ssa.Field:
		return descOf(x.X) + "." + fieldName(x.X.Type(), x.Field)
	case *ssa.IndexAddr:
		return descOf(x.X) + "[" + idxDesc(x.Index) + "]"
	case *ssa.Index:
		return descOf(x.X) + "[" + idxDesc(x.Index) + "]"
	case *ssa.Lookup:
		return descOf(x.X) + "[" + idxDesc(x.Index) + "]"
	case *ssa.Parameter:
		return x.Name()
	case *ssa.FreeVar:
		return x.Name()
	case *ssa.Alloc:
		if x.Comment != "" {
			return x.Comment
		}
		return "new(" + typeStr(x.Type().(*types.Pointer).Elem()) + ")"
	case *ssa.Global:
		return x.Name()
	case *ssa.Call:
		return calleeShort(&x.Call) + "()"
	case *ssa.Extract:
		return descOf(x.Tuple) + "#" + string(rune('0'+x.Index))
	case *ssa.Phi:
		if x.Comment != "" {
			return x.Comment
		}
		return "phi"
	case *ssa.Next:
		return "range"
	case *ssa.Const:
		if x.Value == nil {
			return "nil"
		}
		return x.Value.ExactString()
	case *ssa.MakeInterface:
		return descOf(x.X)
	case *ssa.ChangeType:
		return descOf(x.X)
	case *ssa.Convert:
		return descOf(x.X)
	case *ssa.TypeAssert:
		return descOf(x.X) + ".(" + typeStr(x.AssertedType) + ")"
	case *ssa.Slice:
		return descOf(x.X) + "[:]"
	case *ssa.BinOp:
		return descOf(x.X) + x.Op.String() + descOf(x.Y)
	}
	return typeStr(v.Type())
}

func idxDesc(v ssa.Value) string {
	if c, ok := v.(*ssa.Const); ok && c.Value != nil && c.Value.Kind() == constant.Int {
		return c.Value.ExactString()
	}
	d := descOf(v)
	if len(d) > 24 {
		return "·"
	}
	return d
}

func calleeShort(c *ssa.CallCommon) string {
	n := calleeName(c)
	if i := strings.LastIndex(n, "/"); i >= 0 {
		n = n[i+1:]
	}
	return strings.TrimPrefix(n, "invoke ")
}

// fields of dependency structs the code relies on being set (P2, with the source that establishes it)
var extFieldNonNil = map[string]string{
	"PESData.Header": "astits v1.8.0 data_pes.go parsePESData: d.Header is assigned the result of parsePESHeader (never nil) before the data is returned without error",
}

// external results that are non-nil (always / when the error result is nil)
var extNonNil = map[string]bool{
	"os.Open": true, "os.Create": true, "os.OpenFile": true, "os.CreateTemp": true,
	"encoding/xml.NewDecoder": true, "encoding/xml.NewEncoder": true, "encoding/xml.NewTokenDecoder": true,
	"bufio.NewScanner": true, "bufio.NewReader": true, "bufio.NewWriter": true,
	"golang.org/x/net/html.NewTokenizer": true, "github.com/asticode/go-astits.NewDemuxer": true,
	"regexp.MustCompile": true, "strings.NewReader": true, "strings.NewReplacer": true, "context.Background": true,
	"errors.New": true, "fmt.Errorf": true, "github.com/asticode/go-astikit.NewBiMap": true,
	"(*github.com/asticode/go-astikit.BiMap).Set": true, "(*github.com/asticode/go-astikit.BiMap).SetInverse": true,
	"github.com/asticode/go-astikit.BoolPtr": true, "github.com/asticode/go-astikit.IntPtr": true,
	"github.com/asticode/go-astikit.Float64Ptr": true, "github.com/asticode/go-astikit.StrPtr": true,
	"github.com/asticode/go-astikit.UInt8Ptr": true, "github.com/asticode/go-astikit.UInt32Ptr": true,
	"github.com/asticode/go-astikit.NewFlagStrings": true, "flag.Duration": true, "flag.Int": true, "flag.String": true, "flag.Bool": true,
	"bytes.NewReader": true, "bytes.NewBuffer": true, "bytes.NewBufferString": true, "time.NewTimer": true,
}

func NewNilAnalysis(p *Prog) *NilAnalysis {
	if p.nila != nil {
		return p.nila
	}
	a := &NilAnalysis{p: p, eff: ComputeEffects(p), sum: map[*ssa.Function]*nilSummary{}, in: map[*ssa.BasicBlock]nilFacts{}, out: map[*ssa.BasicBlock]nilFacts{},
		ctorF: map[string]bool{}, globN: map[string]bool{}, at: map[ssa.Instruction]nilFacts{},
		reSub: map[string]int{}, gLen: map[string]int64{}, gArr: map[string][3]int64{}, lenSum: map[*ssa.Function][]*lenSummary{}}
	fns := append(append([]*ssa.Function{}, p.LibFns...), p.CLIFns...)
	for _, fn := range fns {
		s := &nilSummary{}
		n := fn.Signature.Results().Len()
		s.retNonNil, s.retNonNilNoErr, s.retNonNilOk = make([]bool, n), make([]bool, n), make([]bool, n)
		for i := 0; i < n; i++ {
			s.retNonNil[i], s.retNonNilNoErr[i], s.retNonNilOk[i] = true, true, true // optimistic, falsified by iteration
		}
		s.retFields = make([]strset, n)
		s.paramFields = make([]strset, len(fn.Params))
		s.paramNonNil = make([]bool, len(fn.Params))
		for i := range s.paramNonNil {
			s.paramNonNil[i] = true
		}
		a.sum[fn] = s
	}
	a.computeGlobals()
	a.computeCtorFields()
	a.computeLenSummaries()
	// The summaries are a greatest fixpoint: non-nil facts start true and are falsified, while the
	// field facts handed to callees (paramFields) are recomputed from the callers' current facts on
	// every round.  During the first rounds only the latter are updated: falsifying a parameter
	// before the facts of its callers' own parameters have arrived is sticky and needlessly
	// pessimistic (a closure called by a helper whose caller established the guard).  The result is
	// what the last round, which changes nothing, finds consistent.
	const warmup = 2
	a.converged = false
	for iter := 0; iter < 24; iter++ {
		changed := false
		for _, fn := range fns {
			if a.analyzeFn(fn) {
				changed = true
			}
		}
		a.freezeNN = iter < warmup
		if a.updateParams(fns) || iter < warmup {
			changed = true
		}
		if a.updateCtorFields() {
			changed = true
		}
		if a.updateParamLens(fns) {
			changed = true
		}
		if !changed {
			a.converged = true
			break
		}
	}
	p.nila = a
	return a
}

// computeGlobals: package-level variables of nilable type whose every store (in init) is non-nil.
func (a *NilAnalysis) computeGlobals() {
	stores := map[string][]ssa.Value{}
	for _, pk := range []*ssa.Package{a.p.LibSSA, a.p.CLISSA} {
		for _, m := range pk.Members {
			if g, ok := m.(*ssa.Global); ok {
				stores[g.Name()] = nil
				_ = g
			}
		}
	}
	for _, fn := range append(append([]*ssa.Function{}, a.p.LibFns...), a.p.CLIFns...) {
		for _, b := range fn.Blocks {
			for _, ins := range b.Instrs {
				if st, ok := ins.(*ssa.Store); ok {
					if g, ok := st.Addr.(*ssa.Global); ok {
						stores[g.Name()] = append(stores[g.Name()], st.Val)
					}
				}
			}
		}
	}
	for changed := true; changed; {
		changed = false
		for name, vals := range stores {
			if len(vals) == 0 || a.globN[name] {
				continue
			}
			ok := true
			for _, v := range vals {
				if constructorNonNil(v) {
					continue
				}
				// alias of another package-level variable that is itself non-nil
				if u, isU := v.(*ssa.UnOp); isU && u.Op == token.MUL {
					if g, isG := u.X.(*ssa.Global); isG && a.globN[g.Name()] {
						continue
					}
				}
				ok = false
			}
			if ok {
				a.globN[name] = true
				changed = true
			}
		}
	}
}

// constructorNonNil: v is non-nil by the way it is built (no facts needed).
func constructorNonNil(v ssa.Value) bool {
	switch x := v.(type) {
	case *ssa.Alloc, *ssa.MakeMap, *ssa.MakeSlice, *ssa.MakeChan, *ssa.MakeClosure, *ssa.Function, *ssa.Global, *ssa.FieldAddr, *ssa.IndexAddr, *ssa.MakeInterface:
		return true
	case *ssa.Const:
		return x.Value != nil
	case *ssa.Call:
		if sc := x.Call.StaticCallee(); sc != nil && extNonNil[sc.String()] {
			return true
		}
	case *ssa.ChangeType:
		return constructorNonNil(x.X)
	}
	return false
}

// computeCtorFields (initial, optimistic): field f of an unexported struct type T is a candidate
// constructor-non-nil field when every allocation of T in the package stores into f in the
// allocating block. updateCtorFields then falsifies candidates some store may set to nil.
func (a *NilAnalysis) computeCtorFields() {
	type fieldInfo struct{ allocs, inited int }
	info := map[string]*fieldInfo{}
	for _, fn := range a.p.LibFns {
		for _, b := range fn.Blocks {
			for _, ins := range b.Instrs {
				x, ok := ins.(*ssa.Alloc)
				if !ok {
					continue
				}
				nt, ok := x.Type().(*types.Pointer).Elem().(*types.Named)
				if !ok || nt.Obj().Exported() {
					continue
				}
				st, ok := nt.Underlying().(*types.Struct)
				if !ok {
					continue
				}
				for i := 0; i < st.NumFields(); i++ {
					if !isNilable(st.Field(i).Type()) {
						continue
					}
					k := nt.Obj().Name() + "." + st.Field(i).Name()
					if info[k] == nil {
						info[k] = &fieldInfo{}
					}
					info[k].allocs++
					for _, ref := range *x.Referrers() {
						fa, ok := ref.(*ssa.FieldAddr)
						if !ok || fa.Field != i || fa.Block() != b {
							continue
						}
						found := false
						for _, r2 := range *fa.Referrers() {
							if s, ok := r2.(*ssa.Store); ok && s.Addr == ssa.Value(fa) && s.Block() == b {
								found = true
							}
						}
						if found {
							info[k].inited++
							break
						}
					}
				}
			}
		}
	}
	for k, fi := range info {
		if fi.allocs > 0 && fi.inited >= fi.allocs {
			a.ctorF[k] = true
		}
	}
}

// updateCtorFields falsifies candidates: a store of a possibly-nil value (under the facts at
// the store) to T.f anywhere in the package.
func (a *NilAnalysis) updateCtorFields() bool {
	changed := false
	for _, fn := range a.p.LibFns {
		for _, b := range fn.Blocks {
			for _, ins := range b.Instrs {
				x, ok := ins.(*ssa.Store)
				if !ok {
					continue
				}
				fa, ok := x.Addr.(*ssa.FieldAddr)
				if !ok {
					continue
				}
				nt, ok := fa.X.Type().Underlying().(*types.Pointer).Elem().(*types.Named)
				if !ok || nt.Obj().Exported() || !isNilable(x.Val.Type()) {
					continue
				}
				k := nt.Obj().Name() + "." + fieldName(fa.X.Type(), fa.Field)
				if a.ctorF[k] && !a.nonNil(fn, x.Val, a.at[ins]) {
					delete(a.ctorF, k)
					changed = true
				}
			}
		}
	}
	return changed
}

func sortedKeys(m map[string]bool) []string {
	out := make([]string, 0, len(m))
	for k := range m {
		out = append(out, k)
	}
	sort.Strings(out)
	return out
}
