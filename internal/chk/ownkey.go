package chk

import (
	"fmt"
	"go/types"

	"golang.org/x/tools/go/ssa"
)

// ---- E14-M6 definition tables are keyed by the definition's own identifier ---------------------------
// Readers collect styles and regions in maps. A map entry holds one element, so the key has to be
// unique per element: its own ID. A map keyed by something several elements can share (the parent
// a style refers to) keeps only the last of them – two styles with the same parent: one loses its
// link. Rule: in the reader closure, every map store whose value is a *Style or *Region uses as
// key the value stored in (or read from) that element's ID field.
func ruleOwnKey(p *Prog, l *Ledger, tier string) {
	const rule = "E14.M6-own-key"
	n := 0
	for _, fn := range p.ReaderClosure(l, rule) {
		name := FnName(fn)
		for _, b := range fn.Blocks {
			for _, ins := range b.Instrs {
				mu, ok := ins.(*ssa.MapUpdate)
				if !ok {
					continue
				}
				pt, ok := mu.Value.Type().Underlying().(*types.Pointer)
				if !ok {
					continue
				}
				tn := typeStr(pt.Elem())
				if tn != "Style" && tn != "Region" {
					continue
				}
				n++
				key := l.Key(rule, name, "map-store", tn)
				if keyIsOwnID(mu.Key, mu.Value) {
					l.Prove(rule, name, key, p.Pos(mu.Pos()), "the "+tn+" is stored under its own ID")
				} else {
					l.Fail(rule, name, key, p.Pos(mu.Pos()), fmt.Sprintf("%s stores a *%s into a map under a key (%s) that is not that element's own ID: elements sharing the key overwrite each other (two styles with the same parent: only the last keeps its link)", name, tn, descOf(mu.Key)))
				}
			}
		}
	}
	l.Min(rule, n, 4)
}

// keyIsOwnID: key is the value stored into, or loaded from, the ID field of the element val points to.
func keyIsOwnID(key, val ssa.Value) bool {
	// loaded from val.ID
	if _, f, base := loadedField(key); f == "ID" && base == val {
		return true
	}
	// val is an allocation (possibly through a phi-free chain) whose ID field received key
	al, ok := val.(*ssa.Alloc)
	if !ok {
		if u, isLoad := val.(*ssa.UnOp); isLoad {
			_ = u
		}
		return false
	}
	for _, ref := range *al.Referrers() {
		fa, ok := ref.(*ssa.FieldAddr)
		if !ok {
			continue
		}
		if _, f := fieldOfAddr(fa); f != "ID" {
			continue
		}
		for _, r2 := range *fa.Referrers() {
			switch x := r2.(type) {
			case *ssa.Store:
				if x.Val == key {
					return true
				}
				if a, ok1 := constStr(x.Val); ok1 {
					if b, ok2 := constStr(key); ok2 && a == b {
						return true
					}
				}
				// the same field of the same source element read twice (no CSE in go/ssa)
				t1, f1, b1 := loadedField(x.Val)
				t2, f2, b2 := loadedField(key)
				if f1 != "" && t1 == t2 && f1 == f2 && b1 == b2 {
					return true
				}
			case *ssa.UnOp:
				if ssa.Value(x) == key {
					return true
				}
			}
		}
	}
	return false
}
